"""C16 — ties of the bridge between the inference model (Model.Infer) and C03's semantic models
(Dcg/Model/InferBridge.lean: toLite, toSchema / toSchemaRoot) to the real code.

(1) `bridge.schema`  vs the JSON-Schema TEXT that generate() really hands to JsonSchemaParser for raw
    JSON / YAML / dict input (captured from outside: the class attribute the function imports is
    replaced by a recorder for the duration of one call; /repo is not touched), read both with
    json.loads and with the parser's own reader (load_yaml);
(2) `bridge.tr`      vs the IR that the real JsonSchemaParser builds from that text (vlib/semlean.RealIR);
(3) `bridge.accepts` vs the verdict of the exec'd generated root class on the very sample (the
    outcomes are collected by the end-to-end campaign of c16.py, nothing is generated twice).

Normal forms used for comparison, and nothing else:
* schemas: `{"type": [a, b]}` = `{"anyOf": [{"type": a}, {"type": b}]}`, nested anyOf flattened, the
  alternatives as a set (genson writes them in creation order, the model in a fixed order), `required`
  as a set; the ORDER of `properties` is compared;
* IR: `Optional[X]` = `Union[X, None]`, nested unions flattened, alternatives as a set, a union of one
  is its member.
"""
from __future__ import annotations

import contextlib
import io
import json
import time
import warnings
from decimal import Decimal
from typing import Any

from .. import semlean
from ..common import Hang, hx, unhx, watchdog
from ..runner import Check


# ------------------------------------------------------------------ encoders
def sem_sx(v: Any) -> str:
    """a Python JSON value as `Sem.Json`: an int is a literal without fraction digits (e = 0), a
    float keeps at least one fraction digit (e ≥ 1), so that `toLite` sees what genson sees"""
    if v is None:
        return "null"
    if isinstance(v, bool):
        return f"(b {int(v)})"
    if isinstance(v, int):
        return f"(n {v} 0)"
    if isinstance(v, float):
        d = Decimal(repr(v))
        sign, digits, exp = d.as_tuple()
        m = int("".join(map(str, digits))) * (-1 if sign else 1)
        if exp >= 0:
            return f"(n {m * 10 ** (exp + 1)} 1)"
        return f"(n {m} {-exp})"
    if isinstance(v, str):
        return f"(s {hx(v)})"
    if isinstance(v, list):
        return "(a" + "".join(" " + sem_sx(x) for x in v) + ")"
    if isinstance(v, dict):
        return "(o" + "".join(f" ({hx(k)} {sem_sx(x)})" for k, x in v.items()) + ")"
    raise TypeError(type(v))


def has_float_outside_dec(v: Any) -> bool:
    """NaN / Infinity have no decimal form (outside the domain)"""
    if isinstance(v, float):
        return v != v or v in (float("inf"), float("-inf"))
    if isinstance(v, list):
        return any(has_float_outside_dec(x) for x in v)
    if isinstance(v, dict):
        return any(has_float_outside_dec(x) for x in v.values())
    return False


# ------------------------------------------------------------------ schema normal form
def norm_model_schema(sx) -> Any:
    """nested lists of a `bridge.schema` reply → normal form"""
    if sx == "any":
        return ("alts", frozenset())
    return ("alts", frozenset(_model_alts(sx)))


def _model_alts(sx) -> list:
    if sx == "any":
        raise ValueError("`any` inside alternatives")
    if sx == "null":
        return [("null",)]
    h = sx[0]
    if h == "scalar":
        if sx[2] != "0" or sx[3] != ["bounds"]:
            raise ValueError(f"scalar outside the inferred shapes: {sx}")
        return [(sx[1],)]
    if h == "array":
        if sx[2] != "none" or sx[3] != "none":
            raise ValueError("array with item counts")
        return [("array", norm_model_schema(sx[1]))]
    if h == "dict":
        if sx[1] != "any":
            raise ValueError("typed mapping")
        return [("object", (), frozenset())]
    if h == "object":
        if sx[3] != "absent":
            raise ValueError("additionalProperties")
        props = tuple((unhx(p[0]), norm_model_schema(p[1])) for p in sx[1])
        return [("object", props, frozenset(unhx(k) for k in sx[2]))]
    if h == "anyOf":
        out = []
        for a in sx[1:]:
            out += _model_alts(a)
        return out
    raise ValueError(f"constructor outside the inferred shapes: {h}")


def norm_real_schema(s: dict) -> Any:
    s = {k: v for k, v in s.items() if k != "$schema"}
    if not s:
        return ("alts", frozenset())
    return ("alts", frozenset(_real_alts(s)))


def _real_alts(s: dict) -> list:
    if "anyOf" in s:
        if set(s) != {"anyOf"}:
            raise ValueError(f"anyOf with siblings {sorted(s)}")
        out = []
        for a in s["anyOf"]:
            out += _real_alts(a)
        return out
    extra = set(s) - {"type", "items", "properties", "required"}
    if extra or "type" not in s:
        raise ValueError(f"keywords outside the inferred shapes: {sorted(s)}")
    ts = s["type"] if isinstance(s["type"], list) else [s["type"]]
    if len(ts) > 1 and set(s) != {"type"}:
        raise ValueError("type list with siblings")
    out = []
    for t in ts:
        if t in ("null", "boolean", "integer", "number", "string"):
            out.append((t,))
        elif t == "array":
            out.append(("array", norm_real_schema(s.get("items", {}))))
        elif t == "object":
            out.append(("object", tuple((k, norm_real_schema(v)) for k, v in s.get("properties", {}).items()), frozenset(s.get("required", []))))
        else:
            raise ValueError(f"type {t!r}")
    return out


# ------------------------------------------------------------------ IR normal form
def norm_ir(t) -> Any:
    """canonical nested tuples of semlean.canon_ty / RealIR.dump_model → normal form"""
    h = t[0]
    if h in ("opt", "union"):
        alts = _ir_alts(t)
        return next(iter(alts)) if len(alts) == 1 else ("union", alts)
    if h in ("list", "dict"):
        return (h, norm_ir(t[1]))
    if h == "model":
        return ("model", t[1], tuple((f[0], f[1], f[2], f[3], norm_ir(f[4])) for f in t[2]))
    if h == "root":
        return ("root", t[1], norm_ir(t[2]))
    return t


def _ir_alts(t) -> frozenset:
    if t[0] == "opt":
        return _ir_alts(t[1]) | {("null",)}
    if t[0] == "union":
        out: frozenset = frozenset()
        for a in t[1]:
            out |= _ir_alts(a)
        return out
    return frozenset([norm_ir(t)])


# ------------------------------------------------------------------ capture
class _Captured(Exception):
    pass


def captured_schema_text(source, input_file_type: str, timeout: float = 20.0) -> str:
    """the `source` that generate() passes to JsonSchemaParser for this raw-data input"""
    import datamodel_code_generator as d
    import datamodel_code_generator.parser.jsonschema as pj

    real = pj.JsonSchemaParser
    box: dict = {}

    def recorder(*a, **kw):
        box["source"] = kw["source"] if "source" in kw else (a[0] if a else None)
        raise _Captured

    pj.JsonSchemaParser = recorder  # generate() does `from …parser.jsonschema import JsonSchemaParser` at call time
    try:
        with watchdog(timeout), warnings.catch_warnings(), contextlib.redirect_stderr(io.StringIO()):
            warnings.simplefilter("ignore")
            d.generate(source, input_file_type=d.InputFileType(input_file_type), formatters=[], disable_timestamp=True)
    except _Captured:
        pass
    finally:
        pj.JsonSchemaParser = real
    if "source" not in box:
        raise RuntimeError("generate() returned without constructing a JsonSchemaParser")
    if not isinstance(box["source"], str):
        raise RuntimeError(f"generate() handed over a {type(box['source']).__name__}, not text")
    return box["source"]


def parser_reads(text: str) -> Any:
    """the text as JsonSchemaParser.parse_raw reads it"""
    from datamodel_code_generator import load_yaml

    return load_yaml(text)


ROUTINGS = ("contype", "field")


def campaign_bridge(ck: Check, n: int, c16) -> None:
    """(1) and (2); `c16` is the props module (generators, encode)"""
    ca = ck.campaign("bridge.schema (InferBridge.toSchemaRoot ∘ infer ∘ toLite) vs the schema text generate() hands to JsonSchemaParser (JSON / YAML / dict input)")
    cb = ck.campaign("bridge.tr (Translate.tr ∘ toSchemaRoot ∘ infer) vs the IR JsonSchemaParser builds from that text")
    t0 = time.time()
    rng = ck.rng.fork("bridge")
    docs: list[dict] = [d for d, _ in c16.CORPUS] + [{}, {"k1": [[None], None]}, {"a": 1.0, "b": 1, "c": [1, 2.5], "d": [1e10, 3]}, {"a": [[], {}, None], "b": [{}, 1], "c": [[1], ["x"]]}]
    for i in range(n):
        docs.append(c16.rand_collision_document(rng) if i % 7 == 6 else c16.rand_document(rng))
    docs = [d for d in docs if not has_float_outside_dec(d)]
    n_tree = len(docs)
    for i in range(max(4, n // 6)):  # CSV header + first row: a flat object of strings
        row: dict = {}
        while len(row) < rng.range(1, 5):
            k = c16.rand_key(rng)
            if "\n" not in k and "\r" not in k:
                row[k] = rng.choice(c16.STRINGS + ["3", "4.5"]).replace("\n", " ")
        docs.append(row)
    reqs = []
    for doc in docs:
        s = sem_sx(doc)
        reqs.append(f"bridge.schema 1 {s}")
        reqs.append(f"bridge.tolite {s}")
        for st in ("v1", "v2"):
            for r in ROUTINGS:
                reqs.append(f"bridge.tr {st} {r} {s}")
    replies = iter(ck.driver.run(reqs))
    for i, doc in enumerate(docs):
        rep_schema, rep_lite = next(replies), next(replies)
        rep_tr = {(st, r): next(replies) for st in ("v1", "v2") for r in ROUTINGS}
        astral = any(ord(c) > 0xFFFF for k in c16.all_keys(doc) for c in k)
        # ---- toLite: the document as inference sees it
        ca.evaluations += 1
        if rep_lite != "ok " + c16.js_sx(doc):
            ck.disagree(ca, {"document": doc, "what": "toLite"}, rep_lite, "ok " + c16.js_sx(doc))
        # ---- (1) the text
        try:
            sx = semlean.parse_sx(rep_schema[3:])
            model = norm_model_schema(sx[0])
            fuel, wf = int(sx[1]), sx[2] == "1"
        except Exception as e:  # noqa: BLE001
            model, fuel, wf = f"model reply not understood: {rep_schema[:120]} ({e})", 0, False
        texts = {}
        for fmt in (c16.FORMATS if i < n_tree else ["csv"]):
            ca.evaluations += 1
            ca.hit(f"format:{fmt}")
            try:
                src, ift = c16.encode(doc, fmt)
            except c16.NotEquivalent:
                ca.unmodelled += 1
                continue
            try:
                text = captured_schema_text(src, ift)
            except Hang:
                ca.unmodelled += 1
                continue
            except Exception as e:  # noqa: BLE001
                ck.disagree(ca, {"document": doc, "format": fmt}, model, f"capture failed: {type(e).__name__}: {str(e)[:200]}")
                continue
            texts[fmt] = text
            try:
                real = norm_real_schema(json.loads(text))
            except Exception as e:  # noqa: BLE001
                real = f"text not in the inferred shapes: {type(e).__name__}: {str(e)[:160]}"
            if model != real:
                ck.disagree(ca, {"document": doc, "format": fmt, "text": text[:400]}, repr(model)[:600], repr(real)[:600])
                continue
            if not wf:
                ck.disagree(ca, {"document": doc, "what": "wf (infer v)"}, "0", "1 (theorem infer_wf)")
            # the same text as the parser reads it (YAML loader): known finding C16-astral-key excluded
            if astral:
                ca.hit("known:astral_key_text_unreadable")
                continue
            try:
                real2 = norm_real_schema(parser_reads(text))
            except Exception as e:  # noqa: BLE001
                real2 = f"parser's reader fails on the text: {type(e).__name__}: {str(e)[:160]}"
            if model != real2:
                ck.disagree(ca, {"document": doc, "format": fmt, "text": text[:400], "reader": "load_yaml"}, repr(model)[:600], repr(real2)[:600])
        if "anyOf" in next(iter(texts.values()), ""):
            ca.hit("anyOf")
        if '"type": [' in next(iter(texts.values()), ""):
            ca.hit("type_list")
        if doc:
            ca.distinct.add(json.dumps(doc, sort_keys=True))
        if len(ca.samples) < 2 and texts and 40 < len(json.dumps(doc)) < 160:
            ca.samples.append({"document": doc, "schema_text": next(iter(texts.values())), "model": rep_schema[3:][:400]})
        # ---- (2) the IR
        text = texts.get("json") or texts.get("csv")
        if text is None or astral:
            cb.unmodelled += 1
            continue
        schema_doc = json.loads(text)
        for (st, r), rep in rep_tr.items():
            cb.evaluations += 1
            cb.hit(f"{st}/{r}")
            try:
                ri = semlean.RealIR(schema_doc, st, r)
                dm = ri.root_model()
                if dm is None:
                    raise semlean.Unmodelled("no class Model")
                real_ir = norm_ir(ri.dump_model(dm))
            except semlean.Unmodelled as e:
                cb.unmodelled += 1
                cb.hit(f"unmodelled:{str(e)[:30]}")
                continue
            except Exception as e:  # noqa: BLE001
                real_ir = f"parser raised {type(e).__name__}: {str(e)[:160]}"
            try:
                model_ir = norm_ir(semlean.canon_ty(semlean.parse_sx(rep[3:])[0]))
            except Exception as e:  # noqa: BLE001
                model_ir = f"model reply not understood: {rep[:120]} ({e})"
            if doc:
                cb.distinct.add((json.dumps(doc, sort_keys=True), st, r))
            if model_ir != real_ir:
                ck.disagree(cb, {"document": doc, "style": st, "routing": r, "schema_text": text[:400]}, repr(model_ir)[:700], repr(real_ir)[:700])
            elif len(cb.samples) < 2 and 40 < len(json.dumps(doc)) < 140:
                cb.samples.append({"document": doc, "style": st, "routing": r, "ir": repr(model_ir)[:500]})
    ca.wall_s = cb.wall_s = round((time.time() - t0) / 2, 2)


# ------------------------------------------------------------------ (3) acceptance
NAME_MECHANISMS = {"generate_error", "unparsable", "aliased_name_unbound", "import_error", "no_root_model"}
STYLE_OF = {"pydantic_v2.BaseModel": "v2", "pydantic.BaseModel": "v1"}


def region_of(ck: Check, doc: dict, kind: str) -> str:
    """`covered` / `excluded`: the decidable hypothesis of C16.sample_accepted_partial"""
    if STYLE_OF.get(kind) != "v1":
        return "covered"
    if has_float_outside_dec(doc):
        return "covered"
    rep = ck.driver.run([f"bridge.region {sem_sx(doc)}"])[0]
    return "covered" if rep == "ok 1" else "excluded"


def campaign_accepts(ck: Check, log: list) -> None:
    """`log`: (document, kind, outcome) of every end-to-end case, outcome = None (accepted, keys equal)
    or the failing mechanism"""
    camp = ck.campaign("bridge.accepts (Sem.Pyd.acceptsTy ∘ tr ∘ toSchemaRoot ∘ infer on the sample itself) vs the exec'd generated root class validating the sample")
    t0 = time.time()
    seen: dict = {}
    for doc, kind, outcome, *more in log:
        if has_float_outside_dec(doc) or kind not in STYLE_OF:
            continue
        key = (json.dumps(doc, sort_keys=True), kind)
        # a document is given in several formats: it counts as rejected if any format was rejected
        prev = seen.get(key)
        if prev is None or outcome == "sample_rejected":
            seen[key] = (doc, kind, outcome, more[0] if more else None)
    items = list(seen.values())
    replies = ck.driver.run([f"bridge.accepts {STYLE_OF[kind]} contype 64 {sem_sx(doc)}" for doc, kind, _, _ in items])
    for (doc, kind, outcome, cause), rep in zip(items, replies):
        camp.evaluations += 1
        parts = rep.split()
        if len(parts) != 5 or parts[0] != "ok":
            ck.disagree(camp, {"document": doc, "model": kind}, rep, "ok <verdict> <valid> <insubset> <v1safe>")
            continue
        verdict, valid, insub, v1safe = parts[1], parts[2] == "1", parts[3] == "1", parts[4] == "1"
        covered = STYLE_OF[kind] == "v2" or v1safe
        camp.hit(f"model:{verdict}")
        camp.hit("region:" + ("covered" if covered else "excluded"))
        if not valid or not insub:
            # theorems sample_valid_bridged / inferred_schema_in_subset say these are always 1
            ck.disagree(camp, {"document": doc, "model": kind, "what": "validJ / inSubset of the bridged schema"}, f"valid={valid} inSubset={insub}", "both true (theorems)")
            continue
        if outcome in NAME_MECHANISMS:
            camp.unmodelled += 1  # names are not part of the semantic models (C06/C07)
            camp.hit(f"unmodelled:{outcome}")
            continue
        real_accepts = outcome != "sample_rejected"
        if doc:
            camp.distinct.add((json.dumps(doc, sort_keys=True), kind))
        if verdict == "lax":
            camp.unmodelled += 1
            continue
        if (verdict == "accept") != real_accepts:
            if not covered:
                camp.hit("known:v1_optional_list_of_none")  # outside the region the theorem is claimed for
                continue
            if any(c16_key_is_typename(k) for k in _all_keys(doc)):
                camp.unmodelled += 1  # C16-member-shadows-type-name: a naming defect, not a semantic one
                camp.hit("unmodelled:member_shadows_type_name")
                continue
            if cause and (cause.startswith("member_shadows_") or cause == "renamed_member_alias_is_python_name"):
                # the emitted classes have a member that hides a class of the module inside the class namespace: member and class
                # NAMES are not part of the semantic models; the rejection is reported by the property's own oracle
                # (renamed_member_alias_is_python_name: the wire name of a renamed member was replaced — aliases are names too)
                camp.unmodelled += 1
                camp.hit("unmodelled:" + cause)
                continue
            ck.disagree(camp, {"document": doc, "model": kind}, verdict, "accept" if real_accepts else "reject")
        elif len(camp.samples) < 2 and 30 < len(json.dumps(doc)) < 160:
            camp.samples.append({"document": doc, "model": kind, "verdict": verdict})
    camp.wall_s = time.time() - t0


BOUNDARY_ELEMS = [None, [None], [], 1, [None, 1], [[None]], {}, {"a": None}, {"a": [None]}, [[None], None]]


def campaign_v1_boundary(ck: Check, max_len: int, c16) -> None:
    """the family `{"k": [e1 … en]}` over elements around `List[None]`: inside `v1Safe` the pydantic-v1 class
    must accept the sample (the claim of C16.sample_accepted_partial; a rejection is handed to the
    property oracle); outside it the outcome is only counted (how sharp the hypothesis is)"""
    import itertools

    camp = ck.campaign("region of C16.sample_accepted_partial for pydantic-v1 output: exhaustive family of arrays around List[None] (v1Safe ⇒ the exec'd class accepts the sample)")
    t0 = time.time()
    docs = [{"k": list(c)} for n in range(1, max_len + 1) for c in itertools.product(BOUNDARY_ELEMS, repeat=n)]
    replies = ck.driver.run([f"bridge.region {sem_sx(d)}" for d in docs])
    for doc, rep in zip(docs, replies):
        camp.evaluations += 1
        covered = rep == "ok 1"
        r = c16.evaluate(doc, "json", "pydantic.BaseModel")
        rejected = r is not None and r[0] == "sample_rejected"
        camp.distinct.add(json.dumps(doc))
        camp.hit(("covered" if covered else "excluded") + ("_rejected" if rejected else "_accepted"))
        if covered and rejected:
            c16.oracle_case(ck, camp, doc, "json", "pydantic.BaseModel")
        elif len(camp.samples) < 2 and not covered and len(doc["k"]) == 2:
            camp.samples.append({"document": doc, "region": "excluded", "rejected_by_pydantic_v1": rejected})
    camp.wall_s = time.time() - t0


TYPENAME_KEYS = {"int", "str", "List", "Optional", "Any", "Model", "BaseModel", "Field", "object", "Dict", "Union", "float", "bool"}


def c16_key_is_typename(k: str) -> bool:
    return k in TYPENAME_KEYS


def _all_keys(v) -> list[str]:
    out: list[str] = []
    if isinstance(v, dict):
        for k, x in v.items():
            out.append(k)
            out += _all_keys(x)
    elif isinstance(v, list):
        for x in v:
            out += _all_keys(x)
    return out
