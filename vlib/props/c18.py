"""C18 — CLI flags, pyproject.toml settings and generate() arguments agree."""
from __future__ import annotations

import itertools
import json
import os
import shutil
import tempfile
import time
from argparse import Namespace
from pathlib import Path

from .. import e2e
from ..common import hx, unhx
from ..runner import Check
from ..subproc import child_env, pmap
from .c18_pool import run_py
from ..translate import cli_tables

# ---------------------------------------------------------------- the option vocabulary (from the real argparse table)
# options whose value is transformed by a Config validator (paths resolved, files opened, strings split,
# lists turned into sets/tuples): the canonical-text model does not cover them; e2e covers some of them.
TRANSFORMED = {
    "input", "output", "url", "aliases", "extra_template_data", "custom_formatters_kwargs", "custom_template_dir",
    "http_headers", "http_query_parameters", "additional_imports", "custom_formatters",
    "field_extra_keys", "field_extra_keys_without_x_prefix",
}
# plain-text options; "" (and "0") are FALSY-BUT-GIVEN values: a flag with an empty argument is a given option
FREE_TEXT = {
    "class_name": ["Root", "Top", ""],
    "base_class": ["pkg.Base", "other.Base", ""],
    "empty_enum_field_name": ["empty", "blank", "", "0"],
    "special_field_name_prefix": ["fld", "f", "", "0"],
    "original_field_name_delimiter": [" ", "-", ""],
    "custom_file_header": ["# header one", "# header two", ""],
    "custom_file_header_path": ["/nonexistent/hdr.txt"],
    "encoding": ["utf-8", "latin-1", ""],
}
FALSY = {"", "0"}
META = {"help", "no_color", "version"}


def option_table() -> dict[str, dict]:
    """dest → {kind, values (canonical texts a CLI flag can give), flag}"""
    tab = {}
    for a in cli_tables.actions():
        d = a["dest"]
        if d in META:
            continue
        if a["kind"] == "_StoreTrueAction":
            kind, values = "bool", ["True"]
        elif a["choices"] and a["nargs"] == "+":
            kind = "enumlist"
            cs = a["choices"]
            values = ["[" + cs[0] + "]", "[" + ",".join(cs[:2]) + "]", "[" + cs[-1] + "]"]
        elif a["choices"]:
            kind, values = "enum", list(a["choices"])
        elif d in FREE_TEXT:
            kind, values = "text", FREE_TEXT[d]
        else:
            kind, values = "other", []
        tab[d] = {"kind": kind, "values": values, "flag": a["flags"][0], "nargs": a["nargs"]}
    return tab


def py_value(kind: str, canon: str):
    """canonical text → the Python/TOML value a user would write"""
    if kind == "bool":
        return canon == "True"
    if kind == "enumlist":
        return [x for x in canon[1:-1].split(",") if x]
    return canon


def argv_of(tab: dict, dest: str, canon: str) -> list[str]:
    o = tab[dest]
    if o["kind"] == "bool":
        return [o["flag"]]
    if o["kind"] == "enumlist":
        return [o["flag"], *py_value("enumlist", canon)]
    return [o["flag"], canon]


def sx_pairs(pairs) -> str:
    return "(" + " ".join(f"({hx(k)} {hx(v) if v is not None else 'none'})" for k, v in pairs) + ")"


# ---------------------------------------------------------------- correspondence: Config.merge
COUPLED = ["use_annotated", "field_constraints", "output_model_type", "snake_case_field", "original_field_name_delimiter",
           "keyword_only", "target_python_version", "output_datetime_class", "custom_file_header", "custom_file_header_path"]


def campaign_merge(ck: Check, n: int) -> None:
    from datamodel_code_generator import Error
    from datamodel_code_generator.__main__ import Config
    from datamodel_code_generator.arguments import arg_parser

    camp = ck.campaign("Config.merge (Lean) vs Config.parse_obj + arg_parser.parse_args + merge_args (real)")
    t0 = time.time()
    rng = ck.rng.fork("merge")
    tab = {d: o for d, o in option_table().items() if o["values"] and d not in TRANSFORMED}
    dests = sorted(tab)
    fields = [f for f, _ in cli_tables.config_fields() if f not in TRANSFORMED]

    def pick(rng, for_cli: bool):
        out = {}
        for _ in range(rng.range(0, 4)):
            d = rng.choice(COUPLED) if rng.chance(1, 2) else rng.choice(dests)
            if d not in tab:
                continue
            vals = list(tab[d]["values"])
            if d == "output_model_type" and rng.chance(1, 2):
                vals = ["msgspec.Struct", "dataclasses.dataclass"]
            if tab[d]["kind"] == "bool" and not for_cli:
                vals = ["True", "False"]
            out[d] = rng.choice(vals)
        return out

    cases = [({}, {}), ({"output_model_type": "msgspec.Struct"}, {}), ({}, {"output_model_type": "msgspec.Struct"})]
    for d, o in sorted(tab.items()):  # every plain-text option: empty value on the command line, alone and over a pyproject value
        if o["kind"] == "text" and "" in o["values"]:
            nonempty = [v for v in o["values"] if v not in FALSY][:1]
            extra = {"snake_case_field": "True"} if d == "original_field_name_delimiter" else {}
            cases.append(({}, {d: "", **extra}))
            cases += [({d: v, **extra}, {d: "", **extra}) for v in nonempty]
            cases += [({d: "", **extra}, {d: v, **extra}) for v in nonempty]
    cases += [(pick(rng, False), pick(rng, True)) for _ in range(n)]
    reqs = []
    for py, cli in cases:
        cli_full = [(d, cli.get(d)) for d in sorted(set(cli) | set(rng.sample(dests, 3)))]
        reqs.append(f"config.merge {sx_pairs(sorted(py.items()))} {sx_pairs(cli_full)} ({' '.join(hx(f) for f in fields)})")
    replies = ck.driver.run(reqs)
    for (py, cli), rep in zip(cases, replies):
        camp.evaluations += 1
        model = None if rep == "none" else dict(zip(fields, [unhx(t) for t in rep.split(" ")[1:]])) if rep.startswith("ok") else rep
        try:
            cfg = Config.parse_obj({k: py_value(tab[k]["kind"], v) for k, v in py.items()})
            argv = [a for d, v in sorted(cli.items()) for a in argv_of(tab, d, v)]
            ns = arg_parser.parse_args(argv, namespace=Namespace())  # a FRESH namespace (the shared one is D18)
            cfg.merge_args(ns)
            impl = {f: cli_tables.canon(getattr(cfg, f)) for f in fields}
        except Error:
            impl = None
        except SystemExit:
            camp.unmodelled += 1
            continue
        camp.hit("error" if impl is None else "ok")
        camp.hit(f"py={len(py)},cli={len(cli)}")
        if set(py) & set(cli):
            camp.hit("both-present")
        if any(v in FALSY for v in cli.values()):
            camp.hit("cli-value-falsy-but-given")
        if py or cli:
            camp.distinct.add(json.dumps([py, cli], sort_keys=True))
        if model != impl:
            diff = None
            if isinstance(model, dict) and isinstance(impl, dict):
                diff = {k: (model[k], impl[k]) for k in fields if model[k] != impl[k]}
            ck.disagree(camp, {"pyproject": py, "cli": cli}, diff or model, "" if diff else impl)
        elif len(camp.samples) < 3 and py and cli:
            camp.samples.append({"pyproject": py, "cli": cli, "effective_non_default": {k: v for k, v in (impl or {}).items() if v != dict(cli_tables.config_fields()).get(k)} if impl else "Error"})
    camp.wall_s = time.time() - t0


def campaign_pyproject(ck: Check, n: int) -> None:
    """key normalisation and discovery of `_get_pyproject_toml_config` on real directory trees"""
    from datamodel_code_generator.__main__ import _get_pyproject_toml_config

    camp = ck.campaign("normaliseKeys / discover (Lean) vs _get_pyproject_toml_config on real directory trees")
    t0 = time.time()
    rng = ck.rng.fork("pyproject")
    keys = ["snake-case-field", "snake_case_field", "capitalize-enum-members", "capitalise-enum-members", "capitalize_enum_members",
            "use-annotated", "target-python-version", "a-b-c", "x"]
    root = Path(tempfile.mkdtemp(dir=e2e.scratch_root()))
    reqs, expect = [], []
    for i in range(n):
        raw = [(k, f"v{j}") for j, k in enumerate(rng.sample(keys, rng.range(0, 5)))]
        depth = rng.range(1, 4)
        dirs = []
        for lvl in range(depth):
            last = lvl == depth - 1
            dirs.append({"section": rng.chance(1, 3), "plain": rng.chance(1, 4), "git": last or rng.chance(1, 5)})
        # build: dirs[0] = cwd (deepest)
        base = root / f"c{i}"
        path = base
        for lvl in reversed(range(depth)):
            path = path / f"d{lvl}"
        path.mkdir(parents=True)
        cur = path
        for d in dirs:
            if d["section"]:
                body = "[tool.datamodel-codegen]\n" + "".join(f"{json.dumps(k)} = {json.dumps(v)}\n" for k, v in raw)
                (cur / "pyproject.toml").write_text(body)
            elif d["plain"]:
                (cur / "pyproject.toml").write_text("[tool.other]\nx = 1\n")
            if d["git"]:
                (cur / ".git").mkdir()
            cur = cur.parent
        impl = _get_pyproject_toml_config(path)
        reqs.append("config.discover (" + " ".join(f"({int(d['section'])} {int(d['git'])})" for d in dirs) + ")")
        reqs.append(f"config.normkeys {sx_pairs(raw)}")
        expect.append((raw, dirs, impl))
    replies = ck.driver.run(reqs)
    for j, (raw, dirs, impl) in enumerate(expect):
        camp.evaluations += 1
        disc, norm = replies[2 * j], replies[2 * j + 1]
        if disc == "none":
            model = {}
        else:
            toks = norm.split(" ")[1:]
            model = {}
            for a, b in zip(toks[0::2], toks[1::2]):
                model[unhx(a.lstrip("("))] = unhx(b.rstrip(")"))
        camp.hit("found" if disc != "none" else "not-found")
        if len({k.replace("-", "_") for k, _ in raw}) < len(raw):
            camp.hit("duplicate-after-normalisation")
        camp.distinct.add(json.dumps([raw, [(d["section"], d["git"]) for d in dirs]]))
        if model != impl:
            ck.disagree(camp, {"raw": raw, "dirs": dirs}, model, impl)
        elif len(camp.samples) < 2 and impl:
            camp.samples.append({"raw": raw, "dirs": dirs, "config": impl})
    shutil.rmtree(root, ignore_errors=True)
    camp.wall_s = time.time() - t0


# ---------------------------------------------------------------- end-to-end, in subprocesses
DOC = {
    "$schema": "http://json-schema.org/draft-07/schema#",
    "title": "Pet Shop",
    "description": "A shop\nwith pets",
    "type": "object",
    "required": ["shopName", "pets", "kind", "opened"],
    "properties": {
        "shopName": {"type": "string", "minLength": 1, "maxLength": 30, "description": "name of the shop", "default": "x y"},
        "opened": {"type": "string", "format": "date-time"},
        "kind": {"type": "string", "enum": ["big shop", "small", ""]},
        "single": {"type": "string", "enum": ["only"]},
        "pets": {"type": "array", "items": {"$ref": "#/definitions/Pet"}, "uniqueItems": True, "minItems": 1},
        "rating": {"type": "number", "minimum": 0, "exclusiveMaximum": 5},
        "count": {"type": "integer", "minimum": 0, "default": 3},
        "nick-name": {"type": ["string", "null"], "default": None},
        "_hidden": {"type": "boolean", "x-foo": "bar"},
        "anyThing": {"oneOf": [{"type": "integer"}, {"type": "string"}, {"$ref": "#/definitions/Pet"}]},
        "tags": {"type": "object", "additionalProperties": {"type": "string"}},
        "owner": {"$ref": "#/definitions/Owner"},
        "longText": {"type": "string", "default": "a very long default text that goes on and on and on and on and on and on and on and on and on and on and on"},
    },
    "definitions": {
        "Pet": {
            "type": "object",
            "title": "PetTitle",
            "description": "A pet",
            "required": ["petName"],
            "properties": {"petName": {"type": "string", "pattern": "^[a-z]+$"}, "age": {"type": "integer", "maximum": 0}, "status": {"type": "string", "enum": ["a", "b"], "default": "a"}},
        },
        "Owner": {"type": "object", "properties": {"name": {"type": "string"}, "pets": {"type": "array", "items": {"$ref": "#/definitions/Pet"}}}, "additionalProperties": False},
        "Ident": {"type": "string", "minLength": 2},
        "ZOrder": {"type": "object", "properties": {"id": {"$ref": "#/definitions/Ident"}}},
    },
}

KEYWORD_SCRIPT = r"""
import json, sys
from collections import defaultdict
from pathlib import Path
from pydantic import TypeAdapter
from datamodel_code_generator import generate, InputFileType
from datamodel_code_generator.__main__ import Config
opts = json.loads(sys.argv[1]); renames = json.loads(sys.argv[2]); loaded = json.loads(sys.argv[3])
kw = {}
for k, v in opts.items():
    if k in loaded:                       # file-valued option: main() loads the JSON and passes the mapping
        hook = (lambda d: defaultdict(dict, **d)) if k == "extra_template_data" else None   # as main() loads it
        kw[k] = json.loads(Path(v).read_text(), object_hook=hook)
        continue
    if k in ("additional_imports", "custom_formatters"):   # a comma separated string on the CLI / in pyproject
        v = v.split(",")
    if k not in Config.model_fields:      # not (any longer) a Config field: hand the raw value to generate()
        kw[renames.get(k, k)] = v
        continue
    ann = Config.model_fields[k].annotation
    kw[renames.get(k, k)] = TypeAdapter(ann, config={"arbitrary_types_allowed": True}).validate_python(v)
try:
    generate(Path("s.json"), **{"input_file_type": InputFileType.JsonSchema, "output": Path("out.py"), "disable_timestamp": True, **kw})
except Exception as e:
    print(f"{type(e).__name__}: {e}", file=sys.stderr)
    sys.exit(1)
"""

RENAMES = {"use_default": "apply_default_values_for_required_fields", "force_optional": "force_optional_for_required_fields"}
FILE_VALUED = ["aliases", "extra_template_data", "custom_formatters_kwargs"]
E2E_EXTRA = {  # options outside the canonical-text model but easy to supply three ways: file-valued (opened by a Config
    # validator, loaded in main()), comma separated string lists (split by a Config validator), plain lists
    "aliases": {"kind": "text", "values": ["aliases.json"], "flag": "--aliases", "nargs": ""},
    "extra_template_data": {"kind": "text", "values": ["extra.json"], "flag": "--extra-template-data", "nargs": ""},
    "custom_formatters_kwargs": {"kind": "text", "values": ["fmtkw.json"], "flag": "--custom-formatters-kwargs", "nargs": ""},
    "additional_imports": {"kind": "text", "values": ["decimal.Decimal,fractions.Fraction", "decimal.Decimal"], "flag": "--additional-imports", "nargs": ""},
    "custom_formatters": {"kind": "text", "values": ["c18fmt,c18fmt2", "c18fmt"], "flag": "--custom-formatters", "nargs": ""},
    "field_extra_keys": {"kind": "enumlist", "values": ["[x-foo]"], "flag": "--field-extra-keys", "nargs": "+"},
}
# option sets (not single options) that are always run: a formatter together with its keyword file
E2E_EXTRA_SETS = [{"custom_formatters": "c18fmt", "custom_formatters_kwargs": "fmtkw.json"}]
FORMATTER_SRC = (
    "from datamodel_code_generator.format import CustomCodeFormatter\n\n\n"
    "class CodeFormatter(CustomCodeFormatter):\n"
    "    def apply(self, code: str) -> str:\n"
    "        return code + '\\n# {name} ' + repr(sorted(self.formatter_kwargs.items())) + '\\n'\n"
)
SKIP_E2E = {"custom_file_header_path", "encoding", "input_file_type", "debug", "disable_warnings"}  # the last two are consumed by main() itself


class Runner:
    """One scratch directory per run; `.git` stops the pyproject discovery at the scratch directory."""

    def __init__(self, env_toml: str = "") -> None:
        # `env_toml`: tables of OTHER tools ([tool.black], [tool.isort]) in the pyproject.toml next to the output — the
        # project environment every route of supplying the options runs in (written for all three ways alike)
        self.env_toml = env_toml
        self.root = Path(tempfile.mkdtemp(prefix="c18-", dir=e2e.scratch_root()))
        self.counter = itertools.count(1)
        real = option_table()
        self.tab = {**real, **{k: {**v, "flag": real.get(k, v)["flag"]} for k, v in E2E_EXTRA.items()}}

    def _dir(self, pyproject: dict | None, raw_keys: dict | None = None) -> Path:
        """`pyproject`: dest → canonical text, written under the kebab-case key; `raw_keys`: literal key → TOML value"""
        d = self.root / f"r{next(self.counter)}"
        d.mkdir()
        (d / ".git").mkdir()
        (d / "s.json").write_text(json.dumps(DOC))
        (d / "aliases.json").write_text(json.dumps({"shopName": "shop_name_", "petName": "pet"}))
        (d / "extra.json").write_text(json.dumps({"PetTitle": {"config": {"frozen": True}}, "#all#": {"comment": "c18"}}))
        (d / "fmtkw.json").write_text(json.dumps({"mark": "kw"}))
        for mod in ("c18fmt", "c18fmt2"):   # importable by `python -m …` and `python -c …` (cwd is on sys.path)
            (d / f"{mod}.py").write_text(FORMATTER_SRC.format(name=mod))
        if pyproject is not None or raw_keys or self.env_toml:
            own = self.pyproject_text(pyproject, raw_keys) if pyproject is not None or raw_keys else ""
            (d / "pyproject.toml").write_text(own + self.env_toml)
        return d

    def pyproject_text(self, pyproject: dict | None, raw_keys: dict | None = None) -> str:
        lines = ["[tool.datamodel-codegen]"]
        for k, v in (pyproject or {}).items():
            val = py_value(self.tab[k]["kind"], v)
            lines.append(f"{k.replace('_', '-')} = {json.dumps(val)}")
        for k, val in (raw_keys or {}).items():
            lines.append(f"{json.dumps(k)} = {json.dumps(val)}")
        return "\n".join(lines) + "\n"

    def cli(self, cli: dict, pyproject: dict | None = None, extra_argv: list[str] | None = None, raw_keys: dict | None = None,
            timeout: float | None = None) -> dict:
        d = self._dir(pyproject, raw_keys)
        argv = ["-m", "datamodel_code_generator", "--input", "s.json", "--output", "out.py", "--input-file-type", "jsonschema", "--disable-timestamp"]
        for k, v in cli.items():
            argv += argv_of(self.tab, k, v)
        p = run_py(argv + (extra_argv or []), cwd=str(d), env=child_env(), **({"timeout": timeout} if timeout else {}))
        return self._collect(d, p)

    def keyword(self, opts: dict, timeout: float | None = None) -> dict:
        d = self._dir(None)
        vals = {k: py_value(self.tab[k]["kind"], v) for k, v in opts.items()}
        p = run_py(["-c", KEYWORD_SCRIPT, json.dumps(vals), json.dumps(RENAMES), json.dumps(FILE_VALUED)], cwd=str(d), env=child_env(),
                   **({"timeout": timeout} if timeout else {}))
        return self._collect(d, p)

    @staticmethod
    def _collect(d: Path, p) -> dict:
        out = d / "out.py"
        res = {"rc": p.rc, "stderr": p.err.strip()[-400:], "output": out.read_text() if out.is_file() else None, "timeout": p.timed_out}
        shutil.rmtree(d, ignore_errors=True)
        return res

    def close(self) -> None:
        shutil.rmtree(self.root, ignore_errors=True)


def same(a: dict, b: dict) -> bool:
    return a["rc"] == b["rc"] and a["output"] == b["output"]


def describe(r: dict) -> str:
    if r["rc"] != 0:
        return f"rc={r['rc']} stderr={r['stderr'][-160:]!r}"
    return f"rc=0 output[{len(r['output'] or '')} bytes]"


def first_diff(a: str | None, b: str | None) -> str:
    la, lb = (a or "").splitlines(), (b or "").splitlines()
    for x, y in zip(la, lb):
        if x != y:
            return f"{x!r} vs {y!r}"
    return f"lengths {len(la)} vs {len(lb)} lines"


def three_ways_jobs(rn: Runner, opts: dict):
    t = REFUSED_TIMEOUT_S if opts in REFUSED_BY_EVERY_ROUTE else None   # (a route that does not refuse such a value never returns)
    return [lambda: rn.cli(opts, timeout=t), lambda: rn.cli({}, opts, timeout=t), lambda: rn.keyword(opts, timeout=t)]


def refusal_message(r: dict, route: str) -> str:
    """the message a refusing run leaves on stderr: its last line (the keyword child prints `TypeName: message`)"""
    lines = [x for x in r["stderr"].splitlines() if x.strip()]
    last = lines[-1] if lines else ""
    if route == "keyword" and ": " in last:
        last = last.split(": ", 1)[1]
    return last


def three_ways_many(ck: Check, camp, rn: Runner, opts_list: list[dict], baseline: dict | None) -> list[dict]:
    """run the three ways for every option set (all child processes in one pool), judge sequentially"""
    thunks = [t for o in opts_list for t in three_ways_jobs(rn, o)]
    raw = pmap(lambda f: f(), thunks)
    out = []
    for i, o in enumerate(opts_list):
        res = dict(zip(("cli", "pyproject", "keyword"), raw[3 * i : 3 * i + 3]))
        three_ways_judge(ck, camp, rn, o, res, baseline)
        out.append(res)
    return out


def three_ways(ck: Check, camp, rn: Runner, opts: dict, baseline: dict | None) -> dict:
    return three_ways_many(ck, camp, rn, [opts], baseline)[0]


def three_ways_judge(ck: Check, camp, rn: Runner, opts: dict, res: dict, baseline: dict | None) -> None:
    """The property's oracle for one option set: flag, pyproject key and keyword give the same result."""
    camp.evaluations += 3
    name = "+".join(sorted(opts))
    camp.hit("optionkind:" + "+".join(sorted(rn.tab[k]["kind"] for k in opts)))
    if all(r["timeout"] for r in res.values()):
        # the three ways agree: none of them returns. A run that never ends is C01's / C07's subject
        # (formerly finding D22: a special_field_name_prefix that cannot start an identifier, e.g. "0"; repaired —
        # the resolver's constructor refuses it, and C07 reports a regression), not a disagreement between the
        # ways of supplying the option.
        camp.hit("all-three-ways-hang(C01/C07 domain)")
        return
    if any(r["timeout"] for r in res.values()):
        ck.infra_errors.append(f"timeout in three_ways {opts}")
        return
    c, p, k = res["cli"], res["pyproject"], res["keyword"]
    if baseline is not None and c["rc"] == 0 and c["output"] != baseline["output"]:
        camp.distinct.add(json.dumps(opts, sort_keys=True))
    else:
        camp.hit("no-visible-effect-on-this-document" if c["rc"] == 0 else "rejected")
    if same(c, p) and same(c, k):
        for r in res.values():
            if r["rc"] not in (0, 1) or (r["rc"] == 1 and not r["stderr"]):
                ck.fail({"oracle": "exit_code", "option": name}, {"kind": "three_ways", "opts": opts}, describe(r))
        if opts in REFUSED_BY_EVERY_ROUTE and c["rc"] == 1:
            # a value the generator itself refuses (not a Config validator): every route must refuse it IN THE SAME WAY —
            # exit status 1, nothing written, the same message
            camp.hit("refused-by-every-route")
            msgs = {w: refusal_message(r, w) for w, r in res.items()}
            if len(set(msgs.values())) != 1:
                odd_m = "keyword" if msgs["cli"] == msgs["pyproject"] else "pyproject" if msgs["cli"] == msgs["keyword"] else "cli"
                ck.fail({"oracle": "three_ways", "option": name, "value": "+".join(opts[x] for x in sorted(opts)), "odd_one": odd_m,
                         "mechanism": "refusal-differs"}, {"kind": "three_ways", "opts": opts},
                        "; ".join(f"{w}: {describe(r)}" for w, r in res.items()), "the same message on stderr for the three ways")
            elif len(camp.samples) < 3:
                camp.samples.append({"opts": opts, "three_ways": "refused alike (exit status 1, no output)", "message": msgs["cli"][:120]})
        if len(camp.samples) < 3 and c["rc"] == 0:
            camp.samples.append({"opts": opts, "three_ways": "byte-identical", "bytes": len(c["output"] or "")})
        return
    odd = "keyword" if same(c, p) else "pyproject" if same(c, k) else "cli" if same(p, k) else "all"
    mech = "one-side-fails" if len({c["rc"], p["rc"], k["rc"]}) > 1 else "output-differs"
    cls = {"oracle": "three_ways", "option": name, "value": "+".join(opts[x] for x in sorted(opts)), "odd_one": odd, "mechanism": mech}
    inp = {"kind": "three_ways", "opts": opts}
    obs = f"cli: {describe(c)}; pyproject: {describe(p)}; keyword: {describe(k)}"
    if rn.env_toml:
        cls["project_env"] = True
        inp["env_toml"] = rn.env_toml
        obs = f"with {rn.env_toml!r} in the pyproject.toml next to the output — " + obs
    if mech == "output-differs":
        obs += "; first difference: " + first_diff(c["output"], p["output"] if odd != "keyword" else k["output"])
    ck.fail(cls, inp, obs, "byte-identical output and equal exit status for the three ways")


# Formerly finding D22 (C01 / C07; repaired): a special prefix that cannot start an identifier. No route returned; now the
# constructor of the field-name resolver refuses the value, whichever way it was supplied. Every tier runs it and compares the
# refusals (exit status, no output, message). A route that does not refuse it hangs: short watchdog for these option sets.
REFUSED_BY_EVERY_ROUTE = [{"special_field_name_prefix": "0"}]
REFUSED_TIMEOUT_S = 30.0


def e2e_options(ck: Check, rn: Runner) -> list[dict]:
    tab = rn.tab
    all_opts: list[dict] = []
    for d in sorted(tab):
        if d in SKIP_E2E or d in META:
            continue
        for v in tab[d]["values"]:
            o = {d: v}
            if d == "original_field_name_delimiter":
                o["snake_case_field"] = "True"
            all_opts.append(o)
    all_opts += [o for o in E2E_EXTRA_SETS if all(k in tab for k in o)]
    if ck.tier == "thorough":
        return all_opts
    # quick: a stratified sample (the subprocess budget of the quick tier; the thorough tier and the searches that
    # follow a broken obligation / correspondence run everything). Strata: options coupled by validators, falsy-but-
    # given values, options whose value a validator opens / splits / rewrites, then one stratum per option kind.
    rng = ck.rng.fork("e2e-sample")
    coupled = [o for o in all_opts if set(o) & {"use_annotated", "field_constraints", "snake_case_field"} or o == {"output_model_type": "msgspec.Struct"}]
    falsy = [o for o in all_opts if "" in o.values() and o not in coupled]
    rewritten = [o for o in all_opts if set(o) & set(E2E_EXTRA) and o not in coupled and o not in falsy]
    # (the msgspec coupling is the witness of D15, re-run by known_findings() in every tier)
    always = [o for o in coupled if o == {"use_annotated": "True"}]   # the known coupling D15, flag side
    always += [o for o in all_opts if o in REFUSED_BY_EVERY_ROUTE]    # the refused special prefix: the refusals are compared
    picked = always + rng.sample([o for o in coupled if o not in always], 1) + rng.sample(falsy, 2) + rng.sample(rewritten, 1)
    strata: dict[str, list[dict]] = {}
    for o in all_opts:
        if o in coupled or o in falsy or o in rewritten or o in REFUSED_BY_EVERY_ROUTE:
            continue
        strata.setdefault(tab[sorted(o)[0]]["kind"], []).append(o)
    quota = {"bool": 2, "enum": 1, "enumlist": 1, "text": 1}
    for kind, pool in sorted(strata.items()):
        picked += rng.sample(pool, quota.get(kind, 1))
    return picked


def campaign_three_ways(ck: Check, rn: Runner) -> dict:
    camp = ck.campaign("e2e: each option by flag / by pyproject.toml key / by generate() keyword, in subprocesses → byte-identical")
    t0 = time.time()
    baseline = rn.cli({})
    camp.evaluations += 1
    if baseline["rc"] != 0:   # every CLI run fails: the three-ways comparison below reports it
        camp.hit("baseline-cli-run-failed")
        baseline = None
    opts_list = e2e_options(ck, rn)
    results = three_ways_many(ck, camp, rn, opts_list, baseline)
    camp.wall_s = time.time() - t0
    cache = {json.dumps(o, sort_keys=True): r for o, r in zip(opts_list, results)}
    if baseline is not None:
        cache["{}"] = {"cli": baseline}
    return cache


def alias_spellings() -> list[tuple[str, str, str]]:
    """(dest, kind, alternative long flag) for every option the argument parser accepts under more than one spelling"""
    out = []
    for a in cli_tables.actions():
        if a["dest"] in META:
            continue
        longs = [f for f in a["flags"] if f.startswith("--")]
        for alt in longs[1:]:
            out.append((a["dest"], a["kind"], alt))
    return out


def alias_case(ck: Check, camp, rn: Runner, dest: str, alt_flag: str, value: str) -> None:
    """every spelling of an option that the command line accepts is accepted as a pyproject.toml key (kebab- and
    snake-case) and gives what the primary flag gives"""
    tab = rn.tab
    val = py_value(tab[dest]["kind"], value)
    key = alt_flag[2:]
    extra = [alt_flag] if tab[dest]["kind"] == "bool" else [alt_flag, *(val if isinstance(val, list) else [val])]
    jobs = {
        "primary-flag": lambda: rn.cli({dest: value}),
        "nothing": lambda: rn.cli({}),
        "alt-flag": lambda: rn.cli({}, extra_argv=extra),
        "alt-key-kebab": lambda: rn.cli({}, raw_keys={key: val}),
        "alt-key-snake": lambda: rn.cli({}, raw_keys={key.replace("-", "_"): val}),
    }
    res = dict(zip(jobs, pmap(lambda f: f(), list(jobs.values()))))
    ref = res["primary-flag"]
    camp.evaluations += len(jobs)
    camp.hit("alias-spelling:" + alt_flag)
    if ref["rc"] == 0 and not same(ref, res["nothing"]):
        camp.distinct.add(("alias", dest, alt_flag))
    else:
        camp.hit("alias-spelling:no-visible-effect-on-this-document")
    for way in ("alt-flag", "alt-key-kebab", "alt-key-snake"):
        if not same(res[way], ref):
            ck.fail({"oracle": "three_ways", "option": dest, "value": value, "odd_one": "cli" if way == "alt-flag" else "pyproject",
                     "mechanism": "one-side-fails" if res[way]["rc"] != ref["rc"] else "output-differs", "spelling": key, "way": way},
                    {"kind": "alias_spelling", "dest": dest, "alt_flag": alt_flag, "value": value},
                    f"`{alt_flag}` is a spelling of `{tab[dest]['flag']}` on the command line; given as {way} ({key if way != 'alt-flag' else alt_flag}): {describe(res[way])}; "
                    f"primary flag: {describe(ref)}; first difference: {first_diff(res[way]['output'], ref['output'])}"
                    + ("; equal to the run without the option" if same(res[way], res["nothing"]) else ""),
                    "the same result as the primary flag")
            return
    if len(camp.samples) < 4:
        camp.samples.append({"option": dest, "alternative_spelling": alt_flag, "result": "flag and both pyproject keys equal the primary flag"})


def campaign_alias_spellings(ck: Check, rn: Runner) -> None:
    camp = ck.campaign("e2e: every alternative spelling of an option (second option string of its argparse action) as flag and as "
                       "pyproject.toml key (kebab / snake) vs the primary flag")
    t0 = time.time()
    for dest, _kind, alt in alias_spellings():
        if dest not in rn.tab:
            continue
        for v in (rn.tab[dest]["values"] or [])[:2]:
            alias_case(ck, camp, rn, dest, alt, v)
    camp.wall_s = time.time() - t0


EXHAUSTIVE_BOTH = ["output_model_type"]   # options other settings are derived from: every ordered pair of values, always


def campaign_both_present(ck: Check, rn: Runner, cache: dict) -> None:
    camp = ck.campaign("e2e: option present in pyproject.toml AND on the command line with different values → the command line wins")
    t0 = time.time()
    rng = ck.rng.fork("both")
    jobs = []
    must = []
    for key, res in cache.items():
        opts = json.loads(key)
        if len(opts) != 1 or "cli" not in res or res["cli"].get("rc") != 0:
            continue
        (d, v), = opts.items()
        o = rn.tab[d]
        others = [x for x in (["False"] if o["kind"] == "bool" else o["values"]) if x != v]
        if not others:
            continue
        if v in FALSY:  # a falsy value on the command line over a non-empty pyproject value: always run
            must.append((d, v, next((x for x in others if x not in FALSY), others[0]), res["cli"]))
        else:
            jobs.append((d, v, rng.choice(others), res["cli"]))
    if ck.tier == "quick":
        jobs = rng.sample(jobs, 1)
    jobs = must + jobs
    # options that imply other settings: every ordered pair (pyproject value, command-line value); in the thorough tier
    # every enum option
    for d in sorted(rn.tab):
        o = rn.tab[d]
        if o["kind"] != "enum" or d in SKIP_E2E or not (d in EXHAUSTIVE_BOTH or ck.tier == "thorough"):
            continue
        vals = o["values"]
        for i, v_py in enumerate(vals):
            # quick: every value once in pyproject.toml and once on the command line (cyclic); thorough: all ordered pairs
            for v_cli in (vals if ck.tier == "thorough" else [vals[(i + 1) % len(vals)]]):
                if v_py != v_cli and not any(j[0] == d and j[1] == v_cli and j[2] == v_py for j in jobs):
                    jobs.append((d, v_cli, v_py, None))

    def one(job):
        d, v_cli, v_py, expect = job
        if expect is None:
            key = json.dumps({d: v_cli}, sort_keys=True)
            expect = cache[key]["cli"] if key in cache and "cli" in cache[key] else rn.cli({d: v_cli})
        got = rn.cli({d: v_cli}, {d: v_py})
        return (d, v_cli, v_py, expect), got

    for (d, v_cli, v_py, expect), got in pmap(one, jobs):
        camp.evaluations += 1
        camp.hit("kind:" + rn.tab[d]["kind"])
        if v_cli in FALSY:
            camp.hit("cli-value-falsy-but-given")
        camp.distinct.add((d, v_cli, v_py))
        if not same(got, expect):
            ck.fail({"oracle": "cli_wins", "option": d, "value": v_cli, "pyproject_value": v_py},
                    {"kind": "both_present", "option": d, "cli": v_cli, "pyproject": v_py},
                    f"with pyproject {d}={v_py} and flag {d}={v_cli}: {describe(got)}; flag alone: {describe(expect)}; first difference: {first_diff(got['output'], expect['output'])}")
        elif len(camp.samples) < 2:
            camp.samples.append({"option": d, "cli": v_cli, "pyproject": v_py, "result": "equals flag-only run"})
    camp.wall_s = time.time() - t0


SPLIT_PAIRS = [
    ({"snake_case_field": "True"}, {"original_field_name_delimiter": " "}),
    ({"output_model_type": "dataclasses.dataclass"}, {"keyword_only": "True"}),
    ({"output_model_type": "dataclasses.dataclass"}, {"output_datetime_class": "AwareDatetime"}),
    ({"snake_case_field": "True"}, {"use_standard_collections": "True"}),
    ({"use_annotated": "True"}, {"output_model_type": "pydantic_v2.BaseModel"}),
    ({"target_python_version": "3.11"}, {"output_model_type": "typing.TypedDict"}),
    ({"field_constraints": "True"}, {"use_union_operator": "True"}),
]
VALIDATOR_KEYS = {"original_field_name_delimiter", "keyword_only", "output_datetime_class", "custom_file_header"}


def split_many(ck: Check, camp, rn: Runner, pairs: list) -> None:
    thunks = []
    for a, b in pairs:
        both = {**a, **b}
        thunks += [lambda both=both: rn.cli(both), lambda both=both: rn.cli({}, both), lambda a=a, b=b: rn.cli(b, a), lambda a=a, b=b: rn.cli(a, b)]
    raw = pmap(lambda f: f(), thunks)
    for i, (a, b) in enumerate(pairs):
        allcli, allpy, split1, split2 = raw[4 * i : 4 * i + 4]
        both = {**a, **b}
        camp.evaluations += 4
        camp.distinct.add(json.dumps([a, b], sort_keys=True))
        camp.hit("validator-coupled" if set(both) & VALIDATOR_KEYS else "independent")
        if same(allcli, allpy) and same(allcli, split1) and same(allcli, split2):
            if len(camp.samples) < 2:
                camp.samples.append({"pyproject": a, "cli": b, "result": "same as unsplit: " + describe(allcli)})
            continue
        cls = {"oracle": "split_supply", "option": "+".join(sorted(both)), "coupled_by_validator": bool(set(both) & VALIDATOR_KEYS)}
        ck.fail(cls, {"kind": "split", "a": a, "b": b},
                f"all on command line: {describe(allcli)}; all in pyproject: {describe(allpy)}; {list(a)} in pyproject + {list(b)} as flags: {describe(split1)}; the other way round: {describe(split2)}",
                "the same result wherever each option of the set is given")


def split_case(ck: Check, camp, rn: Runner, a: dict, b: dict) -> None:
    split_many(ck, camp, rn, [(a, b)])


def campaign_split(ck: Check, rn: Runner) -> None:
    camp = ck.campaign("e2e: an option pair split between pyproject.toml and command line vs given in one place")
    t0 = time.time()
    # quick: one pair, rotating with the seed (the first pair is the witness of C18-split, re-run by known_findings()
    # in every tier)
    pairs = SPLIT_PAIRS if ck.tier == "thorough" else ck.rng.fork("split-sample").sample(SPLIT_PAIRS[1:], 1)
    split_many(ck, camp, rn, pairs)
    camp.wall_s = time.time() - t0


def campaign_exit(ck: Check, rn: Runner) -> None:
    """failure ⇒ exit status 1 and a message on stderr (argparse usage errors exit 2: outside the statement)"""
    camp = ck.campaign("e2e: exit status 1 + stderr message on failing runs")
    t0 = time.time()

    def run(case):
        name, cli, py, extra, files = case
        d = rn._dir(py)  # noqa: SLF001
        for fn, text in files.items():
            (d / fn).write_text(text)
        argv = ["-m", "datamodel_code_generator", "--output", "out.py", "--disable-timestamp", *extra]
        for k, v in cli.items():
            argv += argv_of(rn.tab, k, v)
        p = run_py(argv, cwd=str(d), env=child_env(), stdin="")
        return name, rn._collect(d, p)  # noqa: SLF001

    cases = [
        ("missing-input-file", {}, None, ["--input", "nope.json", "--input-file-type", "jsonschema"], {}),
        ("malformed-json", {}, None, ["--input", "bad.json", "--input-file-type", "jsonschema"], {"bad.json": "{\"a\": "}),
        ("validator-error", {"original_field_name_delimiter": "-"}, None, ["--input", "s.json", "--input-file-type", "jsonschema"], {}),
        ("validator-error-in-pyproject", {}, {"original_field_name_delimiter": "-"}, ["--input", "s.json", "--input-file-type", "jsonschema"], {}),
        ("bad-aliases-file", {"aliases": "bad.json"}, None, ["--input", "s.json", "--input-file-type", "jsonschema"], {"bad.json": "[1"}),
        ("aliases-not-a-mapping", {"aliases": "l.json"}, None, ["--input", "s.json", "--input-file-type", "jsonschema"], {"l.json": "[1]"}),
        ("undetectable-input-type", {}, None, ["--input", "t.txt"], {"t.txt": ": : :"}),
        ("keyword-only-3.9", {"keyword_only": "True", "output_model_type": "dataclasses.dataclass"}, None, ["--input", "s.json", "--input-file-type", "jsonschema"], {}),
    ]
    if ck.tier == "quick":   # a rotating sample; every case in the thorough tier
        cases = ck.rng.fork("exit-sample").sample(cases, 3)
    for name, r in pmap(run, cases):
        camp.evaluations += 1
        camp.hit(name)
        camp.distinct.add(name)
        if r["rc"] != 1 or not r["stderr"]:
            ck.fail({"oracle": "exit_code", "case": name}, {"kind": "exit", "case": name}, describe(r), "exit status 1 and a message on stderr")
        elif len(camp.samples) < 2:
            camp.samples.append({"case": name, "rc": r["rc"], "stderr_tail": r["stderr"][-100:]})
    camp.wall_s = time.time() - t0


# ---------------------------------------------------------------- search (only after a broken obligation / disagreement)
def refuted_names(ck: Check) -> list[str]:
    """the options the model-side refuters of the CliTables obligations name (dest names)"""
    names = []
    for what in ("defaults", "dests", "forwarded", "parser"):
        try:
            rep = ck.driver.run([f"config.refute {what}"])[0]
        except Exception:  # noqa: BLE001
            continue
        if rep.startswith("ok "):
            names.append(unhx(rep.split(" ")[1]))
    inv = {v: k for k, v in RENAMES.items()}
    return [inv.get(n, n) for n in names]


def search_broken_tables(ck: Check) -> None:
    """Model-side refuters name the option whose plumbing is broken; the three-ways oracle is run on it
    (DESIGN §2.5) — in the bare scratch project, then in every project environment (c18_env: a tri-state option
    that is not given leaves the decision to the [tool.black] table) — then on every option."""
    from . import c18_env

    rn = Runner()
    camp = ck.campaign("search: options named by the table refuters, then every option, through the three-ways oracle")
    try:
        names = refuted_names(ck)
        baseline = rn.cli({})
        todo = []
        for n in names:
            if n in rn.tab:
                vals = rn.tab[n]["values"] or []
                todo += [{n: v} for v in vals]
        for o in todo:
            three_ways(ck, camp, rn, o, baseline)
            both_ways_default_probe(ck, camp, rn, o)
            if ck.failures:
                return
        if names:
            c18_env.search_env(ck, names)
            if ck.failures:
                return
        saved = ck.tier
        ck.tier = "thorough"
        try:
            rest = [o for o in e2e_options(ck, rn) if o not in todo]
        finally:
            ck.tier = saved
        three_ways_many(ck, camp, rn, rest, baseline)
        if not ck.failures:
            for o in rest:
                both_ways_default_probe(ck, camp, rn, o)
                if ck.failures:
                    return
        if not names and not ck.failures:
            c18_env.search_env(ck, [])
    finally:
        rn.close()


def search_both_present(ck: Check) -> None:
    """after a broken obligation / correspondence: every enum option, every ordered pair (pyproject value, flag value)"""
    rn = Runner()
    saved = ck.tier
    ck.tier = "thorough"
    try:
        campaign_both_present(ck, rn, {})
    finally:
        ck.tier = saved
        rn.close()


def both_ways_default_probe(ck: Check, camp, rn: Runner, o: dict) -> None:
    """pyproject gives a value, the command line says nothing about it: the pyproject value must be effective
    (fails when an argparse default is not None)."""
    if len(o) != 1:
        return
    (d, v), = o.items()
    others = [x for x in rn.tab[d]["values"] if x != v]
    if rn.tab[d]["kind"] == "bool":
        return
    for w in others[:1]:
        py_only, flag_only = pmap(lambda f: f(), [lambda: rn.cli({}, {d: w}), lambda: rn.cli({d: w})], workers=2)
        camp.evaluations += 2
        if not same(py_only, flag_only):
            ck.fail({"oracle": "three_ways", "option": d, "value": w, "odd_one": "pyproject", "mechanism": "output-differs"},
                    {"kind": "three_ways", "opts": {d: w}}, f"pyproject only: {describe(py_only)}; flag only: {describe(flag_only)}")


# ---------------------------------------------------------------- known findings / replay
def rerun(ck: Check, rn: Runner, inp: dict) -> None:
    from . import c18_env, c18_kv, c18_repeat

    camp = ck.campaign("replay")
    kind = inp.get("kind")
    if kind in ("repeated", "repeated_rewritten"):
        c18_repeat.rerun(ck, camp, rn, inp)
    elif kind == "path_routes":
        from . import c18_paths
        c18_paths.rerun(ck, camp, inp)
    elif kind == "kv":
        c18_kv.rerun(ck, camp, rn, inp)
    elif kind == "three_ways" and inp.get("env_toml"):
        c18_env.rerun(ck, camp, inp)
    elif kind == "three_ways":
        three_ways(ck, camp, rn, inp["opts"], rn.cli({}))
    elif kind == "split":
        split_case(ck, camp, rn, inp["a"], inp["b"])
    elif kind == "alias_spelling":
        alias_case(ck, camp, rn, inp["dest"], inp["alt_flag"], inp["value"])
    elif kind == "both_present":
        expect = rn.cli({inp["option"]: inp["cli"]})
        got = rn.cli({inp["option"]: inp["cli"]}, {inp["option"]: inp["pyproject"]})
        if not same(got, expect):
            ck.fail({"oracle": "cli_wins", "option": inp["option"]}, inp, f"{describe(got)} vs flag alone {describe(expect)}")


def known_findings(ck: Check, rn: Runner) -> None:
    for f in ck.findings:
        probe = Check(ck.prop, ck.tier)
        probe.findings = []
        rerun(probe, rn, f["witness"])
        if probe.failures:
            ck.known(f["id"], f["what"])


def run(ck: Check) -> None:
    from . import c18_env, c18_kv, c18_paths, c18_repeat
    from . import c18_pool
    from .c18_pool import run_parts

    quick = ck.tier == "quick"
    c18_pool.WATCHDOG_S[0] = 60.0 if quick else 120.0   # a child normally takes 2 s (10 s on a loaded machine)
    ck.translate("CliTables", cli_tables.generate())
    ck.prove()
    ck.assumptions += [
        "argparse, pydantic (coercion of option values) and tomllib behave as documented; their tables are read at run time",
        "the canonical-text model of Config.merge covers boolean, enum, enum-list and plain-text options; options whose value a "
        "validator transforms (paths, opened files, comma-split strings, url) are only exercised end-to-end or not at all "
        "(url, custom_template_dir); the name<sep>value validators of http_headers / http_query_parameters have their own model "
        "(Model/KeyValue) and correspondence",
        "histories: main() is called again in the same interpreter only with identical option flags (what differing flags do to the "
        "shared Namespace is D18, C08's subject)",
        "argparse usage errors (unknown flag, invalid choice) exit with status 2: treated as outside 'failure' in the statement",
        "the module-level argparse Namespace (D18) is the subject of C08; every CLI run here is a fresh process",
    ]
    campaign_merge(ck, 800 if quick else 8000)
    campaign_pyproject(ck, 120 if quick else 1200)
    c18_kv.campaign_kv_model(ck, 600 if quick else 6000)
    c18_paths.model_campaigns(ck)   # path-valued options: PathNorm correspondence + its search hook (vlib/props/c18_paths.py)
    _t0 = time.time()

    def _t(label: str) -> None:
        if os.environ.get("VERIF_DEBUG"):
            print(f"[c18] {label}: {time.time() - _t0:.1f}s since the model campaigns")

    rn = Runner()
    try:
        # independent campaigns run side by side (c18_pool: own result lists merged in program order, own random
        # streams forked here in program order, one process-wide limit on child processes); the two campaigns that
        # reuse the fresh-process runs of the three-ways campaign follow in a second group
        box: dict = {}

        def first(part) -> None:
            kv_finish = c18_kv.campaign_kv_three_ways(part, rn, background=True)   # collected while the next campaign runs
            box["cache"] = campaign_three_ways(part, rn)
            kv_finish()

        def repeated(part) -> None:
            c18_repeat.campaign_repeated(part, rn, box.get("cache", {}))
            c18_kv.campaign_kv_repeated(part, rn, part.campaigns[-1])

        run_parts(ck, [("part:three-ways", first), ("part:alias", lambda p: campaign_alias_spellings(p, rn)),
                       ("part:split", lambda p: campaign_split(p, rn)), ("part:env", c18_env.campaign_env),
                       ("part:exit", lambda p: campaign_exit(p, rn)), ("part:paths", c18_paths.campaign_paths)])
        _t("group1")
        run_parts(ck, [("part:repeated", repeated), ("part:both", lambda p: campaign_both_present(p, rn, box.get("cache", {}))),
                       ("part:known", lambda p: known_findings(p, rn))])   # the witnesses of the known findings, re-run
        _t("group2")
        if os.environ.get("VERIF_DEBUG"):
            from .c18_pool import COUNT, TALLY
            print(f"[c18] child processes: {COUNT[0]} {TALLY}")
    finally:
        rn.close()
    # targeted searches (only after a broken obligation / correspondence), the most specific first: the value-carrying
    # family when its model or theorems broke, the options named by the table refuters, then every option through histories
    ck.search_hooks.append(c18_kv.search_kv)
    ck.search_hooks.append(search_broken_tables)
    ck.search_hooks.append(search_both_present)
    ck.search_hooks.append(c18_repeat.search_repeated)


def replay(ck: Check, path: str) -> int:
    data = json.loads(open(path).read())
    rn = Runner()
    try:
        rerun(ck, rn, data.get("input") or {})
    finally:
        rn.close()
    for f in ck.failures:
        print("REPLAY-FAILS:", json.dumps(f.classification), f.observed[:400])
    if not ck.failures:
        print("replay: the oracle does not fail on this input")
    return 1 if ck.failures else 0
