"""C17 — GraphQL enum VALUES vs member NAMES.

`GraphQLParser.parse_enum` builds one member per GraphQL value name: the member NAME goes through the enum
field-name resolver (keywords get `_`, `mro` is reserved, a leading underscore gets the special prefix,
capitalise_enum_members upper-cases, collisions are numbered), the member VALUE is the GraphQL name itself —
that is what JSON carries.  This file holds

* the renaming pool and the document family `enum_doc` (enums whose value names the resolver must rename, used by
  object / input fields at every wrapper depth, by input defaults and through unions),
* `campaign_enum_family`: the property's own oracle (c17.oracle_case) over a stratified sample of the family,
* `campaign_enum_values`: Model.Enum.parseGraphqlEnum (driver `gqlenum.values`: member name + the value the
  Python lexer model reads back from the member's right-hand side) vs the (name, default) of the DataModelFields
  the REAL GraphQLParser.parse_enum builds, the default evaluated by CPython (ast.literal_eval),
* `search_enum`: the failing-input search behind it (disagreeing name lists embedded into complete documents).
"""
from __future__ import annotations

import ast
import json
import keyword
import re
import time
import warnings

from .. import e2e
from ..common import Rng, hx, unhx
from ..runner import Check

GRAPHQL_NAME = re.compile(r"^[_A-Za-z][_0-9A-Za-z]*$")
NOT_ENUM_VALUES = ("true", "false", "null")  # the GraphQL grammar refuses these three as enum values

# ------------------------------------------------------------------ the renaming pool (strata)
KEYWORDS = sorted(k for k in keyword.kwlist if k not in NOT_ENUM_VALUES)  # incl. None, True, False
SOFT_KEYWORDS = [k for k in keyword.softkwlist if k != "_"]  # match, case, type: legal member names
RESERVED = ["mro"]
ENUM_ATTRS = ["name", "value", "names", "values"]
UNDERSCORE = ["_", "_x", "_UNKNOWN", "_1", "_mro", "_in", "_name", "_value_", "_name_", "_missing_", "_9a"]
DUNDER = ["__y", "__members__", "__class__", "__", "__in"]  # reserved by GraphQL introspection: parser level only
MIXED_CASE = ["red", "Red", "RED", "aB", "a_b", "x1", "asc", "desc", "Mro", "MRO", "In", "IN", "none", "NONE", "Class"]
PLAIN = ["V_RED", "V_GREEN", "LINEAR", "NOT_ON_SHIFT", "C3"]
# names that collide only AFTER renaming
COLLIDING = [["and", "and_"], ["mro", "mro_"], ["in", "in_", "in__1"], ["_x", "field_x"], ["red", "RED"], ["None", "None_"],
             ["_", "field_"], ["class", "class_", "CLASS_"], ["Mro", "mro", "MRO"], ["is", "IS", "is_", "IS_"]]
STRATA = {
    "keyword": KEYWORDS, "soft_keyword": SOFT_KEYWORDS, "mro": RESERVED, "enum_attr": ENUM_ATTRS,
    "underscore": UNDERSCORE, "mixed_case": MIXED_CASE, "plain": PLAIN,
}


def base_name(v: str, flags: dict) -> str:
    """the least renaming Python forces on a member called `v` (not the generator's code: what CANNOT be a member name)"""
    n = v
    if n.startswith("_"):
        n = "field" + n
    if keyword.iskeyword(n) or n == "mro":
        n += "_"
    return n


def must_rename(v: str, flags: dict, values=()) -> bool:
    """may the member for GraphQL value `v` have another NAME than `v`?  Only when Python (a keyword, `mro`, a
    leading underscore — private / sunder / dunder names are not members) or the capitalise option forces it,
    or when the name another value is forced to (that name, or that name with a numbered suffix) collides with
    it — transitively."""
    if flags.get("capitalise_enum_members"):
        return True  # the option asks for another spelling of every name (snake-cased, then upper-cased)
    if base_name(v, flags) != v:
        return True
    moved = {w for w in values if base_name(w, flags) != w}
    while True:
        more = {u for u in values if u not in moved
                and any(u == base_name(w, flags) or u.startswith(base_name(w, flags) + "_") for w in moved if w != u)}
        if not more:
            return v in moved
        moved |= more


# ------------------------------------------------------------------ the document family
def draw_values(rng: Rng, stratum: str, n: int, *, dunder: bool = False) -> list[str]:
    if stratum == "colliding":
        vals = list(rng.choice(COLLIDING))
        vals += rng.sample(PLAIN + MIXED_CASE, rng.range(0, 2))
    elif stratum == "mix":
        pool = [v for s in STRATA.values() for v in s] + (DUNDER if dunder else [])
        vals = rng.sample(pool, min(n, len(pool)))
    else:
        pool = STRATA[stratum]
        vals = rng.sample(pool, min(n, len(pool)))
        if len(vals) < n:
            vals += rng.sample(PLAIN + MIXED_CASE, n - len(vals))
    vals = [v for v in dict.fromkeys(vals) if GRAPHQL_NAME.match(v) and v not in NOT_ENUM_VALUES]
    return rng.shuffle(vals)


STRATUM_NAMES = [*STRATA, "colliding", "mix"]
WRAPS = ["{}", "{}!", "[{}]", "[{}!]", "[{}!]!", "[[{}]]", "[[{}!]!]!", "[{}]!"]


def enum_doc(rng: Rng, strata: list[str], *, descriptions: bool = True) -> tuple[str, dict]:
    """One complete SDL document: an enum per stratum, an object type and an input type using every enum at
    several wrapper depths, input defaults naming values (single and list), the object types behind a union."""
    enums: dict[str, list[str]] = {}
    for i, st in enumerate(strata):
        vals = draw_values(rng, st, rng.range(2, 6))
        if not vals:
            vals = ["in", "V_RED"]
        enums[f"En{i}"] = vals
    out: list[str] = []
    for en, vals in enums.items():
        lines = []
        for v in vals:
            if descriptions and rng.chance(1, 5):
                lines.append(f'  "the value {v}"\n  {v}')
            else:
                lines.append(f"  {v}")
        head = f'"""values of {en}"""\n' if descriptions and rng.chance(1, 4) else ""
        out.append(head + f"enum {en} {{\n" + "\n".join(lines) + "\n}\n")
    names = list(enums)
    # object types
    fields_t = [f"  f_t{k}: {rng.choice(WRAPS).format(en)}" for k, en in enumerate(names)]
    fields_t.append(f"  f_tl: [{names[0]}!]!")
    fields_s = [f"  f_s{k}: {rng.choice(WRAPS).format(en)}" for k, en in enumerate(names[:2])]
    out.append("type Tt {\n" + "\n".join(fields_t) + "\n}\n")
    out.append("type Ss {\n" + "\n".join(fields_s) + "\n}\n")
    out.append("union Uu = Ss | Tt\n")
    out.append("type Hh {\n  f_u: Uu\n  f_l: [Uu!]\n  f_e: " + names[-1] + "!\n}\n")
    # input type: required fields, defaults naming a value, list defaults
    fields_i = []
    for k, (en, vals) in enumerate(enums.items()):
        fields_i.append(f"  f_r{k}: {en}!")
        fields_i.append(f"  f_d{k}: {en} = {rng.choice(vals)}")
        ds = rng.sample(vals, rng.range(1, min(3, len(vals))))
        fields_i.append(f"  f_l{k}: [{en}!] = [{', '.join(ds)}]")
        if rng.chance(1, 2):
            fields_i.append(f"  f_n{k}: [[{en}]!]")
    out.append("input In {\n" + "\n".join(fields_i) + "\n}\n")
    out.append("schema { query: Hh }\n")
    order = list(range(len(out) - 1))
    if rng.chance(1, 2):
        order.reverse()
    sdl = "".join(out[i] for i in order) + out[-1]
    return sdl, enums


ENUM_FLAG_SETS = [
    {},
    {"capitalise_enum_members": True},
    {"use_standard_collections": True, "use_union_operator": True},
    {"force_optional_for_required_fields": True},
    {"capitalise_enum_members": True, "use_union_operator": True},
    {"use_standard_collections": True},
    {"capitalise_enum_members": True, "force_optional_for_required_fields": True, "use_standard_collections": True},
]


def enum_cases(rng: Rng, n_docs: int):
    """(stratum label, sdl, enums) — the first len(STRATUM_NAMES) documents have one stratum each, then mixtures"""
    for i in range(n_docs):
        if i < len(STRATUM_NAMES):
            strata = [STRATUM_NAMES[i]] + ([rng.choice(STRATUM_NAMES)] if rng.chance(1, 2) else [])
        else:
            strata = [rng.choice(STRATUM_NAMES) for _ in range(rng.range(1, 3))]
        sdl, enums = enum_doc(rng, strata)
        yield "+".join(strata), sdl, enums


def campaign_enum_family(ck: Check, c17, n_docs: int) -> None:
    camp = ck.campaign("e2e GraphQL shape oracle over the enum-renaming family (enums whose value names the resolver must rename: keywords, "
                       "soft keywords, mro, leading underscores, Enum attributes, mixed case with capitalise_enum_members, names colliding "
                       "after renaming; used by object / input fields, defaults, unions): the Enum's VALUES are the GraphQL value names and a "
                       "conforming object naming each value validates")
    t0 = time.time()
    rng = ck.rng.fork("enum_family")
    for sdl, kind, flags in ENUM_CORPUS:
        c17.oracle_case(ck, camp, sdl, kind, flags, {}, 1)
    for k, (label, sdl, enums) in enumerate(enum_cases(rng, n_docs)):
        kinds = e2e.EXECUTABLE_KINDS if k % 4 == 0 else [e2e.EXECUTABLE_KINDS[k % 4]]
        for j, kind in enumerate(kinds):
            flags = dict(ENUM_FLAG_SETS[(k + j) % len(ENUM_FLAG_SETS)])
            camp.hit("stratum:" + label.split("+")[0])
            renamed = sum(1 for vals in enums.values() for v in vals if must_rename(v, flags, vals))
            camp.hit("renamed_values:" + ("0" if not renamed else "1-3" if renamed <= 3 else "4+"))
            if renamed:
                camp.distinct.add((sdl, kind, json.dumps(flags, sort_keys=True)))
            c17.oracle_case(ck, camp, sdl, kind, flags, {}, rng.next() & 0xFFFFFFFF)
    camp.wall_s = time.time() - t0


ENUM_CORPUS = [
    # one enum per mechanism, used by an object field, an input field with a default and a list default
    ("enum Op { in is not None True class match mro _x name value red }\n"
     "type Tt { f_a: Op f_b: [Op!]! }\ninput In { f_r: Op! f_d: Op = in f_l: [Op!] = [mro, _x] }\nschema { query: Tt }\n",
     kind, flags)
    for kind in e2e.EXECUTABLE_KINDS for flags in ({}, {"capitalise_enum_members": True})
]


# ------------------------------------------------------------------ correspondence: parseGraphqlEnum vs the real parse_enum
def real_members(names: list[str], cap: bool, timeout: float = 5.0):
    """GraphQLParser.parse_raw() on `enum E { names }`: [(member name, the Python value of its default)] of the Enum
    model in Parser.results — the default text is what the Enum template writes after `name = `, read by CPython —
    and the order in which graphql-core hands the value names to the parser (library behaviour, given to the model)."""
    import graphql

    from datamodel_code_generator.model.enum import Enum as EnumModel
    from datamodel_code_generator.parser.graphql import GraphQLParser

    from ..common import Hang, watchdog

    text = "enum E { " + " ".join(names) + " }\ntype Qq { f_e: E }\nschema { query: Qq }\n"
    try:
        order = list(graphql.lexicographic_sort_schema(graphql.build_schema(text)).type_map["E"].values)
        with watchdog(timeout), warnings.catch_warnings():
            warnings.simplefilter("ignore")
            p = GraphQLParser(text, capitalise_enum_members=cap)
            p.parse_raw()
        ems = [m for m in p.results if isinstance(m, EnumModel)]
    except Hang:
        return "fuel", [], text
    except Exception as e:  # noqa: BLE001
        return f"rejected {type(e).__name__}", [], text
    if len(ems) != 1:
        return f"unexpected {len(ems)} enum models", order, text
    parts = []
    for f in ems[0].fields:
        d = f.default
        try:
            val = ast.literal_eval(d) if isinstance(d, str) else d
            enc = "s" + hx(val) if isinstance(val, str) else "o" + hx(repr(val))
        except Exception:  # noqa: BLE001
            enc = "u" + hx(repr(d))
        parts.append(f"{hx(f.name or '')} {enc}")
    return "ok" + "".join(" " + p for p in parts), order, text


def gen_name_list(rng: Rng) -> list[str]:
    st = rng.choice(STRATUM_NAMES)
    vals = draw_values(rng, st, rng.range(1, 7), dunder=True)
    if rng.chance(1, 3):
        vals += draw_values(rng, rng.choice(STRATUM_NAMES), rng.range(1, 3), dunder=True)
    if rng.chance(1, 6):
        # spellings around one reserved target: prefix / suffix underscores, digits, case
        t = rng.choice(KEYWORDS + RESERVED + ENUM_ATTRS)
        vals += rng.sample([t, t + "_", t + "__1", "_" + t, "__" + t, t.upper(), t.capitalize(), t + "_1", "field_" + t, "field" + t], 3)
    return [v for v in dict.fromkeys(vals) if GRAPHQL_NAME.match(v) and v not in NOT_ENUM_VALUES]


def campaign_enum_values(ck: Check, c17, n: int) -> None:
    camp = ck.campaign("gqlenum.values (Model.Enum.parseGraphqlEnum: member name + the value the Python lexer model reads back from the "
                       "member's right-hand side) vs (name, default evaluated by CPython) of the DataModelFields of the real "
                       "GraphQLParser.parse_enum, on name lists from the renaming pool")
    t0 = time.time()
    rng = ck.rng.fork("enum_values")
    cases: list[tuple[list[str], bool]] = [(["in", "is", "not", "None", "True", "class", "match", "mro", "_x", "__y", "name", "value", "red"], c)
                                           for c in (False, True)]
    cases += [(list(g), c) for g in COLLIDING for c in (False, True)]
    for _ in range(n):
        vals = gen_name_list(rng)
        if vals:
            cases.append((vals, rng.chance(1, 3)))
    reals = [real_members(vals, cap) for vals, cap in cases]
    reqs = [f"gqlenum.values {'true' if cap else 'false'} ({' '.join(hx(x) for x in order)})" for (_, cap), (_, order, _) in zip(cases, reals)]
    replies = ck.driver.run(reqs)
    for (vals, cap), (impl, order, text), rep in zip(cases, reals, replies):
        camp.evaluations += 1
        flags = {"capitalise_enum_members": True} if cap else {}
        inp = {"enum": vals, "order": order, "flags": flags, "sdl": text}
        camp.hit("result:" + impl.split(" ")[0])
        camp.hit("capitalise" if cap else "plain")
        if not impl.startswith("ok"):
            camp.unmodelled += 1
            if impl.startswith("rejected"):
                # the real parser refuses a valid enum: the property's oracle decides (generate_error)
                ck.disagree(camp, inp, rep, impl)
            continue
        names = [unhx(t) for t in impl.split(" ")[1::2]]
        if any(a != b for a, b in zip(names, order)):
            camp.hit("renamed")
            camp.distinct.add(json.dumps([vals, cap]))
        if rep != impl:
            ck.disagree(camp, inp, rep, impl)
        elif len(camp.samples) < 2 and names != order:
            camp.samples.append({"enum": vals, "flags": flags, "members": names})
    camp.wall_s = time.time() - t0


# ------------------------------------------------------------------ targeted search
def search_enum(ck: Check, c17) -> None:
    """Behind the correspondence: every disagreeing name list is embedded into a complete document (the enum used by an
    object field, a required and a defaulted input field, a list default, a union member) and the property's own
    oracle is run on the real code — every executable kind, the options of the case; then the family at volume."""
    camp = ck.campaign("search: disagreeing enum value lists embedded into complete documents; then the enum-renaming family at volume")
    t0 = time.time()
    seen = set()
    for d in ck.disagreements[:400]:
        inp = d.input if isinstance(d.input, dict) else {}
        vals = inp.get("enum")
        if not (isinstance(vals, list) and vals and all(isinstance(v, str) and GRAPHQL_NAME.match(v) for v in vals)):
            continue
        vals = [v for v in vals if not v.startswith("__") and v not in NOT_ENUM_VALUES]
        key = json.dumps([vals, inp.get("flags")])
        if not vals or key in seen or len(seen) >= 30:
            continue
        seen.add(key)
        sdl = ("enum En0 { " + " ".join(vals) + " }\n"
               f"type Tt {{ f_a: En0 f_b: [En0!]! }}\ntype Ss {{ f_s: En0! }}\nunion Uu = Ss | Tt\ntype Hh {{ f_u: Uu f_e: [[En0]] }}\n"
               f"input In {{ f_r: En0! f_d: En0 = {vals[0]} f_l: [En0!] = [{', '.join(vals[:2])}] }}\nschema {{ query: Hh }}\n")
        flags = {k: v for k, v in (inp.get("flags") or {}).items() if k == "capitalise_enum_members"}
        for kind in e2e.EXECUTABLE_KINDS:
            c17.oracle_case(ck, camp, sdl, kind, flags, {}, 23)
            if ck.failures:
                camp.wall_s = time.time() - t0
                return
    rng = ck.rng.fork("search_enum")
    for k, (label, sdl, enums) in enumerate(enum_cases(rng, 80)):
        for kind in e2e.EXECUTABLE_KINDS:
            c17.oracle_case(ck, camp, sdl, kind, dict(ENUM_FLAG_SETS[k % len(ENUM_FLAG_SETS)]), {}, 29)
            if ck.failures or time.time() - t0 > 60:
                camp.wall_s = time.time() - t0
                return
    camp.wall_s = time.time() - t0
