"""C18 — the VALUE-CARRYING options (`--http-headers`, `--http-query-parameters`).

On the command line and in pyproject.toml an item is the text `name<sep>value` (`:` for headers, `=` for query
parameters); `generate()` takes the pair `(name, value)`. Between the two stand the `Config` validators
`validate_http_headers` / `validate_http_query_parameters` (split at the FIRST separator, `lstrip` the value),
modelled in `Dcg/Model/KeyValue.lean` with the round-trip theorems of `Dcg/Props/C18.lean`
(`keyvalue_split_at_first_separator`, `keyvalue_roundtrip`, …).

Here: (1) the correspondence of that model with the real validators (`Config.parse_obj({field: items})`),
(2) the three-ways oracle of the property on generated pairs whose VALUE contains the separator again, blanks,
quotes, non-ASCII characters: flag / pyproject.toml key / `generate()` keyword on a local file (the validators run
before any fetch) and against a loopback HTTP server that records what arrives, (3) the same options through a
history of `main()` calls in one interpreter (c18_repeat).
"""
from __future__ import annotations

import base64
import http.server
import json
import threading
import time
from urllib.parse import parse_qsl, urlsplit

from ..common import hx, unhx
from ..runner import Check
from ..subproc import child_env, pmap
from .c18_pool import run_py

FIELDS = {"http_headers": ":", "http_query_parameters": "="}
SPACES = [" ", "\t", "\u00a0", "\u2003", "\u3000", "\x1c", "\x0b", "\u0085", "\u200b", "\ufeff"]   # the last two are NOT white space


# ---------------------------------------------------------------- (1) model ↔ real validators
def real_parse(field: str, items: list[str]):
    from datamodel_code_generator import Error
    from datamodel_code_generator.__main__ import Config

    try:
        got = getattr(Config.parse_obj({field: items}), field)
    except Error:
        return None
    except Exception as e:  # noqa: BLE001  (a pydantic ValidationError would be a third behaviour)
        return f"{type(e).__name__}"
    return [list(t) for t in got]


def decode_items(rep: str):
    if rep == "none":
        return None
    if not rep.startswith("ok"):
        return rep
    toks = rep[2:].split()
    return [[unhx(a.lstrip("(")), unhx(b.rstrip(")"))] for a, b in zip(toks[0::2], toks[1::2])]


def random_item(rng, sep: str) -> tuple[str, str]:
    """(item text, stratum)"""
    other = "=" if sep == ":" else ":"
    letters = "abXY09-_./?&%#@;,+~"
    exotic = ["\u00e9", "\u00df", "\u65e5", "\U0001f600", '"', "'", "\\", sep, sep, other, " ", "\u00a0"]

    def word(lo, hi, pool):
        return "".join(rng.choice(pool) for _ in range(rng.range(lo, hi)))

    kind = rng.choice(["valid", "valid", "valid", "value-has-sep", "value-has-sep", "value-has-sep", "no-sep", "empty-name", "only-sep",
                       "unicode-space", "empty"])
    pad = "".join(rng.choice(SPACES) for _ in range(rng.range(0, 3)))
    name = word(1, 8, letters)
    if kind == "valid":
        return name + sep + pad + word(0, 10, letters + other), kind
    if kind == "value-has-sep":
        v = word(0, 6, letters) + sep + word(0, 6, list(letters) + exotic)
        if rng.chance(1, 3):
            v += sep * rng.range(1, 3)
        return name + sep + pad + v, kind
    if kind == "no-sep":
        return word(0, 12, list(letters) + [other, " ", "é"]), kind
    if kind == "empty-name":
        return sep + pad + word(0, 8, list(letters) + exotic), kind
    if kind == "only-sep":
        return sep * rng.range(1, 4), kind
    if kind == "unicode-space":
        return rng.choice(SPACES) + name + rng.choice(SPACES) + sep + pad + rng.choice(SPACES) + word(0, 6, list(letters) + exotic) + rng.choice(SPACES), kind
    return "", kind


CORPUS = [
    ("http_headers", ["X-Schema-Origin: https://specs.example.com:8443/pets"]),
    ("http_headers", ["Referer:https://a/b", "If-Modified-Since: Sat, 29 Oct 1994 19:43:31 GMT"]),
    ("http_query_parameters", ["token=dG9rZW4tMQ=="]),
    ("http_query_parameters", ["filter=a=b", "q= x = y "]),
    ("http_headers", ["Authorization: Bearer abc"]),
    ("http_headers", ["no separator here"]),
    ("http_query_parameters", ["a:b"]),
    ("http_headers", ["ok: 1", "bad"]),
    ("http_headers", []),
]


def campaign_kv_model(ck: Check, n: int) -> None:
    camp = ck.campaign("KeyValue.parseItems (Lean) vs Config.validate_http_headers / validate_http_query_parameters (real, through Config.parse_obj)")
    t0 = time.time()
    rng = ck.rng.fork("kv-model")
    cases: list[tuple[str, list[str], list[str]]] = [(f, items, ["corpus"]) for f, items in CORPUS]
    for _ in range(n):
        field = rng.choice(sorted(FIELDS))
        picked = [random_item(rng, FIELDS[field]) for _ in range(rng.choice([1, 1, 1, 2, 3]))]
        cases.append((field, [p[0] for p in picked], [p[1] for p in picked]))
    reqs = [f"kv.parse_items {hx(FIELDS[f])} ({' '.join(hx(i) for i in items)})" for f, items, _ in cases]
    # str.lstrip()'s white space: every code point below U+3100 and a sample above (one request)
    probe = [chr(c) for c in range(0x3100)] + [chr(rng.range(0x3100, 0xD7FF)) for _ in range(200)] + [chr(rng.range(0xE000, 0x10FFFF)) for _ in range(200)]
    replies = ck.driver.run([*reqs, "kv.isspace " + hx("".join(probe))])
    for (field, items, strata), rep in zip(cases, replies):
        camp.evaluations += 1
        model, impl = decode_items(rep), real_parse(field, items)
        for s in strata:
            camp.hit("item:" + s)
        camp.hit("rejected" if impl is None else "accepted")
        if impl and any(FIELDS[field] in v for _, v in impl):
            camp.hit("accepted-value-contains-the-separator")
        if items:
            camp.distinct.add((field, tuple(items)))
        if model != impl:
            ck.disagree(camp, {"field": field, "items": items}, model, impl)
        elif len(camp.samples) < 3 and impl and any(FIELDS[field] in v for _, v in impl):
            camp.samples.append({"field": field, "items": items, "pairs": impl})
    mask = replies[-1].split(" ", 1)[1] if replies[-1].startswith("ok ") else ""
    camp.evaluations += 1
    bad = [f"U+{ord(c):04X}" for c, m in zip(probe, mask) if ((c + "x").lstrip() == "x") != (m == "1")]
    camp.hit("isspace-code-points", len(probe))
    if bad or len(mask) != len(probe):
        ck.disagree(camp, {"isspace": bad[:10]}, "KeyValue.isSpace", "str.lstrip")
    camp.wall_s = time.time() - t0


# ---------------------------------------------------------------- (2) three ways, end to end
KV_KEYWORD_SCRIPT = r"""
import json, sys
from pathlib import Path
from urllib.parse import urlparse
from datamodel_code_generator import generate, InputFileType
spec = json.loads(sys.argv[1])
kw = {k: [tuple(p) for p in v] for k, v in spec["pairs"].items()}
src = urlparse(spec["url"]) if spec.get("url") else Path("s.json")
try:
    generate(src, input_file_type=InputFileType.JsonSchema, output=Path("out.py"), disable_timestamp=True, **kw)
except Exception as e:
    print(f"{type(e).__name__}: {e}", file=sys.stderr)
    sys.exit(1)
"""


class Loopback:
    """HTTP server on 127.0.0.1 that serves the test document and records, per request path, the query pairs and
    the headers that arrived."""

    def __init__(self, body: bytes) -> None:
        log: dict[str, list] = {}
        lock = threading.Lock()

        class Handler(http.server.BaseHTTPRequestHandler):
            def do_GET(self) -> None:  # noqa: N802
                u = urlsplit(self.path)
                rec = {"query": [list(p) for p in parse_qsl(u.query, keep_blank_values=True)],
                       "headers": sorted([k.lower(), v] for k, v in self.headers.items())}
                with lock:
                    log.setdefault(u.path, []).append(rec)
                self.send_response(200)
                self.send_header("Content-Type", "application/json")
                self.send_header("Content-Length", str(len(body)))
                self.end_headers()
                self.wfile.write(body)

            def log_message(self, *args: object) -> None:
                pass

        self.log, self.lock = log, lock
        self.server = http.server.ThreadingHTTPServer(("127.0.0.1", 0), Handler)
        self.server.daemon_threads = True
        self.thread = threading.Thread(target=self.server.serve_forever, daemon=True)
        self.thread.start()
        self.port = self.server.server_port

    def url(self, token: str) -> str:
        return f"http://127.0.0.1:{self.port}/{token}/s.json"

    def take(self, token: str) -> list:
        with self.lock:
            return self.log.pop(f"/{token}/s.json", [])

    def close(self) -> None:
        self.server.shutdown()
        self.server.server_close()


def items_of(case: dict, field: str) -> list[str]:
    return [n + FIELDS[field] + pad + v for n, pad, v in case.get(field, [])]


def pairs_of(case: dict) -> dict:
    return {f: [[n, v] for n, _pad, v in case[f]] for f in FIELDS if case.get(f)}


def kv_env() -> dict:
    env = child_env({"NO_PROXY": "127.0.0.1,localhost", "no_proxy": "127.0.0.1,localhost", "PYTHONIOENCODING": "utf-8", "PYTHONUTF8": "1"})
    for k in list(env):
        if k.lower() in ("http_proxy", "https_proxy", "all_proxy"):
            env.pop(k)
    return env


def kv_argv(rn, case: dict) -> list[str]:
    argv: list[str] = []
    for f in FIELDS:
        if case.get(f):
            argv += [rn.tab[f]["flag"], *items_of(case, f)]
    return argv


def kv_raw_keys(case: dict) -> dict:
    return {f.replace("_", "-"): items_of(case, f) for f in FIELDS if case.get(f)}


def kv_run(rn, case: dict, way: str, url: str | None) -> dict:
    """one child process; `way`: cli | pyproject | keyword"""
    url_argv = ["--url", url] if url else []
    if way == "keyword":
        d = rn._dir(None)  # noqa: SLF001
        p = run_py(["-c", KV_KEYWORD_SCRIPT, json.dumps({"pairs": pairs_of(case), "url": url})], cwd=str(d), env=kv_env())
        return rn._collect(d, p)  # noqa: SLF001
    d = rn._dir(None, kv_raw_keys(case) if way == "pyproject" else None)  # noqa: SLF001
    argv = ["-m", "datamodel_code_generator", "--input", "s.json", "--output", "out.py", "--input-file-type", "jsonschema", "--disable-timestamp",
            *(kv_argv(rn, case) if way == "cli" else []), *url_argv]
    p = run_py(argv, cwd=str(d), env=kv_env())
    return rn._collect(d, p)  # noqa: SLF001


def kv_three_ways(rn, case: dict, loop: Loopback | None, token: str) -> dict:
    """the three ways of one case; against the loopback server they run one after the other so that what the
    server saw can be attributed"""
    if not case.get("url") or loop is None:
        res = pmap(lambda w: kv_run(rn, case, w, None), ["cli", "pyproject", "keyword"], workers=3)
        return dict(zip(("cli", "pyproject", "keyword"), res))
    out = {}
    for way in ("cli", "pyproject", "keyword"):
        loop.take(token)
        r = kv_run(rn, case, way, loop.url(token))
        r["seen"] = loop.take(token)
        out[way] = r
    return out


def kv_same(a: dict, b: dict) -> bool:
    return a["rc"] == b["rc"] and a["output"] == b["output"] and a.get("seen") == b.get("seen")


def interesting_headers(seen: list, case: dict) -> list:
    names = {n.lower() for n, _p, _v in case.get("http_headers", [])}
    return [[{"query": r["query"], "headers": [h for h in r["headers"] if h[0] in names]} for r in (seen or [])]]


def kv_judge(ck: Check, camp, rn, case: dict, res: dict) -> None:
    from . import c18 as base

    camp.evaluations += 3
    camp.hit("loopback-server" if case.get("url") else "local-file")
    for f, sep in FIELDS.items():
        for _n, pad, v in case.get(f, []):
            camp.hit(f"{f}:value-contains-the-separator" if sep in v else f"{f}:plain-value")
            if pad:
                camp.hit("blank-after-the-separator")
            if any(ord(c) > 127 for c in v):
                camp.hit("non-ascii-value")
            if '"' in v or "'" in v:
                camp.hit("quote-in-value")
    if any(r["timeout"] for r in res.values()):
        ck.infra_errors.append(f"timeout in kv three ways {case}")
        return
    c, p, k = res["cli"], res["pyproject"], res["keyword"]
    if case.get("url") and c["rc"] == 0 and c.get("seen"):
        camp.hit("server-received-the-request")
    camp.distinct.add(json.dumps(case, sort_keys=True))
    if kv_same(c, p) and kv_same(c, k):
        if len(camp.samples) < 3 and c["rc"] == 0:
            camp.samples.append({"case": case, "three_ways": "equal exit status, byte-identical output" + (", same request seen by the server" if case.get("url") else "")})
        return
    odd = "keyword" if kv_same(c, p) else "pyproject" if kv_same(c, k) else "cli" if kv_same(p, k) else "all"
    mech = "one-side-fails" if len({c["rc"], p["rc"], k["rc"]}) > 1 else "output-differs" if len({c["output"], p["output"], k["output"]}) > 1 else "request-differs"
    cls = {"oracle": "three_ways", "option": "+".join(f for f in FIELDS if case.get(f)), "value": json.dumps(pairs_of(case), ensure_ascii=True)[:200],
           "odd_one": odd, "mechanism": mech, "family": "value-carrying"}
    obs = f"cli: {base.describe(c)}; pyproject: {base.describe(p)}; keyword: {base.describe(k)}"
    if mech == "request-differs":
        obs += f"; the server saw cli={interesting_headers(c.get('seen'), case)} pyproject={interesting_headers(p.get('seen'), case)} keyword={interesting_headers(k.get('seen'), case)}"
    ck.fail(cls, {"kind": "kv", **case}, obs, "equal exit status, byte-identical output and the same request for the three ways")


# the family: names without the separator, values that contain it (and the other one), blanks, quotes, non-ASCII
def gen_value(rng, sep: str) -> str:
    host = rng.choice(["specs.example.com", "h", "127.0.0.1", "api.internal"])
    b64 = base64.b64encode(bytes(rng.range(1, 255) for _ in range(rng.choice([1, 2, 4, 5, 7])))).decode()
    shapes = {
        ":": [f"https://{host}:{rng.range(1, 65535)}/p/{rng.range(0, 99)}", f"{host}:{rng.range(1, 65535)}", f"{rng.range(0, 23):02d}:{rng.range(0, 59):02d}:{rng.range(0, 59):02d}",
              f"Sat, 29 Oct 1994 19:{rng.range(10, 59)}:31 GMT", "a:b:c", ":", "x::"],
        "=": [b64 if "=" in b64 else b64 + "=", "a=b", "k=v=w", "=", "x==", f"n={rng.range(0, 99)}&m=2"],
    }
    other = "=" if sep == ":" else ":"
    v = rng.choice(shapes[sep])
    extra = rng.choice(["", "", f" {rng.choice(shapes[other])}", ' "quoted text"', " it's", " café", " ß→日", "; q=0.5"])
    return v + extra


def gen_case(rng, url: bool, force: str | None = None) -> dict:
    case: dict = {"url": url}
    fields = [force] if force else rng.choice([["http_headers"], ["http_query_parameters"], ["http_headers", "http_query_parameters"]])
    for f in fields:
        sep = FIELDS[f]
        rows = []
        for i in range(rng.choice([1, 1, 2, 3])):
            name = (rng.choice(["X-Origin", "Referer", "X-Req-Id", "X-Since"]) if f == "http_headers" else rng.choice(["token", "ref", "q", "filter"])) + (str(i) if i else "")
            value = gen_value(rng, sep) if rng.chance(3, 4) else rng.choice(["plain", "Bearer abc", ""])
            if url and f == "http_headers":   # what an HTTP client will put on the wire
                value = "".join(c for c in value if ord(c) < 256)
            rows.append([name, rng.choice(["", " ", " ", "  ", "\t"]), value])
        case[f] = rows
    return case


ALWAYS = [   # one representative per stratum, built by the same generator shapes
    {"url": False, "http_headers": [["X-Schema-Origin", " ", "https://specs.example.com:8443/pets"], ["X-Plain", " ", "yes"]]},
    {"url": False, "http_query_parameters": [["token", "", "dG9rZW4tMQ=="], ["note", " ", "it's \"a=b\" café"]]},
]
ALWAYS_URL = [
    {"url": True, "http_headers": [["X-Origin", " ", "https://h:8443/p"], ["X-Since", "", "19:43:31 GMT; q=0.5"]],
     "http_query_parameters": [["token", "", "dG9rZQ=="], ["filter", " ", "a=b c"]]},
]


def campaign_kv_three_ways(ck: Check, rn, extra_cases: list[dict] | None = None, name: str | None = None, background: bool = False):
    """`background=True`: the child processes are collected in a thread (the three ways of a loopback case run one
    after the other, which would otherwise idle the pool); the returned callable joins and JUDGES (in the caller's
    thread, so that the order of recorded failures stays deterministic)."""
    from . import c18 as base

    camp = ck.campaign(name or "e2e: --http-headers / --http-query-parameters whose VALUE contains the separator, blanks, quotes, non-ASCII: "
                       "flag / pyproject.toml key / generate() keyword, on a local file and against a loopback server")
    t0 = time.time()
    rng = ck.rng.fork("kv-e2e")
    if extra_cases is not None:
        cases = extra_cases
    else:
        n_local, n_url = (0, 0) if ck.tier == "quick" else (16, 6)   # quick: the stratum representatives only
        cases = ALWAYS + ALWAYS_URL + [gen_case(rng, False) for _ in range(n_local)] + [gen_case(rng, True) for _ in range(n_url)]
    loop = None
    if any(c.get("url") for c in cases):
        try:
            loop = Loopback(json.dumps(base.DOC).encode())
        except OSError as e:
            camp.hit(f"loopback-server-unavailable:{type(e).__name__}")
            cases = [c for c in cases if not c.get("url")]
    box: dict = {}

    def collect() -> None:
        try:
            box["results"] = pmap(lambda ic: kv_three_ways(rn, ic[1], loop, f"c{ic[0]}"), list(enumerate(cases)), workers=6)
        except Exception as e:  # noqa: BLE001
            box["error"] = f"{type(e).__name__}: {e}"
        finally:
            if loop:
                loop.close()
            box["wall"] = time.time() - t0

    def finish() -> None:
        if "error" in box:
            ck.infra_errors.append("kv three ways: " + box["error"])
            return
        for case, res in zip(cases, box["results"]):
            kv_judge(ck, camp, rn, case, res)
        camp.wall_s = box["wall"]

    if not background:
        collect()
        finish()
        return None
    th = threading.Thread(target=collect, daemon=True)
    th.start()

    def join_and_finish() -> None:
        th.join()
        finish()

    return join_and_finish


# ---------------------------------------------------------------- (3) the same options through a history of main() calls
def campaign_kv_repeated(ck: Check, rn, camp) -> None:
    from . import c18_repeat

    case = ALWAYS_URL[0] | {"url": False}
    jobs = [lambda: c18_repeat.history(rn, {}, "pyproject", 3, raw_keys=kv_raw_keys(case)), lambda: kv_run(rn, case, "pyproject", None),
            lambda: kv_run(rn, case, "keyword", None)]
    hist, fresh, keyword = pmap(lambda f: f(), jobs, workers=3)
    c18_repeat.judge(ck, camp, rn, {}, "pyproject", hist, fresh, keyword, extra={k: v for k, v in case.items() if k in FIELDS})


def rerun_repeated(ck: Check, camp, rn, inp: dict) -> None:
    from . import c18_repeat

    case = {**inp["extra"], "url": False}
    mode, calls = inp["mode"], int(inp["calls"])
    hist = c18_repeat.history(rn, {}, mode, calls, raw_keys=kv_raw_keys(case), extra_argv=kv_argv(rn, case) if mode == "cli" else None)
    c18_repeat.judge(ck, camp, rn, {}, mode, hist, kv_run(rn, case, mode, None), kv_run(rn, case, "keyword", None), extra=inp["extra"])


# ---------------------------------------------------------------- search / replay
def search_kv(ck: Check) -> None:
    """after a model ↔ validator disagreement: the disagreeing items (as the model reads them) through the three-ways oracle,
    then the thorough family"""
    from . import c18 as base

    if not any(d.campaign.startswith("KeyValue.") for d in ck.disagreements) and not any(t.startswith("keyvalue_") for t in ck.broken):
        return   # nothing about the value-carrying options broke
    cases = []
    for d in ck.disagreements:
        inp = d.input if isinstance(d.input, dict) else {}
        f = inp.get("field")
        if f not in FIELDS or not isinstance(d.model, list):
            continue
        rows = []
        for item, (n, v) in zip(inp["items"], d.model):
            pad = item[len(n) + 1 : len(item) - len(v)] if item.endswith(v) else ""
            if n and not n.startswith("-") and n.isascii() and n.strip() == n and "\n" not in v and all(c.isprintable() and ord(c) < 0x10000 for c in n + pad.replace("\t", "") + v):
                rows.append([n, pad, v])
        if rows and not any(c.get(f) == rows for c in cases):
            cases.append({"url": False, f: rows})
        if len(cases) >= 6:
            break
    rn = base.Runner()
    try:
        if cases:
            campaign_kv_three_ways(ck, rn, cases, "search: items on which the Lean model and the real validators disagree, through the three-ways oracle")
        if not ck.failures:
            saved = ck.tier
            ck.tier = "thorough"
            try:
                campaign_kv_three_ways(ck, rn, None, "search: the value-carrying family (thorough) through the three-ways oracle")
            finally:
                ck.tier = saved
    finally:
        rn.close()


def rerun(ck: Check, camp, rn, inp: dict) -> None:
    from . import c18 as base

    case = {k: v for k, v in inp.items() if k in FIELDS or k == "url"}
    loop = None
    if case.get("url"):
        try:
            loop = Loopback(json.dumps(base.DOC).encode())
        except OSError:
            case["url"] = False
    try:
        res = kv_three_ways(rn, case, loop, "c0")
    finally:
        if loop:
            loop.close()
    kv_judge(ck, camp, rn, case, res)
