"""C05, cross-member independence: several members generated in ONE run — in the same class or in
different schemas of the same document, in every order. What the generator makes of a member
(required / nullable / default) must not depend on its siblings, so each member is compared with
what the model predicts from its own vector alone (ir / rendered shape / semantics) and the clauses
of C05 are evaluated for each member on the exec'd class, exactly as for a member that is alone."""
from __future__ import annotations

import itertools
import os
import time
from concurrent.futures import ProcessPoolExecutor

from .. import e2e
from ..runner import Check
from . import c05

LAYOUTS = ["same", "split"]  # members of one class / one member per schema of the same document
LETTER = "abcd"
KEYWORDS = ["class", "def", "for", "in"]


def names_of(v: dict, i: int, layout: str) -> tuple[str, str]:
    """(JSON name, Python name) of member i"""
    if layout == "split":
        return c05.JSON_NAME[v["name"]], c05.py_name(v)
    L = LETTER[i]
    nk = v["name"]
    if nk == "plain":
        return f"p{L}", f"p{L}"
    if nk == "alias":
        return f"al-{L}", f"al_{L}"
    if nk == "keyword":
        return KEYWORDS[i], KEYWORDS[i] + "_"
    return f"cm{L.upper()}x", (f"cm_{L}x" if v["opts"]["sc"] else f"cm{L.upper()}x")


def class_of(i: int, layout: str) -> str:
    return "M" if layout == "same" else f"M{LETTER[i].upper()}"


def build_group_doc(g: dict) -> tuple[dict, str]:
    vs, layout = g["vectors"], g["layout"]
    oa = vs[0]["nullsrc"].startswith("oa")
    schemas: dict = {}
    if layout == "same":
        props, req = {}, []
        for i, v in enumerate(vs):
            jn, _ = names_of(v, i, layout)
            props[jn] = c05.realise(v)["member"]
            if v["inreq"]:
                req.append(jn)
        obj: dict = {"type": "object", "properties": props}
        if req:
            obj["required"] = req
        schemas["M"] = obj
    else:
        for i, v in enumerate(vs):
            schemas[class_of(i, layout)] = c05.build_obj(v)
    if oa:
        return ({"openapi": "3.1.0" if g.get("oa31") else "3.0.3", "info": {"title": "t", "version": "1"}, "paths": {},
                 "components": {"schemas": schemas}}, "openapi")
    if layout == "same":
        return {"title": "M", **schemas["M"]}, "jsonschema"
    return ({"title": "Root", "type": "object",
             "properties": {f"r{LETTER[i]}": {"$ref": f"#/$defs/{name}"} for i, name in enumerate(schemas)},
             "$defs": schemas}, "jsonschema")


def run_group(g: dict) -> dict:
    """All members of the group through ONE run of the real generator; per member the same record as
    `c05.run_vector` (runs in a worker process)."""
    c05._install_capture()
    c05._captured.clear()
    vs = [c05.norm_vec(v) for v in g["vectors"]]
    g = {**g, "vectors": vs}
    layout = g["layout"]
    doc, ift = build_group_doc(g)
    r = e2e.run_generate(doc, input_file_type=ift, model=vs[0]["kind"], opts=c05.opts_of(vs[0]))
    if not r.ok:
        return {"error": f"{r.error_type}: {r.error_msg[:200]}", "hang": r.hang, "document": doc}
    reals = [c05.realise(v) for v in vs]
    names = [names_of(v, i, layout) for i, v in enumerate(vs)]
    members = []
    for i, v in enumerate(vs):
        cls = class_of(i, layout)
        jn, pn = names[i]
        try:
            ir = c05.ir_of_captured(cls, pn)
        except Exception as e:  # noqa: BLE001
            ir = f"error:{type(e).__name__}"
        try:
            sh = c05.observe(r.code, reals[i]["default"], v["dflt"] != "none", pn, jn, cls)
        except SyntaxError as e:
            return {"error": f"unparsable: {e}", "code": r.code, "document": doc}
        others = [(names[j][0], names[j][1], reals[j]["present"]) for j in range(len(vs)) if j != i] if layout == "same" else None
        sem = c05.semantics(r.code, v, reals[i], sh, cls, (jn, pn), others)
        members.append({"shape": c05.shape_str(sh), "sh": sh, "sem": sem, "ir": ir,
                        "line": c05.member_line(r.code, pn, jn, cls), "member": reals[i]["member"]})
    return {"members": members, "document": doc, "code": r.code}


def _worker(groups: list[dict]) -> list[dict]:
    import warnings

    warnings.simplefilter("ignore")
    return [run_group(g) for g in groups]


def run_groups(groups: list[dict]) -> list[dict]:
    if len(groups) < 30:
        return _worker(groups)
    n = max(1, min(14, (os.cpu_count() or 2) - 1))
    size = max(4, min(48, len(groups) // (n * 4) + 1))
    chunks = [groups[i : i + size] for i in range(0, len(groups), size)]
    with ProcessPoolExecutor(max_workers=n, initializer=c05._init_worker, initargs=(e2e.scratch_root(),)) as ex:
        return [x for c in ex.map(_worker, chunks) for x in c]


def group_key(g: dict) -> str:
    return g["layout"] + " [" + " ; ".join(c05.vec_key(c05.norm_vec(v)) for v in g["vectors"]) + "]"


def evaluate_group(ck: Check, camps: dict, g: dict, res: dict, models: list, record: bool = True) -> list[dict]:
    out = []
    gcamp = camps["group"]
    gcamp.evaluations += 1
    gcamp.distinct.add(group_key(g))
    gcamp.hit(f"layout:{g['layout']}")
    gcamp.hit(f"members:{len(g['vectors'])}")
    gcamp.hit(f"kind:{c05.KIND_TAG[g['vectors'][0]['kind']]}")
    if "error" in res:
        gcamp.hit("generator_error")
        if record:
            ck.fail({"clause": "generation", "kind": c05.KIND_TAG[g["vectors"][0]["kind"]], "mechanism": "generator_error", "model_predicts": False},
                    {"group": g, "document": res.get("document")}, res["error"])
        return out
    jts = [c05.realise(c05.norm_vec(v))["jtype"] for v in g["vectors"]]
    if len(set(jts)) < len(jts):
        gcamp.hit("same-primitive-type-twice")
    ns = [c05.clause_N(c05.norm_vec(v)) for v in g["vectors"]]
    if any(ns) and not all(ns):
        gcamp.hit("nullable-and-non-nullable-together")
    # all members of a run live in ONE module: when the model says that some member's rendering makes
    # the library refuse its class, the import fails and nothing can be observed for the others
    # (msgspec is read statically, member by member, so this does not apply to it)
    shared_module = g["vectors"][0]["kind"] != "msgspec.Struct"
    doomed = shared_module and any(m is not None and not m["sem"]["loads"] for m in models)
    for i, (v, r, m) in enumerate(zip(g["vectors"], res["members"], models)):
        if doomed and m is not None and m["sem"]["loads"]:
            gcamp.hit("member-not-observable:module-not-importable-because-of-a-sibling")
            if c05.sem_canon(r["sem"])["loads"]:
                ck.disagree(gcamp, {"group": g, "index": i, "document": res["document"]}, "the module cannot be imported", "the module was imported")
            continue
        extra = {"group": g, "index": i, "document": res["document"]}
        out += c05.evaluate(ck, camps, v, r, m, record=record, extra_inp=extra)
    if len(gcamp.samples) < 2:
        gcamp.samples.append({"group": group_key(g), "lines": [r["line"] for r in res["members"]]})
    return out


def run_batch(ck: Check, camps: dict, groups: list[dict]) -> None:
    t0 = time.time()
    results = run_groups(groups)
    flat = [c05.norm_vec(v) for g in groups for v in g["vectors"]]
    replies = [c05.parse_reply(x) for x in ck.driver.run([c05.driver_request(v) for v in flat])]
    k = 0
    for g, res in zip(groups, results):
        n = len(g["vectors"])
        evaluate_group(ck, camps, g, res, replies[k : k + n])
        k += n
    dt = time.time() - t0
    camps["group"].wall_s += dt


# ---------------------------------------------------------------- generators
def _share(vs: list[dict], bits: dict, kind: str) -> list[dict]:
    for v in vs:
        v["kind"] = kind
        v["opts"] = dict(bits)
        v["via"] = "own"
    return vs


def archetypes(dialect: str) -> list[tuple]:
    """(nullsrc, inreq, dflt) of the member shapes whose interaction is enumerated: plain / nullable in
    each way the dialect offers × required / optional / with default"""
    srcs = ["oa-no", "oa-flag", "oa-typelist"] if dialect == "oa" else ["js-no", "js-typelist"]
    return [(ns, r, d) for ns in srcs for r, d in ((True, "none"), (False, "none"), (False, "str"), (True, "null"))]


def pair_block(kinds=None, layouts=None, variants=(0,)) -> list[dict]:
    """small scope, complete: every ORDERED pair of scalar member archetypes of the SAME primitive type
    × dialect × strict-nullable × kind × layout (all other options off). `variants` picks the
    primitive type (string / integer / boolean)."""
    out = []
    for kind in kinds or c05.KINDS:
        for layout in layouts or LAYOUTS:
            for dialect in ("oa", "js"):
                arch = archetypes(dialect)
                for sn in (False, True):
                    for a, b in itertools.product(arch, repeat=2):
                        for var in variants:
                            vs = []
                            for ns, r, d in (a, b):
                                # default class "str" only exists for strings: other primitives use a truthy default
                                dd = d if d != "str" or var % 3 == 0 else "truthy"
                                vs.append(c05.mk_vec(kind, ns, r, dd, "scalar", 0, [0] * len(c05.OPT_TAG), variant=_variant_for(dd, var)))
                            bits = {t: False for t in c05.OPT_TAG}
                            bits["sn"] = sn
                            g = {"layout": layout, "vectors": _share(vs, bits, kind), "oa31": any(x[0] == "oa-typelist" for x in (a, b))}
                            if all(c05.valid(v) for v in g["vectors"]) and _same_type(g):
                                out.append(g)
    return out


def _variant_for(d: str, var: int) -> int:
    """the realisation index that gives primitive number `var` (0 string, 1 integer, 2 boolean) for default class d"""
    if d in ("none", "null"):
        return var % 3  # BASE["scalar"] = string, integer, boolean
    if d == "str":
        return 0
    if d == "truthy":
        return {1: 0, 2: 1}.get(var % 3, 0)  # REAL["truthy"] = integer 7, boolean True, integer -1
    return 0


def _same_type(g: dict) -> bool:
    return len({c05.realise(v)["jtype"] for v in g["vectors"]}) == 1


def random_groups(ck: Check, n: int) -> list[dict]:
    """2–3 members drawn independently (scalar / array / dict / union-typed), sharing kind, dialect and
    options; two thirds of the groups are biased to one primitive type; every group is run in ALL
    orders of its members."""
    rng = ck.rng.fork("groups")
    from . import c05_union

    out: list[dict] = []
    while len(out) < n:
        kind = rng.choice(c05.KINDS)
        dialect = rng.choice(["js", "oa"])
        layout = rng.choice(LAYOUTS)
        bits = {t: rng.chance(1, 4) for t in c05.OPT_TAG}
        bits["sn"] = rng.chance(1, 2)
        if bits["an"]:
            bits["fc"] = True
        size = rng.choice([2, 2, 3])
        common_var = rng.below(3) if rng.chance(2, 3) else None
        vs = []
        for i in range(size):
            if rng.chance(1, 5):
                v = c05.mk_uvec(kind, dialect, rng.chance(1, 2), rng.choice(["none", "none", "null", "str"]),
                                c05_union.draw_alts(rng, dialect), bits, comb=rng.choice(c05_union.COMBS))
            else:
                d = rng.choice(c05.DFLT if common_var is None else ["none", "none", "null", "falsy", "truthy", "str"])
                ty = rng.choice(c05.ty_of(d)) if common_var is None else "scalar"
                ns = rng.choice([x for x in c05.NULLSRC if x.startswith(dialect)])
                var = rng.below(6) if common_var is None else _variant_for(d, common_var)
                v = c05.mk_vec(kind, ns, rng.chance(1, 2), d, ty, rng.chance(1, 4) and ty != "object", [0] * len(c05.OPT_TAG), variant=var)
            v["name"] = rng.choice(c05.NAMES)
            vs.append(v)
        vs = _share(vs, bits, kind)
        if layout == "same" and sum(1 for v in vs if v["name"] == "keyword") > len(KEYWORDS):
            continue
        if not all(c05.valid(v) for v in vs):
            continue
        oa31 = dialect == "oa" and any(v["nullsrc"] == "oa-typelist" or any(a[0] in "nz" for a in v.get("alts") or []) for v in vs)
        for perm in itertools.permutations(range(size)):
            out.append({"layout": layout, "vectors": [dict(vs[i]) for i in perm], "oa31": oa31})
    return out
