"""C13 end to end: annotations of the module the REAL generator emits for a family of JSON Schema / OpenAPI 3.1
documents, in all 8 spellings ({use_union_operator} x {use_standard_collections} x {use_generic_container_types}).

The family: every way a schema says "this, or null" — `type: [T, "null"]` (null first / last, several types),
`anyOf` / `oneOf` with a `{"type": "null"}` member — over scalars, FREE-FORM objects / arrays (no properties / items /
additionalProperties: the shared type-map entries `Dict[str, Any]` / `List[Any]`), typed arrays and maps and
references; alone as a field (required or not), as an alternative of a union next to other types, and as the item /
value type of a container; for three model kinds.

What is checked on each document:
* stage 1 (the IR the real parser hands to the fields, captured at the end of `parse_raw()`): the parser-output
  invariant `anyContPlain` of `field_no_double_optional_partial` holds of every type tree (evaluated by the Lean
  driver) — correspondence;
* the annotation the emitted module carries for each field = `Model.Types.fieldTypeHint` of that tree and the
  field's settings — correspondence end to end;
* the hypotheses of the theorem on that tree and, where they hold, its conclusion on the REAL annotation;
* THE PROPERTY'S OWN ORACLE on the real annotations: each spelling is a balanced, parsable, evaluable expression
  without a doubly wrapped optional and with None at most once per union; all 8 spellings denote the same type; and
  MAKING A TYPE OPTIONAL KEEPS EVERY NON-None ALTERNATIVE: every field whose schema mentions null has a twin field
  in the same document whose schema is the same with exactly the null ingredients taken out (`"null"` removed from
  type lists, `{"type": "null"}` members removed from anyOf / oneOf, nothing else rewritten) — every alternative of
  the twin's annotation is an alternative of the field's annotation (None disregarded at every level; a bare `List`
  is `List[Any]`).  Whether None itself is present where the schema allows null is C05's matter, not this property's.
"""
from __future__ import annotations

import ast
import contextlib
import json
import time

from .. import e2e
from .. import typetrees as tt
from ..common import unhx
from ..runner import Check, match_finding
from . import c13 as base

KINDS = ["pydantic_v2.BaseModel", "pydantic.BaseModel", "dataclasses.dataclass", "typing.TypedDict"]
PRIMS = {"integer": "int", "string": "str", "number": "float", "boolean": "bool"}
FREE = {"object": "dict(str;Any)", "array": "list(Any)"}
NULL_STYLES = ["none", "list_last", "list_first", "anyof_null", "oneof_null", "null_anyof"]


# ---------------------------------------------------------------- the family
def with_null(schema: dict, style: str) -> dict:
    """the schema `schema` made nullable in one of the spellings"""
    if style == "none":
        return schema
    if style in ("list_last", "list_first") and isinstance(schema.get("type"), str):
        return {**schema, "type": [schema["type"], "null"] if style == "list_last" else ["null", schema["type"]]}
    if style == "null_anyof":
        return {"anyOf": [{"type": "null"}, schema]}
    return {"oneOf" if style == "oneof_null" else "anyOf": [schema, {"type": "null"}]}


def gen_type(rng, depth: int = 0, in_union: bool = False):
    """(schema, tags) of one type of the family"""
    r = rng.below(20)
    style = rng.choice(NULL_STYLES + ["list_last", "list_last", "none"])
    if depth >= 2:
        r = rng.below(9)
    if r < 4:
        t = rng.choice(sorted(FREE))
        return with_null({"type": t}, style), [f"free_{t}:{style}"]
    if r < 7:
        return with_null({"type": rng.choice(sorted(PRIMS))}, style), [f"scalar:{style}"]
    if r == 7:
        s = {"$ref": "#/definitions/Pet"}
        if style != "none":
            s = with_null(s, style if style in ("oneof_null", "null_anyof") else "anyof_null")
        return s, [f"ref:{'none' if style == 'none' else 'combined_null'}"]
    if r == 8:
        pool = sorted(PRIMS) + sorted(FREE)
        ts = []
        for _ in range(rng.range(1, 3)):
            t = rng.choice(pool)
            if t not in ts:
                ts.append(t)
        null = rng.chance(2, 3)
        types = ts + ["null"] if null else ts
        if null and rng.chance(1, 3):
            types = ["null"] + ts
        return {"type": types}, [f"type_list:{len(ts)}{'+null' if null else ''}"]
    if r in (9, 10, 11):
        inner, tags = gen_type(rng, depth + 1)
        return with_null({"type": "array", "items": inner}, style), tags + [f"items_of_array:{style}"]
    if r in (12, 13):
        inner, tags = gen_type(rng, depth + 1)
        return with_null({"type": "object", "additionalProperties": inner}, style), tags + [f"values_of_map:{style}"]
    if r == 14 and not in_union:
        return {}, ["any"]
    # a union of 2-3 alternatives, possibly with an explicit null member
    key = rng.choice(["anyOf", "anyOf", "oneOf"])
    members, tags = [], []
    for _ in range(rng.range(2, 3)):
        s, tg = gen_type(rng, depth + 1, in_union=True)
        members.append(s)
        tags += tg
    if rng.chance(1, 4):
        members.insert(rng.below(len(members) + 1), {"type": "null"})
    return {key: members}, tags + [f"union:{key}"]


def systematic():
    """every leaf of the family in every nullable spelling: alone, next to each other kind of alternative (either
    order, anyOf / oneOf), as item, as value — as (schema, tags)"""
    leaves = []
    for t in list(FREE) + ["string", "integer"]:
        for style in NULL_STYLES:
            leaves.append((with_null({"type": t}, style), [("free_" + t if t in FREE else "scalar") + ":" + style]))
    for ts in (["object"], ["array"], ["object", "array"], ["object", "string"], ["array", "integer", "string"]):
        for null in (False, True):
            leaves.append(({"type": ts + ["null"] if null else ts}, [f"type_list:{len(ts)}{'+null' if null else ''}"]))
    out = list(leaves)
    others = [{"type": "string"}, {"type": "object"}, {"type": ["integer", "null"]}, {"$ref": "#/definitions/Pet"}]
    for s, tags in leaves:
        for k, o in enumerate(others):
            key = "anyOf" if k % 2 == 0 else "oneOf"
            out.append(({key: [s, o] if k < 2 else [o, s]}, tags + [f"union:{key}"]))
        out.append(({"type": "array", "items": s}, tags + ["items_of_array:none"]))
        out.append(({"type": ["array", "null"], "items": s}, tags + ["items_of_array:list_last"]))
        out.append(({"type": "object", "additionalProperties": s}, tags + ["values_of_map:none"]))
    return out


def de_null(s):
    """the schema with exactly its null ingredients taken out (type lists stay lists, combinators stay combinators),
    or None when a type list / combinator would be left empty; (schema, changed)"""
    if not isinstance(s, dict):
        return s, False
    out, changed = dict(s), False
    if isinstance(s.get("type"), list):
        ts = [t for t in s["type"] if t != "null"]
        if len(ts) != len(s["type"]):
            changed = True
            if not ts:
                return None, True
            out["type"] = ts
    for key in ("anyOf", "oneOf"):
        if key in s:
            ms = []
            for m in s[key]:
                if m == {"type": "null"}:
                    changed = True
                    continue
                m2, c = de_null(m)
                if m2 is None:
                    return None, True
                changed = changed or c
                ms.append(m2)
            if not ms:
                return None, True
            out[key] = ms
    for key in ("items", "additionalProperties"):
        if isinstance(s.get(key), dict):
            m2, c = de_null(s[key])
            if m2 is None:
                return None, True
            changed = changed or c
            out[key] = m2
    return out, changed


def alts_erased(tp) -> frozenset:
    """the non-None alternatives of an evaluated hint, None disregarded at every level, a bare container = of Any"""
    alts, _ = _alts_types(tp)
    return frozenset(_one_erased(a) for a in alts)


def _alts_types(tp):
    import types as pytypes
    import typing

    if tp is None or tp is type(None):
        return [], True
    origin = typing.get_origin(tp)
    if origin is typing.Union or origin is pytypes.UnionType:
        out, n = [], False
        for a in typing.get_args(tp):
            x, m = _alts_types(a)
            out += x
            n = n or m
        return out, n
    return [tp], False


def _nf_erased(tp) -> str:
    alts = sorted(alts_erased(tp))
    return alts[0] if len(alts) == 1 else "{" + ";".join(alts) + "}"


def _one_erased(tp) -> str:
    import typing

    origin = typing.get_origin(tp)
    if origin is typing.Literal:
        return "Literal(" + ";".join(sorted(repr(a) for a in typing.get_args(tp))) + ")"
    h = base._head(origin) or base._head(tp)
    if h is not None:
        args = [_nf_erased(a) for a in typing.get_args(tp)]
        if not args and h in ("list", "set"):
            args = ["Any"]
        return h + "(" + ";".join(args) + ")"
    if tp is typing.Any:
        return "Any"
    if origin is not None:
        return getattr(origin, "__name__", str(origin)) + "(" + ";".join(_nf_erased(a) for a in typing.get_args(tp)) + ")"
    return getattr(tp, "__name__", None) or getattr(tp, "_name", None) or str(tp)


def make_doc(fields: list, input_type: str):
    """fields: [(schema, tags, required)] -> (document, {field name: {schema, tags, required, twin}})"""
    pet = {"type": "object", "properties": {"n": {"type": "integer"}}}
    props, req, meta = {}, [], {}  # a twin is named <field>n
    for i, (s, tags, required) in enumerate(fields):
        name = f"f{i}"
        props[name] = s
        if required:
            req.append(name)
        meta[name] = {"tags": tags, "required": required, "schema": s, "twin": None}
        tw, changed = de_null(s)
        if changed and tw is not None:
            props[name + "n"] = tw
            if required:
                req.append(name + "n")
            meta[name]["twin"] = name + "n"
            meta[name + "n"] = {"tags": ["twin"], "required": required, "schema": tw, "twin": None}
    model = {"title": "Model", "type": "object", "properties": props, "required": req}
    if input_type == "openapi":
        text = json.dumps({"openapi": "3.1.0", "info": {"title": "t", "version": "1"}, "paths": {},
                           "components": {"schemas": {"Pet": pet, "Model": model}}})
        return json.loads(text.replace("#/definitions/", "#/components/schemas/")), meta
    return {"$schema": "http://json-schema.org/draft-07/schema#", **model, "definitions": {"Pet": pet}}, meta


# ---------------------------------------------------------------- the real side
def describe(dt):
    """the description (vlib.typetrees) of a real DataType as the parser left it, or None when it uses what the
    model leaves out (call syntax, alias)"""
    if dt.kwargs or dt.is_func or getattr(dt, "alias", None):
        return None
    ref = None
    if dt.reference is not None:
        from datamodel_code_generator.types import Nullable

        src = dt.reference.source
        ref = {"name": dt.reference.name, "nullable": bool(isinstance(src, Nullable) and src.nullable)}
    imp = None
    if dt.import_ is not None:
        imp = {"from": dt.import_.from_, "name": dt.import_.import_, "alias": dt.import_.alias}
    key = None
    if dt.dict_key is not None:
        key = describe(dt.dict_key)
        if key is None:
            return None
    kids = [describe(k) for k in dt.data_types]
    if any(k is None for k in kids):
        return None
    return tt.node(ty=dt.type or "", ref=ref, opt=bool(dt.is_optional), dict_=bool(dt.is_dict), list_=bool(dt.is_list), set_=bool(dt.is_set),
                   custom=bool(dt.is_custom_type), lits=list(dt.literals), imp=imp, key=key, kids=kids)


@contextlib.contextmanager
def capture_stage1(store: dict):
    """records, at the end of the real `parse_raw()`, the type tree and the field settings of every member of class
    `Model` (wrapping from outside, restored afterwards; nothing in /repo is touched)"""
    from datamodel_code_generator.parser.jsonschema import JsonSchemaParser
    from datamodel_code_generator.parser.openapi import OpenAPIParser

    saved = []
    for cls in (JsonSchemaParser, OpenAPIParser):
        orig = cls.__dict__.get("parse_raw")
        if orig is None:
            continue

        def wrapped(self, _orig=orig):
            _orig(self)
            for m in self.results:
                if m.class_name != "Model":
                    continue
                for f in m.fields:
                    try:
                        d = describe(f.data_type)
                    except Exception:  # noqa: BLE001
                        d = None
                    store[f.original_name or f.name] = {
                        "tree": d,
                        "bits": {"default_factory": bool(f.has_default_factory), "nullable": f.nullable, "required": bool(f.required),
                                 "type_has_null": None if f.type_has_null is None else bool(f.type_has_null)},
                    }

        saved.append((cls, orig))
        cls.parse_raw = wrapped
    try:
        yield
    finally:
        for cls, orig in saved:
            cls.parse_raw = orig


def annotations_of(code: str) -> dict[str, str]:
    out = {}
    mod = ast.parse(code)
    for node in mod.body:
        if isinstance(node, ast.ClassDef) and node.name == "Model":
            for st in node.body:
                if isinstance(st, ast.AnnAssign) and isinstance(st.target, ast.Name):
                    out[st.target.id] = ast.get_source_segment(code, st.annotation)
    return out


def run_real(doc, input_type: str, kind: str):
    """per option vector: ({field: annotation}, {field: stage-1 record}) or an error token"""
    res = {}
    for o in tt.OPTION_VECTORS:
        store: dict = {}
        with capture_stage1(store):
            r = e2e.run_generate(doc, input_file_type=input_type, model=kind,
                                 opts={"use_union_operator": o[0], "use_standard_collections": o[1], "use_generic_container_types": o[2]})
        if not r.ok:
            res[o] = ("error", r.error_type + ": " + r.error_msg)
            continue
        try:
            res[o] = (annotations_of(r.code), store)
        except SyntaxError as e:
            res[o] = ("syntax", f"{e}")
    return res


def strip_not_required(h: str) -> tuple[str, bool]:
    if h.startswith("NotRequired[") and h.endswith("]"):
        return h[len("NotRequired["):-1], True
    return h, False


# ---------------------------------------------------------------- the oracle on one document
class Camps:
    def __init__(self, ck: Check, label: str = "") -> None:
        sfx = f" [{label}]" if label else ""
        self.inv = ck.campaign("stage 1 of the real JSON Schema / OpenAPI parser: anyContPlain (a type-map container of Any is never itself optional) on every type tree handed to a field" + sfx)
        self.tie = ck.campaign("end to end: types.field on the parser's tree and field settings vs the annotation in the emitted module (8 spellings, 4 model kinds)" + sfx)
        self.thm = ck.campaign("field_no_double_optional_partial: hypotheses on the parser's tree (wfTree, anyContPlain, optRegion) and conclusion on the REAL annotation; noDbl vs the oracle's substring test" + sfx)
        self.orc = ck.campaign("oracle on the emitted annotations: well-formed, no Optional[Optional[, None once, same type in all 8 spellings, and the nullable schema keeps every alternative of its twin without null" + sfx)


def bits_sx(bits: dict, kind: str) -> str:
    fall_back = not (kind == "typing.TypedDict" and not bits["required"])
    nl = "-" if bits["nullable"] is None else ("1" if bits["nullable"] else "0")
    return f"({1 if bits['default_factory'] else 0} {nl} {1 if bits['required'] else 0} {1 if bits['type_has_null'] else 0} {1 if fall_back else 0})"


def judge_doc(ck: Check, cs: Camps, doc, meta: dict, input_type: str, kind: str, stream: str) -> None:
    real = run_real(doc, input_type, kind)
    inp0 = {"document": doc, "input_file_type": input_type, "model_kind": kind}
    for o, r in real.items():
        if r[0] in ("error", "syntax"):
            # C01's matter unless the annotation itself is the reason: reported by the oracle below per field when it parses
            cs.orc.hit(f"generate:{r[0]}")
            cs.orc.unmodelled += 1
            if r[0] == "syntax":
                ck.fail({"oracle": "hint", "level": "document", "mechanism": "unparsable", "spelling": "operator" if o[0] else "typing", "trigger": "module"},
                        {**inp0, "opts": list(o)}, f"the emitted module is not valid Python: {r[1]}")
            return
    # ---- model side, one batch for the document
    reqs, slots = [], []
    for name in meta:
        for o in tt.OPTION_VECTORS:
            rec = real[o][1].get(name)
            if rec is None or rec["tree"] is None:
                continue
            s = tt.sx(rec["tree"])
            reqs += [f"types.inv {s}", f"types.field {tt.opt_bits(o)} {bits_sx(rec['bits'], kind)} {s}",
                     f"types.fieldinv {tt.opt_bits(o)} {bits_sx(rec['bits'], kind)} {s}"]
            slots.append((name, o))
    reps = ck.driver.run(reqs)
    model = {slot: reps[3 * i: 3 * i + 3] for i, slot in enumerate(slots)}
    for name, m in meta.items():
        anns, trees = {}, {}
        for o in tt.OPTION_VECTORS:
            a = real[o][0].get(name)
            if a is None:
                cs.orc.hit("field_missing")
                continue
            anns[o], _ = strip_not_required(a)
            rec = real[o][1].get(name)
            if rec is not None and rec["tree"] is not None:
                trees[o] = rec
        inp = {**inp0, "field": name, "schema_of_field": m["schema"]}
        # ---- correspondence and theorem instance per spelling
        for o, rec in trees.items():
            r_inv, r_field, r_finv = model[(name, o)]
            d = rec["tree"]
            cs.inv.evaluations += 1
            for t in m["tags"]:
                cs.inv.hit("family:" + t)
            if r_inv.startswith("ok "):
                raw = r_inv.split(" ")[1]
                cs.inv.hit("anyContPlain:" + raw)
                if any(n["ty"] == "Any" and (n["dict"] or n["list"] or n["set"]) for n in tt.walk(d)):
                    cs.inv.hit("tree has a container of Any")
                    cs.inv.distinct.add(json.dumps(d, sort_keys=True, default=str))
                if raw != "1":
                    ck.disagree(cs.inv, {**inp, "opts": list(o), "tree": d, "invariant": "anyContPlain"},
                                "every type the parser hands to a field satisfies anyContPlain", "the tree does not")
                elif len(cs.inv.samples) < 2 and tt.size(d) > 1:
                    cs.inv.samples.append({"schema_of_field": m["schema"], "tree": d})
            else:
                ck.disagree(cs.inv, {**inp, "tree": d}, r_inv, "types.inv reply")
            if o in anns:
                cs.tie.evaluations += 1
                cs.tie.hit("kind:" + kind)
                cs.tie.hit("stream:" + stream)
                mh = unhx(r_field.split(" ")[1]) if r_field.startswith("ok ") else r_field
                cs.tie.distinct.add((json.dumps(d, sort_keys=True, default=str), o, json.dumps(rec["bits"], sort_keys=True), kind == "typing.TypedDict"))
                if mh != anns[o]:
                    ck.disagree(cs.tie, {**inp, "opts": list(o), "tree": d, "field_bits": rec["bits"]}, mh, anns[o])
                elif len(cs.tie.samples) < 3 and tt.size(d) > 2:
                    cs.tie.samples.append({"schema_of_field": m["schema"], "opts": list(o), "annotation": anns[o]})
                if r_finv.startswith("ok "):
                    _, hyp, pe, nd, _ = r_finv.split(" ")
                    cs.thm.evaluations += 1
                    dbl = "Optional[Optional[" in anns[o]
                    if hyp[0] == "1" and (nd == "1") == dbl and unhx(pe) == anns[o]:
                        ck.disagree(cs.thm, {**inp, "opts": list(o), "tree": d, "what": "noDbl (Lean) vs 'Optional[Optional[' in the real annotation"}, nd == "1", not dbl)
                    if not o[0]:
                        if hyp == "111":
                            cs.thm.hit("inside: wfTree, anyContPlain, optRegion")
                            cs.thm.distinct.add((json.dumps(d, sort_keys=True, default=str), o[1], o[2], json.dumps(rec["bits"], sort_keys=True)))
                            if dbl:
                                ck.disagree(cs.thm, {**inp, "opts": list(o), "tree": d, "field_bits": rec["bits"], "theorem": "field_no_double_optional_partial"},
                                            "no Optional[Optional[ in the annotation", anns[o])
                        else:
                            cs.thm.hit("outside:" + ("" if hyp[0] == "1" else " not wfTree") + ("" if hyp[1] == "1" else " not anyContPlain") + ("" if hyp[2] == "1" else " not optRegion (C13-F2)"))
                            cs.thm.hit("outside:real annotation has a double Optional" if dbl else "outside:real annotation has none")
        # ---- the property's own oracle
        if anns:
            twin = None
            if m["twin"] is not None:
                twin = {o: strip_not_required(real[o][0][m["twin"]])[0] for o in anns if m["twin"] in real[o][0]}
            oracle_field(ck, cs.orc, inp, m, anns, {o: rec["tree"] for o, rec in trees.items()}, twin)


def oracle_field(ck: Check, camp, inp: dict, m: dict, anns: dict, trees: dict, twin: dict | None) -> bool:
    """the property on the annotations of one field in the (up to) 8 spellings (`twin`: the annotations of the field
    whose schema is the same without its null ingredients); True when something NEW failed"""
    camp.evaluations += 1
    for t in m["tags"]:
        camp.hit("family:" + t)
    camp.hit("required" if m["required"] else "not_required")
    new = [False]
    clean = [True]

    def fail(mech: str, o, observed: str, extra: dict | None = None) -> None:
        clean[0] = False
        d = trees.get(o)
        trig = base.triggers(d) if d is not None else ["no_tree"]
        if mech in ("double_optional", "none_twice") and "optional_inside_union_or_optional" in trig:
            t = "optional_inside_union_or_optional"
        elif mech in ("spelling_differs", "denotation_differs") and "optional_member_of_container_union" in trig:
            t = "optional_member_of_container_union"
        else:
            t = ([x for x in trig if x not in ("union_of_only_none", "literal_special")] or trig)[0]
        cls = {"oracle": "hint", "level": "document", "mechanism": mech, "spelling": "operator" if o[0] else "typing", "trigger": t, "triggers": trig}
        if ck.fail(cls, {**inp, "opts": list(o), "annotation": anns[o], "annotations": {tt.opt_bits(k): v for k, v in anns.items()},
                         "tree_from_parser": d, **(extra or {})}, observed):
            new[0] = True

    nfs = {}
    for o, h in anns.items():
        mech, val = base.check_one(h, None)
        if mech is not None:
            fail(mech, o, val)
            if mech not in ("double_optional", "none_twice"):
                continue
            try:  # a doubled None does not hide what the annotation denotes
                val = base.nf(base.eval_hint(h))
            except Exception:  # noqa: BLE001
                continue
        nfs[o] = val
        # making a type optional keeps every non-None alternative
        if twin is not None and o in twin:
            camp.hit("checked:optional_keeps_alternatives")
            try:
                mine, theirs = alts_erased(base.eval_hint(h)), alts_erased(base.eval_hint(twin[o]))
            except Exception:  # noqa: BLE001  (the twin is a field of its own: reported there)
                continue
            lost = sorted(theirs - mine)
            if lost and "Any" not in mine:
                fail("alternative_lost", o, f"{h!r} lacks the alternatives {lost} of {twin[o]!r}, the annotation of the same schema without its null ingredients",
                     {"twin_field": m["twin"], "twin_annotation": twin[o]})
    if len(set(nfs.values())) > 1:
        o0 = next(iter(nfs))
        for o, v in nfs.items():
            if v != nfs[o0]:
                fail("spelling_differs", o, f"{anns[o]!r} denotes {v} but {anns[o0]!r} denotes {nfs[o0]}")
                break
    if clean[0]:
        camp.distinct.add(json.dumps([inp["schema_of_field"], m["required"], inp["model_kind"]], sort_keys=True))
        if len(camp.samples) < 3 and len(m["tags"]) > 1 and twin:
            o0 = next(iter(anns))
            camp.samples.append({"schema_of_field": inp["schema_of_field"], "required": m["required"], "annotation": anns[o0], "twin_annotation": twin.get(o0)})
    return new[0]


# ---------------------------------------------------------------- campaigns
def doc_stream(ck: Check, n_random: int, fork: str = "e2e"):
    rng = ck.rng.fork(fork)
    sysl = systematic()
    per = 10
    k = 0
    for i in range(0, len(sysl), per):
        fields = [(s, tags, (j + k) % 2 == 0) for j, (s, tags) in enumerate(sysl[i: i + per])]
        k += 1
        yield "systematic", fields, "jsonschema" if k % 4 else "openapi", KINDS[k % len(KINDS)] if k % 3 == 0 else KINDS[0]
    for _ in range(n_random):
        fields = []
        for _ in range(rng.range(3, 7)):
            s, tags = gen_type(rng)
            fields.append((s, tags, rng.chance(1, 2)))
        yield "random", fields, "openapi" if rng.chance(1, 4) else "jsonschema", rng.choice(KINDS + [KINDS[0]] * 2)


def campaign_e2e(ck: Check, n_random: int, fork: str = "e2e", label: str = "") -> None:
    """`label` non-empty = the failing-input search (a broken obligation / correspondence without an oracle failure):
    more documents of the family through the same oracle, stopping at the first new failure"""
    cs = Camps(ck, label)
    t0 = time.time()
    for stream, fields, input_type, kind in doc_stream(ck, n_random, fork):
        if label and (stream == "systematic" or ck.failures):
            continue
        doc, meta = make_doc(fields, input_type)
        judge_doc(ck, cs, doc, meta, input_type, kind, stream)
    cs.orc.wall_s = time.time() - t0
    ck.notes["e2e: theorem coverage on the parser's trees" + (f" [{label}]" if label else "")] = {k: v for k, v in sorted(cs.thm.distribution.items())}


def replay_document(ck: Check, inp: dict) -> None:
    """re-run everything on the document of a replay file (all fields, all 8 spellings)"""
    doc = inp["document"]
    input_type, kind = inp.get("input_file_type", "jsonschema"), inp.get("model_kind", KINDS[0])
    model = doc["components"]["schemas"]["Model"] if input_type == "openapi" else doc
    props, req = model["properties"], model.get("required", [])
    meta = {}
    for name, s in props.items():
        tw = name + "n" if not name.endswith("n") and name + "n" in props else None
        meta[name] = {"tags": ["replay"], "required": name in req, "schema": s, "twin": tw}
    judge_doc(ck, Camps(ck, "replay"), doc, meta, input_type, kind, "replay")
