"""C04 — unions of constrained-type CALLS (`Union[conint(ge=0, le=100), conint(…)]`) behind `get_optional_type`.

Three lines of defence, all driven by one description of the family (`vlib/semfam_calls.CallUnion`):
  1. correspondence: `Dcg.Model.Types.removeNone` / `getOptionalType` (Lean, character level) and the theorem-level
     prediction `mkText (keep ms).flatten` of `C04.union_call_fragments_kept_partial` vs the real
     `types._remove_none_from_union` / `get_optional_type` on the hints the generator renders for the family
     (+ a malformed stream);
  2. end to end, always run: the documents of the family under C04's own oracle (boundary instance per keyword per
     member rejected, every keyword of every member reported), both styles;
  3. search hook: every disagreeing hint of (1) is embedded — alone — into a complete document and judged by the oracle.
"""
from __future__ import annotations

import time
from typing import Any

from .. import semfam_calls as fc
from .. import semgen
from ..common import hx, unhx
from ..runner import Check

STYLES = ("v1", "v2")


def _frags(call: str) -> list[str]:
    return call.split(", ")


def _members_sx(members: list[list[str]]) -> str:
    return "(" + " ".join("(" + " ".join(hx(f) for f in m) + ")" for m in members) + ")"


def _hint_cases(ck: Check, n: int) -> list[tuple[str, Any, fc.CallUnion | None, str]]:
    """(kind, payload, union description or None, style) — kind `members`: payload = list of fragment lists;
    kind `raw`: payload = the hint text"""
    rng = ck.rng.fork("call-hints")
    off = rng.below(360)
    cases: list[tuple[str, Any, fc.CallUnion | None, str]] = []
    for i in range(n):
        r = rng.fork(str(i))
        u = fc.call_union(r, off + i, d33=(i % 6 == 5))
        u.null_at = [None, 0, 1, len(u.members)][i % 4]
        for st in STYLES if i % 2 == 0 else ("v2",):
            ms = [_frags(u.call(j, st)) for j in range(len(u.members))]
            if u.null_at is not None:
                ms.insert(min(u.null_at, len(ms)), ["None"])
            cases.append(("members", ms, u, st))
            # the malformed / out-of-region stream, derived from the same union
            k = r.below(8)
            text = u.hint(st)
            if k == 0:
                cases.append(("members", ms + [ms[0]], None, st))  # the same member twice
            elif k == 1:
                cases.append(("raw", text.replace(", ", ",", 1), None, st))
            elif k == 2:
                cases.append(("raw", text.replace(", ", " ,  ", 2), None, st))
            elif k == 3:
                cases.append(("members", [ms[0], ["Union[" + ", ".join(", ".join(m) for m in ms[1:]) + "]"]], None, st))  # nested union
            elif k == 4:
                cases.append(("members", [[*ms[0][:1], "None", *ms[0][1:]], *ms[1:]], None, st))  # a fragment `None` inside a call
            elif k == 5:
                cases.append(("raw", text[:-1], None, st))
            elif k == 6:
                cases.append(("members", [["List[" + ", ".join(ms[0]) + "]"], *ms[1:]], None, st))  # a call inside square brackets
            else:
                cases.append(("members", [m for m in ms if m != ["None"]][:1] + [["None"]], None, st))  # one call and None
    return cases


def campaign_call_hints(ck: Check, n: int) -> None:
    from datamodel_code_generator.types import _remove_none_from_union, get_optional_type

    camp = ck.campaign("types.callunion / types.rmnone / types.getopt (Model.Types.removeNone, getOptionalType; prediction of union_call_fragments_kept_partial) vs types._remove_none_from_union / get_optional_type on call-syntax hints of the constrained-union family")
    t0 = time.time()
    cases = _hint_cases(ck, n)
    reqs = []
    for kind, payload, _u, _st in cases:
        if kind == "members":
            reqs.append(f"types.callunion {_members_sx(payload)}")
        else:
            reqs.append(f"types.rmnone 0 {hx(payload)}")
            reqs.append(f"types.getopt 0 {hx(payload)}")
    reps = iter(ck.driver.run(reqs))
    pending = ck.__dict__.setdefault("_c04_call_disagreements", [])
    for kind, payload, u, st in cases:
        camp.evaluations += 1
        if kind == "members":
            rep = next(reps)
            if not rep.startswith("ok "):
                ck.infra_errors.append(f"driver reply {rep!r} for types.callunion")
                continue
            _, region, text, m_rm, m_opt, pred = rep.split(" ")
            text, m_rm, m_opt, pred = unhx(text), unhx(m_rm), unhx(m_opt), unhx(pred)
            in_region = region == "1"
        else:
            text = payload
            m_rm, m_opt = unhx(next(reps).split(" ")[1]), unhx(next(reps).split(" ")[1])
            in_region, pred = False, None
        try:
            r_rm = _remove_none_from_union(text, use_union_operator=False)
            r_opt = get_optional_type(text, False)
        except Exception as e:  # noqa: BLE001
            r_rm = r_opt = f"!{type(e).__name__}"
        camp.hit("in_region" if in_region else "outside_region")
        camp.hit(f"style:{st}")
        if u is not None:
            for f in u.feats:
                camp.hit(f)
        camp.distinct.add(text)
        bad = False
        if (m_rm, m_opt) != (r_rm, r_opt):
            ck.disagree(camp, {"hint": text, "style": st}, {"remove_none": m_rm, "get_optional_type": m_opt}, {"remove_none": r_rm, "get_optional_type": r_opt})
            bad = True
        elif in_region and pred != r_rm:
            ck.disagree(camp, {"hint": text, "style": st, "what": "every fragment of every member that is not None, once, in order"}, pred, r_rm)
            bad = True
        elif len(camp.samples) < 3 and in_region and u is not None and u.null_at is not None:
            camp.samples.append({"hint": text, "remove_none": r_rm})
        if bad and u is not None:
            pending.append((u, st))
    camp.wall_s = time.time() - t0


def _run_doc(ck: Check, camp, doc: dict, insts: list, muts: list, styles=STYLES, routings=("contype",)) -> bool:
    """C04's oracle on the document; True when some build failed"""
    from . import c04

    before = camp.distribution.get("build_failed", 0)
    for st in styles:
        for r in routings:
            c04.oracle_doc(ck, camp, doc, st, r, insts, muts)
    return camp.distribution.get("build_failed", 0) > before


def campaign_call_unions(ck: Check, n: int, per_doc: int = 4) -> None:
    camp = ck.campaign("e2e oracle, family: anyOf/oneOf of 2-3 constrained members of one kind (conint / confloat / constr calls) with PARTLY EQUAL keyword arguments (shared keyword first / middle / last in the call, shared by every subset of the members) × optional / nullable member (null first / middle / last) × patterns with commas and brackets: boundary instance per keyword per member rejected, every keyword of every member reported")
    t0 = time.time()
    rng = ck.rng.fork("fam-calls")
    off = rng.below(90)
    for i in range(n):
        r = rng.fork(str(i))
        doc, insts, muts, feats, us = fc.call_union_doc(r, off + i, per_doc)
        for f in feats:
            if f.startswith("call_place:"):
                camp.hit(f"feature:{f}")
        for u in us:  # per union, not per document
            for f in u.feats:
                camp.hit(f"feature:{f}")
        for m in muts:
            camp.hit(f"boundary:{m.keyword}@member{m.leaf.get('call_member')}of{m.leaf.get('call_members')}")
        if not muts:
            ck.infra_errors.append(f"call-union document {off + i} yields no confirmed boundary instance")
        if i % 4 == 0:
            # the hint texts the correspondence campaign feeds to the splitter are the ones the generator writes
            from .. import semrun

            for st in STYLES:
                b = semrun.build(doc, st, semrun.ROUTING_OPTS["contype"])
                for u in us:
                    seen = b.ok and u.hint(st, with_none=False) in b.code
                    camp.hit("hint_text_as_generated" if seen else "hint_text_not_as_generated")
                    if not seen:
                        camp.unmodelled += 1
                b.close()
        routings = ("contype", "field") if i % 4 == 0 else ("contype",)
        failed = _run_doc(ck, camp, doc, insts, muts, routings=routings)
        if failed:
            # a module that cannot be built is not C04's topic, but it must not hide the other members of the document:
            # every union again, alone in its own document
            camp.hit("split_after_build_failure")
            for k, u in enumerate(us):
                d1, i1, m1, _f = fc.embed([(u, fc.PLACES[(k + i) % len(fc.PLACES)])])
                _run_doc(ck, camp, d1, i1, m1)
    camp.wall_s = time.time() - t0


def search_call_unions(ck: Check) -> None:
    """disagreeing hints of the correspondence → the union that produced them, alone in a complete document, under
    C04's oracle; then the family at large with one union per document"""
    from ..runner import match_finding

    camp = ck.campaign("search: disagreeing call-syntax hints embedded into complete documents, then the constrained-union family one union per document")

    def new_failure() -> bool:
        return any(match_finding(ck.findings, f.classification) is None for f in ck.failures)

    for u, st in ck.__dict__.get("_c04_call_disagreements", [])[:40]:
        for place in ("optional", "optional_nullable"):
            doc, insts, muts, _f = fc.embed([(u, place)])
            _run_doc(ck, camp, doc, insts, muts, styles=(st,))
        if new_failure():
            return
    rng = ck.rng.fork("search-calls")
    for i in range(240):
        u = fc.call_union(rng.fork(str(i)), i)
        doc, insts, muts, _f = fc.embed([(u, fc.PLACES[i % len(fc.PLACES)])])
        _run_doc(ck, camp, doc, insts, muts)
        if new_failure():
            return


def run(ck: Check) -> None:
    quick = ck.tier == "quick"
    campaign_call_hints(ck, 240 if quick else 3000)
    campaign_call_unions(ck, 20 if quick else 240)
    ck.search_hooks.append(search_call_unions)
