"""C18 — the project environment: tables of OTHER tools in the pyproject.toml next to the output.

The statement ("a set of options gives the same result whichever way it is supplied") quantifies over the
configurations the command runs in. Part of that configuration is not an option of the generator at all: the
`[tool.black]` / `[tool.isort]` tables of the project the models are generated into. The code formatter reads
them (line length, string normalisation, string processing, isort settings), and an option that is NOT GIVEN on
any route leaves the decision to them — so "not given" must mean the same thing by flag, by
`[tool.datamodel-codegen]` and by `generate()` keyword (tri-state options: `None` = the project decides).

Family: pyproject.toml environments built from a pool of formatter keys (every single key/value, the full
product of the keys that decide black's string processing, random combinations) × option sets (the empty set =
nothing given on any route, and the options that interact with the formatter). The oracle is the three-ways
oracle of the property (`c18.three_ways_judge`); the environment is identical for the three ways.
"""
from __future__ import annotations

import itertools
import json
import time

from ..runner import Check

# formatter settings of the project: key → values (TOML values)
BLACK_KEYS: dict[str, list] = {
    "line-length": [40, 60, 100, 120],
    "skip-string-normalization": [True, False],
    "skip-magic-trailing-comma": [True, False],
    "preview": [True, False],
    "unstable": [True, False],
    "enable-unstable-feature": [[], ["string_processing"], ["hug_parens_with_braces_and_square_brackets"], ["multiline_string_handling", "string_processing"]],
    "experimental-string-processing": [True, False],   # the spelling of black < 24.1
    "target-version": [["py39"], ["py312"]],
}
ISORT_KEYS: dict[str, list] = {
    "line_length": [40, 100],
    "force_single_line": [True],
    "profile": ["black"],
    "force_sort_within_sections": [True],
    "combine_as_imports": [True],
}
# the keys from which the formatter derives "string processing on/off" when wrap_string_literal is not given
STRING_PROCESSING_KEYS = ["preview", "unstable", "enable-unstable-feature", "experimental-string-processing"]
# option sets run in every environment: nothing given + the options the formatter settings interact with
FORMATTER_OPTS = [{}, {"wrap_string_literal": "True"}, {"use_double_quotes": "True"}, {"use_field_description": "True"},
                  {"use_schema_description": "True"}]


def toml_of(black: dict, isort: dict) -> str:
    out = []
    for table, kv in (("black", black), ("isort", isort)):
        if kv:
            out.append(f"\n[tool.{table}]")
            out += [f"{k} = {json.dumps(v)}" for k, v in kv.items()]
    return "\n".join(out) + "\n"


def environments(ck: Check, every: bool, n_random: int) -> list[str]:
    """quick: the string-processing product is sampled; thorough/search: everything"""
    rng = ck.rng.fork("project-env")
    envs: list[str] = []
    product = [dict(zip(STRING_PROCESSING_KEYS[:3], vals)) for vals in itertools.product(*(BLACK_KEYS[k] for k in STRING_PROCESSING_KEYS[:3]))]
    product += [{"experimental-string-processing": v} for v in BLACK_KEYS["experimental-string-processing"]]
    singles = [({k: v}, {}) for k, vs in BLACK_KEYS.items() if k not in STRING_PROCESSING_KEYS for v in vs]
    singles += [({}, {k: v}) for k, vs in ISORT_KEYS.items() for v in vs]
    if every:
        envs += [toml_of(b, {}) for b in product]
        envs += [toml_of(b, i) for b, i in singles]
    else:
        on = [b for b in product if b.get("preview") and (b.get("unstable") or "string_processing" in b.get("enable-unstable-feature", []))]
        off = [b for b in product if b not in on]
        envs += [toml_of(rng.choice(on), {}), toml_of(rng.choice(off), {})]
        b, i = rng.choice(singles)
        envs.append(toml_of(b, i))
    for _ in range(n_random):
        b = {k: rng.choice(BLACK_KEYS[k]) for k in rng.sample(sorted(BLACK_KEYS), rng.range(1, 4))}
        i = {k: rng.choice(ISORT_KEYS[k]) for k in rng.sample(sorted(ISORT_KEYS), rng.range(0, 2))}
        envs.append(toml_of(b, i))
    seen, out = set(), []
    for e in envs:
        if e not in seen:
            seen.add(e)
            out.append(e)
    return out


def run_envs(ck: Check, camp, envs: list[str], opts_for, stop_on_failure: bool = False, baselines_too: bool = True) -> None:
    """`opts_for(i, env)` → option sets to run in environment i. One Runner per environment; the subprocesses of
    all environments share one pool."""
    from . import c18 as base
    from ..subproc import pmap

    runners = [base.Runner(env_toml=e) for e in envs]
    try:
        plan = [(rn, o) for i, rn in enumerate(runners) for o in opts_for(i, rn.env_toml) if all(k in rn.tab for k in o)]
        need_base = sorted({id(rn): rn for rn, _o in plan}.values(), key=runners.index) if baselines_too else []
        thunks = [lambda rn=rn: rn.cli({}) for rn in need_base] + [t for rn, o in plan for t in base.three_ways_jobs(rn, o)]
        raw = pmap(lambda f: f(), thunks)
        baselines = {id(rn): r for rn, r in zip(need_base, raw)}
        camp.evaluations += len(need_base)
        raw = raw[len(need_base):]
        for j, (rn, o) in enumerate(plan):
            res = dict(zip(("cli", "pyproject", "keyword"), raw[3 * j : 3 * j + 3]))
            b = baselines.get(id(rn))
            base.three_ways_judge(ck, camp, rn, o, res, b if b and b["rc"] == 0 else None)
            camp.hit("env:" + ("+".join(sorted(line.split(" = ")[0] for line in rn.env_toml.splitlines() if " = " in line)) or "none"))
            camp.distinct.add(json.dumps([rn.env_toml, o], sort_keys=True))
            if stop_on_failure and ck.failures:
                return
    finally:
        for rn in runners:
            rn.close()


def campaign_env(ck: Check) -> None:
    camp = ck.campaign("e2e: the three ways inside a project whose pyproject.toml carries [tool.black] / [tool.isort] settings "
                       "(an option not given on any route leaves the decision to the project) → byte-identical")
    t0 = time.time()
    every = ck.tier == "thorough"
    envs = environments(ck, every, 12 if every else 1)
    rng = ck.rng.fork("project-env-opts")
    if every:
        run_envs(ck, camp, envs, lambda _i, _e: FORMATTER_OPTS)
    else:   # quick: nothing-given everywhere, one formatter-related option in the first (string processing on) environment
        extra = rng.choice(FORMATTER_OPTS[1:])
        run_envs(ck, camp, envs, lambda i, _e: [{}] + ([extra] if i == 0 else []), baselines_too=False)
    camp.wall_s = time.time() - t0


def search_env(ck: Check, named: list[str] | None = None) -> None:
    """after a broken obligation / correspondence: every environment × (nothing given, the options named by the table
    refuters with each of their values, the formatter-related options)"""
    from . import c18 as base

    camp = ck.campaign("search: every project environment ([tool.black] / [tool.isort]) × (no option given | options named by the "
                       "table refuters | formatter-related options) through the three-ways oracle")
    t0 = time.time()
    if named is None:
        named = base.refuted_names(ck)
    probe = base.Runner()
    try:
        named_opts = [{n: v} for n in named if n in probe.tab for v in (probe.tab[n]["values"] or [])]
    finally:
        probe.close()
    saved = ck.tier
    ck.tier = "thorough"
    try:
        envs = environments(ck, True, 12)
    finally:
        ck.tier = saved
    first = [{}] + [o for o in named_opts if o not in FORMATTER_OPTS]
    # nothing-given and the named options in every environment first, then the formatter-related options
    for opts_list in (first, [o for o in FORMATTER_OPTS if o not in first]):
        for lo in range(0, len(envs), 8):
            run_envs(ck, camp, envs[lo : lo + 8], lambda _i, _e, ol=opts_list: ol)
            if ck.failures:
                camp.wall_s = time.time() - t0
                return
    camp.wall_s = time.time() - t0


def rerun(ck: Check, camp, inp: dict) -> None:
    from . import c18 as base

    rn = base.Runner(env_toml=inp["env_toml"])
    try:
        base.three_ways(ck, camp, rn, inp["opts"], rn.cli({}))
    finally:
        rn.close()
