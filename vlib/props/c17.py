"""C17 — the shape of a GraphQL schema is mirrored by the generated models."""
from __future__ import annotations

import ast
import dataclasses
import enum
import json
import re
import sys
import time
import types
import typing
import warnings
from collections import defaultdict

from .. import e2e, guard, realcall
from ..common import Rng, hx, unhx
from ..runner import Check
from ..translate import graphql_tables
from . import c17_bridge, c17_enum, c17_fields, c17_order

NoneType = type(None)
BUILTIN = {"Int": "int", "Float": "float", "String": "str", "Boolean": "bool", "ID": "str"}  # GraphQL spec §3.5
PY = {"int": int, "float": float, "str": str, "bool": bool}


# ------------------------------------------------------------------ type expressions
def gt_sx(t) -> str:
    k = t[0]
    if k == "n":
        return f"(n {hx(t[1])})"
    return f"({k} {gt_sx(t[1])})"


def gt_sdl(t) -> str:
    if t[0] == "n":
        return t[1]
    if t[0] == "l":
        return "[" + gt_sdl(t[1]) + "]"
    return gt_sdl(t[1]) + "!"


def gt_wf(t) -> bool:
    if t[0] == "n":
        return True
    if t[0] == "nn" and t[1][0] == "nn":
        return False
    return gt_wf(t[1])


def rand_gtype(rng: Rng, names: list[str], max_lists: int = 4, malformed: bool = False):
    t = ("n", rng.choice(names))
    if rng.chance(1, 2):
        t = ("nn", t)
    for _ in range(rng.below(max_lists + 1)):
        t = ("l", t)
        if rng.chance(1, 2):
            t = ("nn", t)
    if malformed:
        # put a second `!` directly on a `!` somewhere
        def bad(u, where):
            if u[0] == "nn" and where == 0:
                return ("nn", u)
            if u[0] == "n":
                return ("nn", ("nn", u))
            return (u[0], bad(u[1], where - 1 if u[0] == "nn" else where))

        t = bad(t, rng.below(3))
    return t


def of_graphql(t):
    import graphql

    if graphql.is_non_null_type(t):
        return ("nn", of_graphql(t.of_type))
    if graphql.is_list_type(t):
        return ("l", of_graphql(t.of_type))
    return ("n", t.name)


# ------------------------------------------------------------------ S-expression replies
def parse_sx(s: str):
    toks = s.replace("(", " ( ").replace(")", " ) ").split()
    pos = 0

    def go():
        nonlocal pos
        if toks[pos] == "(":
            pos += 1
            out = []
            while toks[pos] != ")":
                out.append(go())
            pos += 1
            return out
        pos += 1
        return toks[pos - 1]

    out = []
    while pos < len(toks):
        out.append(go())
    return out


def dt_of_sx(sx):
    if sx[0] == "leaf":
        return ("leaf", sx[1] == "1", unhx(sx[2]))
    return ("list", sx[1] == "1", dt_of_sx(sx[2]))


def dump_dt(dt):
    """The DataType chain built by the real parse_field, in the model's vocabulary; anything the
    model has no word for is reported as ('odd', …) and therefore disagrees."""
    if dt.is_list:
        if len(dt.data_types) != 1 or dt.type is not None or dt.is_dict or dt.is_set:
            return ("odd", "list node", len(dt.data_types), dt.type)
        return ("list", bool(dt.is_optional), dump_dt(dt.data_types[0]))
    if dt.data_types or dt.type is None or dt.is_dict or dt.is_set or dt.literals:
        return ("odd", "leaf node", len(dt.data_types), dt.type)
    return ("leaf", bool(dt.is_optional), dt.type)


def real_parser(sdl: str, **kw):
    from datamodel_code_generator.parser.graphql import GraphQLParser

    p = GraphQLParser(source=sdl, **kw)
    with warnings.catch_warnings():
        warnings.simplefilter("ignore")
        p.parse_raw()
    return p


def result_named(p, name: str):
    for m in p.results:
        if m.reference.name == name:
            return m
    return None


PRELUDE = "scalar Date\nenum Color { V_RED V_GREEN }\ntype Other { f_x: Int }\ninput InOther { f_x: Int }\n"
OUT_NAMES = ["Int", "String", "Float", "Boolean", "ID", "Date", "Color", "Other", "T"]
IN_NAMES = ["Int", "String", "Float", "Boolean", "ID", "Date", "Color", "InOther"]


def campaign_parse_field(ck: Check, n_batches: int, per_batch: int) -> None:
    camp = ck.campaign("Graphql.parseField vs GraphQLParser.parse_field (DataType chain and required, per field)")
    camp_rule = "distinct (force_optional, input?, type expression) with at least one wrapper"
    t0 = time.time()
    rng = ck.rng.fork("parse_field")
    batches = []
    for b in range(n_batches):
        fo = rng.chance(1, 3)
        is_input = rng.chance(1, 3)
        names = IN_NAMES if is_input else OUT_NAMES
        exprs = [rand_gtype(rng, names) for _ in range(per_batch)]
        if b == 0:
            exprs[:6] = [
                ("nn", ("l", ("l", ("nn", ("n", "Int"))))),
                ("l", ("nn", ("l", ("n", "Int")))),
                ("n", "Int"),
                ("nn", ("n", "Color")),
                ("l", ("n", "Color")),
                ("nn", ("l", ("nn", ("l", ("nn", ("l", ("nn", ("n", "String")))))))),
            ]
        batches.append((fo, is_input, exprs))
    reqs = []
    for fo, _, exprs in batches:
        reqs += [f"gql.parsefield {int(fo)} {gt_sx(t)}" for t in exprs]
    replies = iter(ck.driver.run(reqs))
    for fo, is_input, exprs in batches:
        kw = "input" if is_input else "type"
        body = "\n".join(f"  f_{i}: {gt_sdl(t)}" for i, t in enumerate(exprs))
        sdl = PRELUDE + f"{kw} T {{\n{body}\n}}\n"
        try:
            p = real_parser(sdl, force_optional_for_required_fields=fo)
            model_t = result_named(p, "T")
            fields = {f.name: f for f in model_t.fields}
            err = None
        except Exception as e:  # noqa: BLE001
            err, fields = f"{type(e).__name__}: {e}"[:200], {}
        for i, t in enumerate(exprs):
            rep = next(replies)
            camp.evaluations += 1
            sx = parse_sx(rep)
            model = (sx[1] == "1", dt_of_sx(sx[2])) if sx and sx[0] == "ok" else rep
            f = fields.get(f"f_{i}")
            impl = (bool(f.required), dump_dt(f.data_type)) if f is not None else (err or "field missing")
            camp.hit("force_optional" if fo else "plain")
            camp.hit("input_field" if is_input else "output_field")
            depth = gt_sdl(t).count("[")
            camp.hit(f"list_depth:{depth}")
            if t[0] != "n":
                camp.distinct.add((fo, is_input, gt_sdl(t)))
            if model != impl:
                ck.disagree(camp, {"force_optional": fo, "input": is_input, "type": gt_sdl(t)}, model, impl)
            elif len(camp.samples) < 3 and depth >= 2:
                camp.samples.append({"type": gt_sdl(t), "force_optional": fo, "required": impl[0], "chain": impl[1]})
    # malformed stream: `t!!` — the model calls it ill-formed, graphql-core refuses it
    bad = [rand_gtype(rng, OUT_NAMES, 2, malformed=True) for _ in range(20)]
    reps = ck.driver.run([f"gql.wf {gt_sx(t)}" for t in bad])
    for t, rep in zip(bad, reps):
        camp.evaluations += 1
        camp.hit("malformed")
        try:
            real_parser(PRELUDE + f"type T {{ f_0: {gt_sdl(t)} }}\n")
            impl = "accepted"
        except Exception as e:  # noqa: BLE001
            impl = "rejected" if "Syntax" in type(e).__name__ else f"{type(e).__name__}"
        model = "rejected" if rep == "ok 0" else "accepted"
        assert not gt_wf(t)
        if model != impl:
            ck.disagree(camp, {"type": gt_sdl(t)}, model, impl)
    ck.notes["rule:" + camp.name] = camp_rule
    camp.wall_s = time.time() - t0


def campaign_object_like(ck: Check, n: int) -> None:
    camp = ck.campaign("Graphql.parseObjectLike vs GraphQLParser.parse_object_like (members, __typename member, bases)")
    t0 = time.time()
    rng = ck.rng.fork("object_like")
    cases = []
    for _ in range(n):
        n_if = rng.below(4)
        ifs = [f"I{j}" for j in range(n_if)]
        if_fields = {i: [(f"f_{i.lower()}{k}", rand_gtype(rng, OUT_NAMES, 2)) for k in range(rng.range(1, 2))] for i in ifs}
        own = [(f"f_{chr(97 + k)}", rand_gtype(rng, OUT_NAMES, 2)) for k in range(rng.below(4))]
        kw = rng.choice(["type", "type", "interface", "input"])
        if kw == "input":
            ifs, own = [], [(nm, rand_gtype(rng, IN_NAMES, 2)) for nm, _ in own] or [("f_a", ("n", "Int"))]
        shared = []
        if len(ifs) >= 2 and rng.chance(3, 4):
            # the same field declared by several interfaces with different nullability; T declares the strongest
            # type, and one interface (first / last / any / none) declares it exactly like T
            for k in range(rng.range(1, 2)):
                own_t = rand_gtype(rng, OUT_NAMES, 2)
                exact = rng.choice([ifs[0], ifs[-1], rng.choice(ifs), None])
                for i in rng.sample(ifs, rng.range(2, len(ifs))):
                    if_fields[i].append((f"f_s{k}", own_t if i == exact else c17_fields.weaken(rng, own_t)))
                shared.append((f"f_s{k}", own_t))
        seen_names = {nm for nm, _ in shared}
        fields = own + shared + [f for i in ifs for f in if_fields[i] if f[0] not in seen_names]
        if not fields:
            fields = [("f_a", ("n", "Int"))]
        fields = rng.shuffle(fields)
        sdl = PRELUDE
        for i in ifs:
            sdl += f"interface {i} {{ " + " ".join(f"{a}: {gt_sdl(b)}" for a, b in if_fields[i]) + " }\n"
        impl_clause = (" implements " + " & ".join(rng.shuffle(ifs))) if ifs else ""
        fo = rng.chance(1, 4)
        sdl += f"{kw} T{impl_clause} {{ " + " ".join(f"{a}: {gt_sdl(b)}" for a, b in fields) + " }\n"
        cases.append((sdl, kw, fo))
    reqs, metas = [], []
    for sdl, kw, fo in cases:
        # graphql-core is a parameter of the model: field order and interface order as it reports them
        schema = c17_fields._real_schema(ck, camp, sdl)  # noqa: SLF001
        if schema is None:
            reqs.append("gql.wf (n x)")
            metas.append(None)
            continue
        gobj = schema.type_map["T"]
        gfields = [(nm, of_graphql(f.type)) for nm, f in gobj.fields.items()]
        gifs = [i.name for i in getattr(gobj, "interfaces", [])]
        reqs.append(
            f"gql.object {int(fo)} {hx('T')} (" + " ".join(f"({hx(a)} {gt_sx(b)})" for a, b in gfields) + ") ("
            + " ".join(hx(i) for i in gifs) + ")"
        )
        clash = any(sum(nm in i.fields for i in getattr(gobj, "interfaces", ())) >= 2 for nm, _ in gfields)
        metas.append((gfields, gifs, clash))
    replies = ck.driver.run(reqs)
    for (sdl, kw, fo), rep, meta in zip(cases, replies, metas):
        if meta is None:
            continue
        gfields, gifs, clash = meta
        camp.evaluations += 1
        camp.hit(f"kind:{kw}")
        camp.hit(f"interfaces:{len(gifs)}")
        camp.hit(f"fields:{min(len(gfields), 5)}")
        sx = parse_sx(rep)
        if not sx or sx[0] != "ok":
            ck.infra_errors.append(f"driver reply {rep!r}")
            continue
        m_bases = [unhx(x) for x in sx[1][1:]]
        m_members = []
        for mm in sx[2][1:]:
            if mm[0] == "f":
                m_members.append(("field", unhx(mm[1]), mm[2] == "1", dt_of_sx(mm[3])))
            else:
                m_members.append(("typename", unhx(mm[1])))
        camp.hit("field_declared_by_several_interfaces" if clash else "no_shared_interface_field")

        def dump_class(r):
            i_members = []
            for f in r.fields:
                if f.alias == "__typename":
                    ok = f.name == "typename__" and f.required is False and f.default == f.data_type.literals[0] and len(f.data_type.literals) == 1
                    i_members.append(("typename", f.data_type.literals[0]) if ok else ("odd-typename", f.name, f.default))
                else:
                    i_members.append(("field", f.name, bool(f.required), dump_dt(f.data_type)))
            return [b.reference.name for b in r.base_classes if b.reference is not None], i_members

        inp = {"sdl": sdl, "force_optional": fo}
        p = r = None
        with realcall.guard(ck, camp, "GraphQLParser(source=…, force_optional_for_required_fields=…).parse_raw()", inp):
            p = real_parser(sdl, force_optional_for_required_fields=fo)
            r = result_named(p, "T")
        if r is None:
            if p is not None:
                ck.disagree(camp, inp, (m_bases, m_members), "no class T among the results")
            continue
        impl = None
        with realcall.guard(ck, camp, "the DataModel parse_object_like builds (fields, base_classes)", inp):
            impl = dump_class(r)
        if impl is None:
            continue
        camp.distinct.add(sdl)
        if (m_bases, m_members) != impl:
            ck.disagree(camp, inp, (m_bases, m_members), impl)
            continue
        if len(camp.samples) < 2 and gifs:
            camp.samples.append({"sdl": sdl, "bases": impl[0], "members": [m[:2] for m in impl[1]]})
        # parse_object_like itself, called directly on the parser's own graphql-core object
        objs = realcall.resolve(ck, camp, p, "all_graphql_objects", "GraphQLParser.all_graphql_objects") or {}
        fn = realcall.resolve(ck, camp, p, "parse_object_like", "GraphQLParser.parse_object_like")
        if "T" in objs and fn is not None:
            before = len(p.results)
            ok, _ = c17_fields.direct(ck, camp, "GraphQLParser.parse_object_like(obj)", fn, objs["T"], _case=inp)
            if ok:
                camp.hit("direct_call")
                got = None
                with realcall.guard(ck, camp, "the DataModel parse_object_like builds (fields, base_classes)", inp):
                    got = dump_class(p.results[-1]) if len(p.results) == before + 1 else ("results grew by", len(p.results) - before)
                if got is not None and got != (m_bases, m_members):
                    ck.disagree(camp, {**inp, "what": "parse_object_like called directly"}, (m_bases, m_members), got)
    camp.wall_s = time.time() - t0


# ------------------------------------------------------------------ SDL documents
SCALAR_POOL = ["Date", "Url", "Money"]
ENUM_POOL = ["Color", "Size", "Mode"]
ENUM_VALUES = ["V_RED", "V_GREEN", "V_blue", "V_Mixed1", "V_X", "V_Y2"]
IFACE_POOL = ["Node", "Named", "Aged", "Base"]
OBJ_POOL = ["Alpha", "Beta", "Gamma", "Delta", "Eps"]
INPUT_POOL = ["InA", "InB", "InC"]
UNION_POOL = ["Uone", "Utwo"]
WORDS = ["the", "a", "thing", "of", "value", "list", "owner", "id"]


def gen_doc(rng: Rng, *, safe_unions: bool, nested_ifaces: bool) -> dict:
    """A seeded SDL document as a dict {name: definition}; rendered by render_doc.
    safe_unions: no field has a union member as its *bare* named type (avoids the C02-domain defect
    `X_aliased`); nested_ifaces: interfaces may implement interfaces."""
    fcount = [0]

    def fname() -> str:
        fcount[0] += 1
        return f"f_{rng.choice('abcdexyz')}{fcount[0]}"

    def desc():
        return " ".join(rng.choice(WORDS) for _ in range(rng.range(1, 4))) if rng.chance(1, 4) else None

    doc: dict[str, dict] = {}
    scalars = rng.sample(SCALAR_POOL, rng.below(3))
    enums = rng.sample(ENUM_POOL, rng.range(0, 2))
    ifaces = rng.sample(IFACE_POOL, rng.below(4))
    objs = rng.sample(OBJ_POOL, rng.range(1, 4))
    inputs = rng.sample(INPUT_POOL, rng.below(3))
    unions = rng.sample(UNION_POOL, rng.below(3))
    for s in scalars:
        doc[s] = {"kind": "scalar", "desc": desc()}
    for e in enums:
        doc[e] = {"kind": "enum", "values": rng.sample(ENUM_VALUES, rng.range(1, 4)), "desc": desc()}
    union_members: dict[str, list[str]] = {u: rng.sample(objs, rng.range(1, min(3, len(objs)))) for u in unions}
    member_names = {m for ms in union_members.values() for m in ms}
    out_bases = list(BUILTIN) + scalars + enums + ifaces + objs + unions
    in_bases = list(BUILTIN) + scalars + enums + inputs

    def out_type():
        base = rng.choice(out_bases)
        t = rand_gtype(rng, [base], 3)
        if safe_unions and t[0] != "l" and not (t[0] == "nn" and t[1][0] == "l") and base in member_names:
            t = ("l", t)  # never the bare member type
        return t

    def in_type():
        base = rng.choice(in_bases)
        t = rand_gtype(rng, [base], 3)
        if base in inputs and "[" not in gt_sdl(t) and t[0] == "nn":
            t = t[1]  # a chain of non-null input objects must be breakable
        return t

    closure: dict[str, list[str]] = {}
    own_fields: dict[str, list] = {}
    for idx, i in enumerate(ifaces):
        parents = rng.sample(ifaces[:idx], rng.below(idx + 1)) if nested_ifaces else []
        cl: list[str] = []
        for p in parents:
            for q in [*closure[p], p]:
                if q not in cl:
                    cl.append(q)
        closure[i] = cl
        own_fields[i] = [(fname(), out_type(), desc()) for _ in range(rng.range(1, 2))]
        fields = [f for q in cl for f in own_fields[q]] + own_fields[i]
        doc[i] = {"kind": "interface", "interfaces": rng.shuffle(cl), "fields": rng.shuffle(fields), "desc": desc()}
    for o in objs:
        parents = rng.sample(ifaces, rng.below(min(len(ifaces), 2) + 1))
        cl = []
        for p in parents:
            for q in [*closure[p], p]:
                if q not in cl:
                    cl.append(q)
        own = [(fname(), out_type(), desc()) for _ in range(rng.range(0 if cl else 1, 4))]
        fields = [f for q in cl for f in own_fields[q]] + own
        doc[o] = {"kind": "type", "interfaces": rng.shuffle(cl), "fields": rng.shuffle(fields), "desc": desc()}
    for n in inputs:
        fields = []
        for _ in range(rng.range(1, 4)):
            t = in_type()
            fields.append((fname(), t, desc(), in_default(rng, t, doc) if rng.chance(1, 3) else None))
        doc[n] = {"kind": "input", "fields": fields, "desc": desc()}
    for u in unions:
        doc[u] = {"kind": "union", "members": union_members[u], "desc": desc()}
    doc["__root__"] = {"kind": "schema", "query": objs[0]}
    doc["__order__"] = {"kind": "order", "names": rng.shuffle([k for k in doc if not k.startswith("__")])}
    return doc


def in_default(rng: Rng, t, doc) -> str | None:
    """an SDL literal of type t (None: no default written)"""
    if t[0] == "nn":
        return in_default(rng, t[1], doc)
    if rng.chance(1, 6):
        return "null"
    if t[0] == "l":
        items = [in_default(rng, t[1], doc) for _ in range(rng.below(3))]
        if any(i is None or (i == "null" and t[1][0] == "nn") for i in items):
            return "[]"
        return "[" + ", ".join(items) + "]"
    name = t[1]
    if name == "Int":
        return str(rng.range(-5, 50))
    if name == "Float":
        return rng.choice(["1.5", "0.25", "3"])
    if name in ("String", "ID"):
        return json.dumps(rng.choice(["x", "some text", ""]))
    if name == "Boolean":
        return rng.choice(["true", "false"])
    d = doc.get(name)
    if d and d["kind"] == "enum":
        return rng.choice(d["values"])
    if d and d["kind"] == "scalar":
        return json.dumps("s")
    return None


def render_doc(doc: dict) -> str:
    out = []

    def d(x, ind=""):
        return f'{ind}"""{x}"""\n' if x else ""

    for name in doc["__order__"]["names"]:
        df = doc[name]
        k = df["kind"]
        if k == "scalar":
            out.append(d(df["desc"]) + f"scalar {name}\n")
        elif k == "enum":
            out.append(d(df["desc"]) + f"enum {name} {{ " + " ".join(df["values"]) + " }\n")
        elif k == "union":
            out.append(d(df["desc"]) + f"union {name} = " + " | ".join(df["members"]) + "\n")
        else:
            impl = (" implements " + " & ".join(df["interfaces"])) if df.get("interfaces") else ""
            lines = []
            for f in df["fields"]:
                dflt = f" = {f[3]}" if len(f) > 3 and f[3] is not None else ""
                lines.append(d(f[2], "  ") + f"  {f[0]}: {gt_sdl(f[1])}{dflt}\n")
            out.append(d(df["desc"]) + f"{k} {name}{impl} {{\n" + "".join(lines) + "}\n")
    out.append(f"schema {{ query: {doc['__root__']['query']} }}\n")
    return "\n".join(out)


# ------------------------------------------------------------------ denotation of annotations
def denote(a):
    """(nullable, core); core = ('list', denotation) | ('alts', frozenset of atoms) | ('literal', values)"""
    origin = typing.get_origin(a)
    if origin is typing.Union or origin is types.UnionType:
        args = typing.get_args(a)
        nullable = NoneType in args
        cores = [denote(x) for x in args if x is not NoneType]
        nullable = nullable or any(n for n, _ in cores)
        if len(cores) == 1:
            return (nullable, cores[0][1])
        if all(c[0] == "alts" for _, c in cores):
            return (nullable, ("alts", frozenset().union(*[c[1] for _, c in cores])))
        return (nullable, ("mixed", tuple(c for _, c in cores)))
    if origin is list:
        (arg,) = typing.get_args(a) or (typing.Any,)
        return (False, ("list", denote(arg)))
    if origin is typing.Literal:
        return (False, ("literal", tuple(typing.get_args(a))))
    if origin is typing.Annotated:
        return denote(typing.get_args(a)[0])
    if a is NoneType:
        return (True, ("alts", frozenset()))
    return (False, ("alts", frozenset([a])))


def show_den(d) -> str:
    n, c = d
    if c[0] == "list":
        s = "[" + show_den(c[1]) + "]"
    elif c[0] == "alts":
        s = "|".join(sorted(getattr(x, "__name__", repr(x)) for x in c[1]))
    else:
        s = repr(c)
    return s + ("?" if n else "")


# ------------------------------------------------------------------ the property's own oracle
class NoInstance(Exception):
    pass


# enum type name -> the value every instance of that enum takes (set by the oracle while it names each value once)
ENUM_PICK: dict[str, str] = {}


def make_instance(rng: Rng, schema, gtype, scalar_py: dict[str, str], with_typename: bool, depth: int = 0):
    """A JSON value conforming to GraphQL type `gtype` (response/input coercion rules of the spec)."""
    import graphql

    if graphql.is_non_null_type(gtype):
        return _inst_nn(rng, schema, gtype.of_type, scalar_py, with_typename, depth)
    if depth > 3 or rng.chance(1, 4):
        return None
    return _inst_nn(rng, schema, gtype, scalar_py, with_typename, depth)


def _inst_nn(rng, schema, t, scalar_py, with_typename, depth):
    import graphql

    if depth > 7:
        raise NoInstance
    if graphql.is_list_type(t):
        n = 0 if depth > 3 else rng.below(3)
        return [make_instance(rng, schema, t.of_type, scalar_py, with_typename, depth + 1) for _ in range(n)]
    if graphql.is_scalar_type(t):
        py = scalar_py[t.name]
        if py == "int":
            return rng.range(-100, 100)
        if py == "float":
            return rng.choice([1.5, -0.25, 3, 0])
        if py == "bool":
            return rng.chance(1, 2)
        return rng.choice(["x", "", "some text", "4"])
    if graphql.is_enum_type(t):
        if ENUM_PICK.get(t.name) is not None:
            return ENUM_PICK[t.name]
        return rng.choice(sorted(t.values))
    if graphql.is_union_type(t):
        return _inst_nn(rng, schema, rng.choice(list(t.types)), scalar_py, with_typename, depth)
    obj = {}
    is_input = graphql.is_input_object_type(t)
    for fname, f in t.fields.items():
        if is_input and not graphql.is_non_null_type(f.type) and rng.chance(1, 3):
            continue  # an input object may leave a nullable field out
        obj[fname] = make_instance(rng, schema, f.type, scalar_py, with_typename, depth + 1)
    if with_typename and graphql.is_object_type(t):
        obj["__typename"] = t.name
    return obj


def member_info(cls, kind: str) -> dict[str, dict]:
    """name -> {required, default, alias} of every member of a generated class"""
    out = {}
    if kind == "pydantic_v2.BaseModel":
        from pydantic_core import PydanticUndefined

        for n, f in cls.model_fields.items():
            d = f.default_factory() if f.default_factory is not None else (None if f.default is PydanticUndefined else f.default)
            out[n] = {"required": f.is_required(), "default": d, "alias": f.alias,
                      "has_default": f.default is not PydanticUndefined or f.default_factory is not None}
    elif kind == "pydantic.BaseModel":
        for n, f in cls.__fields__.items():
            out[n] = {"required": bool(f.required), "default": f.default_factory() if f.default_factory is not None else f.default,
                      "alias": f.alias if f.has_alias else None, "has_default": not f.required}
    elif kind == "dataclasses.dataclass":
        for f in dataclasses.fields(cls):
            has = f.default is not dataclasses.MISSING or f.default_factory is not dataclasses.MISSING
            d = f.default_factory() if f.default_factory is not dataclasses.MISSING else (None if f.default is dataclasses.MISSING else f.default)
            out[f.name] = {"required": not has, "default": d, "alias": None, "has_default": has}
    else:  # TypedDict
        # under `from __future__ import annotations` __required_keys__ is unreliable (documented CPython
        # limitation); type checkers and pydantic read the NotRequired[...] qualifier of the evaluated hint
        for n, h in typing.get_type_hints(cls, include_extras=True).items():
            out[n] = {"required": typing.get_origin(h) is not typing.NotRequired, "default": None, "alias": None, "has_default": False}
    return out


def validate_instance(cls, kind: str, value):
    if kind == "pydantic_v2.BaseModel":
        cls.model_validate(value)
    elif kind == "pydantic.BaseModel":
        cls.parse_obj(value)
    else:
        import pydantic

        pydantic.TypeAdapter(cls).validate_python(value)


FLAGS = c17_order.SPELLING_FLAGS  # use_union_operator, use_standard_collections, force_optional_for_required_fields, field_constraints, use_annotated


def classify_import_error(e: BaseException, schema=None) -> str:
    import graphql

    s = f"{type(e).__name__}: {e}"
    if "_aliased" in s:
        return "aliased_name_unbound"
    if isinstance(e, TypeError) and "MRO" in s.upper().replace("METHOD RESOLUTION", "MRO"):
        return "base_order_mro"
    if isinstance(e, TypeError) and "non-default argument" in s:
        return "dataclass_default_order"
    if isinstance(e, TypeError) and "unsupported operand type(s) for |" in s:
        # `Uu | None` where the alias Uu is bound to something that is not a type (e.g. a plain string)
        return "alias_not_a_type_under_union_operator"
    if isinstance(e, NameError):
        single = {t.types[0].name for t in (schema.type_map.values() if schema else ()) if graphql.is_union_type(t) and len(t.types) == 1}
        if getattr(e, "name", None) in single:
            return "single_member_union_before_member"
        return "name_unbound"
    return "import_error"


def import_failure(e: BaseException, schema, sdl: str) -> tuple[str, dict]:
    """(mechanism, further classification keys) of an exception raised while the module is loaded"""
    mech = classify_import_error(e, schema)
    extra: dict = {}
    if mech == "single_member_union_before_member":
        # the trigger of the REPAIRED finding C17-single-member-union (a regression of it is a VIOLATION):
        # the member class is kept back by the first pass of sort_data_models (an interface it implements
        # is not placed when it is visited) while the alias is placed by it; a single-member alias that
        # fails over an EARLY member is something else
        extra["member_kept_back"] = getattr(e, "name", None) in c17_order.first_pass_late(c17_order.schema_defs(sdl))
    return mech, extra


def unbound_aliased(code: str) -> list[str]:
    tree = ast.parse(code)
    bound = {n.name for n in ast.walk(tree) if isinstance(n, (ast.ClassDef, ast.FunctionDef))}
    for n in ast.walk(tree):
        if isinstance(n, (ast.Assign, ast.AnnAssign)) and not isinstance(getattr(n, "target", None), ast.Attribute):
            for t in (n.targets if isinstance(n, ast.Assign) else [n.target]):
                if isinstance(t, ast.Name):
                    bound.add(t.id)
        if isinstance(n, (ast.Import, ast.ImportFrom)):
            bound |= {(a.asname or a.name).split(".")[0] for a in n.names}
    return sorted({m for m in re.findall(r"\b\w+_aliased\b", code) if m not in bound})


def oracle_case(ck: Check, camp, sdl: str, kind: str, flags: dict, scalar_map: dict[str, str], seed: int) -> None:
    """C17 on one (SDL document, model kind, options) case, against graphql.build_schema(sdl).type_map."""
    import graphql

    camp.evaluations += 1
    camp.hit(f"kind:{kind}")
    for f, v in flags.items():
        if v:
            camp.hit(f"flag:{f}")
    inp = {"sdl": sdl, "model": kind, "flags": flags, "scalar_map": scalar_map, "seed": seed}
    base = {"oracle": "graphql_shape", "kind": kind}

    failed = []

    def fail(mechanism: str, observed: str, **extra) -> None:
        failed.append(mechanism)
        camp.hit(f"fail:{mechanism}")
        ck.fail({**base, "mechanism": mechanism, **extra}, inp, observed)

    schema = graphql.build_schema(sdl)
    errs = graphql.validate_schema(schema)
    if errs:
        ck.infra_errors.append(f"generator produced an invalid schema: {errs[0].message}")
        return
    opts = dict(flags)
    if scalar_map:
        opts["extra_template_data"] = defaultdict(dict, {k: {"py_type": v} for k, v in scalar_map.items()})
    res = e2e.run_generate(sdl, input_file_type="graphql", model=kind, opts=opts)
    if res.hang:
        camp.hit("hang(C01)")
        return
    if not res.ok:
        fail("generate_error", f"generate() raised {res.error_type}: {res.error_msg}")
        return
    code = res.code
    err = e2e.parses(code)
    if err:
        fail("unparsable", err)
        return
    ua = unbound_aliased(code)
    if ua:
        fail("aliased_name_unbound", f"the module refers to {ua} which it never binds (C02's domain)")
        return
    # `Union['A', 'B']` is memoised by typing, so the ForwardRef objects (which remember what they were
    # evaluated to) would be shared between the modules of different cases of this process
    for clear in typing._cleanups:  # noqa: SLF001
        clear()
    observation = {"sdl": sdl, "kind": kind, "flags": flags, "code": code, "import_error": None}
    if hasattr(ck, "c17_obs"):
        ck.c17_obs.append(observation)  # the ordering correspondence (c17_order.campaign_order) looks at the same module
    try:
        mod = e2e.load_module(code, kind)
    except BaseException as e:  # noqa: BLE001
        if isinstance(e, (KeyboardInterrupt, SystemExit)):
            raise
        observation["import_error"] = (type(e).__name__, getattr(e, "name", None))
        mech, extra = import_failure(e, schema, sdl)
        fail(mech, f"importing the generated module raised {type(e).__name__}: {str(e)[:200]}", **extra)
        return
    try:
        _check_module(ck, camp, fail, schema, mod, code, kind, flags, scalar_map, seed, sdl)
    finally:
        e2e.unload(mod)
    if not failed:
        camp.hit("all_checks_passed")
    if len(camp.samples) < 2 and len(sdl) < 700:
        camp.samples.append({"sdl": sdl, "model": kind, "flags": flags, "scalar_map": scalar_map})


def _check_module(ck, camp, fail, schema, mod, code, kind, flags, scalar_map, seed, sdl) -> None:
    import graphql

    fo = bool(flags.get("force_optional_for_required_fields"))
    tm = {n: t for n, t in schema.type_map.items() if not n.startswith("__")}
    classdefs = {n.name: n for n in ast.parse(code).body if isinstance(n, ast.ClassDef)}
    scalar_py = {}
    # --- scalars alias the configured Python type
    for n, t in tm.items():
        if graphql.is_scalar_type(t):
            want = scalar_map.get(n, BUILTIN.get(n, "str"))
            scalar_py[n] = want
            have = getattr(mod, n, None)
            if have is not PY[want]:
                return fail("scalar_alias", f"scalar {n}: module binds {have!r}, expected the type {want}")
    # --- enums keep the value names
    for n, t in tm.items():
        if graphql.is_enum_type(t):
            cls = getattr(mod, n, None)
            if not (isinstance(cls, type) and issubclass(cls, enum.Enum)):
                return fail("enum_missing", f"enum {n}: no Enum class of that name ({cls!r})")
            # the Enum's VALUES are exactly the GraphQL value names (that is what JSON carries); one member each
            have_values = [m.value for m in cls]
            if sorted(map(repr, have_values)) != sorted(map(repr, t.values)) or len(cls.__members__) != len(t.values):
                renamed = sorted(v for v in t.values if c17_enum.must_rename(v, flags, t.values))
                return fail("enum_values", f"enum {n}: the Enum's values {sorted(have_values, key=repr)} ≠ value names {sorted(t.values)} "
                            f"(members {sorted(cls.__members__)})", renamed_members=bool(renamed))
            # … and the member NAMES are the value names too, wherever Python lets a member have that name
            # (a keyword, `mro`, a leading underscore, an attribute of the Enum machinery cannot be one;
            # capitalise_enum_members asks for another spelling)
            for v in t.values:
                if not c17_enum.must_rename(v, flags, t.values) and cls(v).name != v:
                    return fail("enum_names", f"enum {n}: members {sorted(cls.__members__)} ≠ value names {sorted(t.values)}")
    object_like = {n: t for n, t in tm.items() if graphql.is_object_type(t) or graphql.is_interface_type(t) or graphql.is_input_object_type(t)}
    for n in object_like:
        if not isinstance(getattr(mod, n, None), type) or n not in classdefs:
            return fail("class_missing", f"type {n}: no class of that name in the module")
    # --- unions alias their member classes
    for n, t in tm.items():
        if graphql.is_union_type(t):
            al = getattr(mod, n, None)
            want = {m.name for m in t.types}
            # one member: the alias is the member itself — `Union['Alpha']` is ForwardRef('Alpha') (typing
            # collapses a one-member Union); a class or a plain string are read the same way
            if typing.get_origin(al) in (typing.Union, types.UnionType):
                args = typing.get_args(al)
            elif len(want) == 1 and (isinstance(al, (type, typing.ForwardRef, str))):
                args = (al,)
            else:
                args = ()
            have = {a.__forward_arg__ if isinstance(a, typing.ForwardRef) else a if isinstance(a, str) else getattr(a, "__name__", repr(a)) for a in args}
            # the alias denotes exactly the union of the member CLASSES of this module: a forward
            # reference is what its text evaluates to in the module's namespace
            denoted = []
            for a in args:
                if isinstance(a, (typing.ForwardRef, str)):
                    try:
                        a = eval(a.__forward_arg__ if isinstance(a, typing.ForwardRef) else a, vars(mod))  # noqa: S307 - a name written by the generator
                    except Exception:  # noqa: BLE001
                        a = None
                denoted.append(a)
            ok = have == want and len(args) == len(want) and all(isinstance(d, type) for d in denoted) \
                and set(denoted) == {getattr(mod, m) for m in want}
            if not args:
                have = {repr(al)}
            if not ok:
                return fail("union_alias", f"union {n}: alias over {sorted(have)}, members are {sorted(want)}")

    def expected(t, top: bool):
        if graphql.is_non_null_type(t):
            d = expected(t.of_type, False)
            return ("any" if (top and fo) else False, d[1])
        if graphql.is_list_type(t):
            return (True, ("list", expected(t.of_type, False)))
        if graphql.is_scalar_type(t):
            return (True, ("alts", frozenset([PY[scalar_py[t.name]]])))
        if graphql.is_union_type(t):
            return (True, ("alts", frozenset(getattr(mod, m.name) for m in t.types)))
        return (True, ("alts", frozenset([getattr(mod, t.name)])))

    # pydantic needs the forward references resolved before validation; this is how a user loads the module
    for n in object_like:
        cls = getattr(mod, n)
        try:
            if kind == "pydantic_v2.BaseModel":
                cls.model_rebuild(force=True, _types_namespace=vars(mod))
            elif kind == "pydantic.BaseModel":
                cls.update_forward_refs(**vars(mod))
        except Exception as e:  # noqa: BLE001
            mech, extra = import_failure(e, schema, sdl)
            return fail(mech, f"resolving the annotations of class {n} raised {type(e).__name__}: {str(e)[:200]}", **extra)
    for n, t in object_like.items():
        cls = getattr(mod, n)
        try:
            hints = typing.get_type_hints(cls, globalns=vars(mod))
        except Exception as e:  # noqa: BLE001
            mech, extra = import_failure(e, schema, sdl)
            return fail(mech, f"annotations of class {n} do not evaluate: {type(e).__name__}: {str(e)[:200]}", **extra)
        info = member_info(cls, kind)
        # one member per field plus the __typename member
        want_members = set(t.fields) | {"typename__"}
        if set(info) != want_members:
            return fail("members", f"type {n}: members {sorted(info)} ≠ fields+typename {sorted(want_members)}")
        # the __typename member is fixed to the type name
        ty = info["typename__"]
        den = denote(hints["typename__"])
        ok = den[1] == ("literal", (n,))
        if kind in ("pydantic_v2.BaseModel", "pydantic.BaseModel"):
            ok = ok and ty["alias"] == "__typename" and ty["default"] == n and not ty["required"]
        elif kind == "dataclasses.dataclass":
            ok = ok and ty["default"] == n
        else:
            ok = ok and not ty["required"]
        if not ok:
            return fail("typename_member", f"type {n}: __typename member is {ty} : {show_den(den)}")
        # interfaces are base classes
        bases = {ast.unparse(b) for b in classdefs[n].bases}
        for i in getattr(t, "interfaces", ()):
            if i.name not in bases:
                return fail("interface_not_base", f"type {n} implements {i.name} but the class has bases {sorted(bases)}")
        for fname, f in t.fields.items():
            camp.hit("field")
            nn = graphql.is_non_null_type(f.type)
            m = info[fname]
            want_required = nn and not fo
            if m["required"] != want_required:
                extra = {}
                if want_required and any(fname in i.fields and not graphql.is_non_null_type(i.fields[fname].type) for i in getattr(t, "interfaces", ())):
                    # the type's own field is non-null while an interface it implements declares the field nullable
                    # (so the interface's class gives the member the default None)
                    extra["trigger"] = "overrides_nullable_member_of_an_interface"
                return fail("required", f"{n}.{fname}: {f.type} → required={m['required']}, expected {want_required}", field_type=str(f.type), **extra)
            has_sdl_default = graphql.is_input_object_type(t) and f.default_value is not graphql.Undefined and f.default_value is not None
            if not want_required and kind != "typing.TypedDict" and not has_sdl_default and not (m["has_default"] and m["default"] is None):
                return fail("default_not_none", f"{n}.{fname}: {f.type} → default {m['default']!r}, expected None", field_type=str(f.type))
            if has_sdl_default:
                camp.hit("input_default:" + c17_fields.value_class(c17_fields.canon(f.default_value)))
            # the default value of an input field is the one graphql-core reports (type-strict: 0, 0.0 and False differ;
            # an Enum member stands for its value); a required member shows none (a non-null field is required)
            if not want_required and kind != "typing.TypedDict" and has_sdl_default:
                want_c = c17_fields.canon(f.default_value)
                have_c = c17_fields.canon(m["default"]) if m["has_default"] else None
                if have_c != want_c:
                    observed = (f"{n}.{fname}: {f.type} = {c17_fields.show_canon(want_c)} in the schema → the member "
                                + ("has no default" if have_c is None else f"defaults to {c17_fields.show_canon(have_c)}"))
                    if graphql.is_enum_type(graphql.get_named_type(f.type)) and c17_fields.null_elements_dropped(want_c, have_c):
                        # the null elements of a list-of-enum default are gone and nothing else differs; the other members are still checked
                        fail("input_default", observed, field_type=str(f.type), default_class=c17_fields.value_class(want_c),
                             trigger="null_elements_dropped_from_enum_list_default")
                        continue
                    return fail("input_default", observed, field_type=str(f.type), default_class=c17_fields.value_class(want_c))
            want = expected(f.type, True)
            have = denote(hints[fname])
            if want[0] == "any":  # what force-optional does to the nullability of a `!` field is not C17's business
                want = (have[0], want[1])
            if have != want:
                return fail("annotation", f"{n}.{fname}: {f.type} → {show_den(have)}, expected {show_den(want)}", field_type=str(f.type),
                            named_type=graphql.get_named_type(f.type).name)
    # --- a conforming JSON object validates
    rng = Rng(seed, "instances")
    with_typename = kind in ("pydantic_v2.BaseModel", "pydantic.BaseModel")
    for n, t in object_like.items():
        if graphql.is_interface_type(t):
            continue
        for _ in range(2):
            try:
                value = _inst_nn(rng, schema, t, scalar_py, with_typename, 0)
            except NoInstance:
                camp.hit("no_finite_instance")
                break
            camp.hit("instance")
            try:
                with warnings.catch_warnings():
                    warnings.simplefilter("ignore")
                    validate_instance(getattr(mod, n), kind, value)
            except Exception as e:  # noqa: BLE001
                if classify_import_error(e, schema) == "base_order_mro":
                    return fail("base_order_mro", f"type {n}: validating against the class raised {type(e).__name__}: {str(e)[:200]}")
                return fail("instance_rejected", f"type {n}: conforming object {json.dumps(value)[:300]} rejected: {type(e).__name__}: {str(e)[:300]}")
    # --- … and so does a conforming object naming EACH value of an enum (every enum type × every value, on the
    # first object / input type with a field of that enum type at any wrapper depth)
    for en, et in tm.items():
        if not graphql.is_enum_type(et):
            continue
        user = next((n for n, t in object_like.items() if not graphql.is_interface_type(t)
                     and any(graphql.get_named_type(f.type) is et for f in t.fields.values())), None)
        if user is None:
            continue
        for v in sorted(et.values)[:12]:
            ENUM_PICK[en] = v
            try:
                value = None
                for _ in range(6):  # a nullable level may come out null: draw until the value is named
                    value = _inst_nn(rng, schema, object_like[user], scalar_py, with_typename, 0)
                    if json.dumps(v) in json.dumps(value):
                        break
                else:
                    continue
            except NoInstance:
                break
            finally:
                ENUM_PICK.pop(en, None)
            camp.hit("instance_naming_enum_value")
            try:
                with warnings.catch_warnings():
                    warnings.simplefilter("ignore")
                    validate_instance(getattr(mod, user), kind, value)
            except Exception as e:  # noqa: BLE001
                if classify_import_error(e, schema) == "base_order_mro":
                    return fail("base_order_mro", f"type {user}: validating against the class raised {type(e).__name__}: {str(e)[:200]}")
                return fail("instance_rejected", f"type {user}: conforming object {json.dumps(value)[:300]} naming {en}.{v} rejected: "
                            f"{type(e).__name__}: {str(e)[:300]}", enum_value_renamed=c17_enum.must_rename(v, flags, et.values))


def campaign_e2e(ck: Check, n_docs: int, variants: int) -> None:
    camp = ck.campaign("e2e GraphQL shape oracle (real generate() on seeded SDL documents vs graphql.build_schema(sdl).type_map)")
    t0 = time.time()
    rng = ck.rng.fork("e2e")
    for sdl, kind, flags, smap in CORPUS:
        oracle_case(ck, camp, sdl, kind, flags, smap, 1)
    me = sys.modules[__name__]
    for i in range(n_docs):
        if i % 3 == 2:
            # the interface-chain / union family, every parameter from the seed
            depth = rng.range(2, 4)
            doc = c17_order.gen_chain_doc(
                rng, me, depth=depth, direction=rng.choice(c17_order.DIRECTIONS), nullable_only=rng.chance(1, 2),
                union_shape=rng.choice(c17_order.UNION_SHAPES), member_level=rng.choice(["top", "mid", "root"]), cyclic=rng.chance(2, 3))
        else:
            doc = gen_doc(rng, safe_unions=not rng.chance(1, 5), nested_ifaces=rng.chance(1, 3))
        sdl = render_doc(doc)
        scalars = [k for k, v in doc.items() if v["kind"] == "scalar"]
        kinds = e2e.EXECUTABLE_KINDS if i % 3 == 0 else rng.sample(e2e.EXECUTABLE_KINDS, variants)
        for kind in kinds:
            flags = c17_order.legal_flags({f: True for f in FLAGS if rng.chance(1, 3)})
            smap = {s: rng.choice(["int", "float", "bool", "str"]) for s in scalars if rng.chance(1, 3)}
            # the configured Python type must be honoured for the predefined scalars as well
            for b in BUILTIN:
                if rng.chance(1, 6):
                    smap[b] = rng.choice([t for t in ("int", "float", "bool", "str") if t != BUILTIN[b]])
            key = (sdl, kind, json.dumps(flags, sort_keys=True), json.dumps(smap, sort_keys=True))
            camp.distinct.add(key)
            oracle_case(ck, camp, sdl, kind, flags, smap, rng.next() & 0xFFFFFFFF)
    camp.wall_s = time.time() - t0


SINGLE_LATE_WITNESS = "union Uu = Alpha\ntype Alpha implements Aged & Base { f_e: [Uu] }\ninterface Base { f_e: [Uu] }\ninterface Aged implements Base { f_e: [Uu] }\nschema { query: Alpha }\n"
SINGLE_LATE = ("union Uu = Alpha\ntype Alpha implements Aged & Base { f_e: [Uu] f_o: Uu }\ninterface Base { f_e: [Uu] }\n"
               "interface Aged implements Base { f_e: [Uu] }\ntype Hh { f_r: Uu! f_l: [Uu!]! f_h: Uu }\nschema { query: Hh }\n")
SINGLE_EARLY = "union Uu = Alpha\ntype Alpha { f_e: [Uu] f_o: Uu }\ntype Hh { f_r: Uu! f_l: [Uu!] f_h: Uu }\nschema { query: Hh }\n"

CORPUS = [
    (SINGLE_LATE_WITNESS, "pydantic_v2.BaseModel", {}, {}),  # the witness of C17-single-member-union as it was recorded
    # overrides of predefined scalars
    ("type A { f_a: ID! f_b: [Float] f_c: Int f_d: String! f_e: Boolean }\nschema { query: A }\n", "pydantic_v2.BaseModel", {}, {"ID": "int", "Float": "str"}),
    ("input A { f_a: ID! f_b: [Float!]! f_c: Int f_d: String! f_e: Boolean }\ntype Q { f_q: Int }\nschema { query: Q }\n", "pydantic.BaseModel", {}, {"Int": "str", "String": "int", "Boolean": "float"}),
    # nested wrappers, every nullability pattern of depth 2
    ("type A { f_a: [[Int!]]! f_b: [[Int]!] f_c: [[Int]]  f_d: [[Int!]!]! f_e: [A!] f_g: A! }\nschema { query: A }\n", "pydantic_v2.BaseModel", {}, {}),
    ("type A { f_a: [[Int!]]! f_b: [[Int]!] f_c: [[Int]]  f_d: [[Int!]!]! f_e: [A!] }\nschema { query: A }\n", "pydantic.BaseModel", {"use_union_operator": True, "use_standard_collections": True}, {}),
    ("type A { f_a: [[Int!]]! f_b: [[Int]!] f_e: [A!] }\nschema { query: A }\n", "typing.TypedDict", {"force_optional_for_required_fields": True}, {}),
    ("scalar Date\ntype A { f_a: Date! f_b: [Date] }\nschema { query: A }\n", "pydantic_v2.BaseModel", {}, {"Date": "int"}),
    ("interface N { f_i: ID! }\ntype A implements N { f_i: ID! f_u: [U!] }\ntype B { f_s: String }\nunion U = A | B\nunion W = B\nenum Color { V_RED V_GREEN }\ninput I { f_c: Color = V_RED f_l: [Int!] = [1, 2] f_n: I }\nschema { query: A }\n", "pydantic_v2.BaseModel", {}, {}),
    # repaired finding C17-single-member-union (its former witness; must HOLD): a one-member union whose member
    # is emitted AFTER the alias (Alpha implements Aged & Base, Aged implements Base: kept back by the first pass)
    # — every executable kind, with and without the `|` spelling (`Uu | None` needs the alias to be a type
    # expression, not a plain string), a nullable / a list / a required member over the alias
    *[(SINGLE_LATE, kind, flags, {})
      for kind in e2e.EXECUTABLE_KINDS
      for flags in ({}, {"use_union_operator": True}, {"use_union_operator": True, "use_standard_collections": True})],
    # … and the same over an early member (worked before the repair as well)
    *[(SINGLE_EARLY, kind, flags, {}) for kind in e2e.EXECUTABLE_KINDS for flags in ({}, {"use_union_operator": True})],
]


# ------------------------------------------------------------------ targeted search (a proof or the correspondence broke)
def search_wrappers(ck: Check) -> None:
    """Every type expression with ≤ 3 wrappers over three base kinds, end-to-end, all executable kinds."""
    camp = ck.campaign("search: all wrapper stacks of depth ≤ 3, end-to-end")

    def stacks(d):
        if d == 0:
            yield ("n", "X")
            return
        for t in stacks(d - 1):
            yield ("l", t)
            if t[0] != "nn":
                yield ("nn", t)

    exprs = [t for d in range(0, 5) for t in stacks(d) if gt_sdl(t).count("[") <= 3]
    for base in ("Int", "Color", "B"):
        fields = "\n".join(f"  f_{i}: {gt_sdl(t).replace('X', base)}" for i, t in enumerate(exprs))
        sdl = f"enum Color {{ V_RED }}\ntype B {{ f_z: Int }}\ntype A {{\n{fields}\n}}\nschema {{ query: A }}\n"
        for kind in e2e.EXECUTABLE_KINDS:
            for flags in ({}, {"force_optional_for_required_fields": True}):
                oracle_case(ck, camp, sdl, kind, flags, {}, 7)
                if ck.failures:
                    return
    rng = ck.rng.fork("search")
    for _ in range(60):
        doc = gen_doc(rng, safe_unions=True, nested_ifaces=False)
        oracle_case(ck, camp, render_doc(doc), rng.choice(e2e.EXECUTABLE_KINDS), {}, {}, 11)
        if ck.failures:
            return


def shrink_first_failure(ck: Check, budget_s: float = 25.0) -> None:
    """Delta-debugging over the lines of the SDL text of the first failure (same classification,
    still a valid schema), so that the replay names a small document."""
    import graphql

    if not ck.failures or "sdl" not in (ck.failures[0].input or {}):
        return
    f0 = ck.failures[0]
    inp = f0.input
    t_end = time.time() + budget_s

    def still_fails(sdl: str):
        try:
            if graphql.validate_schema(graphql.build_schema(sdl)):
                return None
        except Exception:  # noqa: BLE001
            return None
        probe = Check(ck.prop, ck.tier)
        probe.findings = ck.findings
        oracle_case(probe, probe.campaign("shrink"), sdl, inp["model"], inp["flags"], inp["scalar_map"], inp["seed"])
        if probe.failures and probe.failures[0].classification == f0.classification:
            return probe.failures[0]
        return None

    lines = inp["sdl"].split("\n")
    best = None
    size = max(1, len(lines) // 2)
    while size >= 1 and time.time() < t_end:
        i = 0
        while i < len(lines) and time.time() < t_end:
            cand = lines[:i] + lines[i + size:]
            got = still_fails("\n".join(cand))
            if got is not None:
                lines, best = cand, got
            else:
                i += size
        size //= 2
    if best is not None:
        ck.failures[0] = best


def known_findings(ck: Check) -> None:
    for f in ck.findings:
        w = f["witness"]
        probe = Check(ck.prop, ck.tier)
        probe.findings = []
        camp = probe.campaign("witness")
        oracle_case(probe, camp, w["sdl"], w["model"], w.get("flags", {}), w.get("scalar_map", {}), 1)
        if probe.failures and all(probe.failures[0].classification.get(k) in (v if isinstance(v, list) else [v]) for k, v in f["match"].items()):
            ck.known(f["id"], f["what"])


def run(ck: Check) -> None:
    quick = ck.tier == "quick"
    ck.translate(graphql_tables.GEN_NAME, graphql_tables.generate())
    # the enum half rests on C09's model of the member loop: its tables (escape_characters, the initial excludes of
    # the GraphQL call site, the identifier tables of the resolver) are regenerated here as well
    from ..translate import enum_sites, esc
    from ..translate import unicode as uni

    ck.translate("Unicode", uni.generate())
    ck.translate("EscTables", esc.generate())
    ck.translate("EnumSites", enum_sites.generate())
    ck.prove()
    ck.assumptions += [
        "graphql-core (build_schema, lexicographic_sort_schema, the is_*_type predicates) is used as it is; the model takes the order of fields and interfaces it reports as a parameter",
        "type expressions are well-formed (no `!` directly on `!`): the SDL grammar and graphql-core both refuse the others (checked in the malformed stream)",
        "field names are prefixed f_ so that member-name mangling (C07), keyword clashes and the type-name/field-name alias defect (C02) stay out of this property; enum values are prefixed V_ everywhere except in the enum-renaming family (c17_enum), whose value names are the ones the enum resolver must rename — there the property is read as: the Enum's VALUES are the GraphQL value names (JSON carries values), the member name equals the value name wherever Python allows it",
        "enum value names starting with `__` (reserved by GraphQL introspection: validate_schema refuses them) occur only in the parser-level correspondence gqlenum.values, not in end-to-end documents",
        "types named Query / Mutation are skipped by the generator by design (Gen/GraphqlTables.skippedTypeNames); documents name their root type differently",
        "a non-null input field is required in the generated class whether or not the schema gives it a default (the property's statement: a non-null field is required); its default is then not observable on the member and is compared only under force-optional; conforming input objects supply every non-null field",
        "default values are compared with graphql-core's coerced `default_value` (value_from_ast): type-strict (0, 0.0, False differ), a float by its repr, a dict regardless of key order, an Enum member as the value it stands for; TypedDict output has no defaults; msgspec output is not executable here",
        "a JSON object conforming to an object type supplies every field (nullable ones possibly null); input objects may leave nullable fields out; values of a custom scalar are values of its configured Python type",
        "the pydantic-v1-style output is executed on pydantic.v1 of pydantic 2.13; msgspec output is not executable here and is not part of this oracle",
        "ordering model: the named types are taken in the order of the generator's own build_graphql_schema(sdl).type_map (graphql-core's lexicographic sort is a parameter); MAX_RECURSION_COUNT of sort_data_models is not modelled (the schemas here need a handful of passes); one output module",
        "Union template: the template variables the model gives a value are `description` and those parse_union sets from parser options (generated table unionTemplateVars); the theorems quantify over ALL settings of the variables, the campaigns pass no per-union extra_template_data",
        "a right-hand side of an alias statement is evaluated when the module is imported, a class-member annotation is not (`from __future__ import annotations` heads every generated module); names inside a string literal are forward references",
    ]
    guard.campaign(ck, campaign_parse_field, 12 if quick else 100, 40)
    guard.campaign(ck, c17_bridge.campaign_annotation, 20 if quick else 160, 40, sys.modules[__name__])
    guard.campaign(ck, campaign_object_like, 120 if quick else 1000)
    ck.c17_obs = []
    me = sys.modules[__name__]
    guard.campaign(ck, c17_fields.campaign_resolve, me, 150 if quick else 1500)
    guard.campaign(ck, c17_fields.campaign_defaults, me, 14 if quick else 120, 30)
    guard.campaign(ck, c17_fields.campaign_defaults_e2e, me, 30 if quick else 150)
    guard.campaign(ck, c17_fields.campaign_defaults_static, me, 12 if quick else 120)
    guard.campaign(ck, c17_fields.campaign_clash, me, 40 if quick else 200)
    guard.campaign(ck, c17_enum.campaign_enum_values, me, 150 if quick else 2000)
    guard.campaign(ck, c17_enum.campaign_enum_family, me, 24 if quick else 300)
    guard.campaign(ck, c17_order.campaign_family, me, quick)
    guard.campaign(ck, c17_order.campaign_all_orders, me, quick)
    guard.campaign(ck, campaign_e2e, 150 if quick else 1200, 2)
    guard.campaign(ck, c17_order.campaign_order, me)
    ck.c17_obs = []
    ck.search_hooks.append(lambda c: c17_enum.search_enum(c, me))
    ck.search_hooks.append(lambda c: c17_fields.search_from_disagreements(c, me))
    ck.search_hooks.append(lambda c: c17_fields.search_members(c, me))
    ck.search_hooks.append(lambda c: c17_order.search_order(c, me))
    ck.search_hooks.append(search_wrappers)
    ck.search_hooks.append(shrink_first_failure)
    shrink_first_failure(ck)
    known_findings(ck)


def replay(ck: Check, path: str) -> int:
    data = json.loads(open(path).read())
    inp = data.get("input") or {}
    camp = ck.campaign("replay")
    ck.findings = []  # a replay shows the failure even when it is a recorded finding
    if inp.get("static"):
        c17_fields.static_case(ck, camp, inp["sdl"], inp["model"], inp.get("flags", {}))
    elif "sdl" in inp:
        oracle_case(ck, camp, inp["sdl"], inp["model"], inp.get("flags", {}), inp.get("scalar_map", {}), inp.get("seed", 1))
    for f in ck.failures:
        print("REPLAY-FAILS:", json.dumps(f.classification), f.observed[:300])
    if not ck.failures:
        print("replay: the oracle does not fail on this input")
    return 1 if ck.failures else 0
