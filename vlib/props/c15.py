"""C15 — equivalent inputs produce the same models."""
from __future__ import annotations

import ast
import contextlib
import io
import json
import os
import re
import shutil
import tempfile
import time
import warnings
from pathlib import Path
from typing import Any

from .. import e2e, guard
from ..common import Hang, Rng, hx, unhx, watchdog
from ..runner import Check
from ..translate import formats
from ..translate import yamlloader
from . import c15_history, c15_refs, c15_yaml

V2 = "pydantic_v2.BaseModel"


# ------------------------------------------------------------------ correspondence: bounds normalisation
def _enc_num(x) -> str:
    return "-" if x is None else f"(n {x})"


def _enc_excl(x) -> str:
    if x is None:
        return "-"
    if isinstance(x, bool):
        return f"(b {int(x)})"
    return f"(n {x})"


def campaign_bounds(ck: Check, n: int) -> None:
    camp = ck.campaign("Bounds.normalise vs JsonSchemaObject.parse_obj (validate_exclusive_maximum_and_exclusive_minimum)")
    t0 = time.time()
    rng = ck.rng.fork("bounds")
    from datamodel_code_generator.parser.jsonschema import JsonSchemaObject

    def num():
        return None if rng.chance(1, 3) else rng.range(-20, 20)

    def excl():
        c = rng.below(4)
        return None if c == 0 else (rng.chance(1, 2) if c == 1 else rng.range(-20, 20))

    cases = [(num(), num(), excl(), excl()) for _ in range(max(n, 400))]
    # all 3×3×… shapes once, with fixed numbers
    shapes = [(a, b, c, d) for a in (None, 1) for b in (None, 9) for c in (None, True, False, 2) for d in (None, True, False, 8)]
    # a bound of exactly zero (falsy in Python) in every position, as int 0, float 0.0 and -0.0
    zeros = [(a, b, c, d) for a in (None, 0, 5) for b in (None, 0, 5) for c in (None, True, False, 0) for d in (None, True, False, 0)
             if 0 in (a, b) or c == 0 and c is not False or d == 0 and d is not False]
    shapes += zeros
    cases[: len(shapes)] = shapes
    zero_spelling = [rng.choice([0, 0.0, -0.0]) for _ in cases]
    replies = ck.driver.run([f"bounds.normalise {_enc_num(a)} {_enc_num(b)} {_enc_excl(c)} {_enc_excl(d)}" for a, b, c, d in cases])
    for (a, b, c, d), rep, z in zip(cases, replies, zero_spelling):
        camp.evaluations += 1
        raw = {k: (z if (v == 0 and not isinstance(v, bool)) else v)
               for k, v in (("minimum", a), ("maximum", b), ("exclusiveMinimum", c), ("exclusiveMaximum", d)) if v is not None}
        raw["type"] = "number" if isinstance(z, float) else "integer"
        if any(v == 0 and not isinstance(v, bool) for v in (a, b, c, d) if v is not None):
            camp.hit("zero_bound:" + repr(z))
        try:
            with warnings.catch_warnings():
                warnings.simplefilter("ignore")
                o = JsonSchemaObject.parse_obj(dict(raw))

            def val(x):
                x = getattr(x, "value", x)
                return None if x is None else (x if isinstance(x, bool) else int(x))

            impl = "ok " + " ".join([_enc_num(val(o.minimum)), _enc_num(val(o.maximum)), _enc_excl(val(o.exclusiveMinimum)), _enc_excl(val(o.exclusiveMaximum))])
        except KeyError:
            impl = "keyerror"
        except Exception as e:  # noqa: BLE001
            impl = f"{type(e).__name__}"
        camp.hit("keyerror" if impl == "keyerror" else "ok")
        if isinstance(c, bool) or isinstance(d, bool):
            camp.hit("draft4_flag")
            camp.distinct.add((a, b, c, d))
        if rep != impl:
            ck.disagree(camp, raw, rep, impl)
        elif len(camp.samples) < 2 and (c is True or d is True) and impl != "keyerror":
            camp.samples.append({"raw": raw, "normalised": impl})
    camp.wall_s = time.time() - t0


BODIES = {
    "typed": [{"type": "object", "properties": {"x": {"type": "integer"}}}, {"type": "string"}, {"type": "array", "items": {}}, {"properties": {}},
              {"additionalProperties": False}, {"type": "object"}],
    "empty": [{}],
    "keywords": [{"description": "d"}, {"title": "T"}, {"nullable": True}, {"x-note": 1}, {"example": {}}, {"deprecated": True}],
    "notmapping": [True, False, None],
}


def registry_paths(doc: dict) -> list[tuple[str, str]] | str:
    """(container path, name) of every registry entry below a container of SCHEMA_PATHS that is loaded after
    JsonSchemaParser.parse_raw — the named schemas that became definitions, each under the path it was parsed under"""
    from datamodel_code_generator.parser.jsonschema import JsonSchemaParser

    try:
        with watchdog(20.0), warnings.catch_warnings(), contextlib.redirect_stderr(io.StringIO()):
            warnings.simplefilter("ignore")
            parser = JsonSchemaParser(json.dumps(doc))
            parser.parse_raw()
    except Exception as e:  # noqa: BLE001
        return f"{type(e).__name__}: {str(e)[:200]}"
    out = []
    for path, ref in parser.model_resolver.references.items():
        for cont in JsonSchemaParser.SCHEMA_PATHS:
            if ref.loaded and path.startswith(cont + "/") and "/" not in path[len(cont) + 1:]:
                out.append((cont, path[len(cont) + 1:]))
    return sorted(out)


def campaign_containers(ck: Check, n: int) -> None:
    camp = ck.campaign("Bounds.walkDoc (walkContainers over SCHEMA_PATHS) + Bounds.walkNamed vs JsonSchemaParser / OpenAPIParser (which named schemas of "
                       "definitions / $defs / components.schemas become top-level definitions and under which registry path, for documents with one or "
                       "both containers — the same name in both included — and bodies that are empty, annotation-only, typed, or not a mapping)")
    t0 = time.time()
    rng = ck.rng.fork("containers")
    names_pool = ["Aa", "Bb", "Cc", "Dd", "Ee"]
    cases = []
    for i in range(n):
        pool = rng.shuffle(names_pool)

        def body() -> tuple[str, Any]:
            kind = rng.choice(["typed", "typed", "empty", "empty", "keywords", "keywords", "notmapping"] if rng.chance(1, 6) else ["typed", "typed", "empty", "keywords"])
            return kind, rng.choice(BODIES[kind])

        if i % 3 == 2:  # OpenAPI: the one container of OpenAPIParser.SCHEMA_PATHS
            entries = [(pool.pop(), *body()) for _ in range(rng.range(1, 4))]
            if rng.chance(1, 3) and len(entries) > 1 and entries[0][1] != "notmapping":   # one of them referenced by a typed one
                entries.append(("Ref", "typed", {"type": "object", "properties": {"r": {"$ref": "#/components/schemas/" + entries[0][0]}}}))
            doc: dict[str, Any] = {"openapi": "3.0.0", "info": {"title": "t", "version": "1"}, "paths": {}, "components": {"schemas": {nm: b for nm, _, b in entries}}}
            cases.append((doc, "openapi", [("components.schemas", entries)]))
            continue
        doc = {"$schema": "http://json-schema.org/draft-07/schema#"}
        conts = []
        for key in rng.shuffle(["definitions", "$defs"]):
            c = rng.below(5)
            if c == 0:
                continue  # key absent
            entries = [] if c == 1 else [(pool.pop(), *body()) for _ in range(rng.range(1, 2))]
            if conts and conts[0][1] and entries and rng.chance(1, 3):
                # the SAME name in both containers (two registry paths), with the same or another body
                nm0, kd0, b0 = conts[0][1][0]
                entries[0] = (nm0, kd0, b0) if rng.chance(1, 3) else (nm0, *body())
            if conts and conts[0][1] and entries and entries[0][1] != "notmapping" and rng.chance(1, 4):
                # an entry of this container referenced from the other one
                tgt = entries[0][0]
                conts[0][1].append(("Ref", "typed", {"type": "object", "properties": {"r": {"$ref": f"#/{key}/{tgt}"}}}))
                doc[conts[0][0]]["Ref"] = conts[0][1][-1][2]
            doc[key] = {nm: b for nm, _, b in entries}
            conts.append((key, entries))
        cases.append((doc, "jsonschema", conts))
    js = [(doc, conts) for doc, t, conts in cases if t == "jsonschema"]
    doc_replies = iter(ck.driver.run(["defs.doc " + " ".join("(" + " ".join([hx(k)] + [f"({hx(nm)} {kd})" for nm, kd, _ in es]) + ")" for k, es in conts)
                                      for _, conts in js]))
    oa_replies = iter(ck.driver.run(["defs.walk " + " ".join(f"({hx(nm)} {kd})" for nm, kd, _ in conts[0][1]) for _, t, conts in cases if t == "openapi"]))
    for doc, t, conts in cases:
        camp.evaluations += 1
        res = run_gen(json.dumps(doc), t)
        classes = sorted(c for c in class_map(res.code) if c != "Model") if res.ok else "error"
        shape = t + ":" + ("+".join(f"{k}:{'empty' if not es else 'filled'}" for k, es in sorted(conts)) or "none")
        camp.hit(shape)
        for _, es in conts:
            for _, kd, _ in es:
                camp.hit(f"body:{kd}:{t}")
        camp.distinct.add(json.dumps(doc, sort_keys=True))
        if t == "openapi":
            rep = next(oa_replies)
            model: Any = sorted(unhx(x) for x in rep.split(" ")[1:] if x) if rep.startswith("ok") else rep
            impl: Any = classes
        else:
            rep = next(doc_replies)
            if rep.startswith("ok"):
                pairs = sorted(tuple(unhx(x) for x in item.strip("()").split(" ")) for item in re.findall(r"\([^()]*\)", rep))
                names = [nm for _, nm in pairs]
                twice = sorted({nm for nm in names if names.count(nm) > 1})
                if twice:
                    camp.hit("same_name_in_both_containers")
                # classes: one per walked entry, named like the entry; for a name that sits in both containers the second class
                # gets a suffix — `1` (ModelResolver.add, unique=True) or `Model` (a name reserved by a $ref before the entry is
                # parsed, renamed by the per-module pass; both C06) — unless the duplicate-model pass merges two identical ones
                model = {"paths": pairs, "classes": sorted(set(names))}
                reg = registry_paths(doc)
                if isinstance(classes, list):
                    extra = [c for c in classes if c not in names]
                    ok_extra = all(any(c in (nm + "1", nm + "Model") for nm in twice) for c in extra) and len(extra) <= len(twice)
                    impl = {"paths": reg, "classes": sorted(set(classes) - set(extra)) if ok_extra else classes}
                else:
                    impl = {"paths": reg, "classes": f"{res.error_type}: {res.error_msg}"}
            else:
                model, impl = rep, ("error" if not res.ok else {"classes": classes})
        if model != impl:
            ck.disagree(camp, doc, model, impl)
        elif len(camp.samples) < 2 and any(kd == "empty" for _, es in conts for _, kd, _ in es) and res.ok:
            camp.samples.append({"document": doc, "definitions": impl})
    camp.wall_s = time.time() - t0


# ------------------------------------------------------------------ observation: per-class AST
def class_map(code: str) -> dict[str, str]:
    """top-level definition name → canonical dump (classes, and assignments such as type aliases)"""
    out: dict[str, str] = {}
    if not code:
        return out
    tree = ast.parse(code)
    for node in tree.body:
        if isinstance(node, ast.ClassDef):
            out[node.name] = ast.dump(node, annotate_fields=True, include_attributes=False)
        elif isinstance(node, (ast.Assign, ast.AnnAssign)):
            tgt = node.targets[0] if isinstance(node, ast.Assign) else node.target
            if isinstance(tgt, ast.Name):
                out[tgt.id] = ast.dump(node, include_attributes=False)
    return out


def show_class(code: str, name: str) -> str:
    for node in ast.parse(code).body:
        if isinstance(node, ast.ClassDef) and node.name == name:
            return ast.unparse(node)
    return "<absent>"


# ------------------------------------------------------------------ representations
TS_RE = re.compile(r"^\d{4}-\d\d?-\d\d?([Tt ]\d\d?:\d\d:\d\d(\.\d*)?\s*(Z|[-+]\d\d?(:\d\d)?)?)?$")


def yaml_plain_timestamps(value) -> str:
    """YAML text in which strings that look like timestamps are written as plain scalars — what a
    YAML 1.2 emitter does (the 1.2 core schema has no timestamp type). The generator's SafeLoader
    patch exists to keep exactly these as strings."""
    import yaml

    class D(yaml.SafeDumper):
        pass

    def rep_str(dumper, data):
        if TS_RE.match(data):
            return yaml.ScalarNode("tag:yaml.org,2002:str", data, style="")  # plain
        return yaml.SafeDumper.represent_str(dumper, data)

    D.add_representer(str, rep_str)
    # drop the timestamp resolver so that the emitter does not quote them
    D.yaml_implicit_resolvers = {
        k: [(tag, rx) for tag, rx in v if tag != "tag:yaml.org,2002:timestamp"] for k, v in yaml.SafeDumper.yaml_implicit_resolvers.items()
    }
    return yaml.dump(value, Dumper=D, allow_unicode=True, sort_keys=False)


def yaml_text(doc) -> str:
    """yaml.safe_dump of the value — checked to be read back as the value by the stock loader (PyYAML's
    emitter writes U+0085 in a way its own reader does not invert when allow_unicode is on)"""
    import yaml

    text = yaml.safe_dump(doc, allow_unicode=True, sort_keys=False)
    if yaml.safe_load(text) != doc:
        text = yaml.safe_dump(doc, allow_unicode=False, sort_keys=False)
    return text


def reref(v, prefix: str):
    """`#/definitions/<name>[/<deeper pointer>]` → `<prefix><name>[/<deeper pointer>]`; other pointers (`#/properties/…`) stay"""
    if isinstance(v, dict):
        return {k: (prefix + x[len("#/definitions/"):] if k == "$ref" and isinstance(x, str) and x.startswith("#/definitions/") else reref(x, prefix))
                for k, x in v.items()}
    if isinstance(v, list):
        return [reref(x, prefix) for x in v]
    return v


def to_draft4(v, write_false: bool):
    """numeric exclusive bounds → draft-4 boolean form (the generator of schemas never writes an
    inclusive and an exclusive bound on the same side)"""
    if isinstance(v, list):
        return [to_draft4(x, write_false) for x in v]
    if not isinstance(v, dict):
        return v
    out = {k: to_draft4(x, write_false) for k, x in v.items()}
    if out.get("type") in ("integer", "number"):
        for excl, incl in (("exclusiveMinimum", "minimum"), ("exclusiveMaximum", "maximum")):
            if excl in out and not isinstance(out[excl], bool):
                out[incl] = out.pop(excl)
                out[excl] = True
            elif incl in out and write_false:
                out[excl] = False
    return out


def run_gen(source, input_file_type: str, timeout: float = 20.0) -> e2e.Result:
    """generate() with the source handed over as it is (str or Path)"""
    import datamodel_code_generator as d

    work = tempfile.mkdtemp(dir=e2e.scratch_root())
    out = Path(work) / "out.py"
    res = e2e.Result(ok=False)
    cwd = os.getcwd()
    try:
        with watchdog(timeout), warnings.catch_warnings(), contextlib.redirect_stderr(io.StringIO()):
            warnings.simplefilter("ignore")
            d.generate(source, input_file_type=d.InputFileType(input_file_type), output=out,
                       output_model_type=d.DataModelType(V2), formatters=[], disable_timestamp=True)
        res.ok = True
    except Hang as e:
        res.hang, res.error_type, res.error_msg = True, "Hang", str(e)
    except RecursionError as e:
        res.error_type, res.error_msg = "RecursionError", str(e)[:200]
    except BaseException as e:  # noqa: BLE001
        if isinstance(e, (KeyboardInterrupt, SystemExit)):
            raise
        res.error_type, res.error_msg = type(e).__name__, str(e)[:300]
    finally:
        if os.getcwd() != cwd:
            os.chdir(cwd)
    if out.is_file():
        res.files["out.py"] = out.read_text(encoding="utf-8", errors="surrogateescape")
    shutil.rmtree(work, ignore_errors=True)
    return res


# ------------------------------------------------------------------ schema generator
YAMLISH = ["2020-01-01", "2001-12-14t21:59:43.10-05:00", "2002-12-14", "on", "off", "yes", "no", "y", "n", "true", "True", "NULL", "null", "~",
           "1", "1.5", "1e3", "0o17", "0x1F", "12:30:00", "1_000", ".inf", ".nan", "=", "<<", "-", "? x", "a: b", "#c", "@x", "`x`", "!t", "&a", "*a",
           "[1]", "{a}", " lead", "trail ", "", "é", "日本", "line\nbreak", "tab\there", "quote'\"", "\U0001f600"]
PLAIN_NAMES = ["name", "age", "owner", "tags", "value", "count", "kind", "note"]
FORMATS_STR = ["date", "date-time", "uuid", "email", "uri", "ipv4", "time", "hostname", "not-a-known-format"]
DEF_NAMES = ["Pet", "Owner", "Tag", "Item", "Thing", "Node", "Kind"]


def gen_defs(rng: Rng) -> dict[str, dict]:
    names = rng.sample(DEF_NAMES, rng.range(2, 5))

    def yamlish() -> str:
        return rng.choice(YAMLISH)

    def prop_schema(depth: int = 0) -> dict:
        c = rng.below(12)
        s: dict[str, Any]
        if c == 0:
            s = {"type": "string"}
            if rng.chance(1, 2):
                s["format"] = rng.choice(FORMATS_STR)
            elif rng.chance(1, 2):
                s["default"] = yamlish()
        elif c == 1:
            s = {"type": "integer"}
            side = rng.below(4)
            if side & 1:
                s[rng.choice(["minimum", "exclusiveMinimum"])] = 0 if rng.chance(1, 3) else rng.range(-5, 5)
            if side & 2:
                s[rng.choice(["maximum", "exclusiveMaximum"])] = 0 if rng.chance(1, 4) else rng.range(6, 50)
        elif c == 2:
            s = {"type": "number"}
            if rng.chance(1, 2):
                s[rng.choice(["minimum", "exclusiveMinimum", "maximum", "exclusiveMaximum"])] = rng.choice([0, 0.0, -0.0, 1.5, -2.25, 1e16, 100])
            if rng.chance(1, 3):
                s["default"] = rng.choice([1.5, 1e16, 2.0, 1e-7, 12345678901234567890])
        elif c == 3:
            s = {"type": "boolean"}
            if rng.chance(1, 2):
                s["default"] = rng.chance(1, 2)
        elif c == 4:
            s = {"$ref": "#/definitions/" + rng.choice(names)}
        elif c == 5 and depth < 2:
            s = {"type": "array", "items": prop_schema(depth + 1)}
        elif c == 6:
            s = {"type": "string", "enum": sorted({yamlish() for _ in range(rng.range(1, 4))} - {""}) or ["x"]}
        elif c == 7:
            s = {"type": "string", "const": yamlish()}
        elif c == 8:
            s = {"type": "string", "examples": [yamlish(), yamlish()], "default": yamlish()}
        elif c == 9 and depth < 2:
            s = {"type": "object", "properties": {rng.choice(PLAIN_NAMES): prop_schema(depth + 1)}}
        else:
            s = {"type": rng.choice(["string", "integer", "number", "boolean"])}
        if rng.chance(1, 5):
            s["description"] = yamlish() + " " + yamlish()
        if rng.chance(1, 8) and "$ref" not in s:
            s["title"] = "T " + rng.choice(PLAIN_NAMES)
        return s

    defs: dict[str, dict] = {}
    for nm in names:
        c = rng.below(8)
        if c >= 6:
            # minimal bodies: the empty ("accept anything") schema, annotation-only schemas, a bare type — referenced by
            # another schema or (mostly) by nothing at all
            defs[nm] = rng.choice([{}, {}, {"description": yamlish() or "d"}, {"type": "object"}, {"title": "T " + nm}, {"type": "string"},
                                   {"nullable": True}, {"type": "array", "items": {}}, {"properties": {}}, {"additionalProperties": False}])
        elif c == 0:
            defs[nm] = {"type": "string", "enum": sorted({yamlish() for _ in range(rng.range(1, 4))} - {""}) or ["x"]}
        elif c == 1:
            defs[nm] = prop_schema(1)
            if "$ref" in defs[nm]:
                defs[nm] = {"type": "integer", "exclusiveMinimum": 0}
        else:
            props: dict[str, dict] = {}
            for _ in range(rng.range(1, 4)):
                key = rng.choice(PLAIN_NAMES) if rng.chance(2, 3) else yamlish()
                props[key] = prop_schema()
            obj = {"type": "object", "properties": props}
            req = [k for k in props if rng.chance(1, 3)]
            if req:
                obj["required"] = req
            if rng.chance(1, 5):
                obj["description"] = yamlish()
            defs[nm] = obj
    # JSON pointers that go deeper than a named schema: `#/definitions/<X>/properties/<y>` (parsed lazily, in a second phase)
    objs = [nm for nm in names if isinstance(defs[nm].get("properties"), dict) and defs[nm]["properties"]]
    if objs and rng.chance(1, 3):
        for _ in range(rng.range(1, 2)):
            src = rng.choice(objs)
            key = rng.choice(sorted(defs[src]["properties"]))
            if "/" in key or "~" in key or "$ref" in defs[src]["properties"][key]:
                continue
            holder = rng.choice(objs)
            defs[holder]["properties"]["via_" + rng.choice(PLAIN_NAMES)] = {"$ref": f"#/definitions/{src}/properties/{key}"}
    return defs


def wrap_jsonschema(defs: dict, container: str, with_root: bool) -> dict:
    doc: dict[str, Any] = {"$schema": "http://json-schema.org/draft-07/schema#"}
    if with_root:
        first = next(iter(defs))
        doc.update({"type": "object", "properties": {"root_ref": {"$ref": f"#/{container}/{first}"}}})
    if with_root == 2:  # pointers to siblings of the root schema's own properties
        doc["properties"]["billing"] = {"type": "object", "properties": {"street": {"type": "string"}, "zip": {"type": "string"}}, "required": ["street"]}
        doc["properties"]["shipping"] = {"$ref": "#/properties/billing"}
        doc["properties"]["street_again"] = {"$ref": "#/properties/billing/properties/street"}
    doc[container] = reref(defs, f"#/{container}/")
    return doc


def wrap_openapi(defs: dict) -> dict:
    return {"openapi": "3.0.0", "info": {"title": "t", "version": "1"}, "paths": {}, "components": {"schemas": reref(defs, "#/components/schemas/")}}


# ------------------------------------------------------------------ the property's own oracle
def strings_of(v) -> list[str]:
    out: list[str] = []
    if isinstance(v, dict):
        for k, x in v.items():
            out.append(k)
            out += strings_of(x)
    elif isinstance(v, list):
        for x in v:
            out += strings_of(x)
    elif isinstance(v, str):
        out.append(v)
    return out


def floats_of(v) -> list[float]:
    if isinstance(v, dict):
        return [f for x in v.values() for f in floats_of(x)]
    if isinstance(v, list):
        return [f for x in v for f in floats_of(x)]
    return [v] if isinstance(v, float) else []


def string_trigger(doc) -> str:
    ss = strings_of(doc)
    cls = set()
    for s in ss:
        if TS_RE.match(s):
            cls.add("timestamp_like")
        if any(ord(c) > 0xFFFF for c in s):
            cls.add("astral_char")
        if any(c in s for c in "\n\t"):
            cls.add("control_char")
    for f in floats_of(doc):
        if "e" in repr(f):
            cls.add("exponent_float")
    return "+".join(sorted(cls)) or "none"


def compare(a: e2e.Result, b: e2e.Result, ignore: set[str]) -> tuple[str, str] | None:
    """None when both runs produced the same definitions; else (mechanism, observed)"""
    if a.hang or b.hang:
        return None
    if a.ok != b.ok:
        bad, side = (a, "first") if not a.ok else (b, "second")
        return ("one_side_error", f"only the {side} representation fails: {bad.error_type}: {bad.error_msg}")
    if not a.ok:
        if a.error_type != b.error_type:
            return ("errors_differ", f"{a.error_type}: {a.error_msg} ≠ {b.error_type}: {b.error_msg}")
        return None
    ea, eb = e2e.parses(a.code), e2e.parses(b.code)
    if ea or eb:
        return None if (ea and eb) else ("one_side_unparsable", str(ea or eb))
    ca = {k: v for k, v in class_map(a.code).items() if k not in ignore}
    cb = {k: v for k, v in class_map(b.code).items() if k not in ignore}
    if set(ca) != set(cb):
        return ("class_set_differs", f"definitions {sorted(ca)} ≠ {sorted(cb)}")
    for k in ca:
        if ca[k] != cb[k]:
            return ("classes_differ", f"{k}:\n{show_class(a.code, k)}\n  ≠\n{show_class(b.code, k)}")
    return None


def json_text(doc, style: str) -> str:
    if style == "compact":
        return json.dumps(doc, ensure_ascii=False, separators=(",", ":"))
    if style == "indent_ascii":
        return json.dumps(doc, ensure_ascii=True, indent=2)
    if style == "tabs":
        return json.dumps(doc, ensure_ascii=False, indent="\t")
    if style == "sorted_compact":  # top-level keys sorted, no blanks
        return json.dumps({k: doc[k] for k in sorted(doc)}, ensure_ascii=False, separators=(",", ":"))
    return json.dumps(doc, ensure_ascii=False)


STYLES = ["compact", "indent_ascii", "tabs", "sorted_compact"]
PAIRS = ["json_vs_yaml", "json_vs_yaml12", "json_styles", "str_vs_path", "auto_vs_explicit", "definitions_vs_defs", "definitions_vs_openapi", "draft4_vs_draft6"]


def run_pair(pair: str, defs: dict, with_root: bool, variant: int) -> tuple[str, str] | None:
    """Both sides of one equivalence for the schema set `defs`; None when they agree."""
    import yaml

    base_doc = wrap_jsonschema(defs, "definitions", with_root)
    base = run_gen(json.dumps(base_doc, ensure_ascii=False), "jsonschema")
    if pair == "json_vs_yaml":
        return compare(base, run_gen(yaml_text(base_doc), "jsonschema"), set())
    if pair == "json_vs_yaml12":
        return compare(base, run_gen(yaml_plain_timestamps(base_doc), "jsonschema"), set())
    if pair == "json_styles":
        style = STYLES[variant % len(STYLES)]
        if variant % 2 == 1:  # the same for an OpenAPI document
            oa = wrap_openapi(defs)
            return compare(run_gen(json.dumps(oa, ensure_ascii=False), "openapi"), run_gen(json_text(oa, style), "openapi"), set())
        return compare(base, run_gen(json_text(base_doc, style), "jsonschema"), set())
    if pair == "str_vs_path":
        d = tempfile.mkdtemp(dir=e2e.scratch_root())
        p = Path(d) / ("schema.json" if variant % 2 == 0 else "schema.yaml")
        the_doc, ift = (wrap_openapi(defs), "openapi") if variant % 4 >= 2 else (base_doc, "jsonschema")
        text = json.dumps(the_doc, ensure_ascii=False) if variant % 2 == 0 else yaml_text(the_doc)
        p.write_text(text, encoding="utf-8")
        try:
            return compare(run_gen(text, ift), run_gen(p, ift), set())
        finally:
            shutil.rmtree(d, ignore_errors=True)
    if pair == "auto_vs_explicit":
        if variant % 2 == 0:
            doc = dict(base_doc)
            if with_root and variant % 4 == 2:
                del doc["$schema"]  # then `type: object` / `properties` is what marks it as a schema
            return compare(run_gen(json.dumps(doc, ensure_ascii=False), "jsonschema"), run_gen(json.dumps(doc, ensure_ascii=False), "auto"), set())
        oa = wrap_openapi(defs)
        explicit = run_gen(json.dumps(oa, ensure_ascii=False), "openapi")
        # top-level keys in sorted order (`components`, `info` before `openapi`); the order of schemas and
        # properties is part of the document and stays
        oa = {k: oa[k] for k in sorted(oa)}
        form = (variant // 2) % 6
        if form == 0:
            text, ext = yaml.safe_dump(oa, allow_unicode=True, sort_keys=False), ".yaml"
        elif form == 1:  # one line, keys sorted: `components` and `info` come before `openapi`
            text, ext = json.dumps(oa, ensure_ascii=False), ".json"
        elif form == 2:  # the same without any blank
            text, ext = json.dumps(oa, ensure_ascii=False, separators=(",", ":")), ".json"
        elif form == 3:  # flow-style YAML
            text, ext = yaml.safe_dump(oa, allow_unicode=True, default_flow_style=True, sort_keys=False, width=10**6), ".yaml"
        elif form == 4:  # indented JSON, keys sorted
            text, ext = json.dumps(oa, ensure_ascii=False, indent=2), ".json"
        else:  # block YAML, top-level keys sorted
            text, ext = yaml.safe_dump(oa, allow_unicode=True, sort_keys=False), ".yaml"
        if (variant // 12) % 2 == 0:
            return compare(explicit, run_gen(text, "auto"), set())
        d = tempfile.mkdtemp(dir=e2e.scratch_root())
        try:
            p = Path(d) / ("api" + ext)
            p.write_text(text, encoding="utf-8")
            return compare(explicit, run_gen(p, "auto"), set())
        finally:
            shutil.rmtree(d, ignore_errors=True)
    if pair == "definitions_vs_defs":
        return compare(base, run_gen(json.dumps(wrap_jsonschema(defs, "$defs", with_root), ensure_ascii=False), "jsonschema"), set())
    if pair == "definitions_vs_openapi":
        # the JSON-Schema document has a root schema, the OpenAPI document has none: the root model is not compared
        return compare(run_gen(json.dumps(wrap_jsonschema(defs, "definitions", False), ensure_ascii=False), "jsonschema"),
                       run_gen(json.dumps(wrap_openapi(defs), ensure_ascii=False), "openapi"), {"Model"})
    if pair == "draft4_vs_draft6":
        d4 = to_draft4(base_doc, write_false=variant % 2 == 1)
        return compare(base, run_gen(json.dumps(d4, ensure_ascii=False), "jsonschema"), set())
    raise ValueError(pair)


def shrink_defs(defs: dict, pred, budget_s: float = 10.0) -> dict:
    t_end = time.time() + budget_s

    def variants(v, top=False):
        if isinstance(v, dict):
            for k in list(v):
                if k in ("type", "$ref") and not top:
                    continue
                yield {a: b for a, b in v.items() if a != k}
            for k in list(v):
                for sub in variants(v[k]):
                    yield {a: (sub if a == k else b) for a, b in v.items()}
        elif isinstance(v, list):
            for i in range(len(v)):
                if len(v) > 1:
                    yield v[:i] + v[i + 1:]
            for i in range(len(v)):
                for sub in variants(v[i]):
                    yield v[:i] + [sub] + v[i + 1:]

    changed = True
    while changed and time.time() < t_end:
        changed = False
        for cand in variants(defs, True):
            if time.time() > t_end:
                break
            if not cand:
                continue
            try:
                ok = pred(cand)
            except Exception:  # noqa: BLE001
                ok = False
            if ok:
                defs, changed = cand, True
                break
    return defs


def oracle_case(ck: Check, camp, pair: str, defs: dict, with_root: bool, variant: int) -> None:
    camp.evaluations += 1
    camp.hit(f"pair:{pair}")
    r = run_pair(pair, defs, with_root, variant)
    if r is None:
        camp.hit("same_models")
        if len(camp.samples) < 3 and len(json.dumps(defs)) < 500:
            camp.samples.append({"pair": pair, "definitions": defs, "with_root": with_root})
        return
    mech = r[0]

    def pred(d):
        rr = run_pair(pair, d, with_root, variant)
        return rr is not None and rr[0] == mech

    small = shrink_defs(defs, pred)
    r2 = run_pair(pair, small, with_root, variant)
    if r2 is None or r2[0] != mech:
        small, r2 = defs, r
    trig = string_trigger(small)
    style = STYLES[variant % len(STYLES)] if pair == "json_styles" else ""
    camp.hit(f"differ:{pair}:{mech}:{trig}")
    ck.fail({"oracle": "equivalent_inputs", "pair": pair, "mechanism": mech, "trigger": trig, "style": style,
             "has_exponent_float": "exponent_float" in trig, "has_astral_char": "astral_char" in trig},
            {"pair": pair, "definitions": small, "with_root": with_root, "variant": variant}, r2[1])


def campaign_e2e(ck: Check, n: int) -> None:
    camp = ck.campaign("e2e differential: the same schema set handed over in two equivalent ways → same definitions (per-ClassDef AST)")
    t0 = time.time()
    rng = ck.rng.fork("e2e")
    for pair, defs, with_root, variant in CORPUS:
        oracle_case(ck, camp, pair, defs, with_root, variant)
    for i in range(n):
        defs = gen_defs(rng)
        with_root = rng.chance(1, 2)
        if with_root and rng.chance(1, 3):
            with_root = 2   # the root schema refers to its own properties by JSON pointer
        camp.distinct.add(json.dumps(defs, sort_keys=True))
        for pair in PAIRS:
            # the auto-detection pair walks through all of its 2 × 6 × 2 forms in turn
            oracle_case(ck, camp, pair, defs, with_root, (2 * i + 1 if i % 3 else 2 * i) if pair == "auto_vs_explicit" else rng.below(24))
    camp.wall_s = time.time() - t0


CORPUS = [
    # JSON pointers deeper than a named schema, and into the root schema's own properties: str vs Path, both input types
    *[("str_vs_path", {"A": {"type": "object", "properties": {"contact": {"type": "object", "properties": {"email": {"type": "string"}}}}},
                       "B": {"type": "object", "properties": {"via": {"$ref": "#/definitions/A/properties/contact"}}}}, 2, v) for v in range(4)],
    # the empty ("accept anything") schema that nothing refers to, beside one that is referred to
    *[(pr, {"Pet": {"type": "object", "properties": {"meta": {"$ref": "#/definitions/Metadata"}}}, "Metadata": {}, "AnyValue": {}}, False, 0)
      for pr in ("definitions_vs_openapi", "definitions_vs_defs", "json_vs_yaml")],
    ("draft4_vs_draft6", {"A": {"type": "object", "properties": {"x": {"type": "integer", "exclusiveMinimum": 0}, "y": {"type": "number", "exclusiveMaximum": 0.0},
                                                                 "z": {"type": "number", "exclusiveMinimum": -0.0, "exclusiveMaximum": 5}, "w": {"type": "integer", "minimum": 0}}}}, True, 0),
    ("draft4_vs_draft6", {"A": {"type": "object", "properties": {"x": {"type": "integer", "exclusiveMinimum": 0, "maximum": 0}}}}, False, 1),
    ("auto_vs_explicit", {"A": {"type": "object", "properties": {"x": {"type": "integer"}}}}, False, 3),
    ("auto_vs_explicit", {"A": {"type": "object", "properties": {"x": {"type": "integer"}}}}, False, 5),
    ("auto_vs_explicit", {"A": {"type": "object", "properties": {"x": {"type": "integer"}}}}, False, 7),
    ("auto_vs_explicit", {"A": {"type": "object", "properties": {"x": {"type": "integer"}}}}, False, 12 + 3),
    ("auto_vs_explicit", {"A": {"type": "object", "properties": {"x": {"type": "integer"}}}}, False, 12 + 7),
    ("draft4_vs_draft6", {"A": {"type": "object", "properties": {"x": {"type": "integer", "exclusiveMinimum": 0, "exclusiveMaximum": 10}, "y": {"type": "number", "minimum": 1.5}}}}, True, 1),
    ("definitions_vs_defs", {"A": {"type": "object", "properties": {"b": {"$ref": "#/definitions/B"}}}, "B": {"type": "string", "enum": ["on", "off"]}}, False, 0),
    ("definitions_vs_openapi", {"A": {"type": "object", "properties": {"b": {"type": "array", "items": {"$ref": "#/definitions/B"}}}, "required": ["b"]}, "B": {"type": "object", "properties": {"when": {"type": "string", "format": "date-time"}}}}, False, 0),
    ("json_vs_yaml", {"A": {"type": "object", "properties": {"on": {"type": "string", "default": "2020-01-01"}, "~": {"type": "string", "enum": ["yes", "no", "1e3"]}}}}, True, 0),
    ("json_vs_yaml12", {"A": {"type": "object", "properties": {"d": {"type": "string", "default": "2020-01-01", "examples": ["2001-12-14t21:59:43.10-05:00"]}}}}, True, 0),
]


BOTH_SCHEMAS = {
    "Aa": {"type": "object", "properties": {"x": {"type": "integer"}}},
    "Bb": {"type": "object", "properties": {"y": {"type": "integer"}}},
    "Cc": {"type": "string", "enum": ["on", "off"]},
    "Dd": {},
}
BOTH_SPLITS = [(["Aa"], ["Bb"]), (["Bb"], ["Aa"]), (["Aa", "Cc"], ["Bb"]), (["Aa"], ["Dd", "Cc", "Bb"])]


def both_containers_case() -> tuple[str, str] | None:
    """The explicit check: documents with BOTH `definitions` and `$defs` (either key first) — the same named schemas
    split over the two containers give the classes that one container holding all of them gives."""
    for in_defs, in_dollar in BOTH_SPLITS:
        one = {"$schema": "http://json-schema.org/draft-07/schema#", "definitions": {k: BOTH_SCHEMAS[k] for k in in_defs + in_dollar}}
        ref = run_gen(json.dumps(one), "jsonschema")
        if not ref.ok:
            return ("generate_error", f"{ref.error_type}: {ref.error_msg}")
        want = {k: v for k, v in class_map(ref.code).items() if k != "Model"}
        for order in (("definitions", "$defs"), ("$defs", "definitions")):
            parts = {"definitions": {k: BOTH_SCHEMAS[k] for k in in_defs}, "$defs": {k: BOTH_SCHEMAS[k] for k in in_dollar}}
            doc = {"$schema": "http://json-schema.org/draft-07/schema#", **{k: parts[k] for k in order}}
            res = run_gen(json.dumps(doc), "jsonschema")
            if not res.ok:
                return ("generate_error", f"{res.error_type}: {res.error_msg}")
            have = {k: v for k, v in class_map(res.code).items() if k != "Model"}
            if set(have) != set(want):
                return ("container_not_walked", f"definitions holds {in_defs} and $defs holds {in_dollar} (document key order {list(order)}), but the classes are {sorted(have)}")
            diff = sorted(k for k in want if have[k] != want[k])
            if diff:
                return ("classes_differ", f"definitions {in_defs} + $defs {in_dollar}: {diff} differ from the classes of the same schemas under one container: {show_class(res.code, diff[0])}")
    return None


def campaign_both_containers(ck: Check) -> None:
    camp = ck.campaign("explicit: named schemas split over `definitions` and `$defs` (both key orders) vs the same schemas under one container")
    camp.evaluations += 2 * len(BOTH_SPLITS)
    camp.distinct.update(f"{a}|{b}|{o}" for a, b in BOTH_SPLITS for o in (0, 1))
    r = both_containers_case()
    if r is not None:
        camp.hit("second_container_lost" if r[0] == "container_not_walked" else r[0])
        ck.fail({"oracle": "equivalent_inputs", "pair": "both_containers", "mechanism": r[0], "trigger": "none", "style": ""},
                {"pair": "both_containers"}, r[1])
    else:
        camp.hit("both_walked")


def known_findings(ck: Check) -> None:
    for f in ck.findings:
        w = f["witness"]
        r = run_pair(w["pair"], w["definitions"], w.get("with_root", True), w.get("variant", 0))
        if r is not None:
            ck.known(f["id"], f["what"])


def search(ck: Check) -> None:
    """targeted: every bound shape and every special string, through every pair"""
    camp = ck.campaign("search: each bound shape and each YAML-special string through every equivalence")
    for lo in (None, "minimum", "exclusiveMinimum"):
        for hi in (None, "maximum", "exclusiveMaximum"):
            s: dict[str, Any] = {"type": "integer"}
            if lo:
                s[lo] = 1
            if hi:
                s[hi] = 9
            for v in (0, 1):
                oracle_case(ck, camp, "draft4_vs_draft6", {"A": {"type": "object", "properties": {"x": s}}}, True, v)
    if ck.failures:
        return
    for s in YAMLISH:
        defs = {"A": {"type": "object", "properties": {s or "k": {"type": "string", "default": s, "enum": [s or "x", "z"]}}}}
        for pair in ("json_vs_yaml", "json_vs_yaml12", "json_styles", "definitions_vs_defs", "definitions_vs_openapi"):
            for v in range(8 if pair == "json_styles" else 1):
                oracle_case(ck, camp, pair, defs, True, v)
        if ck.failures:
            return


def run(ck: Check) -> None:
    quick = ck.tier == "quick"
    ck.translate(formats.GEN_NAME, formats.generate())  # extractors fall back to an 'unrecognised' table
    ck.translate(yamlloader.GEN_NAME, yamlloader.generate())
    ck.prove()
    ck.assumptions += [
        "JSON-vs-YAML text and str-vs-Path are I/O (PyYAML, file system): no theorem, differential runs only",
        "'equivalent YAML text' is yaml.safe_dump of the JSON value; additionally a YAML-1.2-style text in which timestamp-looking strings are plain scalars (the case the SafeLoader patch exists for); other YAML 1.1 implicit types (yes/no/on/off, sexagesimals) are always quoted by the emitter",
        "pair json_vs_yaml_surface: a YAML text with surface features JSON cannot spell (merge keys, anchors/aliases, tags, block scalars, YAML-1.1 spellings, …) MEANS what the stock PyYAML SafeLoader (pure Python, pristine tables) with the reviewed overrides (timestamps are strings) reads; its JSON text is json.dumps of that value; texts whose value has no JSON text (non-string keys, .inf/.nan, binary, sets) are compared at the loader only",
        "'JSON text' of a value is any json.dumps of it (compact, indented with blanks or tabs, ASCII-escaped or not)",
        "schemas are taken from the subset common to JSON Schema and OpenAPI 3.0 (single `type`, no nullable/type lists); a side of an interval has either an inclusive or an exclusive bound, never both",
        "definitions vs components.schemas: the JSON-Schema document has a root schema and the OpenAPI document has none, so the root model `Model` is not compared there; everywhere else every top-level definition is compared",
        "str vs Path after a history: 'the file's content' is the content at the time of the call — the file is rewritten between calls of generate() in ONE process (same path, same encoding) and the path is compared with the text read back from the file after the write; other processes / concurrent writers are not modelled",
        "compared per top-level definition: ast.dump of the ClassDef (name, bases, members, annotations, defaults, docstrings); output model type pydantic v2, formatters off",
    ]
    guard.campaign(ck, campaign_bounds, 400 if quick else 4000)
    guard.campaign(ck, campaign_containers, 90 if quick else 600)
    guard.campaign(ck, campaign_e2e, 60 if quick else 600)
    guard.campaign(ck, campaign_both_containers)
    guard.campaign(ck, c15_yaml.campaign_constructors)
    guard.campaign(ck, c15_yaml.campaign_loader, 240 if quick else 4000)
    guard.campaign(ck, c15_yaml.campaign_e2e, 36 if quick else 700)
    guard.campaign(ck, c15_refs.campaign_loader, 150 if quick else 1500)
    guard.campaign(ck, c15_refs.campaign_refs, 70 if quick else 700)
    guard.campaign(ck, c15_history.campaign_history, 60 if quick else 900)
    ck.search_hooks.append(c15_yaml.search)
    ck.search_hooks.append(c15_history.search)
    ck.search_hooks.append(c15_refs.search)
    ck.search_hooks.append(search)
    known_findings(ck)


def replay(ck: Check, path: str) -> int:
    data = json.loads(open(path).read())
    inp = data.get("input") or {}
    camp = ck.campaign("replay")
    ck.findings = []
    if inp.get("pair") == "both_containers":
        campaign_both_containers(ck)
    elif inp.get("pair") == c15_refs.PAIR:
        c15_refs.oracle_case(ck, camp, inp["definitions"], inp["extra"])
    elif inp.get("pair") == c15_history.PAIR:
        c15_history.oracle_case(ck, camp, inp["steps"], inp["extra"])
    elif inp.get("pair") == c15_yaml.PAIR:
        c15_yaml.oracle_case(ck, camp, None, {"input_file_type": inp.get("input_file_type", "jsonschema")}, inp["yaml_text"])
    elif "pair" in inp:
        oracle_case(ck, camp, inp["pair"], inp["definitions"], inp.get("with_root", True), inp.get("variant", 0))
    for f in ck.failures:
        print("REPLAY-FAILS:", json.dumps(f.classification), f.observed[:400])
    if not ck.failures:
        print("replay: the oracle does not fail on this input")
    return 1 if ck.failures else 0
