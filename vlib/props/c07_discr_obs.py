"""C07: observation of the REAL discriminator pass (Parser._Parser__apply_discriminator_type, wrapped from the harness)
and its comparison with the Lean model Dcg/Model/DiscrVisit (driver handler `discr.visits`).

Around every call of the pass the wrapper records, for every field that carries a discriminator dict, the dict's identity
and `propertyName`, and for every variant class it points at the members (name, original_name, alias, is the one-literal
member) before and after.  The model is asked for n visits (n = how often the variant is reached through the SAME dict)."""
from __future__ import annotations

import contextlib
import json
from typing import Any

from .. import e2e
from ..common import hx, unhx


def _members(model, tagval) -> list[tuple]:
    out = []
    for f in model.fields:
        lits = list(f.data_type.literals or [])
        out.append((f.name, f.original_name, f.alias, len(lits) == 1 and lits[0] == tagval))
    return out


_CURRENT: list = []  # [(rec, tagvals)] while a run is being observed
_INSTALLED = False


def _install() -> None:
    """one permanent pass-through wrapper around the pass (installed once per process; it records only while a run is
    being observed)"""
    global _INSTALLED
    if _INSTALLED:
        return
    _INSTALLED = True
    from datamodel_code_generator.parser.base import Parser

    attr = "_Parser__apply_discriminator_type"
    orig = getattr(Parser, attr)

    def wrapper(self, models, imports):
        if not _CURRENT:
            return orig(self, models, imports)
        rec, tagvals = _CURRENT[-1]
        visits = []  # (dict id, dict, propertyName before the call, [variant models])
        for model in models:
            for field in model.fields:
                d = field.extras.get("discriminator")
                if not d or not isinstance(d, dict) or not d.get("propertyName"):
                    continue
                vs = [dt.reference.source for dt in field.data_type.data_types if dt.reference]
                visits.append((id(d), d, d["propertyName"], vs))
        before = {}
        for _, _, _, vs in visits:
            for v in vs:
                before.setdefault(id(v), (v, _members(v, tagvals.get(v.class_name))))
        first_pn = {}
        for did, d, pn, _ in visits:
            first_pn.setdefault(did, pn)
        try:
            return orig(self, models, imports)
        finally:
            san = {}
            for pn in set(first_pn.values()):
                x = pn
                for _ in range(3):
                    try:
                        n_, a_ = self.model_resolver.get_valid_field_name_and_alias(field_name=x)
                    except Exception:  # noqa: BLE001
                        break
                    san[x] = (n_, a_)
                    x = n_
            for vid, (v, mb) in before.items():
                seq = [(did, first_pn[did], d.get("propertyName")) for did, d, _, vs in visits if any(id(w) == vid for w in vs)]
                rec.setdefault("variants", []).append({
                    "class": v.class_name, "kind": type(v).__module__.split(".")[-2] + "." + type(v).__name__,
                    "before": mb, "after": _members(v, tagvals.get(v.class_name)),
                    "dicts": [s[0] for s in seq], "pn_before": [s[1] for s in seq], "pn_after": [s[2] for s in seq], "san": san})

    setattr(Parser, attr, wrapper)


@contextlib.contextmanager
def observing(rec: dict, tagvals: dict[str, str]):
    _install()
    _CURRENT.append((rec, tagvals))
    try:
        yield
    finally:
        _CURRENT.pop()


def run_observed(doc: dict, kind: str, opts: dict, timeout: float, tagvals: dict[str, str]):
    rec: dict[str, Any] = {}
    with observing(rec, tagvals):
        res = e2e.run_generate(json.dumps(doc), input_file_type="openapi", model=kind, opts=opts, timeout=timeout)
    return res, rec


# ---------------------------------------------------------------- model side
def _o(s) -> str:
    return "-" if s is None else hx(s)


def request(n: int, pn: str, san: dict, members: list) -> str:
    t = " ".join(f"({hx(i)} {hx(o)} {_o(a)})" for i, (o, a) in sorted(san.items()))
    ms = " ".join(f"({hx(nm)} {_o(og)} {_o(al)} {1 if lit else 0})" for nm, og, al, lit in members)
    return f"discr.visits {n} {hx(pn)} ({t}) ({ms})"


def decode(rep: str):
    if not rep.startswith("ok "):
        return rep
    parts = rep[3:].split(" ", 1)
    pn = unhx(parts[0])
    ms = []
    body = parts[1] if len(parts) > 1 else ""
    for chunk in body.replace(")", "").split("("):
        w = chunk.split()
        if len(w) == 4:
            ms.append((unhx(w[0]), None if w[1] == "-" else unhx(w[1]), None if w[2] == "-" else unhx(w[2]), w[3] == "1"))
    return pn, ms


def correspond(ck, observed: list) -> None:
    camp = ck.campaign("discr.visits (Model.DiscrVisit: lookup, retype/create, rewrite of propertyName, n visits of the same dict) vs "
                       "the members of every variant before/after the real Parser.__apply_discriminator_type (wrapped)")
    items = []
    if observed and not any(rec.get("variants") for _, _, rec in observed):
        raise RuntimeError("c07_discr_obs: the wrapper around Parser.__apply_discriminator_type was never called "
                           "(installed too late, or the pass was renamed): the correspondence would be vacuous")
    for shape, kind, rec in observed:
        for v in rec.get("variants", []):
            camp.evaluations += 1
            if len(set(v["dicts"])) != 1 or len(set(v["pn_before"])) != 1:
                camp.hit("unmodelled:several_dicts_reach_the_variant")
                continue
            n = len(v["dicts"])
            if kind == "typing.TypedDict":
                # the pass only touches pydantic / dataclass / msgspec variants: zero visits of the model
                camp.hit("pass_skips_typeddict_variants")
                n = 0
            camp.hit(f"visits:{n}")
            tagged_before = any(m[1] == shape["tag"] for m in v["before"])
            camp.hit("variant_declares_tag" if tagged_before else "tag_created")
            pn = v["pn_before"][0]
            fn = v["san"].get(pn, (pn, None))[0]
            if v["san"].get(fn, (fn, None)) != (fn, None):
                camp.hit("hfix_fails:identifier_not_a_fixed_point_of_the_sanitiser")
            items.append((request(n, pn, v["san"], v["before"]), v, shape, kind, n))
    for (req, v, shape, kind, n), rep in zip(items, ck.driver.run([i[0] for i in items])):
        model = decode(rep)
        impl = (v["pn_after"][0] if n else v["pn_before"][0], [tuple(m) for m in v["after"]])
        if n > 1 and shape["tag"] != impl[0]:
            camp.distinct.add((json.dumps(shape, sort_keys=True), kind, v["class"]))
        if model != impl:
            ck.disagree(camp, {"discr_shape": shape, "model": kind, "class": v["class"], "visits": n, "before": v["before"]},
                        model, impl)
        elif len(camp.samples) < 3 and n > 1 and shape["tag"] != impl[0]:
            camp.samples.append({"class": v["class"], "visits": n, "propertyName": [v["pn_before"][0], impl[0]],
                                 "before": v["before"], "after": v["after"]})
