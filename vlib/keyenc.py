"""The `k!` name encoding of lean/Dcg/Model/Key.lean in Python: code points as digits in base 1114112."""
from __future__ import annotations

from .lean import lean_string

BASE = 1114112


def key(s: str) -> int:
    n = 0
    for c in s:
        n = n * BASE + ord(c)
    return n


def unkey(n: int) -> str:
    out = []
    while n:
        n, d = divmod(n, BASE)
        out.append(chr(d))
    return "".join(reversed(out))


def k(s: str) -> str:
    """Lean source for the key of `s` (readable: the macro call, not the numeral)."""
    return "k! " + lean_string(s)
