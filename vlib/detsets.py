"""Seeded generators of the LIST-VALUED-KEYWORD families of the determinism check (C08), and the derivation of a targeted
family from a source site named by a refuter.

Why: a schema keyword whose value is a list (a `default` of an array, `enum`, `required`, `examples`, …) reaches the output through
repr() / a template loop. If some pass turns the list into a Python `set` (or a dict keyed by a set) on the way, the order of a
set of STRINGS follows the process's string-hash seed — small integers hash to themselves and stay stable, so only lists of
several distinct strings show it. Every list here therefore has >= 4 distinct strings (and integer / mixed twins).

* `quick_family(rng)`: the always-run stratified sample (a few dozen (document, options) pairs, every model kind).
* `derive(site_file, site_func)`: from the function a refuter names — the boolean options of generate() that occur in its source (or
  guard a call of it, or share name tokens with it) x the schema keywords that occur in it as attribute names / string constants —
  a family of documents that reach the function: every applicable keyword combination on every base shape.

Every random choice comes from the Rng passed in; nothing here depends on any particular regression."""
from __future__ import annotations

import ast
import itertools
import json
import re
from pathlib import Path

from .common import REPO, Rng

STRINGS = ["reader", "writer", "auditor", "operator", "owner", "alpha", "beta", "gamma", "delta", "north", "south", "east", "west",
           "red", "green", "blue", "a b", "x-y", "Zeta", "omega9", "it's", "kg", "m/s", "guest"]
NAMES = ["roles", "tags", "labels", "ports", "modes", "scopes", "flags", "kinds", "zones", "codes", "units", "levels", "steps", "keys"]


def strs(rng: Rng, lo: int = 4, hi: int = 8) -> list[str]:
    return rng.sample(STRINGS, rng.range(lo, hi))


def ints(rng: Rng, n: int = 5) -> list[int]:
    return rng.sample([443, 80, 8080, 22, 1, 7, 1000003, -5, 65536, 12], n)


# ---------------------------------------------------------------- base shapes x keyword overlays
# a shape = (name, builder(rng) -> schema, the value domain used for list-valued overlays)
def _arr(items: dict) -> dict:
    return {"type": "array", "items": items}


SHAPES = {
    "string": lambda rng: {"type": "string"},
    "integer": lambda rng: {"type": "integer"},
    "array-of-strings": lambda rng: _arr({"type": "string"}),
    "array-of-integers": lambda rng: _arr({"type": "integer"}),
    "array-of-enum": lambda rng: _arr({"type": "string", "enum": strs(rng, 5, 8)}),
    "array-untyped": lambda rng: {"type": "array"},
    "array-of-arrays": lambda rng: _arr(_arr({"type": "string"})),
    "enum-string": lambda rng: {"type": "string", "enum": strs(rng, 5, 8)},
    "object-free": lambda rng: {"type": "object", "additionalProperties": {"type": "string"}},
    "nullable-array": lambda rng: {"type": ["array", "null"], "items": {"type": "string"}},
}


def _values_for(shape: str, sub: dict, rng: Rng):
    """a value of the shape made of >= 4 distinct strings wherever a list fits (what a default / example / const may be)"""
    if shape in ("array-of-strings", "array-untyped", "nullable-array"):
        return strs(rng)
    if shape == "array-of-integers":
        return ints(rng)
    if shape == "array-of-enum":
        return rng.sample(sub["items"]["enum"], 4)
    if shape == "array-of-arrays":
        return [strs(rng, 4, 5), strs(rng, 4, 5)]
    if shape == "enum-string":
        return rng.choice(sub["enum"])
    if shape == "integer":
        return 7
    if shape == "object-free":
        return {s: s.upper() for s in strs(rng)}
    return rng.choice(STRINGS)


def overlay(shape: str, sub: dict, kw: str, rng: Rng) -> bool:
    """put keyword `kw` on the schema `sub` of shape `shape` if it applies there; list values have >= 4 distinct strings"""
    is_array = shape.startswith("array") or shape == "nullable-array"
    if kw == "uniqueItems" and is_array:
        sub["uniqueItems"] = True
    elif kw == "default":
        sub["default"] = _values_for(shape, sub, rng)
    elif kw == "examples":
        sub["examples"] = [_values_for(shape, sub, rng) for _ in range(2)] if is_array else strs(rng)
    elif kw == "example":
        sub["example"] = _values_for(shape, sub, rng)
    elif kw == "const" and shape in ("string", "integer"):
        sub["const"] = _values_for(shape, sub, rng)
    elif kw == "enum" and shape in ("string",):
        sub["enum"] = strs(rng, 5, 8)
    elif kw == "minItems" and is_array:
        sub["minItems"] = 1
    elif kw == "maxItems" and is_array:
        sub["maxItems"] = 40
    elif kw == "nullable":
        sub["nullable"] = True
    elif kw == "description":
        sub["description"] = "one of " + ", ".join(strs(rng, 4, 5))
    elif kw == "title":
        sub["title"] = rng.choice(NAMES).title() + " Title"
    elif kw == "format" and shape == "string":
        sub["format"] = rng.choice(["date", "uuid", "email", "uri"])
    elif kw == "pattern" and shape == "string":
        sub["pattern"] = "^(" + "|".join(w for w in strs(rng, 4, 5) if w.isalnum()) + ")$"
    elif kw == "readOnly":
        sub["readOnly"] = True
    elif kw == "deprecated":
        sub["deprecated"] = True
    elif kw.startswith("x-"):
        sub[kw] = strs(rng)
    else:
        return False
    return True


# keywords of an OBJECT (not of a property): handled by document()
OBJECT_KEYWORDS = ("required", "additionalProperties", "allOf", "anyOf", "oneOf", "patternProperties", "propertyNames", "discriminator",
                   "definitions", "$defs", "title")
PROPERTY_KEYWORDS = ("uniqueItems", "default", "examples", "example", "const", "enum", "minItems", "maxItems", "nullable", "description",
                     "title", "format", "pattern", "readOnly", "deprecated", "x-order")
ALL_KEYWORDS = tuple(dict.fromkeys(PROPERTY_KEYWORDS + OBJECT_KEYWORDS))


def document(rng: Rng, props: dict, *, object_keywords: tuple[str, ...] = (), many_required: bool = False) -> dict:
    """a complete JSON-Schema document around the given property schemas"""
    props = dict(props)
    doc: dict = {"$schema": "http://json-schema.org/draft-07/schema#", "title": "Settings", "type": "object", "properties": props}
    if many_required or "required" in object_keywords:
        extra = {f"{w}{i}": {"type": rng.choice(["string", "integer", "boolean"])} for i, w in enumerate(strs(rng, 6, 9)) if w.isalnum()}
        props.update(extra)
        doc["required"] = rng.shuffle(list(props))[: max(4, len(props) - 2)]
    if "additionalProperties" in object_keywords:
        doc["additionalProperties"] = False
    if "definitions" in object_keywords or "$defs" in object_keywords or "allOf" in object_keywords:
        part = {"type": "object", "properties": {k: json.loads(json.dumps(v)) for k, v in list(props.items())[:3]}}
        doc["definitions"] = {"Part": part}
        doc["properties"]["part"] = {"$ref": "#/definitions/Part"}
        if "allOf" in object_keywords:
            doc["definitions"]["Whole"] = {"allOf": [{"$ref": "#/definitions/Part"}, {"type": "object", "properties": {"more": {"type": "string"}}}]}
            doc["properties"]["whole"] = {"$ref": "#/definitions/Whole"}
    for comb in ("anyOf", "oneOf"):
        if comb in object_keywords:
            doc["properties"]["either_" + comb] = {comb: [json.loads(json.dumps(v)) for v in list(props.values())[:2]] + [{"type": "null"}]}
    if "patternProperties" in object_keywords:
        doc["properties"]["by_pattern"] = {"type": "object", "patternProperties": {"^" + w + "_": {"type": "string"} for w in strs(rng, 4, 5) if w.isalnum()}}
    return doc


def as_openapi(doc: dict) -> dict:
    body = {k: v for k, v in doc.items() if k not in ("$schema", "definitions")}
    text = json.dumps({"Settings": body, **doc.get("definitions", {})}).replace("#/definitions/", "#/components/schemas/")
    return {"openapi": "3.0.3", "info": {"title": "t", "version": "1"}, "paths": {}, "components": {"schemas": json.loads(text)}}


def property_family(rng: Rng, keywords: tuple[str, ...], shapes: tuple[str, ...] | None = None) -> dict[str, dict]:
    """one property per (shape, non-empty applicable combination of `keywords` taken ALL TOGETHER and each ALONE)"""
    props: dict[str, dict] = {}
    for shape in shapes or tuple(SHAPES):
        combos = [tuple(keywords)] + [(kw,) for kw in keywords if len(keywords) > 1]
        for combo in combos:
            sub = SHAPES[shape](rng)
            applied = [kw for kw in combo if overlay(shape, sub, kw, rng)]
            if not applied:
                continue
            name = f"{shape.replace('-', '_')}_{'_'.join(re.sub('[^a-z]', '', kw.lower()) for kw in applied)}"
            props.setdefault(name, sub)
    return props


# ---------------------------------------------------------------- the always-run sample
SET_OPTS = [
    {"use_unique_items_as_set": True},
    {"use_unique_items_as_set": False},
    {"use_unique_items_as_set": True, "field_constraints": True},
    {"use_unique_items_as_set": True, "use_annotated": True, "field_constraints": True},
    {"use_unique_items_as_set": True, "use_standard_collections": True, "use_union_operator": True},
    {"use_unique_items_as_set": True, "use_default_kwarg": True},
    {"use_unique_items_as_set": True, "apply_default_values_for_required_fields": True},
    {"use_unique_items_as_set": True, "strict_nullable": True},
]
ENUM_OPTS = [{}, {"set_default_enum_member": True}, {"use_subclass_enum": True, "set_default_enum_member": True},
             {"enum_field_as_literal": "all"}, {"enum_field_as_literal": "one"}, {"use_one_literal_as_default": True, "enum_field_as_literal": "one"},
             {"capitalise_enum_members": True, "set_default_enum_member": True}]
EXAMPLE_OPTS = [{"field_include_all_keys": True}, {"field_extra_keys": ["examples", "example"]}, {}, {"use_annotated": True, "field_constraints": True, "field_include_all_keys": True}]
REQUIRED_OPTS = [{}, {"force_optional_for_required_fields": True}, {"strict_nullable": True}, {"keep_model_order": True},
                 {"use_default_kwarg": True, "apply_default_values_for_required_fields": True}]


def quick_family(rng: Rng, model_kinds: list[str], per_stratum: int = 1) -> list[dict]:
    """stratified: (uniqueItems array + default list of >= 4 strings) x use_unique_items_as_set on/off; enum defaults; `required`
    lists with many names; `examples` lists; JSON Schema and OpenAPI; every model kind in every stratum"""
    cases: list[dict] = []

    def add(stratum: str, doc: dict, opts: dict, ift: str = "jsonschema") -> None:
        for m in model_kinds:
            cases.append({"id": f"ls{len(cases)}", "model": m, "opts": dict(opts), "modular": False, "default_formatters": False,
                          "kind": "list-keywords", "family": stratum, "input_file_type": ift, "text": json.dumps(as_openapi(doc) if ift == "openapi" else doc)})

    for rep in range(per_stratum):
        # 1. defaults that are lists on uniqueItems arrays (strings, integers, enum members, nested, nullable, in definitions)
        uniq = property_family(rng, ("uniqueItems", "default"), ("array-of-strings", "array-of-integers", "array-of-enum", "array-untyped", "nullable-array", "array-of-arrays"))
        uniq["plain_list_default"] = {"type": "array", "items": {"type": "string"}, "default": strs(rng)}
        on = [o for o in SET_OPTS if o["use_unique_items_as_set"]]
        add("unique-default:set-on", document(rng, uniq), on[0])
        add("unique-default:set-off", document(rng, uniq), SET_OPTS[1])
        add("unique-default:set-on+other-option", document(rng, uniq, object_keywords=("definitions", "allOf")), rng.choice(on[1:]))
        add("unique-default:openapi", document(rng, uniq, object_keywords=("definitions",)), rng.choice(on), "openapi")
        # 2. enum defaults (a member as default; a list of members as default of an array of enums)
        en = property_family(rng, ("default",), ("enum-string", "array-of-enum"))
        en.update({"e_unique": {"type": "array", "uniqueItems": True, "items": {"type": "string", "enum": (e := strs(rng, 5, 8))}, "default": rng.sample(e, 4)}})
        add("enum-default", document(rng, en), rng.choice(ENUM_OPTS))
        add("enum-default:set-on", document(rng, en), {**rng.choice(ENUM_OPTS), "use_unique_items_as_set": True})
        # 3. `required` lists with many names
        add("required-many", document(rng, property_family(rng, ("default",), ("string", "integer")), many_required=True), rng.choice(REQUIRED_OPTS))
        # 4. `examples` / `example` lists kept as field extras
        ex = property_family(rng, ("examples", "example"), ("string", "array-of-strings", "object-free"))
        add("examples-lists", document(rng, ex), rng.choice(EXAMPLE_OPTS[:2]))
        add("examples-lists:openapi", document(rng, ex), rng.choice(EXAMPLE_OPTS), "openapi")
    return cases


# ---------------------------------------------------------------- a targeted family from a source site
def _snake_to_camel(s: str) -> str:
    parts = s.split("_")
    return parts[0] + "".join(p.title() for p in parts[1:])


def _functions(tree: ast.AST):
    """(qualified name, node) of every function of a module"""
    def walk(node, prefix):
        for ch in ast.iter_child_nodes(node):
            if isinstance(ch, (ast.FunctionDef, ast.AsyncFunctionDef, ast.ClassDef)):
                q = prefix + [ch.name]
                if not isinstance(ch, ast.ClassDef):
                    yield ".".join(q), ch
                yield from walk(ch, q)
            else:
                yield from walk(ch, prefix)
    yield from walk(tree, [])


def generate_bool_options(src: Path) -> list[str]:
    """the boolean options of generate(): parameters annotated `bool` or with a True/False default (from the source, by ast)"""
    tree = ast.parse((src / "__init__.py").read_text())
    for q, fn in _functions(tree):
        if q == "generate":
            out = []
            args = [*fn.args.args, *fn.args.kwonlyargs]
            defaults = [None] * (len(fn.args.args) - len(fn.args.defaults)) + list(fn.args.defaults) + list(fn.args.kw_defaults)
            for a, dflt in zip(args, defaults):
                ann = ast.unparse(a.annotation) if a.annotation else ""
                if ann == "bool" or (isinstance(dflt, ast.Constant) and isinstance(dflt.value, bool)):
                    out.append(a.arg)
            return [o for o in out if o not in ("disable_timestamp", "enable_version_header", "no_color", "disable_warnings", "debug")]
    return []


def _idents(node: ast.AST) -> set[str]:
    out: set[str] = set()
    for n in ast.walk(node):
        if isinstance(n, ast.Name):
            out.add(n.id)
        elif isinstance(n, ast.Attribute):
            out.add(n.attr)
        elif isinstance(n, ast.Constant) and isinstance(n.value, str) and len(n.value) < 40:
            out.add(n.value)
        elif isinstance(n, ast.keyword) and n.arg:
            out.add(n.arg)
    return out


def _tokens(name: str) -> set[str]:
    return {t for t in re.split(r"[^a-z0-9]+", re.sub(r"([a-z0-9])([A-Z])", r"\1_\2", name).lower()) if len(t) > 2}


STOP_TOKENS = {"use", "the", "for", "and", "set", "get", "field", "model", "models", "data", "type", "types", "from", "with", "parse", "self",
               "value", "create", "replace", "name", "names", "class", "all", "not"}


def derive(site_file: str, site_func: str, src: Path | None = None) -> dict:
    """{"options": [...], "keywords": [...], "found": bool, "how": {...}} for the function `site_func` of `site_file`
    (file relative to the package, function as a dotted qualified name; a lambda / comprehension / nested function falls back to the
    nearest enclosing function that exists)"""
    src = src or (REPO / "src" / "datamodel_code_generator")
    bool_opts = generate_bool_options(src)
    how: dict = {"in-function": [], "guards-a-call": [], "name-tokens": []}
    path = src / site_file
    if not path.is_file():
        return {"options": [], "keywords": [], "found": False, "how": how}
    tree = ast.parse(path.read_text())
    funcs = dict(_functions(tree))
    q = site_func
    while q and q not in funcs:
        q = ".".join(q.split(".")[:-1])
    node = funcs.get(q)
    if node is None:   # module level: the whole module
        node, q = tree, ""
    ids = _idents(node)
    leaf = q.split(".")[-1] if q else ""
    how["in-function"] = sorted(o for o in bool_opts if o in ids)
    # options in the conditions that guard a call of the function, anywhere in the package
    if leaf:
        mangled = {leaf, leaf.lstrip("_")}
        for p in sorted(src.rglob("*.py")):
            try:
                t = ast.parse(p.read_text())
            except SyntaxError:
                continue
            for n in ast.walk(t):
                if isinstance(n, (ast.If, ast.IfExp, ast.While)):
                    body_ids = set()
                    for b in (n.body if isinstance(n.body, list) else [n.body]):
                        for c in ast.walk(b):
                            if isinstance(c, ast.Call):
                                fn = c.func
                                body_ids.add(fn.attr if isinstance(fn, ast.Attribute) else fn.id if isinstance(fn, ast.Name) else "")
                    if body_ids & mangled or any(x.endswith(leaf) for x in body_ids if x):
                        how["guards-a-call"] += [o for o in bool_opts if o in _idents(n.test)]
        toks = _tokens(leaf) - STOP_TOKENS
        how["name-tokens"] = sorted(o for o in bool_opts if len((_tokens(o) - STOP_TOKENS) & toks) >= 1 and o not in how["in-function"])
    how["guards-a-call"] = sorted(set(how["guards-a-call"]) - set(how["in-function"]))
    options = list(dict.fromkeys(how["in-function"] + how["guards-a-call"] + how["name-tokens"][:4]))
    # schema keywords: identifiers / string constants of the function that are (snake- or camel-case forms of) keywords
    cat = {kw: kw for kw in ALL_KEYWORDS}
    keywords = []
    for ident in sorted(ids):
        for form in (ident, _snake_to_camel(ident), ident.lstrip("_")):
            if form in cat and cat[form] not in keywords:
                keywords.append(cat[form])
    if any(x in ids for x in ("extras", "json_schema_extra", "field_extra_keys")):
        keywords += [kw for kw in ("examples", "x-order") if kw not in keywords]
    return {"options": options, "keywords": keywords, "found": node is not tree, "function": q or "<module>", "how": how}


def targeted_family(rng: Rng, spec: dict, model_kinds: list[str], max_docs: int = 40) -> list[dict]:
    """documents that reach the function described by `spec` (derive()): every base shape carrying the function's property
    keywords (all together and each alone), inside objects carrying its object keywords; options: each of the function's boolean
    options alone, all of them, none, and pairs — for every model kind; JSON Schema and OpenAPI"""
    kws = tuple(spec["keywords"]) or PROPERTY_KEYWORDS
    pk = tuple(kw for kw in kws if kw in PROPERTY_KEYWORDS or kw.startswith("x-")) or ("default",)
    ok = tuple(kw for kw in kws if kw in OBJECT_KEYWORDS)
    opts_list: list[dict] = []
    names = spec["options"]
    if names:
        opts_list.append({o: True for o in names})
        opts_list += [{o: True} for o in names]
        opts_list += [{a: True, b: True} for a, b in itertools.combinations(names, 2)][:6]
        for helper in ({"field_constraints": True}, {"use_annotated": True, "field_constraints": True}, {"field_include_all_keys": True}):
            opts_list.append({**{o: True for o in names[:2]}, **helper})
    opts_list.append({})
    cases: list[dict] = []
    docs = []
    for variant in range(3):
        props = property_family(rng, pk)
        docs.append(("jsonschema", document(rng, props, object_keywords=ok if variant else (), many_required="required" in ok)))
    docs.append(("openapi", document(rng, property_family(rng, pk), object_keywords=tuple(kw for kw in ok if kw != "$defs") + ("definitions",))))
    for opts in opts_list:
        for ift, doc in docs:
            if len(cases) >= max_docs * len(model_kinds):
                break
            for m in model_kinds:
                cases.append({"id": f"tg{len(cases)}", "model": m, "opts": dict(opts), "modular": False, "default_formatters": False,
                              "kind": "list-keywords", "family": "targeted:" + spec.get("function", "?"), "input_file_type": ift,
                              "text": json.dumps(as_openapi(doc) if ift == "openapi" else doc)})
    return cases


def shrink_candidates(case: dict) -> list[dict]:
    """smaller documents of the same case: one property at a time (with the definitions it may reference)"""
    doc = json.loads(case["text"])
    out = []
    if case["input_file_type"] == "openapi":
        schemas = doc.get("components", {}).get("schemas", {})
        for sname, s in schemas.items():
            for pname, sub in (s.get("properties") or {}).items():
                if "$ref" in json.dumps(sub):
                    continue
                d = {**doc, "components": {"schemas": {sname: {"type": "object", "properties": {pname: sub}}}}}
                out.append({**case, "id": case["id"] + "m", "text": json.dumps(d)})
    else:
        for pname, sub in (doc.get("properties") or {}).items():
            if "$ref" in json.dumps(sub):
                continue
            d = {"title": doc.get("title", "M"), "type": "object", "properties": {pname: sub}}
            out.append({**case, "id": case["id"] + "m", "text": json.dumps(d)})
    return out


def shrink_keywords(case: dict) -> list[dict]:
    """for a one-property document: the same property with every subset of its non-structural keywords removed, fewest keywords
    first (at most five such keywords)"""
    doc = json.loads(case["text"])
    holder = doc
    if case["input_file_type"] == "openapi":
        schemas = doc.get("components", {}).get("schemas", {})
        if len(schemas) != 1:
            return []
        holder = next(iter(schemas.values()))
    props = holder.get("properties") or {}
    if len(props) != 1:
        return []
    (pname, sub), = props.items()
    extra = [kw for kw in sub if kw not in ("type", "items", "additionalProperties", "$ref")][:5]
    out = []
    for r in range(0, len(extra)):
        for keep in itertools.combinations(extra, r):
            holder["properties"] = {pname: {kw: v for kw, v in sub.items() if kw not in extra or kw in keep}}
            out.append({**case, "text": json.dumps(doc)})
    return out
