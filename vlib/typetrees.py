"""Type-tree descriptions shared by C13 and C02: one seeded description is turned into the real
`DataType(...)` objects and into the S-expression the Lean model reads (Dcg/Driver/Types.lean).

A description is a plain dict:
  {"ty": str, "ref": None | {"name": str, "nullable": bool}, "opt","dict","list","set","custom": bool,
   "lits": [str|int|bool], "imp": None | {"from": str|None, "name": str, "alias": str|None},
   "key": desc | None, "kids": [desc]}
"""
from __future__ import annotations

import itertools
from typing import Any, Iterator

from .common import Rng, hx

OPTION_VECTORS = [(u, s, g) for u in (False, True) for s in (False, True) for g in (False, True)]


def opt_bits(o) -> str:
    return "".join("1" if b else "0" for b in o)


def node(ty="", ref=None, opt=False, dict_=False, list_=False, set_=False, custom=False, lits=(), imp=None, key=None, kids=()):
    return {
        "ty": ty,
        "ref": ref,
        "opt": opt,
        "dict": dict_,
        "list": list_,
        "set": set_,
        "custom": custom,
        "lits": list(lits),
        "imp": imp,
        "key": key,
        "kids": list(kids),
    }


def walk(d) -> Iterator[dict]:
    yield d
    if d["key"]:
        yield from walk(d["key"])
    for k in d["kids"]:
        yield from walk(k)


def size(d) -> int:
    return sum(1 for _ in walk(d))


def depth(d) -> int:
    sub = [depth(k) for k in d["kids"]] + ([depth(d["key"])] if d["key"] else [])
    return 1 + max(sub, default=0)


# ---------------------------------------------------------------- to the model
def sx(d) -> str:
    ref = "-" if d["ref"] is None else f"({hx(short_name(d['ref']['name']))} {1 if d['ref']['nullable'] else 0})"
    flags = "".join("1" if d[k] else "0" for k in ("opt", "dict", "list", "set", "custom"))
    lits = "(" + " ".join(hx(repr(v)) for v in d["lits"]) + ")"
    if d["imp"] is None:
        imp = "-"
    else:
        i = d["imp"]
        imp = f"({'-' if i['from'] is None else hx(i['from'])} {hx(i['name'])} {'-' if i.get('alias') is None else hx(i['alias'])})"
    key = "-" if d["key"] is None else sx(d["key"])
    kids = "(" + " ".join(sx(k) for k in d["kids"]) + ")"
    return f"(dt {hx(d['ty'])} {ref} {flags} {lits} {imp} {key} {kids})"


def short_name(name: str) -> str:
    """`Reference.short_name` (a one-line Python primitive; the model receives its value)"""
    return name.rsplit(".", 1)[-1]


# ---------------------------------------------------------------- to the real objects
class _NullableSource:
    """what `type_hint` reads of `reference.source`: a `Nullable` with `.nullable`"""

    def __init__(self, nullable: bool) -> None:
        self.nullable = nullable


_ref_counter = itertools.count()


def build(d, o) -> Any:
    """The real `DataType` tree for description `d` under option vector `o` (fresh objects: `type_hint` mutates)."""
    from datamodel_code_generator.imports import Import
    from datamodel_code_generator.reference import Reference
    from datamodel_code_generator.types import DataType

    kw: dict[str, Any] = dict(
        is_optional=d["opt"],
        is_dict=d["dict"],
        is_list=d["list"],
        is_set=d["set"],
        is_custom_type=d["custom"],
        use_union_operator=o[0],
        use_standard_collections=o[1],
        use_generic_container=o[2],
    )
    if d["ty"] != "":
        kw["type"] = d["ty"]
    if d["ref"] is not None:
        r = Reference(path=f"#/t/{next(_ref_counter)}", name=d["ref"]["name"])
        r.source = _NullableSource(d["ref"]["nullable"])
        kw["reference"] = r
    if d["lits"]:
        kw["literals"] = list(d["lits"])
    if d["imp"] is not None:
        i = d["imp"]
        kw["import_"] = Import(from_=i["from"], import_=i["name"], alias=i.get("alias"))
    if d["key"] is not None:
        kw["dict_key"] = build(d["key"], o)
    if d["kids"]:
        kw["data_types"] = [build(k, o) for k in d["kids"]]
    return DataType(**kw)


# ---------------------------------------------------------------- generators
PLAIN_ATOMS = ["int", "str", "None", "Any", "Foo", "Bar", "float", "bool"]
ODD_ATOMS = ["List", "Optional", "Union", "list", "Sequence", "Dict", "conint", "a.b.C", "Literal", "x_1"]
BAD_ATOMS = ["a[", "]b", "x, y", "p | q", " pad", "pad ", "Union[int, None]", "Optional[int]", "int | None", "List[int]", "Dict[str, Any]",
             "Union[", "None ", "a|b", "a ,b", "\tz", "Union[None, None]", "Union[int]"]
PLAIN_LITS = ["a", "b", "x y", "it's", 'q"', 1, 0, -3, True, False, "None", "", "é", "A1"]
BAD_LITS = ["[", "]", "a  |  b", "x, y", "|", ",", " lead", "trail ", "a | None | b", "[]", "Union[", "a\tb", "a\n|\nb", "\\", "None | x"]
REF_NAMES = ["Foo", "Bar", "pkg.Mod", "Pet", "None_"]


def random_tree(rng: Rng, max_depth: int = 3, adversarial: bool = False, p_empty: int = 0) -> dict:
    """A seeded tree. `adversarial` admits names and literals with `[ ] , |` and blanks, empty nodes,
    nodes with both a type and children; otherwise the tree is one the IR builds from schemas."""

    def atoms():
        pool = PLAIN_ATOMS * 3 + ODD_ATOMS
        if adversarial:
            pool = pool + BAD_ATOMS * 2
        return pool

    def lits(n):
        pool = PLAIN_LITS * 2 + (BAD_LITS * 2 if adversarial else [])
        out, seen = [], set()
        for _ in range(n):
            v = rng.choice(pool)
            if repr(v) in seen or (v in (1, 0, True, False) and any(x == v for x in out)):
                continue
            seen.add(repr(v))
            out.append(v)
        return out or ["a"]

    def flags(d):
        r = rng.below(10)
        if r < 2:
            d["list"] = True
        elif r == 2:
            d["set"] = True
        elif r == 3:
            d["dict"] = True
            if rng.chance(1, 3):
                d["key"] = leaf(1)
        if rng.chance(1, 3):
            d["opt"] = True
        if adversarial and rng.chance(1, 12):  # several container bits at once
            d[rng.choice(["list", "set", "dict"])] = True
        return d

    def leaf(dep):
        r = rng.below(12)
        if r < 6:
            d = node(ty=rng.choice(atoms()))
            if rng.chance(1, 4):
                nm = d["ty"] if d["ty"].isidentifier() else "X"
                d["imp"] = {"from": rng.choice(["typing", "datetime", "pydantic", None, "a.b"]), "name": nm, "alias": None}
                d["custom"] = rng.chance(1, 3)
        elif r < 8:
            d = node(lits=lits(rng.range(1, 3)))
        elif r < 10:
            d = node(ref={"name": rng.choice(REF_NAMES), "nullable": rng.chance(1, 4)})
        elif r == 10 and (adversarial or p_empty):
            d = node()
        else:
            d = node(ty=rng.choice(PLAIN_ATOMS))
        return flags(d)

    def tree(dep):
        if dep >= max_depth or rng.chance(2, 5):
            return leaf(dep)
        n = rng.choice([1, 2, 2, 2, 3, 3, 4])
        d = node(kids=[tree(dep + 1) for _ in range(n)])
        if adversarial and rng.chance(1, 10):
            d["ty"] = rng.choice(atoms())
        if adversarial and rng.chance(1, 10):
            d["lits"] = lits(2)
        if rng.chance(1, 10):
            d["ref"] = {"name": rng.choice(REF_NAMES), "nullable": rng.chance(1, 3)}
        return flags(d)

    return tree(1)


def small_scope(max_depth: int = 3) -> Iterator[dict]:
    """All trees of depth ≤ `max_depth` over a small vocabulary: leaves = 4 names, one literal node, one
    reference; inner nodes with 1 or 2 children; optional flag and {plain, list, dict} at every node."""
    leaves = [node(ty=a) for a in ("int", "str", "None", "Any")] + [node(lits=["a", 1])] + [node(ref={"name": "Foo", "nullable": False})]

    def decorate(d):
        for opt in (False, True):
            for cont in ("", "list", "dict"):
                x = dict(d, opt=opt)
                if cont:
                    x[cont] = True
                yield x

    def level(k):
        if k == 1:
            for l in leaves:
                yield from decorate(l)
            return
        yield from level(1)
        subs = list(level(k - 1))
        # keep the product finite and small: children drawn from a thinned set at the deepest level
        thin = subs if len(subs) <= 40 else subs[:: max(1, len(subs) // 40)]
        for a in thin:
            yield from decorate(node(kids=[a]))
        for a in thin:
            for b in thin:
                yield from decorate(node(kids=[a, b]))

    yield from level(max_depth)


# ---------------------------------------------------------------- exhaustive small scopes (thorough tier)
SIX_ATOMS = [node(ty="int"), node(ty="str"), node(ty="None"), node(ty="Any"), node(lits=["a", 1]), node(ref={"name": "Foo", "nullable": False})]


def exhaustive_depth3() -> Iterator[dict]:
    """ALL trees of depth ≤ 3 over the six-atom vocabulary: a leaf is one of the six atoms (int, str, None, Any,
    Literal['a', 1], the reference Foo); an inner node has one or two children and carries the optional flag
    and {plain, list}.  6 + 4·(6 + 6²) = 174 trees of depth ≤ 2 and 6 + 4·(174 + 174²) = 121 806 of depth ≤ 3
    (an optional / list leaf is the one-child inner node around it)."""

    def decorate(kids):
        for opt in (False, True):
            for lst in (False, True):
                yield node(kids=kids, opt=opt, list_=lst)

    def level(k):
        if k == 1:
            return list(SIX_ATOMS)
        subs = level(k - 1)
        out = list(level(1))
        for a in subs:
            out.extend(decorate([a]))
        for a in subs:
            for b in subs:
                out.extend(decorate([a, b]))
        return out

    yield from level(3)


def exhaustive_depth2() -> Iterator[dict]:
    """ALL trees of depth ≤ 2 with every decoration at every node, leaves included: optional flag ×
    {plain, list, set, dict, dict with an optional int key}; one or two children.  60 leaves, 60 + 10·(60 + 60²) = 36 660 trees."""
    key = node(ty="int", opt=True)

    def decorate(d):
        for opt in (False, True):
            for cont in ("", "list", "set", "dict", "dictkey"):
                x = dict(d, opt=opt)
                if cont == "dictkey":
                    x["dict"] = True
                    x["key"] = key
                elif cont:
                    x[cont] = True
                yield x

    leaves = [x for l in SIX_ATOMS for x in decorate(l)]
    yield from leaves
    for a in leaves:
        yield from decorate(node(kids=[a]))
    for a in leaves:
        for b in leaves:
            yield from decorate(node(kids=[a, b]))
