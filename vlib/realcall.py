"""Guarded calls from a harness into real (often private / name-mangled) functions of /repo.

A harness that calls `Parser._Parser__sort_models(parser, models, imports)` directly encodes the
signature the MODEL was written against. When the code changes that signature (a parameter is
dropped, a helper is renamed or removed) the call raises TypeError / AttributeError *in the harness*.
That is not an infrastructure failure: it says that the modelled function no longer exists in the
modelled shape, i.e. the correspondence between model and code is broken. By DESIGN.md §2.4 a broken
correspondence must go to the failing-input search (and end as VIOLATION with a replay, or
`no-failing-input-found`), never as exit 2.

    fn = realcall.resolve(ck, camp, Parser, "_Parser__sort_models")      # None when it is gone
    ok, value = realcall.call(ck, camp, "Parser.__sort_models", fn, parser, models, imports)
    if not ok: <skip the comparison of this case; the disagreement is recorded (once per callee)>

`call` decides "signature changed" BEFORE calling, with `inspect.signature(fn).bind(...)`; exceptions
raised by the body of the real function are the caller's business as before (they are behaviour and
are compared with the model, not swallowed here). `guard` is the coarse form for a block of harness
code that makes many such calls (sub-classing, monkey-patching a private method): a TypeError /
AttributeError whose traceback ends in the harness's own frame or in the called frame's argument
binding is recorded as a broken correspondence of the campaign.
"""
from __future__ import annotations

import inspect
import traceback
from contextlib import contextmanager
from typing import Any, Callable, Iterator

_MODEL_SIDE = "the callee exists with the signature the model was transliterated from"


def _once(ck: Any, camp: Any, what: str, detail: str, input_: Any = None) -> None:
    seen = ck.__dict__.setdefault("_realcall_reported", set())
    key = f"{camp.name}::{what}"
    if key in seen:
        camp.disagreements += 1
        return
    seen.add(key)
    ck.disagree(camp, {"real_call": what, "case": input_}, _MODEL_SIDE, detail)


def resolve(ck: Any, camp: Any, owner: Any, name: str, what: str | None = None) -> Any:
    """`getattr(owner, name)`; a missing attribute is a broken correspondence (returns None)."""
    try:
        return getattr(owner, name)
    except AttributeError as e:
        _once(ck, camp, what or f"{getattr(owner, '__name__', owner)}.{name}", f"attribute is gone: {e}")
        return None


def signature_accepts(fn: Callable[..., Any], *args: Any, **kwargs: Any) -> str | None:
    """None when `fn(*args, **kwargs)` binds; otherwise the reason (with the current signature)."""
    try:
        sig = inspect.signature(fn)
    except (TypeError, ValueError):
        return None  # builtins without a signature: cannot decide here
    try:
        sig.bind(*args, **kwargs)
    except TypeError as e:
        return f"signature is now {getattr(fn, '__qualname__', fn)}{sig}: {e}"
    return None


def call(ck: Any, camp: Any, what: str, fn: Callable[..., Any] | None, *args: Any, _case: Any = None, **kwargs: Any) -> tuple[bool, Any]:
    """(True, fn(*args, **kwargs)) — or (False, None) with a recorded disagreement when the callee is
    gone (`fn is None`, see `resolve`) or no longer takes these arguments."""
    if fn is None:
        _once(ck, camp, what, "callee is gone", _case)
        return False, None
    why = signature_accepts(fn, *args, **kwargs)
    if why is not None:
        _once(ck, camp, what, why, _case)
        return False, None
    return True, fn(*args, **kwargs)


def _is_shape_error(e: BaseException) -> bool:
    """A TypeError from argument binding ("takes 2 positional arguments but 3 were given",
    "unexpected keyword argument", "missing 1 required positional argument") or an AttributeError
    for a private / mangled / module attribute — the kinds a changed signature produces."""
    msg = str(e)
    if isinstance(e, TypeError):
        return any(
            s in msg
            for s in ("positional argument", "keyword argument", "required keyword-only", "multiple values for argument")
        )
    if isinstance(e, AttributeError):
        return "has no attribute" in msg
    return False


@contextmanager
def guard(ck: Any, camp: Any, what: str, case: Any = None) -> Iterator[None]:
    """Run a block of harness code that reaches into real internals. A shape error (see above) is
    recorded as a broken correspondence of `camp` and swallowed; anything else propagates."""
    try:
        yield
    except (TypeError, AttributeError) as e:
        if not _is_shape_error(e):
            raise
        tb = traceback.extract_tb(e.__traceback__)
        where = f"{tb[-1].filename.rsplit('/', 1)[-1]}:{tb[-1].lineno} in {tb[-1].name}" if tb else "?"
        _once(ck, camp, what, f"{type(e).__name__}: {e} (at {where})", case)
