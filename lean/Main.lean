import Dcg.Driver.All
/-! Model driver: reads one request per line on stdin, writes one reply per line. -/
open Dcg.Driver

def reply (line : String) : String :=
  match parseSeq (tokens line) with
  | some (SX.atom op :: args) =>
    match all.lookup op with
    | some h => h args
    | none => "err unknown-op"
  | _ => "err parse"

partial def loop (h : IO.FS.Stream) (out : IO.FS.Stream) : IO Unit := do
  let line ← h.getLine
  if line.isEmpty then return ()
  out.putStrLn (reply line)
  loop h out

def main : IO Unit := do
  let out ← IO.getStdout
  loop (← IO.getStdin) out
  out.flush
