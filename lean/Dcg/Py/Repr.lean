/-
Dcg.Py.Repr — CPython's `repr()` of a `str` (unicode_repr in Objects/unicodeobject.c).
TRUSTED statement, validated against the interpreter on every run.  `pr` is
`str.isprintable` on single characters ≥ U+0080 (a parameter: the theorems below hold for
every `pr`, so no Unicode table is needed for them).
-/
namespace Dcg.Py.Repr

def hexDigit (n : Nat) : Char := if n < 10 then Char.ofNat (48 + n) else Char.ofNat (87 + n)

def hexDigits (n : Nat) : Nat → List Nat
  | 0 => []
  | k + 1 => hexDigits (n / 16) k ++ [n % 16]

/-- `k` lowercase hex digits of `n`, most significant first -/
def hexK (k n : Nat) : List Char := (hexDigits n k).map hexDigit

def reprChar (pr : Char → Bool) (q : Char) (c : Char) : List Char :=
  if c = q ∨ c = '\\' then ['\\', c]
  else if c = '\t' then ['\\', 't']
  else if c = '\n' then ['\\', 'n']
  else if c = '\r' then ['\\', 'r']
  else if c.toNat < 32 ∨ c.toNat = 127 then '\\' :: 'x' :: hexK 2 c.toNat
  else if c.toNat < 127 then [c]
  else if pr c then [c]
  else if c.toNat < 256 then '\\' :: 'x' :: hexK 2 c.toNat
  else if c.toNat < 65536 then '\\' :: 'u' :: hexK 4 c.toNat
  else '\\' :: 'U' :: hexK 8 c.toNat

/-- single quotes unless the string contains a single quote and no double quote -/
def reprQuote (s : List Char) : Char :=
  if s.contains '\'' && !s.contains '"' then '"' else '\''

def reprStr (pr : Char → Bool) (s : List Char) : List Char :=
  let q := reprQuote s
  q :: s.flatMap (reprChar pr q) ++ [q]

end Dcg.Py.Repr
