import Dcg.Py.Chars
/-
Dcg.Py.Ident — `str.isidentifier()` and `keyword.iskeyword()` of CPython 3.12 over the generated
tables. `str.isidentifier` does NOT normalise (NFKC is applied by the compiler to identifiers in
source text, not by this predicate): the first character must be XID_Start or `_`, every other
character XID_Continue, and the empty string is not an identifier.
TRUSTED; validated against CPython on every run of the C07 check.
-/
namespace Dcg.Py.Ident
open Dcg.Py.Chars Dcg.Gen.Unicode

def isIdentifier : List Char → Bool
  | [] => false
  | c :: cs => isIdStart c && cs.all isIdCont

def isKeyword (s : List Char) : Bool := keywords.contains s

/-- `hasattr(pydantic.BaseModel, s)` -/
def isPydReserved (s : List Char) : Bool := pydReserved.contains s

end Dcg.Py.Ident
