/-
Dcg.Py.LexState — the coarse lexical state of Python source after a piece of text: inside which
kind of token the next character will be read.  It is the Lean statement of the state machine
that the template translator (vlib/translate/templates.py `lex_text`) uses to compute the `states`
column of `Gen/Templates`; the two are compared on every run (campaign `lex.state`).
-/
namespace Dcg.Py.LexState

inductive St where
  | code | sq | dq | tsq | tdq | comment | err
  deriving DecidableEq, Repr

def St.name : St → String
  | .code => "code" | .sq => "sq" | .dq => "dq" | .tsq => "tsq" | .tdq => "tdq"
  | .comment => "comment" | .err => "err"

def St.ofName : String → Option St
  | "code" => some .code | "sq" => some .sq | "dq" => some .dq | "tsq" => some .tsq
  | "tdq" => some .tdq | "comment" => some .comment | "err" => some .err | _ => none

/-- fuel-free formulation: `skip` = number of upcoming characters already consumed by a
multi-character token (second and third quote of a triple quote, the character after a backslash) -/
def run : St → Nat → List Char → St
  | st, _, [] => st
  | st, skip + 1, _ :: r => run st skip r
  | .code, 0, c :: r =>
    if c = '#' then run .comment 0 r
    else if c = '\'' then
      (match r with
       | '\'' :: '\'' :: _ => run .tsq 2 r
       | _ => run .sq 0 r)
    else if c = '"' then
      (match r with
       | '"' :: '"' :: _ => run .tdq 2 r
       | _ => run .dq 0 r)
    else run .code 0 r
  | .comment, 0, c :: r => if c = '\n' ∨ c = '\r' then run .code 0 r else run .comment 0 r
  | .sq, 0, c :: r =>
    if c = '\\' then run .sq 1 r
    else if c = '\'' then run .code 0 r
    else if c = '\n' ∨ c = '\r' then run .err 0 r
    else run .sq 0 r
  | .dq, 0, c :: r =>
    if c = '\\' then run .dq 1 r
    else if c = '"' then run .code 0 r
    else if c = '\n' ∨ c = '\r' then run .err 0 r
    else run .dq 0 r
  | .tsq, 0, c :: r =>
    if c = '\\' then run .tsq 1 r
    else if c = '\'' then
      (match r with
       | '\'' :: '\'' :: _ => run .code 2 r
       | _ => run .tsq 0 r)
    else run .tsq 0 r
  | .tdq, 0, c :: r =>
    if c = '\\' then run .tdq 1 r
    else if c = '"' then
      (match r with
       | '"' :: '"' :: _ => run .code 2 r
       | _ => run .tdq 0 r)
    else run .tdq 0 r
  | .err, 0, _ :: r => run .err 0 r

def lexState (st : St) (text : List Char) : St := run st 0 text

end Dcg.Py.LexState
