/-
Dcg.Py.Lex — the part of CPython's lexer the generator relies on: how the body of a
string literal is read back.  TRUSTED statement of Python semantics; validated on every
run against `ast.literal_eval` / `tokenize` (campaign `lex.*`), never verified.

Strings are `List Char` (Unicode scalar values; lone surrogates are outside the domain).
-/
namespace Dcg.Py.Lex

def hexVal (c : Char) : Option Nat :=
  if '0' ≤ c ∧ c ≤ '9' then some (c.toNat - '0'.toNat)
  else if 'a' ≤ c ∧ c ≤ 'f' then some (c.toNat - 'a'.toNat + 10)
  else if 'A' ≤ c ∧ c ≤ 'F' then some (c.toNat - 'A'.toNat + 10)
  else none

def isOct (c : Char) : Bool := decide ('0' ≤ c ∧ c ≤ '7')
def octVal (c : Char) : Nat := c.toNat - '0'.toNat

/-- read exactly `n` hex digits -/
def hexN : Nat → List Char → Nat → Option (Nat × List Char)
  | 0, l, acc => some (acc, l)
  | _ + 1, [], _ => none
  | n + 1, c :: l, acc =>
    match hexVal c with
    | none => none
    | some v => hexN n l (acc * 16 + v)

/-- A scalar value as a `Char`; `none` for surrogates / out of range (outside the model). -/
def mkChar (n : Nat) : Option Char :=
  if n.isValidChar then some (Char.ofNat n) else none

def escOct (e : Char) (rest : List Char) : List Char × List Char :=
  match rest with
  | o2 :: r2 =>
    if isOct o2 then
      (match r2 with
       | o3 :: r3 =>
         if isOct o3 then ([Char.ofNat (octVal e * 64 + octVal o2 * 8 + octVal o3)], r3)
         else ([Char.ofNat (octVal e * 8 + octVal o2)], r2)
       | [] => ([Char.ofNat (octVal e * 8 + octVal o2)], r2))
    else ([Char.ofNat (octVal e)], rest)
  | [] => ([Char.ofNat (octVal e)], rest)

def escHex (n : Nat) (rest : List Char) : Option (List Char × List Char) :=
  match hexN n rest 0 with
  | some (v, r) => (mkChar v).map (fun c => ([c], r))
  | none => none

def escCR (rest : List Char) : List Char :=
  match rest with
  | '\n' :: r => r
  | _ => rest

/-- single-character escapes of cooked literals -/
def simpleEsc : List (Char × Char) :=
  [('\\', '\\'), ('\'', '\''), ('"', '"'), ('a', Char.ofNat 7), ('b', Char.ofNat 8),
   ('f', Char.ofNat 12), ('n', '\n'), ('r', '\r'), ('t', '\t'), ('v', Char.ofNat 11)]

/-- What follows a backslash in a cooked (non-raw) str literal. `e` is the char after `\`. -/
def escape (e : Char) (rest : List Char) : Option (List Char × List Char) :=
  match simpleEsc.lookup e with
  | some c => some ([c], rest)
  | none =>
    if e = Char.ofNat 0 then none                 -- NUL is rejected anywhere in a source text
    else if e = '\n' then some ([], rest)         -- line continuation
    else if e = '\r' then some ([], escCR rest)
    else if isOct e then some (escOct e rest)
    else if e = 'x' then escHex 2 rest
    else if e = 'u' then escHex 4 rest
    else if e = 'U' then escHex 8 rest
    else if e = 'N' then none            -- \N{name}: not modelled
    else some (['\\', e], rest)          -- unknown escape: both characters are kept

/-- One lexical unit of the body of a cooked short (single-line) string literal.
`none` = lexical error (raw newline, NUL byte, end of input) or unmodelled. -/
def unit : List Char → Option (List Char × List Char)
  | [] => none
  | c :: rest =>
    if c = '\n' ∨ c = '\r' ∨ c = Char.ofNat 0 then none
    else if c = '\\' then
      (match rest with
       | [] => none
       | e :: rest' => escape e rest')
    else some ([c], rest)

/-- One unit of a cooked triple-quoted literal: raw newlines are data (`\r\n`, `\r` ↦ `\n`). -/
def unitLong : List Char → Option (List Char × List Char)
  | [] => none
  | c :: rest =>
    if c = Char.ofNat 0 then none
    else if c = '\r' then
      (match rest with
       | '\n' :: r => some (['\n'], r)
       | _ => some (['\n'], rest))
    else if c = '\\' then
      (match rest with
       | [] => none
       | e :: rest' => escape e rest')
    else some ([c], rest)

/-- One unit of a raw short literal: a backslash keeps itself and the next character. -/
def unitRaw : List Char → Option (List Char × List Char)
  | [] => none
  | c :: rest =>
    if c = '\n' ∨ c = '\r' ∨ c = Char.ofNat 0 then none
    else if c = '\\' then
      (match rest with
       | [] => none
       | e :: rest' =>
         if e = Char.ofNat 0 then none
         else if e = '\r' then
           (match rest' with
            | '\n' :: r => some (['\\', '\n'], r)
            | _ => some (['\\', '\n'], rest'))
         else some (['\\', e], rest'))
    else some ([c], rest)

theorem hexN_shorter : ∀ (n : Nat) (l : List Char) (acc v : Nat) (r : List Char),
    hexN n l acc = some (v, r) → r.length ≤ l.length := by
  intro n
  induction n with
  | zero => intro l acc v r h; simp [hexN] at h; obtain ⟨_, rfl⟩ := h; exact Nat.le_refl _
  | succ n ih =>
    intro l acc v r h
    cases l with
    | nil => simp [hexN] at h
    | cons c l =>
      simp only [hexN] at h
      split at h
      · simp at h
      · have := ih _ _ _ _ h; simp; omega

theorem escCR_shorter (rest : List Char) : (escCR rest).length ≤ rest.length := by
  unfold escCR; split <;> simp

theorem escOct_shorter (e : Char) (rest : List Char) :
    (escOct e rest).2.length ≤ rest.length := by
  unfold escOct
  split
  · split
    · split
      · split <;> simp <;> omega
      · simp
    · simp
  · simp

theorem escHex_shorter {n : Nat} {rest cs r : List Char}
    (h : escHex n rest = some (cs, r)) : r.length ≤ rest.length := by
  unfold escHex at h
  split at h
  · rename_i v r' hx
    have := hexN_shorter _ _ _ _ _ hx
    simp only [Option.map_eq_some_iff] at h
    obtain ⟨_, _, h2⟩ := h
    simp only [Prod.mk.injEq] at h2
    obtain ⟨_, rfl⟩ := h2
    exact this
  · simp at h

theorem escape_shorter {e : Char} {rest cs r : List Char}
    (h : escape e rest = some (cs, r)) : r.length ≤ rest.length := by
  unfold escape at h
  repeat' split at h
  all_goals first
    | (exact escHex_shorter h)
    | (simp only [Option.some.injEq, Prod.mk.injEq] at h; obtain ⟨_, rfl⟩ := h
       first | exact Nat.le_refl _ | exact escCR_shorter _)
    | (simp only [Option.some.injEq] at h; have h3 := escOct_shorter e rest; rw [h] at h3; exact h3)
    | (simp at h)

theorem unit_shorter {l cs r : List Char} (h : unit l = some (cs, r)) : r.length < l.length := by
  cases l with
  | nil => simp [unit] at h
  | cons c rest =>
    simp only [unit] at h
    split at h
    · simp at h
    · split at h
      · cases rest with
        | nil => simp at h
        | cons e rest' =>
          simp only at h
          have := escape_shorter h
          simp; omega
      · simp only [Option.some.injEq, Prod.mk.injEq] at h; obtain ⟨_, rfl⟩ := h; simp

theorem unitLong_shorter {l cs r : List Char} (h : unitLong l = some (cs, r)) :
    r.length < l.length := by
  cases l with
  | nil => simp [unitLong] at h
  | cons c rest =>
    simp only [unitLong] at h
    split at h
    · simp at h
    · split at h
      · split at h <;>
          (simp only [Option.some.injEq, Prod.mk.injEq] at h; obtain ⟨_, rfl⟩ := h; simp; try omega)
      · split at h
        · cases rest with
          | nil => simp at h
          | cons e rest' =>
            simp only at h
            have := escape_shorter h
            simp; omega
        · simp only [Option.some.injEq, Prod.mk.injEq] at h; obtain ⟨_, rfl⟩ := h; simp

theorem unitRaw_shorter {l cs r : List Char} (h : unitRaw l = some (cs, r)) :
    r.length < l.length := by
  cases l with
  | nil => simp [unitRaw] at h
  | cons c rest =>
    simp only [unitRaw] at h
    split at h
    · simp at h
    · split at h
      · cases rest with
        | nil => simp at h
        | cons e rest' =>
          simp only at h
          split at h
          · simp at h
          · split at h
            · split at h <;>
                (simp only [Option.some.injEq, Prod.mk.injEq] at h; obtain ⟨_, rfl⟩ := h
                 simp; try omega)
            · simp only [Option.some.injEq, Prod.mk.injEq] at h; obtain ⟨_, rfl⟩ := h
              simp; omega
      · simp only [Option.some.injEq, Prod.mk.injEq] at h; obtain ⟨_, rfl⟩ := h; simp

/-- Body of a short literal delimited by `q`, starting after the opening quote:
returns the decoded string and what follows the closing quote. -/
def scan (q : Char) (l : List Char) : Option (List Char × List Char) :=
  if l.head? = some q then some ([], l.tail)
  else
    match h : unit l with
    | none => none
    | some (cs, r) =>
      have : r.length < l.length := unit_shorter h
      (scan q r).map (fun p => (cs ++ p.1, p.2))
termination_by l.length

def scanRaw (q : Char) (l : List Char) : Option (List Char × List Char) :=
  if l.head? = some q then some ([], l.tail)
  else
    match h : unitRaw l with
    | none => none
    | some (cs, r) =>
      have : r.length < l.length := unitRaw_shorter h
      (scanRaw q r).map (fun p => (cs ++ p.1, p.2))
termination_by l.length

/-- Body of a triple-quoted cooked literal (after the opening `qqq`). -/
def scanLong (q : Char) (l : List Char) : Option (List Char × List Char) :=
  if l.take 3 = [q, q, q] then some ([], l.drop 3)
  else
    match h : unitLong l with
    | none => none
    | some (cs, r) =>
      have : r.length < l.length := unitLong_shorter h
      (scanLong q r).map (fun p => (cs ++ p.1, p.2))
termination_by l.length

/-- A complete cooked str literal at the head of `l` (no prefix letters). The tokenizer
decides between `q…q` and `qqq…qqq` by looking at the two characters after the first quote. -/
def lit (q : Char) : List Char → Option (List Char × List Char)
  | [] => none
  | c :: r =>
    if c ≠ q then none
    else match r with
      | c1 :: c2 :: r2 => if c1 = q ∧ c2 = q then scanLong q r2 else scan q r
      | _ => scan q r

/-- A complete raw short literal body `r'…'` after the prefix letter. (Triple-quoted raw
literals are not produced by the generator and not modelled.) -/
def litRaw (q : Char) : List Char → Option (List Char × List Char)
  | [] => none
  | c :: r =>
    if c ≠ q then none
    else match r with
      | c1 :: c2 :: _ => if c1 = q ∧ c2 = q then none else scanRaw q r
      | _ => scanRaw q r

/-- `#` comment: runs to the first NEWLINE (`\n`, `\r\n`, `\r`); returns text and the rest
*after* the newline (or `[]` at end of input). -/
def comment : List Char → List Char × List Char
  | [] => ([], [])
  | c :: rest =>
    if c = '\n' then ([], rest)
    else if c = '\r' then
      (match rest with
       | '\n' :: r => ([], r)
       | _ => ([], rest))
    else let p := comment rest; (c :: p.1, p.2)

end Dcg.Py.Lex
