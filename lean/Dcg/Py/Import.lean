/-
Dcg.Py.Import — CPython's rule for relative imports (`importlib._bootstrap._resolve_name`,
`__package__`).  TRUSTED statement of Python semantics; validated on every run against
`importlib.util.resolve_name` and against real imports in a subprocess (campaign
`py.resolveFrom`), never verified.

Module names are lists of components *below the root package of the generated output*:
the output directory itself is the root package `[]`, `a/b.py` is `[a, b]`,
`a/b/__init__.py` is `[a, b]` as well (a package).  A name component is a `List Char`.
-/
namespace Dcg.Py.Import

abbrev Name := List Char
abbrev MPath := List Name

/-- `__package__` of a module: a package's `__init__` is its own package, a plain module
belongs to its parent.  A plain module with an empty path does not exist below a root package
(`none`: "attempted relative import with no known parent package"). -/
def packageOf (importer : MPath) (isInit : Bool) : Option MPath :=
  if isInit then some importer
  else if importer = [] then none
  else some importer.dropLast

/-- The module designated by `from <dots><pkg> import x` when executed in module `importer`
(`isInit` = the importer is a package `__init__`): start at the importer's package, every dot
after the first drops one level, then descend along `pkg`.
`none` = ImportError (no parent package, or more dots than levels: "attempted relative import
beyond top-level package"; climbing out of the root package of the output is not a resolution
*inside the package*).  `dots = 0` is an absolute import and is not resolved here (`none`). -/
def resolveFrom (importer : MPath) (isInit : Bool) (dots : Nat) (pkg : List Name) : Option MPath :=
  match packageOf importer isInit with
  | none => none
  | some package =>
    if dots = 0 then none
    else if package.length < dots - 1 then none
    else some (package.take (package.length - (dots - 1)) ++ pkg)

end Dcg.Py.Import
