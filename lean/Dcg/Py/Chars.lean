import Dcg.Gen.Unicode
/-
Dcg.Py.Chars — character classes and simple case maps of CPython 3.12 as the name sanitiser uses
them, read from the generated range tables (Dcg/Gen/Unicode, regenerated from the interpreter).
TRUSTED as a statement of Python semantics; validated against `str.isidentifier`, `re` `\w`,
`str.isnumeric`, `str.lower`, `str.upper` by the C07 check on every run.
-/
namespace Dcg.Py.Chars
open Dcg.Gen.Unicode

/-- membership in a sorted list of disjoint inclusive ranges (linear, early exit; written with the
Boolean comparisons the kernel evaluates natively) -/
def inRanges : List (Nat × Nat) → Nat → Bool
  | [], _ => false
  | (lo, hi) :: rest, n => !(Nat.blt n lo) && (Nat.ble n hi || inRanges rest n)

/-- `c.isidentifier()` : XID_Start or `_` -/
def isIdStart (c : Char) : Bool := inRanges xidStart c.toNat
/-- `("a" + c).isidentifier()` : XID_Continue -/
def isIdCont (c : Char) : Bool := inRanges xidContinue c.toNat
/-- `re.match(r"\w", c)` (str pattern, Unicode semantics) -/
def isWord (c : Char) : Bool := inRanges word c.toNat
/-- `c.isnumeric()` -/
def isNumeric (c : Char) : Bool := inRanges numeric c.toNat

abbrev Run := Nat × Nat × Nat × Nat × Nat

/-- the run (lo, hi, stride, plus, minus) maps `n` -/
def Run.covers (r : Run) (n : Nat) : Bool :=
  r.1 ≤ n && n ≤ r.2.1 && (n - r.1) % r.2.2.1 == 0

def Run.image (r : Run) (n : Nat) : Nat := n + r.2.2.2.1 - r.2.2.2.2

/-- image of one character under a case map given as runs + explicit entries; identity elsewhere -/
def caseMap (runs : List Run) (special : List (Nat × List Nat)) (c : Char) : List Char :=
  match special.lookup c.toNat with
  | some img => img.map Char.ofNat
  | none => match runs.find? (fun r => r.covers c.toNat) with
    | some r => [Char.ofNat (r.image c.toNat)]
    | none => [c]

/-- `c.lower()` -/
def lower1 (c : Char) : List Char := caseMap lowerMapRuns lowerMapSpecial c
/-- `c.upper()` -/
def upper1 (c : Char) : List Char := caseMap upperMapRuns upperMapSpecial c

/-- `s.upper()` (character-wise, exact) -/
def upperS (s : List Char) : List Char := s.flatMap upper1
/-- `s.lower()` character-wise. CPython additionally turns a capital sigma at the end of a word
into the final sigma U+03C2 instead of U+03C3; that context rule is NOT modelled (the check counts
such inputs as unmodelled), and the theorems only use `CaseOK`, which both images satisfy. -/
def lowerS (s : List Char) : List Char := s.flatMap lower1

def isAsciiUpper (c : Char) : Bool := 'A' ≤ c && c ≤ 'Z'
def isAsciiLower (c : Char) : Bool := 'a' ≤ c && c ≤ 'z'
def isAsciiDigit (c : Char) : Bool := '0' ≤ c && c ≤ '9'

end Dcg.Py.Chars
