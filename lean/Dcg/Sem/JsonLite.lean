/-
Dcg.Sem.JsonLite — JSON values as far as schema inference looks at them.

Numbers: genson distinguishes Python `int` from `float` and nothing else, JSON Schema distinguishes
"is an integer value" from the rest; so an integer carries its value and a float only the fact
whether its value is integral (`1.0`), which is what `{"type": "integer"}` looks at.
Objects are association lists in document order (a parsed document has no duplicate keys; the
definitions and theorems do not need that).
-/
namespace Dcg.Sem.JsonLite

abbrev Key := List Char

inductive Json where
  | null
  | bool (b : Bool)
  | int (i : Int)
  | flt (integral : Bool)
  | str (s : List Char)
  | arr (xs : List Json)
  | obj (kvs : List (Key × Json))
  deriving Repr, Inhabited

def keys (kvs : List (Key × Json)) : List Key := kvs.map (·.1)

end Dcg.Sem.JsonLite
