import Dcg.Model.Constraints
/-
JSON values (TRUSTED statement of the data model both external contracts talk about).

Numbers are decimals `m · 10^(-e)` (`Dcg.Model.Constraints.Dec`): every JSON number literal without
exponent is exactly one such pair; comparisons are by cross-multiplication. IEEE rounding of
`float` is NOT modelled: the harness only uses decimals with at most two fractional digits whose
comparisons are exact in binary floating point as well.
Objects are association lists; member lookup is "first entry with that key" on both sides of
every statement (JSON parsers hand unique keys to both jsonschema and pydantic).
-/
namespace Dcg.Sem
open Dcg.Model.Constraints

inductive Json where
  | null
  | bool (b : Bool)
  | num (d : Dec)
  | str (s : List Char)
  | arr (xs : List Json)
  | obj (kvs : List (List Char × Json))
  deriving Repr, Inhabited

/-- scalar constants that may appear in `enum` / `const` -/
inductive Atom where
  | str (s : List Char)
  | int (i : Int)
  deriving DecidableEq, Repr, Inhabited

mutual
/-- structural equality (numbers by representation) -/
def Json.beq : Json → Json → Bool
  | .null, .null => true
  | .bool a, .bool b => a == b
  | .num a, .num b => a.m == b.m && a.e == b.e
  | .str a, .str b => a == b
  | .arr xs, .arr ys => Json.beqL xs ys
  | .obj xs, .obj ys => Json.beqKV xs ys
  | _, _ => false
def Json.beqL : List Json → List Json → Bool
  | [], [] => true
  | x :: xs, y :: ys => Json.beq x y && Json.beqL xs ys
  | _, _ => false
def Json.beqKV : List (List Char × Json) → List (List Char × Json) → Bool
  | [], [] => true
  | x :: xs, y :: ys => x.1 == y.1 && Json.beq x.2 y.2 && Json.beqKV xs ys
  | _, _ => false
end

/-- number of members of an object / items of an array -/
def Json.width : Json → Nat
  | .arr xs => xs.length
  | .obj kvs => kvs.length
  | _ => 0

def Json.isNull : Json → Bool
  | .null => true
  | _ => false

/-- JSON equality of a value with an atom: strings by code points, numbers numerically
(`1.0` equals `1`); a boolean never equals a number. -/
def Atom.matches (a : Atom) (v : Json) : Bool :=
  match a, v with
  | .str s, .str t => s == t
  | .int i, .num d => Dec.eqv (Dec.ofInt i) d
  | _, _ => false

/-- `x` is an integral multiple of `m` (m > 0): both as decimals, brought to a common scale -/
def Dec.multipleOf (x m : Dec) : Bool :=
  let a := x.m * (10 ^ m.e : Nat)
  let b := m.m * (10 ^ x.e : Nat)
  b != 0 && a % b == 0

/-- three-valued verdict of a pydantic validation -/
inductive Tri where
  | accept
  | reject
  | laxZone
  deriving DecidableEq, Repr, Inhabited

/-- conjunction: any `reject` wins, then any `laxZone` -/
def Tri.and : Tri → Tri → Tri
  | .reject, _ => .reject
  | _, .reject => .reject
  | .laxZone, _ => .laxZone
  | _, .laxZone => .laxZone
  | .accept, .accept => .accept

def Tri.all (xs : List Tri) : Tri := xs.foldr Tri.and .accept

/-- disjunction (union types): any `accept` wins, then any `laxZone` -/
def Tri.or : Tri → Tri → Tri
  | .accept, _ => .accept
  | _, .accept => .accept
  | .laxZone, _ => .laxZone
  | _, .laxZone => .laxZone
  | .reject, .reject => .reject

def Tri.any (xs : List Tri) : Tri := xs.foldr Tri.or .reject

def Tri.ofBool (b : Bool) : Tri := if b then .accept else .reject

end Dcg.Sem
