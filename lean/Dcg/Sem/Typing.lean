/-
Dcg.Sem.Typing — typing expressions as the generator writes them, and what they denote.
TRUSTED statement of the `typing` semantics the property C13 is about; validated on every run
against CPython (`eval` of the real hint with the typing names in scope, then
`typing.get_origin/get_args`), never verified.

`TExpr` is the syntax: a name (`int`, `Foo`, `None`, a `repr` token inside `Literal[…]`),
a subscription `h[a, b]` (`List[…]`, `Dict[k, v]`, `Optional[…]`, `Union[…]`, `Literal[…]`), and a
PEP 604 union `a | b`.  `denote` maps to the normal form `Ty`:
List/list/Sequence ↦ list, Set/set/FrozenSet ↦ set, Dict/dict/Mapping ↦ dict, and
Optional/Union/`|` ↦ one flattened union without repetitions, its alternatives in canonical order
(a set), `None` recorded as a flag (so the position of `None` among the alternatives is immaterial).
-/
namespace Dcg.Sem.Typing

abbrev Str := List Char

def sNone : Str := ['N', 'o', 'n', 'e']
def sComma : Str := [',', ' ']
def sPipe : Str := [' ', '|', ' ']
def sUnion : Str := ['U', 'n', 'i', 'o', 'n']
def sOptional : Str := ['O', 'p', 't', 'i', 'o', 'n', 'a', 'l']
def sLiteral : Str := ['L', 'i', 't', 'e', 'r', 'a', 'l']
def nList : Str := ['l', 'i', 's', 't']
def nSet : Str := ['s', 'e', 't']
def nDict : Str := ['d', 'i', 'c', 't']

inductive TExpr where
  | atom (s : Str)
  | app (h : Str) (args : List TExpr)
  | bor (args : List TExpr)
  deriving Inhabited

mutual
def TExpr.beq : TExpr → TExpr → Bool
  | .atom s, .atom s' => s == s'
  | .app h a, .app h' a' => h == h' && TExpr.beqL a a'
  | .bor a, .bor a' => TExpr.beqL a a'
  | _, _ => false
def TExpr.beqL : List TExpr → List TExpr → Bool
  | [], [] => true
  | e :: es, e' :: es' => TExpr.beq e e' && TExpr.beqL es es'
  | _, _ => false
end
instance : BEq TExpr := ⟨TExpr.beq⟩

def eNone : TExpr := .atom sNone

mutual
/-- the printer: exactly the separators the generator writes (`", "`, `" | "`) -/
def print : TExpr → Str
  | .atom s => s
  | .app h args => h ++ '[' :: printL sComma args ++ [']']
  | .bor args => printL sPipe args
def printL (sep : Str) : List TExpr → Str
  | [] => []
  | e :: es => match es with
    | [] => print e
    | _ :: _ => print e ++ sep ++ printL sep es
end

/-- normal form -/
inductive Ty where
  | atom (s : Str)
  | app (h : Str) (args : List Ty)
  /-- a union of ≥ 2 alternatives, or of ≥ 0 alternatives and `None` -/
  | union (alts : List Ty) (hasNone : Bool)
  deriving Inhabited

mutual
def Ty.beq : Ty → Ty → Bool
  | .atom s, .atom s' => s == s'
  | .app h a, .app h' a' => h == h' && Ty.beqL a a'
  | .union a n, .union a' n' => n == n' && Ty.beqL a a'
  | _, _ => false
def Ty.beqL : List Ty → List Ty → Bool
  | [], [] => true
  | e :: es, e' :: es' => Ty.beq e e' && Ty.beqL es es'
  | _, _ => false
end
instance : BEq Ty := ⟨Ty.beq⟩

def listNames : List Str := [['L', 'i', 's', 't'], nList, ['S', 'e', 'q', 'u', 'e', 'n', 'c', 'e']]
def setNames : List Str := [['S', 'e', 't'], nSet, ['F', 'r', 'o', 'z', 'e', 'n', 'S', 'e', 't']]
def dictNames : List Str := [['D', 'i', 'c', 't'], nDict, ['M', 'a', 'p', 'p', 'i', 'n', 'g']]

/-- the three spellings of each container are one name -/
def normHead (h : Str) : Str :=
  if listNames.contains h then nList else if setNames.contains h then nSet
  else if dictNames.contains h then nDict else h

/-- a bare name: a container without parameters is that container -/
def normBare (s : Str) : Ty :=
  if listNames.contains s ∨ setNames.contains s ∨ dictNames.contains s then .app (normHead s) []
  else .atom s

/-- keep the first occurrence of each alternative -/
def dedup : List Ty → List Ty → List Ty
  | [], _ => []
  | t :: ts, seen => if seen.contains t then dedup ts seen else t :: dedup ts (t :: seen)

def strLt : Str → Str → Bool
  | [], [] => false
  | [], _ :: _ => true
  | _ :: _, [] => false
  | a :: as, b :: bs => a.toNat < b.toNat || (a == b && strLt as bs)

def insertSorted (x : Str) : List Str → List Str
  | [] => [x]
  | y :: ys => if strLt y x then y :: insertSorted x ys else x :: y :: ys

def sortStrs (xs : List Str) : List Str := xs.foldr insertSorted []

def joinSemi : List Str → Str
  | [] => []
  | [x] => x
  | x :: xs => x ++ ';' :: joinSemi xs

mutual
/-- canonical text of a normal form (for comparison with CPython's view, and for reading);
the members of a `Literal[…]` and the alternatives of a union are sets, shown sorted -/
def Ty.show : Ty → Str
  | .atom s => s
  | .app h args =>
    h ++ '(' :: (if h = sLiteral then joinSemi (sortStrs (Ty.showL args)) else joinSemi (Ty.showL args)) ++ [')']
  | .union as n => '{' :: joinSemi (sortStrs (Ty.showL as) ++ (if n then [sNone] else [])) ++ ['}']
def Ty.showL : List Ty → List Str
  | [] => []
  | t :: ts => Ty.show t :: Ty.showL ts
end

/-- the alternatives of a union are a set: kept in the order of their canonical texts, so that two
unions with the same alternatives are the same normal form (`Union[int, str]` = `Union[str, int]`, as
`typing` compares them) and a union nested in a container is recognised as a repetition by `dedup` -/
def insertTy (x : Ty) : List Ty → List Ty
  | [] => [x]
  | y :: ys => if strLt y.show x.show then y :: insertTy x ys else x :: y :: ys

def sortTys (xs : List Ty) : List Ty := xs.foldr insertTy []

@[simp] theorem sortTys_nil : sortTys [] = [] := rfl
@[simp] theorem sortTys_singleton (t : Ty) : sortTys [t] = [t] := rfl

def mkTy (alts : List Ty) (hasNone : Bool) : Ty :=
  match dedup alts [], hasNone with
  | [a], false => a
  | as, n => .union (sortTys as) n


mutual
/-- the alternatives other than `None`, flattened through Optional / Union / `|` -/
def alts : TExpr → List Ty
  | .atom s => if s = sNone then [] else [normBare s]
  | .app h args =>
    if h = sOptional ∨ h = sUnion then altsL args
    else [.app (normHead h) (denoteL args)]
  | .bor args => altsL args
def altsL : List TExpr → List Ty
  | [] => []
  | e :: es => alts e ++ altsL es
/-- is `None` one of the alternatives -/
def hasNone : TExpr → Bool
  | .atom s => s = sNone
  | .app h args => if h = sOptional then true else if h = sUnion then hasNoneL args else false
  | .bor args => hasNoneL args
def hasNoneL : List TExpr → Bool
  | [] => false
  | e :: es => hasNone e || hasNoneL es
def denoteL : List TExpr → List Ty
  | [] => []
  | e :: es => mkTy (alts e) (hasNone e) :: denoteL es
end

def denote (e : TExpr) : Ty := mkTy (alts e) (hasNone e)

end Dcg.Sem.Typing
