import Dcg.Sem.Json
/-
The supported subset of JSON Schema as Lean data (DESIGN §9) and JSON-Schema validity for exactly
these keywords (TRUSTED; validated against `jsonschema` on every run by vlib/props/c03.py).

Core subset (this file): scalar types with bounds (nullable through a type list), enum / const of
scalars, arrays with a single `items` schema and minItems / maxItems, objects with typed
properties + `required` + boolean `additionalProperties`, objects that are pure maps
(`additionalProperties: <schema>`, no properties), the same behind a nullable type list
(`"type": ["object", "null"]`: `ndict`), local `$ref` through a definitions environment,
`anyOf` / `oneOf`, `allOf` of `$ref` parts with one inline object and an allOf-level `required`, and
OpenAPI discriminated unions (`disc`: oneOf/anyOf of `$ref`s + `discriminator` with a written or implicit
mapping; validity = the union as JSON Schema reads it AND the tag selecting a valid alternative). Draft-4 boolean exclusive bounds are normalised beforehand
(`Dcg.Model.Constraints.normaliseSide`, theorem `C04.exclusive_normalise_sound`); here
`exclMin` / `exclMax` are numbers. Regular expressions are an uninterpreted oracle `re pattern s`
shared by both sides of every statement.
-/
namespace Dcg.Sem
open Dcg.Model.Constraints

abbrev Regex := List Char → List Char → Bool

inductive STy where
  | integer | number | string | boolean
  deriving DecidableEq, Repr, Inhabited

structure Bounds where
  minimum : Option Dec := none
  maximum : Option Dec := none
  exclMin : Option Dec := none
  exclMax : Option Dec := none
  multipleOf : Option Dec := none
  minLength : Option Nat := none
  maxLength : Option Nat := none
  pattern : Option (List Char) := none
  deriving Repr, Inhabited, DecidableEq

/-- `additionalProperties` next to `properties`: not given, `true`, `false` -/
inductive Addl where
  | absent | allow | forbid
  deriving DecidableEq, Repr, Inhabited

inductive Schema where
  | any
  | null
  | scalar (ty : STy) (nullable : Bool) (b : Bounds)
  | enum (vals : List Atom)
  | const (a : Atom)
  | array (items : Schema) (minItems maxItems : Option Nat)
  | object (props : List (List Char × Schema)) (required : List (List Char)) (addl : Addl)
  | dict (value : Schema)
  /-- `{"type": ["object", "null"]}` (either order) WITHOUT `properties`: a free-form object (`value = any`) or a
  map object (`additionalProperties: value`) that may also be null -/
  | ndict (value : Schema)
  | ref (name : List Char)
  | anyOf (alts : List Schema)
  | oneOf (alts : List Schema)
  /-- `{"allOf": [{"$ref": r}…, {"type":"object","properties": props,"required": req}, {"required": xreq}]}`
  (the inline object and the bare `required` part may be empty) -/
  | allOf (refs : List (List Char)) (props : List (List Char × Schema)) (req xreq : List (List Char))
  /-- OpenAPI discriminated union
  `{"oneOf" | "anyOf": [{"$ref": r}…], "discriminator": {"propertyName": prop, "mapping": {tag: "$ref"…}}}`
  (`one` = written with `oneOf`). `mapping` sends tag values to definition names; the empty mapping is
  the implicit one (every definition is selected by its own name). -/
  | disc (one : Bool) (prop : List Char) (refs : List (List Char)) (mapping : List (List Char × List Char))
  deriving Inhabited

abbrev Defs := List (List Char × Schema)

def numOK (b : Bounds) (x : Dec) : Bool :=
  b.minimum.all (fun m => Dec.le m x) && b.exclMin.all (fun m => Dec.lt m x) &&
  b.maximum.all (fun m => Dec.le x m) && b.exclMax.all (fun m => Dec.lt x m) &&
  b.multipleOf.all (fun m => Dec.multipleOf x m)

def strOK (re : Regex) (b : Bounds) (s : List Char) : Bool :=
  b.minLength.all (fun n => n ≤ s.length) && b.maxLength.all (fun n => s.length ≤ n) &&
  b.pattern.all (fun p => re p s)

/-- validity of a non-null value under a scalar schema; `integer` = number with zero fraction;
a boolean is not a number; lengths count code points -/
def validScalar (re : Regex) (ty : STy) (b : Bounds) (v : Json) : Bool :=
  match ty, v with
  | .integer, .num x => x.isInt && numOK b x
  | .number, .num x => numOK b x
  | .string, .str s => strOK re b s
  | .boolean, .bool _ => true
  | _, _ => false

def lenOK (mn mx : Option Nat) (n : Nat) : Bool :=
  mn.all (fun k => k ≤ n) && mx.all (fun k => n ≤ k)

def hasKey (kvs : List (List Char × Json)) (k : List Char) : Bool := (kvs.lookup k).isSome

/-- number of `true`s -/
def countTrue (bs : List Bool) : Nat := (bs.filter id).length

/-- the mapping in effect: as written, or — when none is written — each alternative under its own name -/
def effMapping (refs : List (List Char)) (mapping : List (List Char × List Char)) :
    List (List Char × List Char) :=
  if mapping.isEmpty then refs.map (fun r => (r, r)) else mapping

/-- every tag value that selects definition `r`: ALL keys of the mapping that point at it, in
mapping order (`check_paths` of `Parser.__apply_discriminator_type`) -/
def tagsOf (m : List (List Char × List Char)) (r : List Char) : List (List Char) :=
  (m.filter (fun e => e.2 == r)).map (·.1)

def Schema.isDisc : Schema → Bool
  | .disc _ _ _ _ => true
  | _ => false

def Schema.discRefs : Schema → List (List Char)
  | .disc _ _ refs _ => refs
  | _ => []

/-- JSON-Schema validity, fuel-indexed (`$ref` may be recursive). Out of fuel = not valid. -/
def validJ (re : Regex) : Nat → Defs → Schema → Json → Bool
  | 0, _, _, _ => false
  | f + 1, defs, s, v =>
    match s with
    | .any => true
    | .null => v.isNull
    | .scalar ty nullable b => (nullable && v.isNull) || validScalar re ty b v
    | .enum vals => vals.any (fun a => a.matches v)
    | .const a => a.matches v
    | .array items mn mx =>
      match v with
      | .arr xs => lenOK mn mx xs.length && xs.all (fun x => validJ re f defs items x)
      | _ => false
    | .object props req addl =>
      match v with
      | .obj kvs =>
        req.all (fun k => hasKey kvs k) &&
        props.all (fun p => match kvs.lookup p.1 with
          | some x => validJ re f defs p.2 x
          | none => true) &&
        (addl != .forbid || kvs.all (fun kv => (props.map (·.1)).contains kv.1))
      | _ => false
    | .dict value =>
      match v with
      | .obj kvs => kvs.all (fun kv => validJ re f defs value kv.2)
      | _ => false
    | .ndict value =>
      match v with
      | .null => true
      | .obj kvs => kvs.all (fun kv => validJ re f defs value kv.2)
      | _ => false
    | .ref n =>
      match defs.lookup n with
      | some t => validJ re f defs t v
      | none => false
    | .anyOf alts => alts.any (fun a => validJ re f defs a v)
    | .oneOf alts => countTrue (alts.map (fun a => validJ re f defs a v)) == 1
    | .allOf refs props req xreq =>
      match v with
      | .obj kvs =>
        refs.all (fun r => match defs.lookup r with
          | some t => validJ re f defs t v
          | none => false) &&
        req.all (fun k => hasKey kvs k) && xreq.all (fun k => hasKey kvs k) &&
        props.all (fun p => match kvs.lookup p.1 with
          | some x => validJ re f defs p.2 x
          | none => true)
      | _ => false
    | .disc one prop refs mapping =>
      -- the union as JSON Schema reads it (the keyword `discriminator` is not a JSON-Schema keyword) AND
      -- what OpenAPI adds: the value carries the tag, the tag selects one of the alternatives through
      -- the mapping, and the value is valid under the selected alternative
      match v with
      | .obj kvs =>
        (if one then countTrue (refs.map (fun r => match defs.lookup r with
            | some t => validJ re f defs t v
            | none => false)) == 1
         else refs.any (fun r => match defs.lookup r with
            | some t => validJ re f defs t v
            | none => false)) &&
        (match kvs.lookup prop with
          | some (.str tag) =>
            match (effMapping refs mapping).lookup tag with
            | some r => refs.contains r && (match defs.lookup r with
              | some t => validJ re f defs t v
              | none => false)
            | none => false
          | _ => false)
      | _ => false

/-! ### The decidable region `InSubset` of the `_partial` theorems -/

def Bounds.noNumeric (b : Bounds) : Bool :=
  b.minimum.isNone && b.maximum.isNone && b.exclMin.isNone && b.exclMax.isNone && b.multipleOf.isNone

def Bounds.noString (b : Bounds) : Bool :=
  b.minLength.isNone && b.maxLength.isNone && b.pattern.isNone

def decIntegral (d : Option Dec) : Bool := d.all (fun x => x.e == 0)

/-- every numeric bound is written as an integer (no fractional digits) — excludes D10 -/
def Bounds.integral (b : Bounds) : Bool :=
  decIntegral b.minimum && decIntegral b.maximum && decIntegral b.exclMin && decIntegral b.exclMax &&
  decIntegral b.multipleOf

/-- only keywords that apply to the type are present; integer bounds are integral -/
def scalarOK (ty : STy) (b : Bounds) : Bool :=
  match ty with
  | .integer => b.noString && b.integral
  | .number => b.noString
  | .string => b.noNumeric
  | .boolean => b.noNumeric && b.noString

def namesNodup : List (List Char) → Bool
  | [] => true
  | x :: xs => !xs.contains x && namesNodup xs

mutual
/-- hereditary well-formedness: `scalarOK` at every scalar, distinct property names, `required`
names only declared members -/
def Schema.inSubset : Schema → Bool
  | .any => true
  | .null => true
  | .scalar ty _ b => scalarOK ty b
  | .enum _ => true
  | .const _ => true
  | .array items _ _ => items.inSubset
  | .object props req _ =>
    Schema.propsInSubset props && namesNodup (props.map (·.1)) &&
      req.all (fun k => (props.map (·.1)).contains k)
  | .dict value => value.inSubset
  | .ndict value => value.inSubset
  | .ref _ => true
  | .anyOf alts => Schema.allInSubset alts
  | .oneOf alts => Schema.allInSubset alts
  | .allOf _ props req _ =>
    Schema.propsInSubset props && namesNodup (props.map (·.1)) &&
      req.all (fun k => (props.map (·.1)).contains k)
  | .disc _ _ refs mapping =>
    -- a JSON object has distinct keys; a written mapping names every alternative (else the generator
    -- raises "Discriminator type is not found")
    namesNodup (mapping.map (·.1)) &&
      (mapping.isEmpty || refs.all (fun r => (mapping.map (·.2)).contains r))
def Schema.propsInSubset : List (List Char × Schema) → Bool
  | [] => true
  | p :: ps => p.2.inSubset && Schema.propsInSubset ps
def Schema.allInSubset : List Schema → Bool
  | [] => true
  | s :: ss => s.inSubset && Schema.allInSubset ss
end

def defsInSubset (defs : Defs) : Bool := Schema.propsInSubset defs

end Dcg.Sem

namespace Dcg.Sem
open Dcg.Model.Constraints

/-- Validity up to the exemption in the property text of C04: `null` given for a member that is
not required does not count as a violation. Everything else as `validJ`. -/
def validJN (re : Regex) : Nat → Defs → Schema → Json → Bool
  | 0, _, _, _ => false
  | f + 1, defs, s, v =>
    match s with
    | .any => true
    | .null => v.isNull
    | .scalar ty nullable b => (nullable && v.isNull) || validScalar re ty b v
    | .enum vals => vals.any (fun a => a.matches v)
    | .const a => a.matches v
    | .array items mn mx =>
      match v with
      | .arr xs => lenOK mn mx xs.length && xs.all (fun x => validJN re f defs items x)
      | _ => false
    | .object props req addl =>
      match v with
      | .obj kvs =>
        req.all (fun k => hasKey kvs k) &&
        props.all (fun p => match kvs.lookup p.1 with
          | some x => (!req.contains p.1 && x.isNull) || validJN re f defs p.2 x
          | none => true) &&
        (addl != .forbid || kvs.all (fun kv => (props.map (·.1)).contains kv.1))
      | _ => false
    | .dict value =>
      match v with
      | .obj kvs => kvs.all (fun kv => validJN re f defs value kv.2)
      | _ => false
    | .ndict value =>
      match v with
      | .null => true
      | .obj kvs => kvs.all (fun kv => validJN re f defs value kv.2)
      | _ => false
    | .ref n =>
      match defs.lookup n with
      | some t => validJN re f defs t v
      | none => false
    | .anyOf alts => alts.any (fun a => validJN re f defs a v)
    | .oneOf alts => countTrue (alts.map (fun a => validJN re f defs a v)) == 1
    | .allOf refs props req xreq =>
      match v with
      | .obj kvs =>
        refs.all (fun r => match defs.lookup r with
          | some t => validJN re f defs t v
          | none => false) &&
        req.all (fun k => hasKey kvs k) && xreq.all (fun k => hasKey kvs k) &&
        props.all (fun p => match kvs.lookup p.1 with
          | some x => (!(req.contains p.1 || xreq.contains p.1) && x.isNull) || validJN re f defs p.2 x
          | none => true)
      | _ => false
    | .disc one prop refs mapping =>
      match v with
      | .obj kvs =>
        (if one then countTrue (refs.map (fun r => match defs.lookup r with
            | some t => validJN re f defs t v
            | none => false)) == 1
         else refs.any (fun r => match defs.lookup r with
            | some t => validJN re f defs t v
            | none => false)) &&
        (match kvs.lookup prop with
          | some (.str tag) =>
            match (effMapping refs mapping).lookup tag with
            | some r => refs.contains r && (match defs.lookup r with
              | some t => validJN re f defs t v
              | none => false)
            | none => false
          | _ => false)
      | _ => false

mutual
/-- no `oneOf` anywhere (a `Union` accepts when two alternatives match; `oneOf` does not); `allOf`
is outside the converse theorems as well -/
def Schema.oneOfFree : Schema → Bool
  | .array items _ _ => items.oneOfFree
  | .object props _ _ => Schema.propsOneOfFree props
  | .dict value => value.oneOfFree
  | .anyOf alts => Schema.allOneOfFree alts
  | .oneOf _ => false
  | .allOf _ _ _ _ => false
  | .disc _ _ _ _ => false
  -- the value schema of a nullable map object does not reach the IR (`Optional[Dict[str, Any]]`): outside the converse
  | .ndict _ => false
  | _ => true
def Schema.propsOneOfFree : List (List Char × Schema) → Bool
  | [] => true
  | p :: ps => p.2.oneOfFree && Schema.propsOneOfFree ps
def Schema.allOneOfFree : List Schema → Bool
  | [] => true
  | s :: ss => s.oneOfFree && Schema.allOneOfFree ss
end

end Dcg.Sem
