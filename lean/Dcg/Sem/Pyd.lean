import Dcg.Model.Translate
/-
AUTHORED, TRUSTED: what pydantic (lax mode, the default) does with a JSON value for each IR
construct — validated against the exec'd generated classes on every run (vlib/props/c03.py).

Three-valued: `accept`, `reject`, `laxZone`. `laxZone` marks inputs whose fate depends on
pydantic's documented lax conversions ("1" → 1, 1 → "1" in v1, true → 1, 0 → false, 1.5 → 1 in v1,
`[]` → model in v1, …), on a rendering decision outside stage 1 (a *required* member of Optional
type that is absent: known finding D7), or on running out of fuel. No statement is made about
`laxZone`; theorems say `≠ reject` (C03) or start from `= accept` (C04).
-/
namespace Dcg.Sem.Pyd
open Dcg.Sem Dcg.Model.Constraints Dcg.Model.Translate

def checkNum (c : Cons) (x : Dec) : Bool :=
  c.ge.all (fun m => Dec.le m x) && c.gt.all (fun m => Dec.lt m x) &&
  c.le.all (fun m => Dec.le x m) && c.lt.all (fun m => Dec.lt x m) &&
  c.multipleOf.all (fun m => Dec.multipleOf x m)

/-- the keyword holding the regular expression: `regex=` in v1, `pattern=` in v2 -/
def patOf (st : Style) (c : Cons) : Option (List Char) :=
  match st with
  | .v1 => c.regex
  | .v2 => c.pattern

def checkStr (st : Style) (re : Regex) (c : Cons) (s : List Char) : Bool :=
  c.minLength.all (fun n => n ≤ s.length) && c.maxLength.all (fun n => s.length ≤ n) &&
  (patOf st c).all (fun p => re p s)

/-- item counts: `min_items/max_items` in v1, `min_length/max_length` in v2 -/
def checkLen (st : Style) (c : Cons) (n : Nat) : Bool :=
  match st with
  | .v1 => c.minItems.all (fun k => k ≤ n) && c.maxItems.all (fun k => n ≤ k)
  | .v2 => c.minLength.all (fun k => k ≤ n) && c.maxLength.all (fun k => n ≤ k)

/-- constraints given as `Field(…)` arguments act on the validated value -/
def checkCons (st : Style) (re : Regex) (c : Cons) (v : Json) : Tri :=
  match v with
  | .num x => Tri.ofBool (checkNum c x)
  | .str s => Tri.ofBool (checkStr st re c s)
  | .arr xs => Tri.ofBool (checkLen st c xs.length)
  | _ => .accept

def acceptsScalar (st : Style) (re : Regex) (p : STy) (kw : Cons) (v : Json) : Tri :=
  match p, v with
  | .integer, .num x => if x.isInt then Tri.ofBool (checkNum kw x) else .laxZone
  | .integer, .bool _ => .laxZone
  | .integer, .str _ => .laxZone
  | .number, .num x => Tri.ofBool (checkNum kw x)
  | .number, .bool _ => .laxZone
  | .number, .str _ => .laxZone
  | .string, .str s => Tri.ofBool (checkStr st re kw s)
  | .string, .num _ => .laxZone
  | .string, .bool _ => .laxZone
  | .boolean, .bool _ => .accept
  | .boolean, .num _ => .laxZone
  | .boolean, .str _ => .laxZone
  | _, _ => .reject

/-- the type admits `None` at its top (Optional, None, or a union with such an alternative) -/
def isOpt : Ty → Bool
  | .opt _ => true
  | .null => true
  | .union ts => ts.any (fun u => match u with
    | .opt _ => true
    | .null => true
    | _ => false)
  | _ => false

/-- a `const` member keeps its plain type and gets the constant as default: no `Optional` wrap -/
def isConst : Ty → Bool
  | .const _ => true
  | _ => false

/-- does the model accept the value? (`g` = fuel; exhausted fuel is `laxZone`, i.e. unknown) -/
def acceptsTy (st : Style) (re : Regex) : Nat → IRDefs → Ty → Json → Tri
  | 0, _, _, _ => .laxZone
  | g + 1, defs, t, v =>
    match t with
    | .any => .accept
    | .null => if v.isNull then .accept else .reject
    | .scalar p kw => acceptsScalar st re p kw v
    | .const a => Tri.ofBool (a.matches v)
    | .enumCls vals => Tri.ofBool (vals.any (fun a => a.matches v))
    | .list item =>
      match v with
      | .arr xs => Tri.all (xs.map (fun x => acceptsTy st re g defs item x))
      | _ => .reject
    | .dict val =>
      match v with
      | .obj kvs => Tri.all (kvs.map (fun kv => acceptsTy st re g defs val kv.2))
      | .arr _ => .laxZone
      | _ => .reject
    | .model fields extra =>
      match v with
      | .obj kvs =>
        Tri.and
          (Tri.all (fields.map (fun fld =>
            match kvs.lookup fld.1 with
            | none => if fld.2.1 then (if isOpt fld.2.2.2 then .laxZone else .reject) else .accept
            | some x =>
              if x.isNull && !fld.2.1 && !isConst fld.2.2.2 then .accept
              else Tri.and (acceptsTy st re g defs fld.2.2.2 x) (checkCons st re fld.2.2.1 x))))
          (if extra == .forbid then
            Tri.ofBool (kvs.all (fun kv => (fields.map (·.1)).contains kv.1))
           else .accept)
      | .arr _ => .laxZone
      | .str _ => .laxZone
      | _ => .reject
    | .derived bases fields _ =>
      match v with
      | .obj kvs =>
        Tri.and
          (Tri.all (bases.map (fun b => match defs.lookup b with
            | some d => acceptsTy st re g defs d v
            | none => .reject)))
          (Tri.all (fields.map (fun fld =>
            match kvs.lookup fld.1 with
            | none => if fld.2.1 then (if isOpt fld.2.2.2 then .laxZone else .reject) else .accept
            | some x =>
              if x.isNull && !fld.2.1 && !isConst fld.2.2.2 then .accept
              else Tri.and (acceptsTy st re g defs fld.2.2.2 x) (checkCons st re fld.2.2.1 x))))
      | .arr _ => .laxZone
      | .str _ => .laxZone
      | _ => .reject
    | .root c inner => Tri.and (acceptsTy st re g defs inner v) (checkCons st re c v)
    | .ref n =>
      match defs.lookup n with
      | some d => acceptsTy st re g defs d v
      | none => .reject
    | .opt inner => if v.isNull then .accept else acceptsTy st re g defs inner v
    | .union ts => Tri.any (ts.map (fun u => acceptsTy st re g defs u v))
    | .tagged prop branches =>
      -- the tag is read from the input (by wire name), must be a string among the tag literals of one
      -- alternative; only that alternative — its class as patched by the discriminator pass — is tried
      match v with
      | .obj kvs =>
        match kvs.lookup prop with
        | some (.str tag) =>
          match branches.find? (fun b => b.1.any (fun a => a.matches (.str tag))) with
          | some b =>
            match defs.lookup b.2 with
            | some d => acceptsTy st re g defs (patchTag prop b.1 d) v
            | none => .reject
          | none => .reject
        | _ => .reject
      | _ => .reject

end Dcg.Sem.Pyd

/-! ### serialisation by wire name: `model_dump(by_alias=True, exclude_unset=True)` (v2),
`.json(by_alias=True, exclude_unset=True)` (v1-style)

AUTHORED, TRUSTED like `acceptsTy`; compared with the real dumps on every run (vlib/props/c03.py).
What is modelled: members are written under their wire (JSON) name; a member that was not given is
not written (`exclude_unset`); a member given as `null` is written as `null`; lists, dicts, root
models, references and `Optional` are transparent; a union / tagged union serialises through the
alternative that validation chose (`chooseAlt`: the first alternative that accepts without
coercion, else the first that does not reject); a member the class does not declare is DROPPED when
the class has pydantic's default `extra` (ignore), kept under `allow` (`forbid` never gets here).
Scalars are written back as given (lax conversions are `laxZone`, outside every statement).
JSON objects are compared as maps: the order of members is not modelled (the real dump follows the
order of the class, the harness compares canonically). -/

namespace Dcg.Sem.Pyd
open Dcg.Sem Dcg.Model.Constraints Dcg.Model.Translate

/-- result of looking a member up in a class and its base classes -/
inductive Found where
  | found (t : Ty)
  | absent
  | unknown
  deriving Inhabited

/-- the type under which member `k` of class `t` is declared: own fields first, then the base classes
(through the definitions; out of fuel = `unknown`) -/
def findField : Nat → IRDefs → Ty → List Char → Found
  | 0, _, _, _ => .unknown
  | g + 1, defs, t, k =>
    match t with
    | .model fields _ =>
      match fields.lookup k with
      | some f => .found f.2.2
      | none => .absent
    | .derived bases fields _ =>
      match fields.lookup k with
      | some f => .found f.2.2
      | none =>
        bases.foldr (fun b acc =>
          match defs.lookup b with
          | some d =>
            match findField g defs d k with
            | .found ty => .found ty
            | .unknown => .unknown
            | .absent => acc
          | none => acc) .absent
    | _ => .absent

/-- `extra` of a class -/
def extraOfTy : Ty → Extra
  | .model _ e => e
  | .derived _ _ e => e
  | _ => .unset

/-- the alternative of a `Union` through which a value is validated and serialised -/
def chooseAlt (st : Style) (re : Regex) (g : Nat) (defs : IRDefs) (ts : List Ty) (v : Json) : Option Ty :=
  match ts.find? (fun u => acceptsTy st re g defs u v == .accept) with
  | some u => some u
  | none => ts.find? (fun u => acceptsTy st re g defs u v != .reject)

/-- the (patched) class a tagged union selects for an object, as in `acceptsTy` -/
def chooseTagged (defs : IRDefs) (prop : List Char) (branches : List (List Atom × List Char)) (v : Json) :
    Option Ty :=
  match v with
  | .obj kvs =>
    match kvs.lookup prop with
    | some (.str tag) =>
      match branches.find? (fun b => b.1.any (fun a => a.matches (.str tag))) with
      | some b => (defs.lookup b.2).map (patchTag prop b.1)
      | none => none
    | _ => none
  | _ => none

/-- what the dump of the validated value is (`g` = fuel; out of fuel the value is left as it is) -/
def dump (st : Style) (re : Regex) : Nat → IRDefs → Ty → Json → Json
  | 0, _, _, v => v
  | g + 1, defs, t, v =>
    match t with
    | .list item =>
      match v with
      | .arr xs => .arr (xs.map (fun x => dump st re g defs item x))
      | _ => v
    | .dict val =>
      match v with
      | .obj kvs => .obj (kvs.map (fun kv => (kv.1, dump st re g defs val kv.2)))
      | _ => v
    | .model _ _ =>
      match v with
      | .obj kvs => .obj (kvs.filterMap (fun kv =>
          match findField (g + 1) defs t kv.1 with
          | .found ty => some (kv.1, dump st re g defs ty kv.2)
          | .unknown => some kv
          | .absent => if extraOfTy t == .unset then none else some kv))
      | _ => v
    | .derived _ _ _ =>
      match v with
      | .obj kvs => .obj (kvs.filterMap (fun kv =>
          match findField (g + 1) defs t kv.1 with
          | .found ty => some (kv.1, dump st re g defs ty kv.2)
          | .unknown => some kv
          | .absent => if extraOfTy t == .unset then none else some kv))
      | _ => v
    | .root _ inner => dump st re g defs inner v
    | .ref n =>
      match defs.lookup n with
      | some d => dump st re g defs d v
      | none => v
    | .opt inner => dump st re g defs inner v
    | .union ts =>
      match chooseAlt st re g defs ts v with
      | some u => dump st re g defs u v
      | none => v
    | .tagged prop branches =>
      match chooseTagged defs prop branches v with
      | some d => dump st re g defs d v
      | none => v
    | _ => v

/-- "the instance has no undeclared members", read along the path the dump takes: wherever an object
meets a class with the default `extra` (ignore), every member of the object is declared by the class
or one of its bases. Decidable. -/
def declared (st : Style) (re : Regex) : Nat → IRDefs → Ty → Json → Bool
  | 0, _, _, _ => true
  | g + 1, defs, t, v =>
    match t with
    | .list item =>
      match v with
      | .arr xs => xs.all (fun x => declared st re g defs item x)
      | _ => true
    | .dict val =>
      match v with
      | .obj kvs => kvs.all (fun kv => declared st re g defs val kv.2)
      | _ => true
    | .model _ _ =>
      match v with
      | .obj kvs => kvs.all (fun kv =>
          match findField (g + 1) defs t kv.1 with
          | .found ty => declared st re g defs ty kv.2
          | .unknown => true
          | .absent => extraOfTy t != .unset)
      | _ => true
    | .derived _ _ _ =>
      match v with
      | .obj kvs => kvs.all (fun kv =>
          match findField (g + 1) defs t kv.1 with
          | .found ty => declared st re g defs ty kv.2
          | .unknown => true
          | .absent => extraOfTy t != .unset)
      | _ => true
    | .root _ inner => declared st re g defs inner v
    | .ref n =>
      match defs.lookup n with
      | some d => declared st re g defs d v
      | none => true
    | .opt inner => declared st re g defs inner v
    | .union ts =>
      match chooseAlt st re g defs ts v with
      | some u => declared st re g defs u v
      | none => true
    | .tagged prop branches =>
      match chooseTagged defs prop branches v with
      | some d => declared st re g defs d v
      | none => true
    | _ => true

end Dcg.Sem.Pyd
