import Dcg.Driver.Proto
import Dcg.Model.MemberRename
/-!
Line-protocol handler for `Dcg.Model.MemberRename` (C16).

`rename.pass (<member>…)`, member ::= `(<name> (<class name of the member's type>…))`
reply: `ok <new name | ->…` (one item per member, `-` = the loop ran out of fuel), or `unmodelled` when a member
name is not ASCII (the valid-name function is modelled on ASCII input only).
-/
namespace Dcg.Driver.MemberRename
open Dcg.Driver Dcg.Model.Resolver Dcg.Model.MemberRename

def member? : SX → Option Member
  | .list [n, av] => do
    let n ← n.str?; let av ← av.strs?; pure { name := n, avoid := av }
  | _ => none

def handlers : List (String × Handler) := [
  ("rename.pass", fun
    | [.list ms] => match ms.mapM member? with
      | some ms =>
        if ms.all (fun m => m.name.all isAscii) then
          "ok " ++ " ".intercalate ((pass dflt ms).map (fun r => match r with | some u => encodeStr u | none => "-"))
        else "unmodelled"
      | none => "err args"
    | _ => "err args")
]

end Dcg.Driver.MemberRename
