import Dcg.Driver.Proto
import Dcg.Model.FieldStr
/-!
Booleans are `0`/`1`; an optional name is a string (`x` = absent); `nullable3` is `n`/`t`/`f`.
Replies: `ok <shape> <names of str> <library imports> <member names>`; a name list is `a,b,c` or `-`.

* `fieldstr.pyd <required> <nullable> <useAnnotated> <useDefaultKwarg> <otherArgs> <keyBeforeFactory> <defaultNotNone> <extrasFactory> <modelFactory>`
* `fieldstr.dc <required> <defaultSet> <defaultListOrDict> <extrasFactory> <otherKeys>`
* `fieldstr.ms <required> <hasAlias> <defaultSet> <defaultTruthy> <extrasFactory> <structFactory> <structList> <useAnnotated> <hasMeta> <classVar> <nullable3> <typeHasNull> <unionOp>`
  (reply has a fifth part: the names of `.annotated`)
* `fieldstr.td <required> <parentTyped>`
-/
namespace Dcg.Driver.FieldStr
open Dcg.Driver Dcg.Model.FieldStr

def names (l : List (List Char)) : String :=
  if l.isEmpty then "-" else ",".intercalate (l.map String.ofList)

def shape : Shape → String
  | .empty => "empty"
  | .bare => "bare"
  | .ellipsisOnly => "ellipsis_only"
  | .call .ellipsis => "call_ellipsis"
  | .call .factory => "call_factory"
  | .call .default => "call_default"
  | .call .args => "call_args"

def optName (s : SX) : Option (Option (List Char)) :=
  match s.str? with
  | some [] => some none
  | some n => some (some n)
  | none => none

def null3 : SX → Option (Option Bool)
  | .atom "n" => some none
  | .atom "t" => some (some true)
  | .atom "f" => some (some false)
  | _ => none

def handlers : List (String × Handler) := [
  ("fieldstr.pyd", fun
    | [r, nl, ua, uk, oa, kb, dn, ef, mf] =>
      match r.bool?, nl.bool?, ua.bool?, uk.bool?, oa.bool?, kb.bool?, dn.bool?, optName ef with
      | some r, some nl, some ua, some uk, some oa, some kb, some dn, some ef =>
        match optName mf with
        | none => "err args"
        | some mf =>
        let s : Pyd := ⟨r, nl, ua, uk, oa, kb, dn, ef, mf⟩
        let o := Pyd.str s
        "ok " ++ shape o.shape ++ " " ++ names o.names ++ " " ++ names (Pyd.imports s) ++ " " ++ names (Pyd.memberNames s)
      | _, _, _, _, _, _, _, _ => "err args"
    | _ => "err args"),
  ("fieldstr.dc", fun
    | [r, ds, dl, ef, ok] =>
      match r.bool?, ds.bool?, dl.bool?, optName ef, ok.bool? with
      | some r, some ds, some dl, some ef, some ok =>
        let s : Dc := ⟨r, ds, dl, ef, ok⟩
        let o := Dc.str s
        "ok " ++ shape o.shape ++ " " ++ names o.names ++ " " ++ names (Dc.imports s) ++ " " ++ names (Dc.memberNames s)
      | _, _, _, _, _ => "err args"
    | _ => "err args"),
  ("fieldstr.ms", fun
    | [r, al, ds, dt, ef, sf, sl, ua, hm, cv, nu, tn, uo] =>
      match r.bool?, al.bool?, ds.bool?, dt.bool?, optName ef, optName sf, sl.bool? with
      | some r, some al, some ds, some dt, some ef, some sf, some sl =>
        (match ua.bool?, hm.bool?, cv.bool?, null3 nu, tn.bool?, uo.bool? with
        | some ua, some hm, some cv, some nu, some tn, some uo =>
          let s : Ms := ⟨r, al, ds, dt, ef, sf, sl, ua, hm, cv, nu, tn, uo⟩
          let o := Ms.str s
          "ok " ++ shape o.shape ++ " " ++ names o.names ++ " " ++ names (Ms.imports s) ++ " " ++ names (Ms.memberNames s) ++
            " " ++ names (Ms.annotatedNames s)
        | _, _, _, _, _, _ => "err args")
      | _, _, _, _, _, _, _ => "err args"
    | _ => "err args"),
  ("fieldstr.td", fun
    | [r, p] =>
      match r.bool?, p.bool? with
      | some r, some p =>
        let s : Td := ⟨r, p⟩
        "ok " ++ (if Td.notRequired s then "not_required" else "plain") ++ " " ++ names (Td.memberNames s) ++ " " ++
          names (Td.imports s) ++ " " ++ names (Td.memberNames s)
      | _, _ => "err args"
    | _ => "err args")
]
end Dcg.Driver.FieldStr
