import Dcg.Driver.Proto
import Dcg.Proofs.TypesLiteral
/-!
Line protocol for unions with Literal members (C09): `types.litunion (<member>…)` where a member is
`(lit <hex item>…)` (a `Literal[…]` with these `repr` texts as items) or `(raw <hex>)` (any other text:
`int`, `List[str]`, `None`, …).  Reply:
`ok <all Literals inside literalItemsOK 0/1> <all inside pipeItemsOK 0/1> <all raw members closed leaves 0/1>
 <Union[…] hint> <removeNone false hint> <getOptionalType false hint> <mkText of the members that are not None>
 <a | b hint> <removeNone true hint> <getOptionalType true hint>`.
-/
namespace Dcg.Driver.TypesLiteral
open Dcg.Driver Dcg.Model.Types Dcg.Proofs.Types Dcg.Proofs.TypesCall Dcg.Proofs.TypesLiteral

inductive Mem where
  | lit (items : List Str)
  | raw (s : Str)

def Mem.text : Mem → Str
  | .lit items => literalText items
  | .raw s => s

def mem? : SX → Option Mem
  | .list (.atom "lit" :: items) => (items.mapM SX.str?).map Mem.lit
  | .list [.atom "raw", s] => s.str?.map Mem.raw
  | _ => none

def b01 (b : Bool) : String := if b then "1" else "0"

def handlers : List (String × Handler) := [
  ("types.litunion", fun
    | [.list ms] => match ms.mapM mem? with
      | some ms =>
        let texts := ms.map Mem.text
        let u := unionOf texts
        let b := joinSep sPipe texts
        "ok " ++ b01 (ms.all (fun m => match m with | .lit is => literalItemsOK is | .raw _ => true)) ++ " " ++
          b01 (ms.all (fun m => match m with | .lit is => pipeItemsOK is | .raw _ => true)) ++ " " ++
          b01 (ms.all (fun m => match m with | .lit _ => true | .raw s => closedLeaf s)) ++ " " ++
          encodeStr u ++ " " ++ encodeStr (removeNone false u) ++ " " ++ encodeStr (getOptionalType false u) ++ " " ++
          encodeStr (mkText (notNone texts)) ++ " " ++
          encodeStr b ++ " " ++ encodeStr (removeNone true b) ++ " " ++ encodeStr (getOptionalType true b)
      | none => "err args"
    | _ => "err args")
]
end Dcg.Driver.TypesLiteral
