import Dcg.Driver.Types
import Dcg.Model.HintInv
/-!
Line protocol for Model.HintInv (C13): the parser-output invariant, the region and the statement of
`field_no_double_optional_partial` on one tree / one field.
-/
namespace Dcg.Driver.TypesInv
open Dcg.Driver Dcg.Driver.Types Dcg.Model.Types Dcg.Model.HintExpr

def handlers : List (String × Handler) := [
  -- the invariant on a tree exactly as it travels (what the parser handed over; NOT re-built through `init`),
  -- and after `DataType.__init__`; wfTree; optRegion in the typing spelling of the four container spellings
  ("types.inv", fun
    | [t] => match dt? t with
      | some t =>
        "ok " ++ b01 (anyContPlain t) ++ " " ++ b01 (anyContPlain t.init) ++ " " ++ b01 (wfTree t.init) ++ " " ++
          String.join (containerSpellings.map (fun o => b01 (optRegion o t.init)))
      | none => "err args"
    | _ => "err args"),
  -- one field: hypotheses (wfTree, anyContPlain, optRegion o), the expression-level annotation `fieldE`
  -- (its printed form), `noDbl` of it, and `noDbl` of the type's own structural rendering
  ("types.fieldinv", fun
    | [o, fb, t] => match opts? o, fieldBits? fb, dt? t with
      | some o, some fb, some t =>
        let t := t.init
        let e := fieldE o fb t
        "ok " ++ b01 (wfTree t) ++ b01 (anyContPlain t) ++ b01 (optRegion o t) ++ " " ++
          encodeStr (Dcg.Sem.Typing.print e) ++ " " ++ b01 (noDbl e) ++ " " ++ b01 (noDbl (hintE o t).1)
      | _, _, _ => "err args"
    | _ => "err args")
]
end Dcg.Driver.TypesInv
