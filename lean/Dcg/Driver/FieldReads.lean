import Dcg.Driver.Field
import Dcg.Model.FieldReads
/-!
`field.reads <the ten arguments of field.render>` ↦ `ok <name>,<name>…` (or `ok -`): the names the
default expression of the member rendered for the vector reads while the class body runs.
-/
namespace Dcg.Driver.FieldReads
open Dcg.Driver Dcg.Model.Field Dcg.Model.FieldReads

def handlers : List (String × Handler) := [
  ("field.reads", fun args =>
    match Dcg.Driver.Field.vec? (args.take 10) with
    | some v =>
      if !v.valid then "invalid"
      else
        let rs := reads v.kind (render v).asg
        "ok " ++ (if rs.isEmpty then "-" else ",".intercalate rs)
    | none => "err args")
]
end Dcg.Driver.FieldReads
