import Dcg.Driver.Proto
import Dcg.Py.Repr
namespace Dcg.Driver.Repr
open Dcg.Driver Dcg.Py.Repr

/-- `repr.str <string> b<bits>`: the i-th bit is `str.isprintable` of the i-th character, supplied
by the harness (the theorems about `reprStr` hold for every printability predicate). -/
def handlers : List (String × Handler) := [
  ("repr.str", fun
    | [s, .atom bits] => match s.str? with
      | some cs =>
        let bs := (bits.toList.drop 1).map (· == '1')
        let printable := (cs.zip bs).filterMap (fun p => if p.2 then some p.1 else none)
        "ok " ++ encodeStr (reprStr (fun c => printable.contains c) cs)
      | none => "err args"
    | _ => "err args")
]
end Dcg.Driver.Repr
