import Dcg.Driver.Proto
import Dcg.Driver.Sem
import Dcg.Model.InferText
/-
Driver for `Dcg/Model/InferText.lean` (C16): the schema TEXT inferred from a document, type lists as
written, and the IR the parser model builds from it (unions nested as the parser nests them).
-/
namespace Dcg.Driver.InferText
open Dcg.Driver Dcg.Sem Dcg.Model.Infer Dcg.Model.InferBridge Dcg.Model.InferText
open Dcg.Driver.Constraints (style?)

def showTName : TName → String
  | .array => "array" | .boolean => "boolean" | .integer => "integer" | .null => "null"
  | .number => "number" | .object => "object" | .string => "string"

partial def showText : TSchema → String
  | .empty => "empty"
  | .types ts => "(types" ++ String.join (ts.map (" " ++ showTName ·)) ++ ")"
  | .array it => "(array " ++ showText it ++ ")"
  | .object ps rq =>
    "(object (" ++ " ".intercalate (ps.map (fun p => "(" ++ encodeStr p.1 ++ " " ++ showText p.2 ++ ")")) ++ ") ("
      ++ " ".intercalate (rq.map encodeStr) ++ "))"
  | .anyOf ms => "(anyOf" ++ String.join (ms.map (" " ++ showText ·)) ++ ")"

def handlers : List (String × Handler) := [
  -- text.schema <sem-json>   to_schema() of the node inferred from the document
  ("text.schema", fun
    | [v] => match Dcg.Driver.Sem.json? v with
      | some w => "ok " ++ showText (toText (infer (toLite w)))
      | none => "err args"
    | _ => "err args"),
  -- text.tr <style> <sem-json>   the IR of the root class (documents with an object at the root)
  ("text.tr", fun
    | [st, v] => match style? st, Dcg.Driver.Sem.json? v with
      | some st, some (.obj kvs) => "ok " ++ Dcg.Driver.Sem.showTy (trTRoot st (infer (toLite (.obj kvs))))
      | some _, some _ => "err root-not-an-object"
      | _, _ => "err args"
    | _ => "err args")
]
end Dcg.Driver.InferText
