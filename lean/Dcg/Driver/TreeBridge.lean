import Dcg.Driver.Sem
import Dcg.Driver.Types
import Dcg.Model.TreeBridge
/-!
Line protocol for Model.TreeBridge (C13 ∘ C03): the type tree `toDT N (tr …)` of a schema, its hints in all
eight spellings, the supported-subset predicate and the hypotheses of C13's theorems evaluated on the tree.

The class names are position tokens: `K_<i>_<j>…_E` for the class at member path i, j, … from the root
(`K_E` at the root) and `R<definition name>` for the class of a definition; the harness maps them to the
names the real parser chose.
-/
namespace Dcg.Driver.TreeBridge
open Dcg.Driver Dcg.Sem Dcg.Model.Translate Dcg.Model.Types Dcg.Model.HintExpr Dcg.Model.TreeBridge

def tokenNaming : Naming where
  cls := fun pos => ("K" ++ String.join (pos.reverse.map (fun i => "_" ++ toString i)) ++ "_E").toList
  ref := fun n => 'R' :: n

def bit (b : Bool) : String := if b then "1" else "0"

partial def showDT : DT → String
  | .mk a key kids =>
    "(dt " ++ encodeStr a.ty ++ " " ++
      (match a.ref with | none => "-" | some r => "(" ++ encodeStr r.shortName ++ " " ++ bit r.nullable ++ ")") ++ " " ++
      bit a.isOptional ++ bit a.isDict ++ bit a.isList ++ bit a.isSet ++ bit a.isCustom ++ " (" ++
      " ".intercalate (a.literals.map encodeStr) ++ ") - " ++
      (match key with | none => "-" | some k => showDT k) ++ " (" ++ " ".intercalate (kids.map showDT) ++ "))"

def allOpts : List Dcg.Model.Types.Opts :=
  [false, true].flatMap (fun u => [false, true].flatMap (fun s => [false, true].map (fun g =>
    { unionOp := u, stdColl := s, genericCont := g })))

def report (t : DT) : String :=
  bit (wfTree t) ++ bit (anyContPlain t) ++ bit (Dcg.Proofs.Types.freeTree t) ++ bit (opRegionAll t) ++
    bit (allNodes (fun _ n => decide (n < 2)) t) ++ " " ++ showDT t ++
    String.join (allOpts.map (fun o => " " ++ encodeStr (typeHint o t).1))

def handlers : List (String × Handler) := [
  -- types.bridge <style> <routing> <ctx> <schema>
  --   → ok <sup false><sup true> <wfTree><anyContPlain><freeTree><opRegionAll><fewer than 2 members everywhere>
  --        <tree> <hint × 8 (union_operator, standard_collections, generic_container = 000 … 111)>
  --   for `.top`: the tree of the root class's field (`rootFieldTy`); "ok none" when the document is a class with members
  ("types.bridge", fun
    | [st, o, c, s] => match Dcg.Driver.Constraints.style? st, Dcg.Driver.Sem.opts? o, Dcg.Driver.Sem.ctx? c, Dcg.Driver.Sem.schema? s with
      | some st, some o, some c, some s =>
        let ty := tr st o c s
        let ty? : Option Ty := if c = .top then rootFieldTy ty else some ty
        match ty? with
        | some ty => "ok " ++ bit (sup false s) ++ bit (sup true s) ++ " " ++ report (toDT tokenNaming [] ty)
        | none => "ok none"
      | _, _, _, _ => "err args"
    | _ => "err args")
]
end Dcg.Driver.TreeBridge
