import Dcg.Driver.Proto
import Dcg.Model.GraphqlOrder
import Dcg.Gen.GraphqlTables
/-
Driver for the ordering half of C17 (`Dcg/Model/GraphqlOrder.lean`): the member occurrences of a
union alias rendered from the GENERATED template, the emission order of a schema, and the refuter of
the side condition `safeFrom 1`.
-/
namespace Dcg.Driver.GraphqlOrder
open Dcg.Driver Dcg.Model.GraphqlOrder Dcg.Gen.GraphqlTables

def strs (xs : List (List Char)) : String := "(" ++ " ".intercalate (xs.map encodeStr) ++ ")"

def order : List Kind := parseOrder.filterMap Kind.ofString

/-- `(name KIND (interfaces) (field types) (members))` -/
def def? : SX → Option Def
  | .list [n, .atom k, is, fs, ms] =>
    match n.str?, Kind.ofString k, is.strs?, fs.strs?, ms.strs? with
    | some n, some k, some is, some fs, some ms =>
      some { name := n, kind := k, interfaces := is, fieldTypes := fs, members := ms }
    | _, _, _, _, _ => none
  | _ => none

def handlers : List (String × Handler) := [
  -- gqlorder.alias (<true template variables>) (<members>) → ok (<eager members>) (<quoted members>) <other expr eager 0|1>
  ("gqlorder.alias", fun
    | [vs, ms] => match vs.strs?, ms.strs? with
      | some vs, some ms =>
        match occs (fun v => vs.contains v.toList) ms unionTemplate with
        | some os =>
          "ok " ++ strs (eagerMembers os) ++ " " ++ strs (quotedMembers os) ++ " "
            ++ (if os.any (fun o => match o with | .other _ true => true | _ => false) then "1" else "0")
        | none => "none"
      | _, _ => "err args"
    | _ => "err args"),
  -- gqlorder.emit (<def>…) → ok <complete 0|1> (<names in emission order>) (<late names>)
  ("gqlorder.emit", fun
    | [.list ds] => match ds.mapM def? with
      | some defs =>
        let r := emit order defs
        "ok " ++ (if r.2 then "1" else "0") ++ " " ++ strs r.1 ++ " "
          ++ strs ((firstPass order defs).2.map (·.name))
      | none => "err args"
    | _ => "err args"),
  -- gqlorder.resolves (<true template variables>) (<def>…) → ok (<unions whose alias looks up an unbound name>)
  ("gqlorder.resolves", fun
    | [vs, .list ds] => match vs.strs?, ds.mapM def? with
      | some vs, some defs =>
        let env := fun (v : String) => vs.contains v.toList
        "ok " ++ strs ((defs.filter (fun u => u.kind == .union && !aliasResolves unionTemplate env order defs u)).map (·.name))
      | _, _ => "err args"
    | _ => "err args"),
  -- gqlorder.findeager → none | ok (<template variables to set>) <member count>     (refuter of safeFrom 1)
  ("gqlorder.findeager", fun
    | [] => match findEagerBranch unionTemplate with
      | some (vs, n) => "ok " ++ strs (vs.map String.toList) ++ " " ++ toString n
      | none => "none"
    | _ => "err args"),
  -- gqlorder.tplvars → ok (<template variables the Union template looks at>)
  ("gqlorder.tplvars", fun
    | [] => "ok " ++ strs ((tplVars unionTemplate).eraseDups.map String.toList)
    | _ => "err args")
]
end Dcg.Driver.GraphqlOrder
