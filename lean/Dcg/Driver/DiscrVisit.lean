import Dcg.Driver.Proto
import Dcg.Model.DiscrVisit
/-!
Line-protocol handler for `Dcg.Model.DiscrVisit` (C07).

`discr.visits <n> <propertyName> (<san entry>…) (<member>…)`
  san entry ::= `(<input> <identifier> <alias | ->)` — the finite part of `get_valid_field_name_and_alias` the
                visits can reach, as observed on the real resolver (an input outside the table maps to itself, no alias)
  member    ::= `(<name> <original_name | -> <alias | -> <is the one-literal member: 0|1>)`
reply: `ok <propertyName afterwards> (<member>)…`
-/
namespace Dcg.Driver.DiscrVisit
open Dcg.Driver Dcg.Model.DiscrVisit

def opt? : SX → Option (Option (List Char))
  | .atom "-" => some none
  | x => (x.str?).map some

def member? : SX → Option Member
  | .list [n, o, a, l] => do
    let n ← n.str?; let o ← opt? o; let a ← opt? a; let l ← l.bool?
    pure { name := n, orig := o, alias := a, lit := l }
  | _ => none

def entry? : SX → Option (List Char × List Char × Option (List Char))
  | .list [i, o, a] => do
    let i ← i.str?; let o ← o.str?; let a ← opt? a; pure (i, o, a)
  | _ => none

def sanOf (t : List (List Char × List Char × Option (List Char))) : San := fun s =>
  match t.find? (fun e => e.1 == s) with
  | some e => e.2
  | none => (s, none)

def encOpt : Option (List Char) → String
  | none => "-"
  | some s => encodeStr s

def encMember (m : Member) : String :=
  "(" ++ encodeStr m.name ++ " " ++ encOpt m.orig ++ " " ++ encOpt m.alias ++ " " ++ (if m.lit then "1" else "0") ++ ")"

def handlers : List (String × Handler) := [
  ("discr.visits", fun
    | [n, pn, .list t, .list ms] =>
      match n.nat?, pn.str?, t.mapM entry?, ms.mapM member? with
      | some n, some pn, some t, some ms =>
        let r := visits (sanOf t) n pn ms
        "ok " ++ encodeStr r.1 ++ " " ++ " ".intercalate (r.2.map encMember)
      | _, _, _, _ => "err args"
    | _ => "err args")
]

end Dcg.Driver.DiscrVisit
