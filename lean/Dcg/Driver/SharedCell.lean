import Dcg.Driver.Proto
import Dcg.Model.SharedCell
/-!
Line protocol for Model.SharedCell. A use is `(<module> <cell> <spelling or ->)` (numbers, string as `x…`);
`cell.run (<use>…)` answers `ok <unshared 0/1> <coherent 0/1> (<what use 1 reads or -> …)`.
-/
namespace Dcg.Driver.SharedCell
open Dcg.Driver Dcg.Model.SharedCell

def use? : SX → Option Use
  | .list [m, c, .atom "-"] => match m.nat?, c.nat? with
    | some m, some c => some ⟨m, c, none⟩
    | _, _ => none
  | .list [m, c, s] => match m.nat?, c.nat?, s.str? with
    | some m, some c, some s => some ⟨m, c, some s⟩
    | _, _, _ => none
  | _ => none

def spS : Spelling → String
  | none => "-"
  | some s => encodeStr s

def b (x : Bool) : String := if x then "1" else "0"

def handlers : List (String × Handler) := [
  ("cell.run", fun
    | [.list us] => match us.mapM use? with
      | some hist =>
        let final := run empty hist
        "ok " ++ b (unshared hist) ++ " " ++ b (coherent hist) ++ " (" ++ " ".intercalate (hist.map (fun u => spS (final u.cell))) ++ ")"
      | none => "err args"
    | _ => "err args")]

end Dcg.Driver.SharedCell
