import Dcg.Driver.Proto
import Dcg.Py.Import
import Dcg.Model.Modules
import Dcg.Model.ModulesNorm
import Dcg.Model.Resolver
namespace Dcg.Driver.Modules
open Dcg.Driver Dcg.Py.Import Dcg.Model.Modules

def SX.paths? : SX → Option (List MPath)
  | .list xs => xs.mapM SX.strs?
  | _ => none

def slash (parts : List Name) : List Char :=
  match parts with
  | [] => []
  | [a] => a
  | a :: rest => a ++ '/' :: slash rest

def keyPath : FileKey → List Char
  | .init d => slash (d ++ ["__init__.py".toList])
  | .py d s => slash (d ++ [s ++ ".py".toList])

def encBody : Option MPath → String
  | none => "-"
  | some m => encodeStr (joinDot m)

def encMap (fm : FileMap) : String :=
  "ok" ++ String.join (fm.map (fun e => " " ++ encodeStr (keyPath e.1) ++ "=" ++ encBody e.2))

def encRel : Option RelImport → String
  | none => "none"
  | some r => "ok " ++ toString r.dots ++ " " ++ encodeStr (joinDot r.pkg) ++ " " ++ encodeStr r.name ++
      " " ++ (if r.isModule then "1" else "0")

def b (x : Bool) : String := if x then "1" else "0"

def pairs? (x : SX) : Option (List (List Char × List Char)) :=
  match SX.paths? x with
  | some ps => ps.mapM (fun p => match p with | [a, c] => some (a, c) | _ => none)
  | none => none

/-- `get_valid_field_name(·, model_type=CLASS)` on the ASCII region (model of property C06/C07) -/
def vnClass (x : List Char) : Option (List Char) := Dcg.Model.Resolver.validName? false x

def handlers : List (String × Handler) := [
  ("py.resolve", fun
    | [imp, isInit, dots, pkg] => match imp.strs?, isInit.bool?, dots.nat?, pkg.strs? with
      | some imp, some i, some d, some pkg => match resolveFrom imp i d pkg with
        | some m => "ok " ++ encodeStr (joinDot m)
        | none => "none"
      | _, _, _, _ => "err args"
    | _ => "err args"),
  ("mod.splitdot", fun
    | [s] => match s.str? with
      | some s => "ok" ++ String.join ((splitDot s).map (fun p => " " ++ encodeStr p))
      | none => "err args"
    | _ => "err args"),
  ("mod.sanitize", fun
    | [t, s] => match t.bool?, s.str? with
      | some t, some s => "ok " ++ encodeStr (sanitizeModuleName t s)
      | _, _ => "err args"
    | _ => "err args"),
  ("mod.modpath", fun
    | [t, name] => match t.bool?, name.str? with
      | some t, some n => "ok " ++ encodeStr (getModuleName t n none) ++
          String.join ((getModulePath t n none).map (fun p => " " ++ encodeStr p))
      | _, _ => "err args"
    | [t, name, dirs, stem] => match t.bool?, name.str?, dirs.strs?, stem.str? with
      | some t, some n, some ds, some st => "ok " ++ encodeStr (getModuleName t n (some (ds, st))) ++
          String.join ((getModulePath t n (some (ds, st))).map (fun p => " " ++ encodeStr p))
      | _, _, _, _ => "err args"
    | _ => "err args"),
  ("mod.relative", fun
    | [cur, ref] => match cur.str?, ref.str? with
      | some c, some r => let p := relativeStr c r; "ok " ++ encodeStr p.1 ++ " " ++ encodeStr p.2
      | _, _ => "err args"
    | _ => "err args"),
  ("mod.exact", fun
    | [f, i, s] => match f.str?, i.str?, s.str? with
      | some f, some i, some s => let p := exactImportStr f i s; "ok " ++ encodeStr p.1 ++ " " ++ encodeStr p.2
      | _, _, _ => "err args"
    | _ => "err args"),
  ("mod.emitted", fun
    | [cur, ci, ex, ib, ref, cls] => match cur.strs?, ci.bool?, ex.bool?, ib.bool?, ref.strs?, cls.str? with
      | some cur, some ci, some ex, some ib, some ref, some cls => encRel (emitted cur ci ex ib ref cls)
      | _, _, _, _, _, _ => "err args"
    | _ => "err args"),
  ("mod.designated", fun
    | [cur, ci, pi, ex, ib, ref, cls] =>
      match cur.strs?, ci.bool?, pi.bool?, ex.bool?, ib.bool?, ref.strs?, cls.str? with
      | some cur, some ci, some pi, some ex, some ib, some ref, some cls =>
        (match emitted cur ci ex ib ref cls with
         | none => "same"
         | some r => match designated cur pi r with
           | some m => "ok " ++ encodeStr (joinDot m)
           | none => "none")
      | _, _, _, _, _, _, _ => "err args"
    | _ => "err args"),
  ("mod.filemap", fun
    | [t, mods] => match t.bool?, SX.paths? mods with
      | some t, some mods => encMap (fileMapOpt t mods)
      | _, _ => "err args"
    | _ => "err args"),
  ("mod.assigned", fun
    | [mods] => match SX.paths? mods with
      | some mods => "ok" ++ String.join ((assign [] (procOrder mods)).map (fun a =>
          " " ++ encodeStr (joinDot a.mod) ++ ":" ++ b a.init ++ ":" ++ b a.hasModels ++ ":" ++ encodeStr (keyPath a.key)))
      | none => "err args"
    | _ => "err args"),
  ("mod.aliases", fun
    | [excl, classes, reqs] => match excl.strs?, pairs? classes, pairs? reqs with
      | some excl, some classes, some reqs =>
        if (classes ++ reqs).all (fun p => (vnClass p.2).isSome) then
          match importNames (fun x => (vnClass x).getD x) excl classes reqs with
          | some names => "ok" ++ String.join (names.map (fun x => " " ++ encodeStr x))
          | none => "diverges"
        else "unmodelled"
      | _, _, _ => "err args"
    | _ => "err args"),
  ("mod.setclass", fun
    | [t, name, cls] => match t.bool?, name.str?, cls.str? with
      | some t, some nm, some c =>
        let nn := setClassName nm c
        "ok " ++ encodeStr nn ++ " " ++ encodeStr (className nn) ++
          String.join ((getModulePath t nn none).map (fun p => " " ++ encodeStr p))
      | _, _, _ => "err args"
    | [t, name, cls, dirs, stem] => match t.bool?, name.str?, cls.str?, dirs.strs?, stem.str? with
      | some t, some nm, some c, some ds, some st =>
        let nn := setClassName nm c
        "ok " ++ encodeStr nn ++ " " ++ encodeStr (className nn) ++
          String.join ((getModulePath t nn (some (ds, st))).map (fun p => " " ++ encodeStr p))
      | _, _, _, _, _ => "err args"
    | _ => "err args"),
  ("mod.results", fun
    | [t, mods] => match t.bool?, SX.paths? mods with
      | some t, some mods => encMap (resultsFinal t mods)
      | _, _ => "err args"
    | _ => "err args"),
  ("mod.checks", fun
    | [t, mods] => match t.bool?, SX.paths? mods with
      | some t, some mods =>
        let ks := keys (fileMapOpt t mods)
        "ok covered=" ++ b (covered mods) ++ " shadowfree=" ++ b (shadowFree ks) ++
          " parentsinit=" ++ b (parentsHaveInit ks) ++ " deepestfirst=" ++ b (deepestFirst mods)
      | _, _ => "err args"
    | _ => "err args")
]
end Dcg.Driver.Modules
