import Dcg.Driver.Proto
import Dcg.Driver.Infer
import Dcg.Driver.Sem
import Dcg.Model.InferBridge
/-
Driver for the C16 bridge (`Dcg/Model/InferBridge.lean`).
Documents travel either as `JsonLite` (`Driver.Infer.json?`: `(i 3)`, `(f 1)`) or as `Sem.Json`
(`Driver.Sem.json?`: `(n m e)`); schemas are printed in the syntax `Driver.Sem.schema?` reads.
-/
namespace Dcg.Driver.InferBridge
open Dcg.Driver Dcg.Sem Dcg.Sem.Pyd Dcg.Model.Infer Dcg.Model.InferBridge Dcg.Model.Translate
open Dcg.Model.Constraints
open Dcg.Driver.Constraints (style?)

def showDecS (d : Dec) : String := toString d.m ++ " " ++ toString d.e

def showBounds (b : Bounds) : String :=
  let f (k : String) (v : Option String) : List String := match v with
    | some s => ["(" ++ k ++ " " ++ s ++ ")"]
    | none => []
  "(bounds" ++ String.join ((
    f "min" (b.minimum.map showDecS) ++ f "max" (b.maximum.map showDecS) ++
    f "xmin" (b.exclMin.map showDecS) ++ f "xmax" (b.exclMax.map showDecS) ++
    f "mul" (b.multipleOf.map showDecS) ++ f "minlen" (b.minLength.map toString) ++
    f "maxlen" (b.maxLength.map toString) ++ f "pat" (b.pattern.map encodeStr)).map (" " ++ ·)) ++ ")"

def showOptNat : Option Nat → String
  | none => "none"
  | some n => toString n

def showAddl : Addl → String
  | .absent => "absent" | .allow => "allow" | .forbid => "forbid"

partial def showSchema : Schema → String
  | .any => "any"
  | .null => "null"
  | .scalar ty n b => "(scalar " ++ Dcg.Driver.Sem.showSTy ty ++ " " ++ (if n then "1" else "0") ++ " " ++ showBounds b ++ ")"
  | .enum vals => "(enum" ++ String.join (vals.map (" " ++ Dcg.Driver.Sem.showAtom ·)) ++ ")"
  | .const a => "(const " ++ Dcg.Driver.Sem.showAtom a ++ ")"
  | .array it mn mx => "(array " ++ showSchema it ++ " " ++ showOptNat mn ++ " " ++ showOptNat mx ++ ")"
  | .object ps req ad =>
    "(object (" ++ " ".intercalate (ps.map (fun p => "(" ++ encodeStr p.1 ++ " " ++ showSchema p.2 ++ ")")) ++ ") ("
      ++ " ".intercalate (req.map encodeStr) ++ ") " ++ showAddl ad ++ ")"
  | .dict s => "(dict " ++ showSchema s ++ ")"
  | .ndict s => "(ndict " ++ showSchema s ++ ")"  -- (constructor added to Dcg.Sem.Schema by C03; inference never produces it)
  | .ref n => "(ref " ++ encodeStr n ++ ")"
  | .anyOf as => "(anyOf" ++ String.join (as.map (" " ++ showSchema ·)) ++ ")"
  | .oneOf as => "(oneOf" ++ String.join (as.map (" " ++ showSchema ·)) ++ ")"
  | .allOf refs ps req xreq =>
    "(allOf (" ++ " ".intercalate (refs.map encodeStr) ++ ") ("
      ++ " ".intercalate (ps.map (fun p => "(" ++ encodeStr p.1 ++ " " ++ showSchema p.2 ++ ")")) ++ ") ("
      ++ " ".intercalate (req.map encodeStr) ++ ") (" ++ " ".intercalate (xreq.map encodeStr) ++ "))"
  | .disc one prop refs mp =>
    -- (constructor added to Dcg.Sem.Schema by C03; inference never produces it)
    "(disc " ++ (if one then "1" else "0") ++ " " ++ encodeStr prop ++ " (" ++ " ".intercalate (refs.map encodeStr) ++ ") ("
      ++ " ".intercalate (mp.map (fun e => "(" ++ encodeStr e.1 ++ " " ++ encodeStr e.2 ++ ")")) ++ "))"

partial def showLite : LJson → String
  | .null => "null"
  | .bool b => "(b " ++ (if b then "1" else "0") ++ ")"
  | .int i => "(i " ++ toString i ++ ")"
  | .flt b => "(f " ++ (if b then "1" else "0") ++ ")"
  | .str s => "(s " ++ encodeStr s ++ ")"
  | .arr xs => "(a" ++ String.join (xs.map (" " ++ showLite ·)) ++ ")"
  | .obj kvs => "(o" ++ String.join (kvs.map (fun kv => " (" ++ encodeStr kv.1 ++ " " ++ showLite kv.2 ++ ")")) ++ ")"

def b01 (x : Bool) : String := if x then "1" else "0"

def handlers : List (String × Handler) := [
  -- bridge.schema <root 0|1> <sem-json>   the Sem.Schema of the schema inferred from the document
  ("bridge.schema", fun
    | [r, v] => match r.bool?, Dcg.Driver.Sem.json? v with
      | some r, some w =>
        let n := infer (toLite w)
        "ok " ++ showSchema (if r then toSchemaRoot n else toSchema n) ++ " " ++ toString (fuel n) ++ " " ++ b01 (wf n)
      | _, _ => "err args"
    | _ => "err args"),
  -- bridge.tolite <sem-json>   the document as inference sees it
  ("bridge.tolite", fun
    | [v] => match Dcg.Driver.Sem.json? v with
      | some w => "ok " ++ showLite (toLite w)
      | none => "err args"
    | _ => "err args"),
  -- bridge.tr <style> <routing> <sem-json>   the IR of the root class generated for the document
  ("bridge.tr", fun
    | [st, o, v] => match style? st, Dcg.Driver.Sem.opts? o, Dcg.Driver.Sem.json? v with
      | some st, some o, some w => "ok " ++ Dcg.Driver.Sem.showTy (tr st o .top (toSchemaRoot (infer (toLite w))))
      | _, _, _ => "err args"
    | _ => "err args"),
  -- bridge.accepts <style> <routing> <fuel> <sem-json>   verdict of the generated root class on the very
  -- document, the validity of the document under the bridged schema, and the v1 region flag
  ("bridge.accepts", fun
    | [st, o, g, v] => match style? st, Dcg.Driver.Sem.opts? o, g.nat?, Dcg.Driver.Sem.json? v with
      | some st, some o, some g, some w =>
        let n := infer (toLite w)
        let s := toSchemaRoot n
        "ok " ++ Dcg.Driver.Sem.showTri (acceptsTy st (fun _ _ => true) g [] (tr st o .top s) w) ++ " "
          ++ b01 (validJ (fun _ _ => true) (fuel n) [] s w) ++ " " ++ b01 (s.inSubset) ++ " " ++ b01 (v1Safe n)
      | _, _, _, _ => "err args"
    | _ => "err args"),
  -- bridge.region <sem-json>   1 = inside the region of the pydantic-v1 statement
  ("bridge.region", fun
    | [v] => match Dcg.Driver.Sem.json? v with
      | some w => "ok " ++ b01 (v1Safe (infer (toLite w)))
      | none => "err args"
    | _ => "err args")
]
end Dcg.Driver.InferBridge
