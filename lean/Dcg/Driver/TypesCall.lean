import Dcg.Driver.Proto
import Dcg.Proofs.TypesCall
/-!
Line protocol for unions of call-syntax members (C04): `types.callunion (<member>…)` where a member is the list of
its fragments `(<hex>…)` (the member `None` = the one fragment `None`).  Reply:
`ok <unionOK 0/1> <hint> <removeNone false hint> <getOptionalType false hint> <mkText of the kept fragments>`.
-/
namespace Dcg.Driver.TypesCall
open Dcg.Driver Dcg.Model.Types Dcg.Proofs.TypesCall

def members? : SX → Option (List Member)
  | .list ms => ms.mapM (fun m => m.strs?)
  | _ => none

def handlers : List (String × Handler) := [
  ("types.callunion", fun
    | [x] => match members? x with
      | some ms =>
        let t := unionText ms
        "ok " ++ (if unionOK ms then "1" else "0") ++ " " ++ encodeStr t ++ " " ++ encodeStr (removeNone false t) ++ " " ++
          encodeStr (getOptionalType false t) ++ " " ++ encodeStr (mkText (keep ms).flatten)
      | none => "err args"
    | _ => "err args")
]
end Dcg.Driver.TypesCall
