import Dcg.Driver.Proto
import Dcg.Model.Enum
namespace Dcg.Driver.GraphqlEnum
open Dcg.Driver Dcg.Model.Names Dcg.Model.Enum

/-- what Python reads back from a member's right-hand side: `s<hex>` a string, `o` another scalar (never for a
GraphQL enum), `u` the text is not a complete literal -/
def encValue : Default → String
  | d => match evalDefault d with
    | some (.str s) => "s" ++ encodeStr s
    | some _ => "o"
    | none => "u"

def handlers : List (String × Handler) := [
  -- gqlenum.values capitalise (names) → ok name value name value …   (GraphQLParser.parse_enum with the options
  -- C17 ranges over: member name from the enum resolver, member value read back by the lexer model)
  ("gqlenum.values", fun
    | [cap, ns] => match cap.bool?, ns.strs? with
      | some cap, some names => match parseGraphqlEnum pyEnv { capitalise := cap } names with
        | .ok ms => "ok" ++ String.join (ms.map fun m => " " ++ encodeStr m.1 ++ " " ++ encValue m.2)
        | .outOfFuel => "fuel"
        | .error => "error"
      | _, _ => "err args"
    | _ => "err args")
]
end Dcg.Driver.GraphqlEnum
