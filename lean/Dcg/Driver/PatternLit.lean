import Dcg.Driver.Proto
import Dcg.Proofs.PatternLit
namespace Dcg.Driver.PatternLit
open Dcg.Driver Dcg.Proofs.PatternLit Dcg.Proofs.Escape

/-- `patlit.text <pattern> b<bits>`: the text `pattern_literal` writes (bits = `str.isprintable` per
character, supplied by the harness as for `repr.str`).
`patlit.cpython <pattern>`: the same with the generated table `cpythonPrintable` as the predicate
(nothing supplied by the harness: rule AND table are compared with the real function).
`patlit.token <text>`: the ONE string-literal token (optional `r` prefix) the lexer model reads at
the head of `text`: `ok <value> <rest>` or `none`.
`patlit.rawsafe <q> <pattern>`: is `r q pattern q` an exact literal (`q` = `s` single / `d` double quote). -/
def handlers : List (String × Handler) := [
  ("patlit.text", fun
    | [s, .atom bits] => match s.str? with
      | some cs =>
        let bs := (bits.toList.drop 1).map (· == '1')
        let printable := (cs.zip bs).filterMap (fun p => if p.2 then some p.1 else none)
        "ok " ++ encodeStr (patternLiteral (fun c => printable.contains c) cs)
      | none => "err args"
    | _ => "err args"),
  ("patlit.cpython", fun
    | [s] => match s.str? with
      | some cs => "ok " ++ encodeStr (patternLiteral cpythonPrintable cs) ++ " " ++
          toString (patternRawOK cpythonPrintable cs)
      | none => "err args"
    | _ => "err args"),
  ("patlit.token", fun
    | [s] => match s.str? with
      | some cs => match strToken cs with
        | some (v, r) => "ok " ++ encodeStr v ++ " " ++ encodeStr r
        | none => "none"
      | none => "err args"
    | _ => "err args"),
  ("patlit.rawsafe", fun
    | [.atom q, s] => match s.str? with
      | some cs => "ok " ++ toString (rawSafe (if q == "d" then '"' else '\'') ctrlKeys cs)
      | none => "err args"
    | _ => "err args")
]
end Dcg.Driver.PatternLit
