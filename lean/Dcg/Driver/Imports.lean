import Dcg.Driver.Proto
import Dcg.Driver.Types
import Dcg.Model.Imports
/-!
Line protocol for Model.Imports. An import is `(<from or -> <name> <alias or -> <reference_path or ->)`,
an operation `(app <import>…)`, `(rem <import>…)`, `(rr <path>)` (and `(rem1 <import>)` in recorded histories: `imports.ledger`). A state is written as
`(st (<from> <name>…)… | (<from> <name> <alias>)… | (<from> <name> <count>)… | (<path> <import>)… | <dump>)`.
-/
namespace Dcg.Driver.Imports
open Dcg.Driver Dcg.Model.Types Dcg.Model.Imports Dcg.Driver.Types

def imps? (xs : List SX) : Option (List Imp) :=
  xs.mapM (fun x => match imp? x with | some (some i) => some i | _ => none)

def op? : SX → Option Op
  | .list (.atom "app" :: xs) => (imps? xs).map .append
  | .list (.atom "rem" :: xs) => (imps? xs).map .remove
  | .list [.atom "rr", p] => p.str?.map .removeRef
  | _ => none

def lop? : SX → Option LOp
  | .list (.atom "app" :: xs) => (imps? xs).map .app
  | .list (.atom "rem" :: xs) => (imps? xs).map .rem
  | .list [.atom "rem1", x] => (imps? [x]).bind (fun l => l.head?.map .rem1)
  | .list [.atom "rr", p] => p.str?.map .rr
  | _ => none

def optS (o : Option Str) : String := match o with | some s => encodeStr s | none => "-"

def impS (i : Imp) : String :=
  "(" ++ optS i.from_ ++ " " ++ encodeStr i.name ++ " " ++ optS i.alias ++ " " ++ optS i.refPath ++ ")"

def stateS (s : State) : String :=
  "(st " ++
  " ".intercalate (s.imports.map (fun p => "(" ++ optS p.1 ++ " " ++ " ".intercalate (p.2.map encodeStr) ++ ")")) ++ " | " ++
  " ".intercalate (s.alias.map (fun p => "(" ++ optS p.1.1 ++ " " ++ encodeStr p.1.2 ++ " " ++ encodeStr p.2 ++ ")")) ++ " | " ++
  " ".intercalate (s.counter.map (fun p => "(" ++ optS p.1.1 ++ " " ++ encodeStr p.1.2 ++ " " ++ toString p.2 ++ ")")) ++ " | " ++
  " ".intercalate (s.refPaths.map (fun p => "(" ++ encodeStr p.1 ++ " " ++ impS p.2 ++ ")")) ++ " | " ++
  encodeStr (dump s) ++ ")"

/-- the state after every operation; `raise` from the first operation that raises -/
def trace : Option State → List Op → List String
  | _, [] => []
  | none, _ :: ops => "raise" :: trace none ops
  | some s, op :: ops =>
    match step s op with
    | some s' => stateS s' :: trace (some s') ops
    | none => "raise" :: trace none ops

def handlers : List (String × Handler) := [
  ("imports.run", fun
    | [.list ops] => match ops.mapM op? with
      | some ops => "ok (" ++ " ".intercalate (trace (some {}) ops) ++ ")"
      | none => "err args"
    | _ => "err args"),
  -- the recorded history of one real `Imports` object: is it disciplined (`ledgerRun`), and the state it ends in
  ("imports.ledger", fun
    | [.list ops] => match ops.mapM lop? with
      | some os =>
        let verdict := match ledgerBreak {} {} os 0 with
          | none => "disciplined"
          | some n => "(break " ++ toString n ++ ")"
        let final := match run {} (os.map LOp.op) with
          | some s => stateS s
          | none => "raise"
        "ok " ++ verdict ++ " " ++ final
      | none => "err args"
    | _ => "err args"),
  -- run the operations, then prune against the code
  ("imports.prune", fun
    | [code, .list ops] => match code.str?, ops.mapM op? with
      | some code, some ops => match run {} ops with
        | some s => match prune code s with
          | some s' => "ok " ++ stateS s'
          | none => "raise"
        | none => "raise"
      | _, _ => "err args"
    | _ => "err args"),
  -- DataType.all_imports after type_hint was evaluated at the root
  ("imports.all", fun
    | [o, t] => match opts? o, dt? t with
      | some o, some t => "ok (" ++ " ".intercalate ((allImports o true t.init).map impS) ++ ")"
      | _, _ => "err args"
    | _ => "err args"),
  -- DataType.imports of the root without any type_hint evaluation
  ("imports.own0", fun
    | [o, t] => match opts? o, dt? t with
      | some o, some t => "ok (" ++ " ".intercalate ((ownImports o false t.init).map impS) ++ ")"
      | _, _ => "err args"
    | _ => "err args"),
  ("imports.field", fun
    | [o, fb, t] => match opts? o, fieldBits? fb, dt? t with
      | some o, some fb, some t => "ok (" ++ " ".intercalate ((fieldImports o fb t.init).map impS) ++ ")"
      | _, _, _ => "err args"
    | _ => "err args")
]
end Dcg.Driver.Imports
