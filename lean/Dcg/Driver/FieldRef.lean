import Dcg.Driver.Field
import Dcg.Model.FieldRef
/-! Driver for the `$ref` part of the C05 model: a `$ref`-typed member in, field record / shape /
semantics / `is_optional` out; and the nullable-reference rule on a list of parse events
(`is_optional` of every `DataType(reference=…)` when the modules are rendered). -/
namespace Dcg.Driver.FieldRef
open Dcg.Driver Dcg.Driver.Field Dcg.Model.Field

/-- `u<r>` a member referring to definition r is parsed; `d<r>t` / `d<r>f` definition r is parsed
(nullable / not) -/
def ev? (s : String) : Option Ev :=
  match s.toList with
  | 'u' :: ds => (String.mk ds).toNat?.map .use
  | 'd' :: rest =>
    match rest.reverse with
    | 't' :: ds => (String.mk ds.reverse).toNat?.map (.define · true)
    | 'f' :: ds => (String.mk ds.reverse).toNat?.map (.define · false)
    | _ => none
  | _ => none

def evs? : SX → Option (List Ev)
  | .atom "-" => some []
  | .atom s => (s.splitOn ".").mapM ev?
  | _ => none

def bits (l : List Bool) : String := String.mk (l.map fun x => if x then '1' else '0')

def refvec? : List SX → Option RefVec
  | [k, r, d, o, via, name, sc, target, fwd] => do
    let k ← kind? k; let r ← r.bool?; let d ← dflt? d; let o ← opts? o
    let via ← via? via; let name ← name? name; let sc ← sc.bool?; let t ← nullsrc? target; let fwd ← fwd.bool?
    pure ⟨⟨k, .no, r, d, .scalar, false, o, via, name, sc⟩, t, fwd⟩
  | _ => none

def handlers : List (String × Handler) := [
  -- field.renderr <kind> <inreq> <dflt> <opts> <via> <name> <sc> <how the definition admits null> <forward>
  ("field.renderr", fun args => match refvec? args with
    | some r =>
      if !r.valid then "invalid"
      else
        let f := fromRef r
        let key := match sortKey r.base.kind f with | none => "-" | some x => b x
        "ok " ++ irStr f ++ " key=" ++ key ++ " | " ++ shapeStr (renderR r) ++ " | " ++ semStr (semR r) ++
          " | flag=" ++ b r.flag
    | none => "err args"),
  -- field.refrule <events> → ok <is_optional of every use at render time> <… if decided at construction>
  ("field.refrule", fun
    | [e] => match evs? e with
      | some evs => "ok " ++ bits (lazyFlags evs) ++ "/" ++ bits (eagerFlags evs)
      | none => "err args"
    | _ => "err args")
]
end Dcg.Driver.FieldRef
