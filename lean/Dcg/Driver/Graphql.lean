import Dcg.Driver.Proto
import Dcg.Model.Graphql
namespace Dcg.Driver.Graphql
open Dcg.Driver Dcg.Model.Graphql

/-- `(n x49,6e,74)` | `(l t)` | `(nn t)` -/
partial def gtype? : SX → Option GType
  | .list [.atom "n", s] => s.str?.map .named
  | .list [.atom "l", t] => (gtype? t).map .list
  | .list [.atom "nn", t] => (gtype? t).map .nonNull
  | _ => none

def encGType : GType → String
  | .named n => "(n " ++ encodeStr n ++ ")"
  | .list t => "(l " ++ encGType t ++ ")"
  | .nonNull t => "(nn " ++ encGType t ++ ")"

def b (x : Bool) : String := if x then "1" else "0"

def encDT : DT → String
  | .leaf o n => "(leaf " ++ b o ++ " " ++ encodeStr n ++ ")"
  | .listOf o d => "(list " ++ b o ++ " " ++ encDT d ++ ")"

def encField (ir : FieldIR) : String := b ir.required ++ " " ++ encDT ir.dt

def encMember : Member → String
  | .field n ir => "(f " ++ encodeStr n ++ " " ++ encField ir ++ ")"
  | .typename l => "(typename " ++ encodeStr l ++ ")"

def field? : SX → Option (List Char × GType)
  | .list [n, t] => match n.str?, gtype? t with
    | some n, some t => some (n, t)
    | _, _ => none
  | _ => none

def handlers : List (String × Handler) := [
  ("gql.parsefield", fun
    | [fo, t] => match fo.bool?, gtype? t with
      | some fo, some t => "ok " ++ encField (parseField fo t)
      | _, _ => "err args"
    | _ => "err args"),
  ("gql.rebuild", fun
    | [fo, t] => match fo.bool?, gtype? t with
      | some fo, some t => "ok " ++ encGType (rebuild (parseField fo t))
      | _, _ => "err args"
    | _ => "err args"),
  ("gql.wf", fun
    | [t] => match gtype? t with
      | some t => "ok " ++ b t.wf
      | none => "err args"
    | _ => "err args"),
  ("gql.object", fun
    | [fo, n, .list fs, is] => match fo.bool?, n.str?, fs.mapM field?, is.strs? with
      | some fo, some n, some fs, some is =>
        let c := parseObjectLike fo n fs is
        "ok (bases " ++ " ".intercalate (c.bases.map encodeStr) ++ ") (members "
          ++ " ".intercalate (c.members.map encMember) ++ ")"
      | _, _, _, _ => "err args"
    | _ => "err args")
]
end Dcg.Driver.Graphql
