import Dcg.Driver.Proto
import Dcg.Model.Graphql
namespace Dcg.Driver.Graphql
open Dcg.Driver Dcg.Model.Graphql

/-- `(n x49,6e,74)` | `(l t)` | `(nn t)` -/
partial def gtype? : SX → Option GType
  | .list [.atom "n", s] => s.str?.map .named
  | .list [.atom "l", t] => (gtype? t).map .list
  | .list [.atom "nn", t] => (gtype? t).map .nonNull
  | _ => none

def encGType : GType → String
  | .named n => "(n " ++ encodeStr n ++ ")"
  | .list t => "(l " ++ encGType t ++ ")"
  | .nonNull t => "(nn " ++ encGType t ++ ")"

def b (x : Bool) : String := if x then "1" else "0"

def encDT : DT → String
  | .leaf o n => "(leaf " ++ b o ++ " " ++ encodeStr n ++ ")"
  | .listOf o d => "(list " ++ b o ++ " " ++ encDT d ++ ")"

def encField (ir : FieldIR) : String := b ir.required ++ " " ++ encDT ir.dt

def encMember : Member → String
  | .field n ir => "(f " ++ encodeStr n ++ " " ++ encField ir ++ ")"
  | .typename l => "(typename " ++ encodeStr l ++ ")"

def field? : SX → Option (List Char × GType)
  | .list [n, t] => match n.str?, gtype? t with
    | some n, some t => some (n, t)
    | _, _ => none
  | _ => none

/-- `none` | `(b 0|1)` | `(i 0|1 <nat>)` (sign, magnitude) | `(f <repr>)` | `(s <str>)` | `(l v…)` | `(d (k v)…)` -/
partial def pyval? : SX → Option PyVal
  | .atom "none" => some .none
  | .list [.atom "b", x] => x.bool?.map .bool
  | .list [.atom "i", sg, n] => match sg.bool?, n.nat? with
    | some neg, some n => some (.int (if neg then -(n : Int) else (n : Int)))
    | _, _ => none
  | .list [.atom "f", s] => s.str?.map .float
  | .list [.atom "s", s] => s.str?.map .str
  | .list (.atom "l" :: xs) => (xs.mapM pyval?).map .list
  | .list (.atom "d" :: kvs) => (kvs.mapM (fun (kv : SX) => match kv with
      | SX.list [k, v] => match k.str?, pyval? v with
        | some k, some v => some (k, v)
        | _, _ => none
      | _ => none)).map .dict
  | _ => none

partial def encPyVal : PyVal → String
  | .none => "none"
  | .bool x => "(b " ++ b x ++ ")"
  | .int i => "(i " ++ b (i < 0) ++ " " ++ toString i.natAbs ++ ")"
  | .float r => "(f " ++ encodeStr r ++ ")"
  | .str s => "(s " ++ encodeStr s ++ ")"
  | .list xs => "(l" ++ String.join (xs.map (fun x => " " ++ encPyVal x)) ++ ")"
  | .dict kvs => "(d" ++ String.join (kvs.map (fun kv => " (" ++ encodeStr kv.1 ++ " " ++ encPyVal kv.2 ++ ")")) ++ ")"

/-- `u` (Undefined) | `(v <pyval>)` -/
def default? : SX → Option DefaultValue
  | .atom "u" => some .undefined
  | .list [.atom "v", v] => (pyval? v).map .value
  | _ => none

def encFieldD (f : FieldD) : String :=
  encField f.ir ++ " " ++ b f.hasDefault ++ " " ++ encPyVal f.default ++ " "
    ++ (match f.memberDefault with | none => "nodefault" | some v => "(m " ++ encPyVal v ++ ")")

def fieldD? : SX → Option (List Char × GType × DefaultValue)
  | .list [n, t, d] => match n.str?, gtype? t, default? d with
    | some n, some t, some d => some (n, t, d)
    | _, _, _ => none
  | _ => none

def handlers : List (String × Handler) := [
  ("gql.parsefieldd", fun
    | [fo, isIn, t, d] => match fo.bool?, isIn.bool?, gtype? t, default? d with
      | some fo, some isIn, some t, some d => "ok " ++ encFieldD (parseFieldD fo isIn t d)
      | _, _, _, _ => "err args"
    | _ => "err args"),
  ("gql.getdefault", fun
    | [isIn, d] => match isIn.bool?, default? d with
      | some isIn, some d => "ok " ++ encPyVal (getDefault isIn d)
      | _, _ => "err args"
    | _ => "err args"),
  ("gql.truthy", fun
    | [v] => match pyval? v with
      | some v => "ok " ++ b v.truthy
      | none => "err args"
    | _ => "err args"),
  ("gql.resolve", fun
    | [fo, n, .list fs, is, .list bases, q] =>
      match fo.bool?, n.str?, fs.mapM field?, is.strs?, bases.mapM (fun (x : SX) => match x with
          | SX.list bfs => bfs.mapM field?
          | _ => none), q.str? with
      | some fo, some n, some fs, some is, some bases, some q =>
        let c := parseObjectLike fo n fs is
        let bs := bases.map (fun bfs => bfs.map (fun f => Member.field f.1 (parseField fo f.2)))
        (match resolveMember c.members bs q with
          | some m => "ok " ++ encMember m
          | none => "ok none")
      | _, _, _, _, _, _ => "err args"
    | _ => "err args"),
  ("gql.parsefield", fun
    | [fo, t] => match fo.bool?, gtype? t with
      | some fo, some t => "ok " ++ encField (parseField fo t)
      | _, _ => "err args"
    | _ => "err args"),
  ("gql.rebuild", fun
    | [fo, t] => match fo.bool?, gtype? t with
      | some fo, some t => "ok " ++ encGType (rebuild (parseField fo t))
      | _, _ => "err args"
    | _ => "err args"),
  ("gql.wf", fun
    | [t] => match gtype? t with
      | some t => "ok " ++ b t.wf
      | none => "err args"
    | _ => "err args"),
  ("gql.object", fun
    | [fo, n, .list fs, is] => match fo.bool?, n.str?, fs.mapM field?, is.strs? with
      | some fo, some n, some fs, some is =>
        let c := parseObjectLike fo n fs is
        "ok (bases " ++ " ".intercalate (c.bases.map encodeStr) ++ ") (members "
          ++ " ".intercalate (c.members.map encMember) ++ ")"
      | _, _, _, _ => "err args"
    | _ => "err args")
]
end Dcg.Driver.Graphql
