import Dcg.Driver.Proto
import Dcg.Model.Types
import Dcg.Model.HintExpr
import Dcg.Sem.Typing
import Dcg.Model.HintRegion
import Dcg.Proofs.Rename
/-!
Line protocol for Model.Types / Model.HintExpr / Sem.Typing.

A type tree travels as
`(dt <type> <ref> <flags> (<literal>…) <import> <dict_key> (<child>…))` where
`<type>` = hex string, `<ref>` = `-` | `(<short_name> <nullable 0/1>)`,
`<flags>` = five 0/1 characters: is_optional is_dict is_list is_set is_custom_type,
`<import>` = `-` | `(<from or -> <name> <alias or ->)`, `<dict_key>` = `-` | a tree.
Options travel as three 0/1 characters: use_union_operator use_standard_collections use_generic_container.
-/
namespace Dcg.Driver.Types
open Dcg.Driver Dcg.Model.Types

def optStr? : SX → Option (Option Str)
  | .atom "-" => some none
  | x => x.str?.map some

def bits? (n : Nat) : SX → Option (List Bool)
  | .atom s =>
    let cs := s.toList
    if cs.length = n ∧ cs.all (fun c => c = '0' ∨ c = '1') then some (cs.map (· = '1')) else none
  | _ => none

def opts? (x : SX) : Option Opts :=
  match bits? 3 x with
  | some [a, b, c] => some { unionOp := a, stdColl := b, genericCont := c }
  | _ => none

def imp? : SX → Option (Option Imp)
  | .atom "-" => some none
  | .list [f, n, a] =>
    match optStr? f, n.str?, optStr? a with
    | some f, some n, some a => some (some { from_ := f, name := n, alias := a })
    | _, _, _ => none
  | .list [f, n, a, r] =>
    match optStr? f, n.str?, optStr? a, optStr? r with
    | some f, some n, some a, some r => some (some { from_ := f, name := n, alias := a, refPath := r })
    | _, _, _, _ => none
  | _ => none

def ref? : SX → Option (Option Ref)
  | .atom "-" => some none
  | .list [n, b] =>
    match n.str?, b.bool? with
    | some n, some b => some (some { shortName := n, nullable := b })
    | _, _ => none
  | _ => none

partial def dt? : SX → Option DT
  | .list [.atom "dt", ty, ref, flags, lits, imp, key, .list kids] =>
    match ty.str?, ref? ref, bits? 5 flags, lits.strs?, imp? imp, kids.mapM dt? with
    | some ty, some ref, some [o, d, l, s, c], some lits, some imp, some kids =>
      let a : Attrs := { ty := ty, ref := ref, isOptional := o, isDict := d, isList := l, isSet := s,
                         isCustom := c, literals := lits, imp := imp }
      match key with
      | .atom "-" => some (.mk a none kids)
      | k => (dt? k).map (fun k => .mk a (some k) kids)
    | _, _, _, _, _, _ => none
  | _ => none

def fieldBits? : SX → Option FieldBits
  | .list [df, nl, rq, tn, fb] =>
    let nullable : Option (Option Bool) := match nl with
      | .atom "-" => some none
      | x => x.bool?.map some
    match df.bool?, nullable, rq.bool?, tn.bool?, fb.bool? with
    | some df, some nl, some rq, some tn, some fb =>
      some { hasDefaultFactory := df, nullable := nl, required := rq, typeHasNull := tn, fallBack := fb }
    | _, _, _, _, _ => none
  | _ => none

def b01 (b : Bool) : String := if b then "1" else "0"

def handlers : List (String × Handler) := [
  -- DataType(...).type_hint on the tree as the constructors leave it
  ("types.hint", fun
    | [o, t] => match opts? o, dt? t with
      | some o, some t => let r := typeHint o t.init; "ok " ++ encodeStr r.1 ++ " " ++ b01 r.2
      | _, _ => "err args"
    | _ => "err args"),
  ("types.rmnone", fun
    | [u, s] => match u.bool?, s.str? with
      | some u, some s => "ok " ++ encodeStr (removeNone u s)
      | _, _ => "err args"
    | _ => "err args"),
  ("types.getopt", fun
    | [u, s] => match u.bool?, s.str? with
      | some u, some s => "ok " ++ encodeStr (getOptionalType u s)
      | _, _ => "err args"
    | _ => "err args"),
  ("types.field", fun
    | [o, fb, t] => match opts? o, fieldBits? fb, dt? t with
      | some o, some fb, some t => "ok " ++ encodeStr (fieldTypeHint o fb t.init)
      | _, _, _ => "err args"
    | _ => "err args"),
  ("types.isspace", fun
    | [s] => match s.str? with
      | some s => "ok " ++ String.ofList (s.map (fun c => if isSpace c then '1' else '0'))
      | none => "err args"
    | _ => "err args"),
  -- the structural rendering: its text, whether it is defined, and its denotation
  ("types.hintexpr", fun
    | [o, t] => match opts? o, dt? t with
      | some o, some t =>
        let t := t.init
        let r := Dcg.Model.HintExpr.hintE o t
        "ok " ++ encodeStr (Dcg.Sem.Typing.print r.1) ++ " " ++ b01 r.2 ++ " " ++
          encodeStr (Dcg.Sem.Typing.denote r.1).show ++ " " ++ b01 (Dcg.Model.HintExpr.wfTree t)
      | _, _ => "err args"
    | _ => "err args")
  ,
  -- the decidable hypotheses of the C13 theorems on one tree (as the constructors leave it):
  -- wfTree, freeTree, opRegion for the four container spellings, why outside (Any member, optional member
  -- of a container-union, container-union of Nones; typing container names), rootOK typing/operator
  ("types.region", fun
    | [t] => match dt? t with
      | some t =>
        let t := t.init
        "ok " ++ b01 (Dcg.Model.HintExpr.wfTree t) ++ " " ++ b01 (Dcg.Proofs.Types.freeTree t) ++ " " ++
          String.join (Dcg.Model.HintExpr.containerSpellings.map (fun o => b01 (Dcg.Model.HintExpr.opRegion o t))) ++ " " ++
          (let w := Dcg.Model.HintExpr.whyOutside {} t; b01 w.1 ++ b01 w.2.1 ++ b01 w.2.2) ++ " " ++
          -- none_once per spelling: rootOK of the structural rendering, typing then operator
          b01 (Dcg.Model.HintExpr.rootOK (Dcg.Model.HintExpr.hintE {} t).1) ++
          b01 (Dcg.Model.HintExpr.rootOK (Dcg.Model.HintExpr.hintE { unionOp := true } t).1)
      | none => "err args"
    | _ => "err args")
]
end Dcg.Driver.Types
