import Dcg.Driver.Proto
import Dcg.Model.ResolverMultidoc
/-!
`res.multidoc <nDocs> (((doc ptr) ((doc ptr)…))…) ((doc ptr)… loaded) ((doc ptr)… reserved) <rawObj>`
runs `resolveUnparsed` from the given state (fuel = number of rows + 2) and replies
`ok ((used (doc ptr))…) ((doc ptr)… loaded)`, `keyerror` or `outoffuel`.
-/
namespace Dcg.Driver.ResolverMultidoc
open Dcg.Driver Dcg.Model.ResolverMultidoc

def ref? : SX → Option Ref
  | .list [d, p] => do
    let d ← d.nat?
    let p ← p.str?
    pure ⟨d, p⟩
  | _ => none

def refs? : SX → Option (List Ref)
  | .list xs => xs.mapM ref?
  | _ => none

def row? : SX → Option (Ref × List Ref)
  | .list [r, rs] => do
    let r ← ref? r
    let rs ← refs? rs
    pure (r, rs)
  | _ => none

def encRef (r : Ref) : String := "(" ++ toString r.doc ++ " " ++ encodeStr r.ptr ++ ")"

def handlers : List (String × Handler) := [
  ("res.multidoc", fun
    | [n, .list rows, ld, rs, raw] =>
      match n.nat?, rows.mapM row?, refs? ld, refs? rs, raw.nat? with
      | some n, some rows, some ld, some rs, some raw =>
        let docs : Nat → Ptr → Option (List Ref) := fun d p => rows.lookup ⟨d, p⟩
        match resolveUnparsed docs n (rows.length + 2) ⟨ld, rs, raw, []⟩ with
        | .done st =>
          "ok (" ++ " ".intercalate (st.trace.map (fun e => "(" ++ toString e.1 ++ " " ++ encRef e.2 ++ ")")) ++ ") (" ++
            " ".intercalate (st.loaded.map encRef) ++ ")"
        | .keyError => "keyerror"
        | .outOfFuel => "outoffuel"
      | _, _, _, _, _ => "err args"
    | _ => "err args")
]
end Dcg.Driver.ResolverMultidoc
