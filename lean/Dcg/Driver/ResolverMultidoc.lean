import Dcg.Driver.Proto
import Dcg.Model.ResolverMultidoc
/-!
`res.multidoc <nDocs> (((doc ptr) ((doc ptr)…))…) ((doc ptr)… loaded) ((doc ptr)… reserved) <rawObj>`
runs `resolveUnparsed` from the given state (fuel = number of rows + 2) and replies
`ok ((used (doc ptr))…) ((doc ptr)… loaded)`, `keyerror` or `outoffuel`.
-/
namespace Dcg.Driver.ResolverMultidoc
open Dcg.Driver Dcg.Model.ResolverMultidoc

def ref? : SX → Option Ref
  | .list [d, p] => do
    let d ← d.nat?
    let p ← p.str?
    pure ⟨d, p⟩
  | _ => none

def refs? : SX → Option (List Ref)
  | .list xs => xs.mapM ref?
  | _ => none

def row? : SX → Option (Ref × List Ref)
  | .list [r, rs] => do
    let r ← ref? r
    let rs ← refs? rs
    pure (r, rs)
  | _ => none

def encRef (r : Ref) : String := "(" ++ toString r.doc ++ " " ++ encodeStr r.ptr ++ ")"

def cop? : SX → Option COp
  | .list [.atom "enter", .atom "-"] => some (.enter none)
  | .list [.atom "enter", p] => do
    let p ← p.str?
    pure (.enter (some p))
  | .list [.atom "exit"] => some .exit
  | .list [.atom "resolve", r] => do
    let r ← r.str?
    pure (.resolve r)
  | _ => none

def encCur : Option Dir → String
  | none => "-"
  | some d => encodeStr (joinSegs d)

def encCRes : CRes → String
  | .ok p => encodeStr p
  | .outside => "outside"
  | .unmodelled => "unmodelled"
  | .raised => "raised"

/-- `res.ctx ((enter p|-) (exit) (resolve r)…)` → `ok ((cur answer)…)`: current directory and answer after every operation -/
def ctxHandler : Handler := fun
  | [.list ops] =>
    match ops.mapM cop? with
    | some ops =>
      "ok (" ++ " ".intercalate ((ctrace CState.init ops).map (fun e => "(" ++ encCur e.1.cur ++ " " ++ encCRes e.2 ++ ")")) ++ ")"
    | none => "err args"
  | _ => "err args"

def handlers : List (String × Handler) := [
  ("res.ctx", ctxHandler),
  ("res.multidoc", fun
    | [n, .list rows, ld, rs, raw] =>
      match n.nat?, rows.mapM row?, refs? ld, refs? rs, raw.nat? with
      | some n, some rows, some ld, some rs, some raw =>
        let docs : Nat → Ptr → Option (List Ref) := fun d p => rows.lookup ⟨d, p⟩
        match resolveUnparsed docs n (rows.length + 2) ⟨ld, rs, raw, []⟩ with
        | .done st =>
          "ok (" ++ " ".intercalate (st.trace.map (fun e => "(" ++ toString e.1 ++ " " ++ encRef e.2 ++ ")")) ++ ") (" ++
            " ".intercalate (st.loaded.map encRef) ++ ")"
        | .keyError => "keyerror"
        | .outOfFuel => "outoffuel"
      | _, _, _, _, _ => "err args"
    | _ => "err args")
]
end Dcg.Driver.ResolverMultidoc
