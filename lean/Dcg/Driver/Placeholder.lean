import Dcg.Driver.Proto
import Dcg.Model.Placeholder
/-! `ph.override <skip> <model>`: `Model.Placeholder.overrideModel` on a model given as

  model ::= (m (fields field…) (bases model…))      field ::= (f <name|-> <orig|-> <typed 0|1> <required 0|1>)

reply: `ok field…` with fields printed the same way. -/
namespace Dcg.Driver.Placeholder
open Dcg.Driver Dcg.Model.Placeholder

def optStr? : SX → Option (Option (List Char))
  | .atom "-" => some none
  | s => s.str?.map some

def fld? : SX → Option Fld
  | .list [.atom "f", n, o, t, r] => do
    let n ← optStr? n
    let o ← optStr? o
    let t ← t.bool?
    let r ← r.bool?
    pure ⟨n, o, t, r⟩
  | _ => none

partial def mdl? : SX → Option Mdl
  | .list [.atom "m", .list (.atom "fields" :: fs), .list (.atom "bases" :: bs)] => do
    let fs ← fs.mapM fld?
    let bs ← bs.mapM mdl?
    pure (.mk fs bs)
  | _ => none

def showOpt : Option (List Char) → String
  | none => "-"
  | some s => encodeStr s

def showFld (f : Fld) : String :=
  "(f " ++ showOpt f.name ++ " " ++ showOpt f.orig ++ " " ++ (if f.typed then "1" else "0") ++ " " ++
    (if f.required then "1" else "0") ++ ")"

def handlers : List (String × Handler) := [
  ("ph.override", fun
    | [skip, m] => match skip.bool?, mdl? m with
      | some skip, some m => "ok " ++ " ".intercalate ((overrideModel 64 skip m).map showFld)
      | _, _ => "err args"
    | _ => "err args")
]
end Dcg.Driver.Placeholder
