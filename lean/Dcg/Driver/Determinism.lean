import Dcg.Driver.Proto
import Dcg.Model.Determinism
import Dcg.Gen.SetSites
import Dcg.Gen.ModuleState
import Dcg.Model.Write
import Dcg.Gen.GenerateSteps
namespace Dcg.Driver.Determinism
open Dcg.Driver Dcg.Model.Determinism Dcg.Gen.SetSites Dcg.Gen.ModuleState

def siteJustified (s : SetSite) : Bool :=
  s.isSorted || s.kind == k! "comp:set" || orderFreeConsumers.contains s.consumer ||
  (reviewedSetSites.lookup (s.file, s.func, s.expr, s.kind)).isSome

def cacheOK (c : CacheSite) : Bool :=
  c.free.all (fun fv => pureBindings.contains fv.2 || reviewedFree.contains (c.func, fv.1)) &&
  (if c.decorator == k! "cached_property" then (reviewedCachedProperties.lookup (c.file, c.func)).isSome
   else c.selfAttrs.isEmpty)

def returnOK (c : CacheSite) : Bool :=
  c.decorator == k! "cached_property" || immutableReturns.contains c.returns ||
  match reviewedCacheReturns.lookup (c.file, c.func) with
  | some .noCaller => c.callers == 0
  | some _ => true
  | none => false

def listingOK (s : ListingSite) : Bool :=
  (s.isSorted && s.keyShape == k! "natural") ||
  match reviewedListingSites.lookup (s.file, s.func, s.call) with
  | some .sortedByBasenameThenPath => s.isSorted && s.keyShape == k! "basename-then-path"
  | none => false

def escapeOK (e : Escape) : Bool :=
  if e.mutated then reviewedMutatedAliases.contains (e.file, e.func, e.kind, e.target, e.const)
  else e.kind == k! "attr" || e.kind == k! "local" || e.kind == k! "classattr" ||
       (reviewedModuleEscapes.lookup (e.file, e.func, e.kind, e.target, e.const)).isSome

def cacheReadOK (c : CacheRead) : Bool :=
  (reviewedOutsideCaches.lookup (c.file, c.func)).isSome ||
  (reviewedPureCaches.contains (c.file, c.func) && !c.pathParam && c.outside.isEmpty)

/-- the sites of `expectedListingSites` that are missing or have another shape -/
def missingListing : List (Nat × Nat × Nat × Nat) :=
  expectedListingSites.filter (fun e => !listingSites.any (fun s =>
    s.file == e.1 && s.func == e.2.1 && s.call == e.2.2.1 && s.isSorted && s.keyShape == e.2.2.2))

def handlers : List (String × Handler) := [
  /- det.refute sites|cache|state → none | ok <keys…> : every entry of the generated table that is not justified -/
  ("det.refute", fun
    | [.atom "sites"] =>
      match setSites.filter (fun s => !siteJustified s) with
      | [] => "none"
      | bad => "ok " ++ " ".intercalate (bad.map (fun s => s!"({s.file} {s.func} {s.expr} {s.kind})"))
    | [.atom "cache"] =>
      match cacheSites.filter (fun c => !cacheOK c) with
      | [] => "none"
      | bad => "ok " ++ " ".intercalate (bad.map (fun c => s!"({c.file} {c.func} {c.decorator})"))
    | [.atom "state"] =>
      match classMutables.filter (fun m => (reviewedClassMutables.lookup (m.1, m.2.1, m.2.2.1)).isNone) with
      | [] => "none"
      | bad => "ok " ++ " ".intercalate (bad.map (fun m => s!"({m.1} {m.2.1} {m.2.2.1})"))
    | [.atom "returns"] =>
      match cacheSites.filter (fun c => !returnOK c) with
      | [] => "none"
      | bad => "ok " ++ " ".intercalate (bad.map (fun c => s!"({c.file} {c.func} {c.returns})"))
    | [.atom "listing"] =>
      match (listingSites.filter (fun s => !listingOK s)).map (fun s => s!"({s.file} {s.func} {s.call})") ++
            missingListing.map (fun e => s!"({e.1} {e.2.1} {e.2.2.1} {e.2.2.2})") with
      | [] => "none"
      | bad => "ok " ++ " ".intercalate bad
    | [.atom "writes"] =>
      match memoValueWrites.filter (fun w => (reviewedMemoWrites.lookup (w.1, w.2.1, w.2.2.1)).isNone) with
      | [] => "none"
      | bad => "ok " ++ " ".intercalate (bad.map (fun w => s!"({w.1} {w.2.1} {w.2.2.1})"))
    | [.atom "aliases"] =>
      match (moduleMutableEscapes.filter (fun e => !escapeOK e)).map (fun e => s!"({e.file} {e.func} {e.kind} {e.target} {e.const})") ++
            (moduleMutableWrites.filter (fun w => !reviewedModuleWrites.contains w)).map (fun w => s!"({w.1} {w.2.1} {w.2.2.1} {w.2.2.2})") with
      | [] => "none"
      | bad => "ok " ++ " ".intercalate bad
    | [.atom "cachereads"] =>
      match cacheReads.filter (fun c => !cacheReadOK c) with
      | [] => "none"
      | bad => "ok " ++ " ".intercalate (bad.map (fun c => s!"({c.file} {c.func})"))
    | [.atom "cwd"] =>
      match (cwdSites.filter (fun s => (reviewedCwdSites.lookup s).isNone)).map (fun s => s!"({s.1} {s.2.1} {s.2.2})") ++
            (expectedFormatterCwdSites.filter (fun e => !(cwdSites.contains e && reviewedCwdSites.lookup e == some .insideChdirOutput))).map
              (fun e => s!"({e.1} {e.2.1} {e.2.2})") with
      | [] => "none"
      | bad => "ok " ++ " ".intercalate bad
    | [.atom "chdir"] =>
      -- the reviewed shape `formatting happens in the output directory`: which part no longer holds
      if Dcg.Model.Write.parseInsideChdirOutput Dcg.Gen.GenerateSteps.pre Dcg.Gen.GenerateSteps.chdirSome
          Dcg.Gen.GenerateSteps.parseCallArguments then "none"
      else
        let inside := (Dcg.Model.Write.insideChdir Dcg.Gen.GenerateSteps.pre false).map (·.what)
        let enters := (Dcg.Gen.GenerateSteps.pre.filter (fun s => s.kind == .chdirEnter)).map (·.what)
        "ok enters=" ++ toString enters.length ++ " inside=" ++ toString inside.length ++
          " parseInside=" ++ toString (inside.contains "parser.parse") ++
          " parseArgs=" ++ toString Dcg.Gen.GenerateSteps.parseCallArguments.length ++
          " cwdAtParse=" ++ (if Dcg.Model.Write.cwdTrack Dcg.Gen.GenerateSteps.chdirSome .orig
              (Dcg.Model.Write.stepsBefore "parser.parse" Dcg.Gen.GenerateSteps.pre) == .target then "output" else "caller")
    | _ => "err args"),
  /- det.reviewed-unused → none | ok … : reviewed set-site entries that no longer match any site (stale review) -/
  ("det.stale", fun
    | [] =>
      match reviewedSetSites.filter (fun r => !setSites.any (fun s => (s.file, s.func, s.expr, s.kind) == r.1)) with
      | [] => "none"
      | bad => "ok " ++ " ".intercalate (bad.map (fun r => s!"({r.1.1} {r.1.2.1} {r.1.2.2.1})"))
    | _ => "err args")
]
end Dcg.Driver.Determinism
