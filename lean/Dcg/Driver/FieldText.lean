import Dcg.Driver.Proto
import Dcg.Model.FieldText
/-!
`fieldtext.v2 <strEmpty> <startsEllipsis> <startsFactory> <useAnnotated> <useDefaultKwarg>` ↦
`ok <field: none|str|default_kwarg> <annotated 0|1> <Field imported 0|1> <Annotated imported 0|1> <uses Field 0|1> <uses Annotated 0|1>`
-/
namespace Dcg.Driver.FieldText
open Dcg.Driver Dcg.Model.FieldText

def b (x : Bool) : String := if x then "1" else "0"

def handlers : List (String × Handler) := [
  ("fieldtext.v2", fun
    | [a, e, f, u, k] => match a.bool?, e.bool?, f.bool?, u.bool?, k.bool? with
      | some a, some e, some f, some u, some k =>
        let v : V := ⟨a, e, f, u, k⟩
        "ok " ++ (match field v with | .none => "none" | .asStr => "str" | .defaultKwarg => "default_kwarg") ++ " " ++
          b (annotated v) ++ " " ++ b (decide (nField ∈ imports v)) ++ " " ++ b (decide (nAnnotated ∈ imports v)) ++ " " ++
          b (decide (nField ∈ memberUses v)) ++ " " ++ b (decide (nAnnotated ∈ memberUses v))
      | _, _, _, _, _ => "err args"
    | _ => "err args")
]
end Dcg.Driver.FieldText
