import Dcg.Driver.Proto
import Dcg.Model.YamlLoader
import Dcg.Gen.YamlLoader
namespace Dcg.Driver.YamlLoader
open Dcg.Driver Dcg.Model.YamlLoader Dcg.Gen.YamlLoader

def handlers : List (String × Handler) := [
  -- yamlloader.ctor xTAG : constructor the model gives the tag (regenerated stock table + regenerated overrides)
  ("yamlloader.ctor", fun args => match args with
    | [t] => match t.str? with
      | some tag => ctorOf stockConstructors stockFallback loaderOverrides (String.ofList tag)
      | none => "err args"
    | _ => "err args")
]
end Dcg.Driver.YamlLoader
