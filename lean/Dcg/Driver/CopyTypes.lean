import Dcg.Driver.Proto
import Dcg.Model.CopyTypes
/-
Driver for `Dcg.Model.CopyTypes` (C03: the data type copy of `Parser.__override_required_field`).
Attributes travel as `(<type|-> <flags> <kwargs> <literals> <dict_key> <rest>)` — `flags` is a 7-character atom
of 0/1 in the order is_optional is_list is_set is_dict is_func is_custom_type strict, the texts are hex strings —
and a tree as `(<reference|-> <attrs> (<tree>…))`.
-/
namespace Dcg.Driver.CopyTypes
open Dcg.Driver Dcg.Model.CopyTypes

def optStr? : SX → Option (Option (List Char))
  | .atom "-" => some none
  | x => x.str?.map some

def attrs? : SX → Option Attrs
  | .list [t, .atom fl, kw, lits, dk, rest] =>
    match optStr? t, fl.toList.map (· == '1'), kw.str?, lits.str?, dk.str?, rest.str? with
    | some t, [o, l, s, d, f, c, x], some kw, some lits, some dk, some rest =>
      some { type := t, isOptional := o, isList := l, isSet := s, isDict := d, isFunc := f, isCustom := c,
             strict := x, kwargs := kw, literals := lits, dictKey := dk, rest := rest }
    | _, _, _, _, _, _ => none
  | _ => none

partial def tree? : SX → Option DT
  | .list [r, a, .list ks] =>
    match optStr? r, attrs? a, ks.mapM tree? with
    | some r, some a, some ks => some (.node r a ks)
    | _, _, _ => none
  | _ => none

def b (x : Bool) : String := if x then "1" else "0"

def showOpt : Option (List Char) → String
  | none => "-"
  | some s => encodeStr s

def showAttrs (a : Attrs) : String :=
  "(" ++ showOpt a.type ++ " " ++ b a.isOptional ++ b a.isList ++ b a.isSet ++ b a.isDict ++ b a.isFunc ++
    b a.isCustom ++ b a.strict ++ " " ++ encodeStr a.kwargs ++ " " ++ encodeStr a.literals ++ " " ++
    encodeStr a.dictKey ++ " " ++ encodeStr a.rest ++ ")"

partial def showTree : DT → String
  | .node r a ks => "(" ++ showOpt r ++ " " ++ showAttrs a ++ " (" ++ " ".intercalate (ks.map showTree) ++ "))"

def handlers : List (String × Handler) := [
  -- copy.list <default attrs> (<tree>…)   (`_copy_data_types`) → the copied trees
  ("copy.list", fun
    | [d, .list ts] => match attrs? d, ts.mapM tree? with
      | some d, some ts => "ok (" ++ " ".intercalate ((copyList d ts).map showTree) ++ ")"
      | _, _ => "err args"
    | _ => "err args"),
  -- copy.member <default attrs> <tree>   (the data type of the member re-declared by `__override_required_field`)
  -- → <plainRefs 0|1> <the copied tree>
  ("copy.member", fun
    | [d, t] => match attrs? d, tree? t with
      | some d, some t => "ok " ++ b (plainRefs d t) ++ " " ++ showTree (overrideType d t)
      | _, _ => "err args"
    | _ => "err args")
]
end Dcg.Driver.CopyTypes
