import Dcg.Driver.Proto
import Dcg.Model.ResolverDedupe
/-!
`res.dedupe ((name key)…)` runs `Model.ResolverDedupe.dedupe` and replies `ok (v…)` with one verdict per
model: `-` (kept) or the position of the model it is dropped for.
-/
namespace Dcg.Driver.ResolverDedupe
open Dcg.Driver Dcg.Model.ResolverDedupe

def model? : SX → Option DModel
  | .list [n, k] => do
    let n ← n.str?
    let k ← k.str?
    pure ⟨n, k⟩
  | _ => none

def handlers : List (String × Handler) := [
  ("res.dedupe", fun
    | [.list ms] =>
      match ms.mapM model? with
      | some ms => "ok (" ++ " ".intercalate ((dedupe ms).map (fun v => match v with | none => "-" | some j => toString j)) ++ ")"
      | none => "err args"
    | _ => "err args")
]
end Dcg.Driver.ResolverDedupe
