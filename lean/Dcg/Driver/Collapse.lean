import Dcg.Driver.Proto
import Dcg.Model.Collapse
/-!
Line protocol for `Model.Collapse` (Parser.__collapse_root_models over one module).
  collapse.run (ext…) ((name root01 (bases…) (((ref nested01 reg01) …) …)) …)
      → ok ((name ((ref…) …)) …) (unused…) (names of the list after the removal…) ((model ref) … dangling) | unmodelled
  collapse.twice (ext…) (models as above)
      → ok (names after one pass+removal) (names after two) same01 | unmodelled
-/
namespace Dcg.Driver.Collapse
open Dcg.Driver Dcg.Model.Collapse

def nats? : SX → Option (List Nat)
  | .list xs => xs.mapM SX.nat?
  | _ => none

def leaf? : SX → Option Leaf
  | .list [r, n, g] => do pure ⟨← r.nat?, (← n.nat?) != 0, (← g.nat?) != 0⟩
  | _ => none

def field? : SX → Option (List Leaf)
  | .list xs => xs.mapM leaf?
  | _ => none

def model? : SX → Option Model
  | .list [n, r, b, .list fs] => do pure ⟨← n.nat?, (← r.nat?) != 0, ← fs.mapM field?, ← nats? b⟩
  | _ => none

def models? : SX → Option (List Model)
  | .list xs => xs.mapM model?
  | _ => none

def showNats (xs : List Nat) : String := "(" ++ " ".intercalate (xs.map toString) ++ ")"

def showModel (m : Model) : String :=
  "(" ++ toString m.name ++ " (" ++ " ".intercalate (m.fields.map (fun f => showNats (f.map (·.ref)))) ++ "))"

def handlers : List (String × Handler) := [
  ("collapse.run", fun
    | [ext, ms] => match nats? ext, models? ms with
      | some ext, some ms => match pass ext ms with
        | none => "unmodelled"
        | some (ms', un) =>
          let fin := removeUnused ms' un
          "ok (" ++ " ".intercalate (ms'.map showModel) ++ ") " ++ showNats un ++ " " ++ showNats (fin.map (·.name)) ++ " (" ++
            " ".intercalate ((dangling ms fin).map (fun p => "(" ++ toString p.1 ++ " " ++ toString p.2 ++ ")")) ++ ")"
      | _, _ => "err args"
    | _ => "err args"),
  ("collapse.twice", fun
    | [ext, ms] => match nats? ext, models? ms with
      | some ext, some ms => match collapse ext ms with
        | none => "unmodelled"
        | some one => match collapse ext one with
          | none => "unmodelled"
          | some two => "ok " ++ showNats (one.map (·.name)) ++ " " ++ showNats (two.map (·.name)) ++ " " ++ (if one = two then "1" else "0")
      | _, _ => "err args"
    | _ => "err args")
]

end Dcg.Driver.Collapse
