import Dcg.Driver.Proto
import Dcg.Driver.Modules
import Dcg.Model.CrossRef
namespace Dcg.Driver.CrossRef
open Dcg.Driver Dcg.Py.Import Dcg.Model.Modules Dcg.Model.CrossRef

def use? : SX → Option Use
  | .list [r, c, b] => match r.strs?, c.str?, b.bool? with
    | some r, some c, some b => some ⟨r, c, b⟩
    | _, _, _ => none
  | _ => none

def uses? : SX → Option (List Use)
  | .list xs => xs.mapM use?
  | _ => none

def idNow : MPath → Name → Name := fun _ c => c

def encWritten (w : Written) : String :=
  " " ++ encodeStr (renderFrom w.imp.dots w.imp.pkg) ++ ":" ++ encodeStr w.imp.name ++ ":" ++ encodeStr w.alias ++
    ":" ++ encodeStr (w.render idNow) ++ ":" ++ (match w.dtAlias with | none => "-" | some a => encodeStr a)

/-- `get_valid_name(·, upper_camel=True)` on the ASCII region (model of property C06/C07) -/
def cnClass (x : List Char) : Option (List Char) := Dcg.Model.Resolver.validName? true x

def handlers : List (String × Handler) := [
  ("xref.change", fun
    | [ex, cur, ini, excl, classes, uses] =>
      match ex.bool?, cur.strs?, ini.bool?, excl.strs?, Dcg.Driver.Modules.pairs? classes, uses? uses with
      | some ex, some cur, some ini, some excl, some classes, some uses =>
        if classes.all (fun p => (Dcg.Driver.Modules.vnClass p.2).isSome) &&
            uses.all (fun u => (Dcg.Driver.Modules.vnClass u.cls).isSome && u.ref.all (fun x => (Dcg.Driver.Modules.vnClass x).isSome)) then
          match changeFromImport (fun x => (Dcg.Driver.Modules.vnClass x).getD x) ex cur ini excl classes uses with
          | some ws => "ok" ++ String.join (ws.map encWritten)
          | none => "diverges"
        else "unmodelled"
      | _, _, _, _, _, _ => "err args"
    | _ => "err args"),
  ("xref.rename", fun
    | [imported, taken, excl, classes] =>
      match imported.strs?, taken.strs?, excl.strs?, Dcg.Driver.Modules.pairs? classes with
      | some imported, some taken, some excl, some classes =>
        if classes.all (fun p => (cnClass (classNameOf p.2)).isSome) then
          let s : Scope := ⟨taken.map (fun t => ⟨'\x00' :: t, t, t⟩), excl⟩
          match renamePass (fun x => (cnClass x).getD x) imported s classes with
          | some names => "ok" ++ String.join (names.map (fun x => " " ++ encodeStr x))
          | none => "diverges"
        else "unmodelled"
      | _, _, _, _ => "err args"
    | _ => "err args")
]
end Dcg.Driver.CrossRef
