import Dcg.Driver.Proto
import Dcg.Driver.Resolver
import Dcg.Model.IdRegistry
import Dcg.Gen.ResolverTables
/-!
`ids.run (<root part>…) <root id|-> (<file>…) (<walk>…) (<ref>…)` — `Model.IdRegistry` (C06):
the `parse_id` prelude of `_parse_file` (walks in order, over the keyword list read from the source,
`Gen.ResolverTables.parseIdDescends`) and then `resolve_ref` of every `<ref>` in the resulting state.
  walk ::= ((<path part>…) <tree>)      tree ::= (<entry>…)      entry ::= (i <id>) | (s <keyword> <seg> <tree>)
reply: `ok ((<id> <path>)…) (<res>…)` with res ::= (ok <str>) | raised | unmodelled,
or `idsfail` when an `add_id` of the prelude raised / left the model.
`ids.collect <tree>` replies the ids the walk registers, `ids.all <tree>` every id written in the tree.
-/
namespace Dcg.Driver.IdRegistry
open Dcg.Driver Dcg.Model.Resolver Dcg.Model.IdRegistry

partial def tree? : List SX → Option ISch
  | [] => some .nil
  | .list [.atom "i", s] :: rest => do
    let s ← s.str?
    let rest ← tree? rest
    pure (.id s rest)
  | .list [.atom "s", kw, seg, .list child] :: rest => do
    let kw ← kw.str?
    let seg ← seg.str?
    let child ← tree? child
    let rest ← tree? rest
    pure (.sub kw seg child rest)
  | _ => none

def walk? : SX → Option (List Str × ISch)
  | .list [path, .list t] => do
    let p ← path.strs?
    let t ← tree? t
    pure (p, t)
  | _ => none

def encR : Res → String
  | .ok p => "(ok " ++ encodeStr p ++ ")"
  | .raised => "raised"
  | .unmodelled => "unmodelled"

def kws : List Str := Dcg.Gen.ResolverTables.parseIdDescends

def handlers : List (String × Handler) := [
  ("ids.run", fun
    | [root, rid, files, .list walks, refs] =>
      match root.strs?, Dcg.Driver.Resolver.optStr? rid, files.strs?, walks.mapM walk?, refs.strs? with
      | some root, some rid, some files, some walks, some refs =>
        let e : Env := { root := root, rootId := rid, files := files, ids := [] }
        match parseIds kws e walks with
        | none => "idsfail"
        | some e' =>
          "ok (" ++ " ".intercalate (e'.ids.map (fun kv => "(" ++ encodeStr kv.1 ++ " " ++ encodeStr kv.2 ++ ")")) ++
            ") (" ++ " ".intercalate (refs.map (fun r => encR (resolveRefId e' r))) ++ ")"
      | _, _, _, _, _ => "err args"
    | _ => "err args"),
  ("ids.collect", fun
    | [.list t] => match tree? t with
      | some t => "ok (" ++ " ".intercalate ((collectIds kws t).map encodeStr) ++ ")"
      | none => "err args"
    | _ => "err args"),
  ("ids.all", fun
    | [.list t] => match tree? t with
      | some t => "ok (" ++ " ".intercalate ((allIds t).map encodeStr) ++ ")"
      | none => "err args"
    | _ => "err args")
]
end Dcg.Driver.IdRegistry
