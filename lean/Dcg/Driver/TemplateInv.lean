import Dcg.Driver.Proto
import Dcg.Driver.Template
import Dcg.Model.TemplateInv
import Dcg.Proofs.TemplateBlockTop
import Dcg.Proofs.TemplateLex
import Dcg.Proofs.TemplateLexDoc
/-! `tpl.inv <template name> <context>`: render one of the generated template ASTs in a (real) render
context and evaluate, on the interpolated values, the decidable forms of the hypotheses that the
template theorems assume and the name invariant:

  reply: `ok <hex text> <inv> <block> <lex> <hash>` where each of the four is `ok` or
         `bad:<hex site expression>:<hex value>` (first violating slot) —
         inv   = `Model.TemplateInv.siteInvB`   (name sites carry identifiers, type hints are not empty),
         block = `Proofs.TemplateBlockTop.blockHypExceptHashB` on non-docstring slots (`ValuesOK`, C01, all but
                 the `#` clause; `blockHypB_split`),
         hash  = a value of a class-header site contains `#` (the rendering is outside the scope of the class
                 theorems: the block automaton reads it as a comment),
         lex   = `Proofs.TemplateLex.lexHypB` on non-docstring slots (`NeutralValues`, C10);
  or the error replies of `tpl.render`. -/
namespace Dcg.Driver.TemplateInv
open Dcg.Driver Dcg.Model.Template Dcg.Model.TemplateSyntax Dcg.Model.TemplateBlock Dcg.Model.TemplateInv

def verdict (bad : Option (Expr × List Char)) : String :=
  match bad with
  | none => "ok"
  | some (e, v) => "bad:" ++ encodeStr e.src.toList ++ ":" ++ encodeStr v

def handlers : List (String × Handler) := [
  ("tpl.inv", fun
    | [name, ctx] => match name.str?, Dcg.Driver.Template.val? ctx with
      | some name, some (.dict kvs) =>
        (match Dcg.Gen.TemplateAst.templates.lookup (String.ofList name) with
         | some t => (match renderTemplate kvs t with
           | .ok o =>
             "ok " ++ encodeStr o.text ++ " " ++ verdict (firstBadSlot o) ++ " " ++
               verdict (o.slots.find? (fun p => !(slotKind p.1 == .doc || Dcg.Proofs.TemplateBlockTop.blockHypExceptHashB p.1 p.2))) ++ " " ++
               verdict (o.slots.find? (fun p => !(Dcg.Proofs.TemplateLexDoc.docSite p.1 || Dcg.Proofs.TemplateLex.lexHypB p.1 p.2))) ++ " " ++
               verdict (o.slots.find? (fun p => Dcg.Proofs.TemplateBlockTop.headerHashB p.1 p.2))
           | .error e => Dcg.Driver.Template.errStr e)
         | none => "err no-such-template")
      | _, _ => "err args"
    | _ => "err args")
]
end Dcg.Driver.TemplateInv
