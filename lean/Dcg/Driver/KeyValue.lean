import Dcg.Driver.Proto
import Dcg.Model.KeyValue
namespace Dcg.Driver.KeyValue
open Dcg.Driver Dcg.Model.KeyValue

def sep? (x : SX) : Option Char :=
  match x.str? with
  | some [c] => some c
  | _ => none

def handlers : List (String × Handler) := [
  /- kv.parse <sep> <item> → none | ok <name> <value> : one item of --http-headers / --http-query-parameters -/
  ("kv.parse", fun
    | [sep, s] => match sep? sep, s.str? with
      | some sep, some s => encodeOptPair (parseItem sep s)
      | _, _ => "err args"
    | _ => "err args"),
  /- kv.parse_items <sep> (<item>…) → none | ok (<name> <value>)… : the validator on the whole list -/
  ("kv.parse_items", fun
    | [sep, items] => match sep? sep, items.strs? with
      | some sep, some items => match parseItems sep items with
        | some nvs => "ok " ++ " ".intercalate (nvs.map (fun nv => "(" ++ encodeStr nv.1 ++ " " ++ encodeStr nv.2 ++ ")"))
        | none => "none"
      | _, _ => "err args"
    | _ => "err args"),
  /- kv.render <sep> <pad> <name> <value> → ok <item> -/
  ("kv.render", fun
    | [sep, pad, n, v] => match sep? sep, pad.str?, n.str?, v.str? with
      | some sep, some pad, some n, some v => "ok " ++ encodeStr (render sep pad (n, v))
      | _, _, _, _ => "err args"
    | _ => "err args"),
  /- kv.isspace <chars> → ok 0101… -/
  ("kv.isspace", fun
    | [s] => match s.str? with
      | some s => "ok " ++ String.ofList (s.map (fun c => if isSpace c then '1' else '0'))
      | none => "err args"
    | _ => "err args")
]
end Dcg.Driver.KeyValue
