import Dcg.Driver.Proto
import Dcg.Model.Escape
import Dcg.Proofs.Escape
import Dcg.Proofs.PatternLit
import Dcg.Gen.EscTables
namespace Dcg.Driver.Escape
open Dcg.Driver Dcg.Model.Escape Dcg.Gen.EscTables Dcg.Proofs.Escape

def table? : SX → Option Table
  | .atom "enum" => some enumTable
  | .atom "typeddict" => some typedDictKeyTable
  | _ => none

/-- refuter for `tableOK`: the first special character without an entry, or the first entry
whose value does not decode to its key -/
def findBad (q : Char) (t : Table) : Option Char :=
  match (specials q).find? (fun c => (t.lookup c).isNone) with
  | some c => some c
  | none => (t.find? (fun kv => !decodesTo kv.2 kv.1)).map (·.1)

def handlers : List (String × Handler) := [
  ("esc.quoted", fun
    | [t, s] => match table? t, s.str? with
      | some t, some s => "ok " ++ encodeStr (quoted '\'' t s)
      | _, _ => "err args"
    | _ => "err args"),
  ("esc.tableok", fun
    | [t] => match table? t with
      | some t => "ok " ++ toString (tableOK '\'' t)
      | none => "err args"
    | _ => "err args"),
  ("esc.findbad", fun
    | [t] => match table? t with
      | some t => match findBad '\'' t with
        | some c => "ok " ++ encodeStr [c]
        | none => "none"
      | none => "err args"
    | _ => "err args"),
  ("esc.doc", fun
    | [s] => match s.str? with
      | some s => "ok " ++ encodeStr (escDoc 0 s)
      | none => "err args"
    | _ => "err args"),
  ("esc.rawsafe", fun
    | [s] => match s.str? with
      | some s => "ok " ++ toString (patternRawOK Dcg.Proofs.PatternLit.cpythonPrintable s)
      | none => "err args"
    | _ => "err args")
]
end Dcg.Driver.Escape
