import Dcg.Driver.Proto
import Dcg.Model.Resolver
import Dcg.Model.ResolverWorklist
/-!
Line-protocol handlers for `Dcg.Model.Resolver` (C06).

`res.run <dupSuffix> <singSuffix> (<exclude>…) ((<name> <suffix> <singular>)…) (<op>…)`
  op ::= (addref <ref> <0|1>) | (add (<part>…) <orig> <cls> <sing> <uniq> <sgSuffix|-> <loaded>)
       | (get <refarg>) | (del <refarg>) | (root (<part>…))
  refarg ::= (s <str>) | (q <part>…)
reply: `ok <item>…`, one item per operation: `(<out> (<root part>…) (<entry>…))`,
  out ::= (ref <oid>) | none | unit | raised | unmodelled | diverges
  entry ::= (<path> <name> <orig> <dup|-> <0|1> <oid>)
or `unmodelled` when a name that goes through the class-name generator is not ASCII.
-/
namespace Dcg.Driver.Resolver
open Dcg.Driver Dcg.Model.Resolver

def optStr? : SX → Option (Option Str)
  | .atom "-" => some none
  | x => x.str?.map some

def refArg? : SX → Option RefArg
  | .list [.atom "s", x] => x.str?.map RefArg.str
  | .list (.atom "q" :: xs) => (xs.mapM SX.str?).map RefArg.seq
  | _ => none

def op? : SX → Option Op
  | .list [.atom "addref", r, b] => do
    let r ← r.str?; let b ← b.bool?; pure (.addRef r b)
  | .list [.atom "add", ps, o, c, sg, u, sfx, l] => do
    let ps ← ps.strs?; let o ← o.str?; let c ← c.bool?; let sg ← sg.bool?; let u ← u.bool?
    let sfx ← optStr? sfx; let l ← l.bool?
    pure (.add ps o c sg u sfx l)
  | .list [.atom "get", r] => (refArg? r).map Op.get
  | .list [.atom "del", r] => (refArg? r).map Op.delete
  | .list [.atom "root", ps] => ps.strs?.map Op.setRoot
  | _ => none

def singRow? : SX → Option (Str × Str × Str)
  | .list [a, b, c] => do
    let a ← a.str?; let b ← b.str?; let c ← c.str?; pure (a, b, c)
  | _ => none

def encStrs (xs : List Str) : String := "(" ++ " ".intercalate (xs.map encodeStr) ++ ")"

def encEntry (e : Entry) : String :=
  "(" ++ encodeStr e.path ++ " " ++ encodeStr e.name ++ " " ++ encodeStr e.orig ++ " " ++
    (match e.dup with | some d => encodeStr d | none => "-") ++ " " ++
    (if e.loaded then "1" else "0") ++ " " ++ toString e.oid ++ ")"

def encOut : Out → String
  | .ref e => "(ref " ++ toString e.oid ++ ")"
  | .none => "none"
  | .unit => "unit"
  | .raised => "raised"
  | .unmodelled => "unmodelled"
  | .diverges => "diverges"

def encItem (r : State × Out) : String :=
  "(" ++ encOut r.2 ++ " " ++ encStrs r.1.root ++ " (" ++ " ".intercalate (r.1.refs.map encEntry) ++ "))"

/-- names that go through the (ASCII-only) class-name model -/
def opNamesAscii : Op → Bool
  | .addRef r _ => r.all isAscii
  | .add _ o _ _ _ _ _ => o.all isAscii
  | _ => true

def encRes : Res → String
  | .ok p => "ok " ++ encodeStr p
  | .raised => "raised"
  | .unmodelled => "unmodelled"

def encOptStr : Option Str → String
  | some s => "ok " ++ encodeStr s
  | none => "unmodelled"

def modModel? : SX → Option ModModel
  | .list [p, c, d] => do
    let p ← p.str?; let c ← c.str?; let d ← d.str?; pure { path := p, cls := c, dupCls := d }
  | _ => none

/-- `(ptr (ref…))` rows of the document graph -/
def docRow? : SX → Option (Str × List Str)
  | .list [p, refs] => do
    let p ← p.str?; let refs ← refs.strs?; pure (p, refs)
  | _ => none

open Dcg.Model.ResolverWorklist in
/-- `res.worklist ((ptr (ref…))…) (rootRef…) (definitionPtr…)`: the prelude of `_parse_file` (root object,
then every definition that is not loaded yet) followed by the reserved-reference loop with fuel
`|all pointers| + 1`. Reply `ok (reserved…) (loaded…)`, `missing <ptr>` or `outoffuel`. -/
def worklist (rows : List (Str × List Str)) (rootRefs defs : List Str) : String :=
  let doc : Ptr → Option (List Ptr) := fun p => rows.lookup p
  let allPtrs := (rows.map (·.1) ++ rows.flatMap (·.2) ++ rootRefs).eraseDups
  let st0 := load { loaded := [], reserved := [] } ['#'] rootRefs
  match round doc defs st0 with
  | none => "missing-definition"
  | some st1 =>
    match loop doc (allPtrs.length + 1) st1 with
    | .done st => "ok " ++ encStrs st.reserved ++ " " ++ encStrs st.loaded
    | .missing p => "missing " ++ encodeStr p
    | .outOfFuel => "outoffuel"

def handlers : List (String × Handler) := [
  ("res.worklist", fun
    | [.list rows, rr, defs] => match rows.mapM docRow?, rr.strs?, defs.strs? with
      | some rows, some rr, some defs => worklist rows rr defs
      | _, _, _ => "err args"
    | _ => "err args"),
  ("res.run", fun
    | [sfx, ss, excl, table, .list ops] =>
      match sfx.str?, ss.str?, excl.strs?, (match table with | .list rows => rows.mapM singRow? | _ => none),
            ops.mapM op? with
      | some sfx, some ss, some excl, some table, some ops =>
        if ops.all opNamesAscii then
          "ok " ++ " ".intercalate ((trace (defaultCfg table sfx ss) (State.init excl) ops).map encItem)
        else "unmodelled"
      | _, _, _, _, _ => "err args"
    | _ => "err args"),
  ("res.classform", fun
    | [s] => match s.str? with
      | some s => encOptStr (classForm? s)
      | none => "err args"
    | _ => "err args"),
  ("res.validname", fun
    | [s] => match s.str? with
      | some s => encOptStr (validName? false s)
      | none => "err args"
    | _ => "err args"),
  ("res.joinpath", fun
    | [ps] => match ps.strs? with
      | some ps => "ok " ++ encodeStr (joinPath ps)
      | none => "err args"
    | _ => "err args"),
  ("res.resolve", fun
    | [root, r] => match root.strs?, r.str? with
      | some root, some r => encRes (resolveRef root r)
      | _, _ => "err args"
    | _ => "err args"),
  ("res.isidref", fun
    | [s] => match s.str? with
      | some s => "ok " ++ encodeStr (if isIdRef s then ['1'] else ['0'])
      | none => "err args"
    | _ => "err args"),
  ("res.stem", fun
    | [s] => match s.str? with
      | some s => "ok " ++ encodeStr (stem s)
      | none => "err args"
    | _ => "err args"),
  ("res.unique", fun
    | [sfx, camel, tk, name] => match sfx.str?, camel.bool?, tk.strs?, name.str? with
      | some sfx, some camel, some tk, some name =>
        match goU (cand sfx (if camel then [] else ['_']) name) tk (tk.length + 1) 0 with
        | some u => "ok " ++ encodeStr u
        | none => "diverges"
      | _, _, _, _ => "err args"
    | _ => "err args"),
  ("res.modpass", fun
    | [imported, .list ms] => match imported.strs?, ms.mapM modModel? with
      | some imported, some ms =>
        if ms.all (fun m => m.cls.all isAscii) then
          match replaceDuplicateNameInModule (defaultCfg [] [] []) imported ms with
          | some names => "ok " ++ encStrs names
          | none => "raised"
        else "unmodelled"
      | _, _ => "err args"
    | _ => "err args")
]
end Dcg.Driver.Resolver
