import Dcg.Driver.Proto
import Dcg.Model.ParsePasses
/-!
Line protocol for `Model.ParsePasses`.
  passes.order ((name guarded01) …)
      → ok | bad <a> <b>   (first violated constraint "a before b") | bad-call <name>   (unreviewed / guarded call)
  passes.run <reuse01> <collapse01> <sdem01> (pass names in the order they run) ((id key) …) ((id target dflt|-) …) ((e|r|c n - | r v | m c v) …)
      → ok (live class ids, first occurrences) (<e|r><n>:<-|r<v>|m<c>.<v>> …)
Pass names are the names written in `Parser.parse` without the two leading underscores.
-/
namespace Dcg.Driver.ParsePasses
open Dcg.Driver Dcg.Model.ParsePasses

def passOfName (s : String) : Pass :=
  match s with
  | "alias_shadowed_imports" => .aliasShadowedImports
  | "override_required_field" => .overrideRequiredField
  | "replace_unique_list_to_set" => .replaceUniqueListToSet
  | "change_from_import" => .changeFromImport
  | "extract_inherited_enum" => .extractInheritedEnum
  | "set_reference_default_value_to_field" => .setReferenceDefaultValueToField
  | "reuse_model" => .reuseModel
  | "collapse_root_models" => .collapseRootModels
  | "set_default_enum_member" => .setDefaultEnumMember
  | "sort_models" => .sortModels
  | "change_field_name" => .changeFieldName
  | "apply_discriminator_type" => .applyDiscriminatorType
  | "set_one_literal_on_default" => .setOneLiteralOnDefault
  | n => .other n

def nameOfPass : Pass → String
  | .aliasShadowedImports => "alias_shadowed_imports"
  | .overrideRequiredField => "override_required_field"
  | .replaceUniqueListToSet => "replace_unique_list_to_set"
  | .changeFromImport => "change_from_import"
  | .extractInheritedEnum => "extract_inherited_enum"
  | .setReferenceDefaultValueToField => "set_reference_default_value_to_field"
  | .reuseModel => "reuse_model"
  | .collapseRootModels => "collapse_root_models"
  | .setDefaultEnumMember => "set_default_enum_member"
  | .sortModels => "sort_models"
  | .changeFieldName => "change_field_name"
  | .applyDiscriminatorType => "apply_discriminator_type"
  | .setOneLiteralOnDefault => "set_one_literal_on_default"
  | .other n => n

def call? : SX → Option Call
  | .list [.atom n, g] => do
    let g ← g.bool?
    pure ⟨passOfName n, g⟩
  | _ => none

def passes? : SX → Option (List Pass)
  | .list xs => xs.mapM (fun x => match x with
    | .atom n => some (passOfName n)
    | _ => none)
  | _ => none

def cls? : SX → Option Cls
  | .list [i, k] => do
    let i ← i.nat?
    let k ← k.nat?
    pure ⟨i, k⟩
  | _ => none

def root? : SX → Option Root
  | .list [i, t, .atom "-"] => do
    let i ← i.nat?
    let t ← t.nat?
    pure ⟨i, t, none⟩
  | .list [i, t, d] => do
    let i ← i.nat?
    let t ← t.nat?
    let d ← d.nat?
    pure ⟨i, t, some d⟩
  | _ => none

def ty? (k n : SX) : Option Ty := do
  let n ← n.nat?
  match k with
  | .atom "e" => pure (.enum n)
  | .atom "r" => pure (.root n)
  | .atom "c" => pure (.copy n)
  | _ => none

def field? : SX → Option Field
  | .list [k, n, .atom "-"] => do
    let t ← ty? k n
    pure ⟨t, .none⟩
  | .list [k, n, .atom "r", v] => do
    let t ← ty? k n
    let v ← v.nat?
    pure ⟨t, .raw v⟩
  | .list [k, n, .atom "m", c, v] => do
    let t ← ty? k n
    let c ← c.nat?
    let v ← v.nat?
    pure ⟨t, .member c v⟩
  | _ => none

def list? {α : Type} (f : SX → Option α) : SX → Option (List α)
  | .list xs => xs.mapM f
  | _ => none

def showTy : Ty → String
  | .enum c => s!"e{c}"
  | .root r => s!"r{r}"
  | .copy c => s!"e{c}"   -- a field that refers to Enum model c (through the copied data type): what the harness observes

def showDflt : Dflt → String
  | .none => "-"
  | .raw v => s!"r{v}"
  | .member c v => s!"m{c}.{v}"

def showField (f : Field) : String := showTy f.ty ++ ":" ++ showDflt f.dflt

def showNats (xs : List Nat) : String := "(" ++ " ".intercalate (xs.map toString) ++ ")"

def runH : Handler
  | [r, c, d, order, cls, roots, fields] =>
    match r.bool?, c.bool?, d.bool?, passes? order, list? cls? cls, list? root? roots, list? field? fields with
    | some r, some c, some d, some order, some cls, some roots, some fields =>
      let s := run ⟨r, c, d⟩ order ⟨cls, roots, fields⟩
      "ok " ++ showNats (s.classes.map (·.id)).eraseDups ++ " (" ++ " ".intercalate (s.fields.map showField) ++ ")"
    | _, _, _, _, _, _, _ => "err args"
  | _ => "err arity"

def orderH : Handler
  | [calls] =>
    match list? call? calls with
    | some cs =>
      match cs.find? (fun c => !(c.pass.reviewed && !c.guarded)) with
      | some c => "bad-call " ++ nameOfPass c.pass
      | none =>
        match firstViolated cs with
        | some (a, b) => "bad " ++ nameOfPass a ++ " " ++ nameOfPass b
        | none => if orderOk cs then "ok" else "bad ? ?"
    | none => "err args"
  | _ => "err arity"

def handlers : List (String × Handler) :=
  [("passes.run", runH), ("passes.order", orderH)]

end Dcg.Driver.ParsePasses
