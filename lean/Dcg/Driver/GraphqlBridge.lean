import Dcg.Driver.Proto
import Dcg.Driver.Graphql
import Dcg.Driver.Types
import Dcg.Model.GraphqlBridge
/-
Driver for the C17 bridge (`Dcg/Model/GraphqlBridge.lean`): the annotation text of a GraphQL field
and the meaning of its declared type.
-/
namespace Dcg.Driver.GraphqlBridge
open Dcg.Driver Dcg.Model.Graphql Dcg.Model.GraphqlBridge

def b01 (x : Bool) : String := if x then "1" else "0"

def handlers : List (String × Handler) := [
  -- gql.annotation <union_op std_coll generic: three 0/1 chars> (<enum name>…) <force_optional 0|1> <type>
  --   → the text, okName of the named type, canonical text of the meaning of the declared type
  ("gql.annotation", fun
    | [o, enums, fo, t] =>
      match Dcg.Driver.Types.opts? o, enums.strs?, fo.bool?, Dcg.Driver.Graphql.gtype? t with
      | some o, some enums, some fo, some t =>
        "ok " ++ encodeStr (annotation o (fun n => enums.contains n) fo t) ++ " " ++ b01 (okName t.baseName) ++ " "
          ++ encodeStr (gqlDenote (declared fo t)).show
      | _, _, _, _ => "err args"
    | _ => "err args")
]
end Dcg.Driver.GraphqlBridge
