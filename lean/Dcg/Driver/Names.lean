import Dcg.Driver.Proto
import Dcg.Model.Names
import Dcg.Model.TypedDict
namespace Dcg.Driver.Names
open Dcg.Driver Dcg.Model.Names Dcg.Model.TypedDict Dcg.Py.Chars Dcg.Py.Ident

def kind? : SX → Option Kind
  | .atom "base" => some .base
  | .atom "pydantic" => some .pydantic
  | .atom "enum" => some .enum
  | _ => none

def optStr? : SX → Option (Option (List Char))
  | .atom "none" => some none
  | x => x.str?.map some

def pair? : SX → Option (List Char × List Char)
  | .list [a, b] => match a.str?, b.str? with
    | some a, some b => some (a, b)
    | _, _ => none
  | _ => none

/-- `(empty snake delim pfx remove capitalise noalias (aliases…))` -/
def cfg? : SX → Option Cfg
  | .list [e, sn, d, p, rm, cap, na, .list al] =>
    match e.str?, sn.bool?, optStr? d, p.str?, rm.bool?, cap.bool?, na.bool?, al.mapM pair? with
    | some e, some sn, some d, some p, some rm, some cap, some na, some al =>
      some { emptyFieldName := e, snakeCase := sn, delimiter := d, pfx := p, removePrefix := rm,
             capitalise := cap, noAlias := na, aliases := al }
    | _, _, _, _, _, _, _, _ => none
  | _ => none

def encRes (r : Res (List Char)) : String :=
  match r with
  | .ok s => "ok " ++ encodeStr s
  | .outOfFuel => "fuel"
  | .error => "error"

def encOpt (o : Option (List Char)) : String :=
  match o with
  | some s => encodeStr s
  | none => "none"

def b2s (b : Bool) : String := if b then "1" else "0"

/-- `(name|none orig|none tag)` -/
def tdField? : SX → Option TdField
  | .list [n, o, t] => match optStr? n, optStr? o, t.nat? with
    | some n, some o, some t => some { name := n, orig := o, tag := t }
    | _, _, _ => none
  | _ => none

/-- `other` | `(cls (<class>…) (<field>…))` (members as they are) | `(mk (<class>…) (<field>…))` (through the
constructor: `_validate_fields`) -/
partial def tdClass? : SX → Option TdClass
  | .atom "other" => some .other
  | .list [.atom how, .list bs, .list fs] =>
    match bs.mapM tdClass?, fs.mapM tdField? with
    | some bs, some fs =>
      if how == "cls" then some (.cls bs fs) else if how == "mk" then some (TdClass.mk' bs fs) else none
    | _, _ => none
  | _ => none

def encField (f : TdField) : String := encOpt f.name ++ "/" ++ encOpt f.orig ++ "/" ++ toString f.tag
def encEntry (e : Entry) : String := encodeStr e.1 ++ "/" ++ toString e.2
def encList (xs : List String) : String := "(" ++ " ".intercalate xs ++ ")"

def handlers : List (String × Handler) := [
  ("names.valid", fun
    | [k, c, n, ex, ign, uc] =>
      match kind? k, cfg? c, n.str?, ex.strs?, ign.bool?, uc.bool? with
      | some k, some c, some n, some ex, some ign, some uc =>
        -- the constructor first: an option vector it refuses gives no resolver object (reply `rejected`)
        match construct c with
        | none => "rejected"
        | some c => encRes (getValidName pyEnv k c n ex ign uc)
      | _, _, _, _, _, _ => "err args"
    | _ => "err args"),
  -- names.new <special_field_name_prefix as passed: hex | none> → ok <prefix as stored> | rejected
  -- (`FieldNameResolver.__init__`, the same for the three classes)
  ("names.new", fun
    | [p] =>
      match optStr? p with
      | some p =>
        match construct { pfx := storedPrefix p } with
        | none => "rejected"
        | some c => "ok " ++ encodeStr c.pfx
      | none => "err args"
    | _ => "err args"),
  ("names.validf", fun
    | [f, k, c, n, ex, ign, uc] =>
      match f.nat?, kind? k, cfg? c, n.str?, ex.strs?, ign.bool?, uc.bool? with
      | some f, some k, some c, some n, some ex, some ign, some uc =>
        encRes (getValidNameF f pyEnv k c n ex ign uc)
      | _, _, _, _, _, _, _ => "err args"
    | _ => "err args"),
  ("names.field", fun
    | [k, c, n, ex] =>
      match kind? k, cfg? c, n.str?, ex.strs? with
      | some k, some c, some n, some ex =>
        match getValidFieldNameAndAlias pyEnv k c n ex with
        | .ok (f, a) => "ok " ++ encodeStr f ++ " " ++ encOpt a
        | .outOfFuel => "fuel"
        | .error => "error"
      | _, _, _, _ => "err args"
    | _ => "err args"),
  -- names.fold kind cfg ((name 0|1) …) → ok name alias any name alias any …   (1 = boolean schema)
  ("names.fold", fun
    | [k, c, .list ps] =>
      match kind? k, cfg? c, ps.mapM (fun
        | .list [n, b] => match n.str?, b.bool? with
          | some n, some b => some (n, b)
          | _, _ => none
        | _ => none) with
      | some k, some c, some ps =>
        match foldProps pyEnv k c ps [] with
        | .ok (fs, _) => "ok" ++ String.join (fs.map fun f =>
            " " ++ encodeStr f.1.1 ++ " " ++ encOpt f.1.2 ++ " " ++ b2s f.2)
        | .outOfFuel => "fuel"
        | .error => "error"
      | _, _, _ => "err args"
    | _ => "err args"),
  ("names.tdfunc", fun
    | [.list ps] => match ps.mapM pair? with
      | some ps => "ok " ++ b2s (tdFunctional (ps.map fun p => { name := some p.1, orig := some p.2 }))
      | none => "err args"
    | _ => "err args"),
  -- names.tdclass <class> → ok <functional 0|1> (own members: name/orig/tag …) (all_fields …) (annotations of the
  -- class Python builds: key/tag …)
  ("names.tdclass", fun
    | [c] => match tdClass? c with
      | some (.cls bs fs) =>
        let c := TdClass.cls bs fs
        "ok " ++ b2s (tdFunctional fs) ++ " " ++ encList (fs.map encField) ++ " "
          ++ encList (c.allFields.map encField) ++ " " ++ encList (c.rendered.map encEntry)
      | _ => "err args"
    | _ => "err args"),
  ("names.c2s", fun
    | [s] => match s.str? with
      | some s => "ok " ++ encodeStr (camelToSnake pyEnv s)
      | none => "err args"
    | _ => "err args"),
  ("names.s2uc", fun
    | [w, d] => match w.str?, d.str? with
      | some w, some d => encRes (snakeToUpperCamel pyEnv w d)
      | _, _ => "err args"
    | _ => "err args"),
  ("ident.is", fun
    | [s] => match s.str? with
      | some s => "ok " ++ b2s (isIdentifier s) ++ " " ++ b2s (isKeyword s) ++ " " ++ b2s (isPydReserved s)
      | none => "err args"
    | _ => "err args"),
  -- per character: idStart idCont word numeric lower upper
  ("chars.class", fun
    | [s] => match s.str? with
      | some [c] => "ok " ++ b2s (isIdStart c) ++ b2s (isIdCont c) ++ b2s (isWord c) ++ b2s (isNumeric c)
          ++ " " ++ encodeStr (lower1 c) ++ " " ++ encodeStr (upper1 c)
      | _ => "err args"
    | _ => "err args")
]
end Dcg.Driver.Names
