import Dcg.Driver.Proto
import Dcg.Model.ReusePos
/-!
Line protocol for `Model.ReusePos` (position bookkeeping of Parser.__reuse_model over one module).
  reusepos.run ((id kind key) …)     kind: 0 = Enum, 1 = plain type alias, 2 = anything else
      → ok ((id base|-) …) | raise          the list after the pass; `base`: the entry is `class <id>(<base>): pass`
  reusepos.stale ((id kind key) …)   the refuted variant `passStale` (snapshot positions, enums removed at once)
      → ok ((id base|-) …) | raise
-/
namespace Dcg.Driver.ReusePos
open Dcg.Driver Dcg.Model.ReusePos

def kind? : Nat → Option Kind
  | 0 => some .enum
  | 1 => some .alias
  | 2 => some .obj
  | _ => none

def item? : SX → Option Item
  | .list [i, k, key] => do pure ⟨← i.nat?, ← kind? (← k.nat?), ← key.nat?, none⟩
  | _ => none

def items? : SX → Option (List Item)
  | .list xs => xs.mapM item?
  | _ => none

def showOut : Option (List Item) → String
  | none => "raise"
  | some l => "ok (" ++ " ".intercalate (l.map fun m => "(" ++ toString m.id ++ " " ++
      (match m.sub with | some c => toString c | none => "-") ++ ")") ++ ")"

def handlers : List (String × Handler) := [
  ("reusepos.run", fun
    | [ms] => match items? ms with
      | some ms => showOut (pass ms)
      | none => "err args"
    | _ => "err args"),
  ("reusepos.stale", fun
    | [ms] => match items? ms with
      | some ms => showOut (passStale ms)
      | none => "err args"
    | _ => "err args")
]

end Dcg.Driver.ReusePos
