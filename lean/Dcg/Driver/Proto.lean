/-
Line protocol of the model driver (DESIGN.md A.1): one request per line,
`<op> <arg> …` where an argument is an S-expression whose atoms contain no blanks or
parentheses. Strings travel as `x` followed by comma separated hexadecimal code points,
so no escaping convention of Lean, Python or JSON can differ between the two sides.
-/
namespace Dcg.Driver

inductive SX where
  | atom (s : String)
  | list (xs : List SX)
  deriving Repr, Inhabited

partial def SX.toString : SX → String
  | .atom s => s
  | .list xs => "(" ++ " ".intercalate (xs.map SX.toString) ++ ")"

/-- tokenise: parentheses are tokens, blanks separate -/
def tokens (s : String) : List String :=
  let step (st : List String × String) (c : Char) : List String × String :=
    let (acc, cur) := st
    let flush := if cur.isEmpty then acc else cur :: acc
    if c = '(' then ("(" :: flush, "")
    else if c = ')' then (")" :: flush, "")
    else if c = ' ' ∨ c = '\t' ∨ c = '\r' ∨ c = '\n' then (flush, "")
    else (acc, cur.push c)
  let (acc, cur) := s.toList.foldl step ([], "")
  (if cur.isEmpty then acc else cur :: acc).reverse

/-- parse a token list into a sequence of S-expressions (stack machine, total) -/
def parseSeq (toks : List String) : Option (List SX) :=
  let rec go (toks : List String) (stack : List (List SX)) : Option (List SX) :=
    match toks with
    | [] => match stack with
      | [top] => some top.reverse
      | _ => none
    | "(" :: rest => go rest ([] :: stack)
    | ")" :: rest => match stack with
      | top :: parent :: stack' => go rest ((SX.list top.reverse :: parent) :: stack')
      | _ => none
    | t :: rest => match stack with
      | top :: stack' => go rest ((SX.atom t :: top) :: stack')
      | [] => none
  go toks [[]]

def hexDigit (c : Char) : Option Nat :=
  if '0' ≤ c ∧ c ≤ '9' then some (c.toNat - '0'.toNat)
  else if 'a' ≤ c ∧ c ≤ 'f' then some (c.toNat - 'a'.toNat + 10)
  else if 'A' ≤ c ∧ c ≤ 'F' then some (c.toNat - 'A'.toNat + 10)
  else none

def parseHex (s : String) : Option Nat :=
  if s.isEmpty then none
  else s.toList.foldl (fun acc c => match acc, hexDigit c with
    | some a, some d => some (a * 16 + d)
    | _, _ => none) (some 0)

/-- `x41,42` ↦ `['A','B']`; `x` ↦ `[]` -/
def decodeStr (s : String) : Option (List Char) :=
  match s.toList with
  | 'x' :: [] => some []
  | 'x' :: body =>
    (String.ofList body |>.splitOn ",").foldr (fun p acc => match parseHex p, acc with
      | some n, some cs => some (Char.ofNat n :: cs)
      | _, _ => none) (some [])
  | _ => none

def hexOfNat (n : Nat) : String := String.ofList (Nat.toDigits 16 n)

def encodeStr (cs : List Char) : String :=
  "x" ++ ",".intercalate (cs.map (fun c => hexOfNat c.toNat))

def SX.str? : SX → Option (List Char)
  | .atom s => decodeStr s
  | _ => none

def SX.nat? : SX → Option Nat
  | .atom s => s.toNat?
  | _ => none

def SX.bool? : SX → Option Bool
  | .atom "1" => some true
  | .atom "0" => some false
  | .atom "true" => some true
  | .atom "false" => some false
  | _ => none

def SX.strs? : SX → Option (List (List Char))
  | .list xs => xs.mapM SX.str?
  | _ => none

def encodeOptPair (r : Option (List Char × List Char)) : String :=
  match r with
  | none => "none"
  | some (a, b) => "ok " ++ encodeStr a ++ " " ++ encodeStr b

abbrev Handler := List SX → String

end Dcg.Driver
