import Dcg.Driver.Proto
import Dcg.Driver.Names
import Dcg.Model.Enum
namespace Dcg.Driver.Enum
open Dcg.Driver Dcg.Driver.Names Dcg.Model.Names Dcg.Model.Enum

def int? : SX → Option Int
  | .atom s => s.toInt?
  | _ => none

/-- `(s x41)` `(i -5)` `(f x31,2e,30 1)` `(f x31,2e,35 none)` `(b 1)` `n` -/
def jval? : SX → Option JVal
  | .atom "n" => some .null
  | .list [.atom "s", x] => x.str?.map .str
  | .list [.atom "i", x] => (int? x).map .int
  | .list [.atom "f", t, .atom "none"] => t.str?.map (.float · none)
  | .list [.atom "f", t, x] => match t.str?, int? x with
    | some t, some i => some (.float t (some i))
    | _, _ => none
  | .list [.atom "b", x] => x.bool?.map .bool
  | _ => none

def jvals? : SX → Option (List JVal)
  | .list xs => xs.mapM jval?
  | _ => none

def encJ : JVal → String
  | .str s => "s:" ++ encodeStr s
  | .int i => "i:" ++ toString i
  | .float t none => "f:" ++ encodeStr t ++ ":none"
  | .float t (some i) => "f:" ++ encodeStr t ++ ":" ++ toString i
  | .bool b => "b:" ++ b2s b
  | .null => "n"

def encD : Default → String
  | .lit t => "lit:" ++ encodeStr t
  | .raw v => "raw:" ++ encJ v

def obj? (ty vs vn : SX) : Option EnumObj :=
  match optStr? ty, jvals? vs, vn.strs? with
  | some ty, some vs, some vn => some { ty := ty, values := vs, varnames := vn }
  | _, _, _ => none

def mode? : SX → Option LiteralMode
  | .atom "off" => some .off
  | .atom "one" => some .one
  | .atom "all" => some .all
  | _ => none

/-- `(v repr)` -/
def valRepr? : SX → Option (JVal × List Char)
  | .list [v, r] => match jval? v, r.str? with
    | some v, some r => some (v, r)
    | _, _ => none
  | _ => none

/-- `(alias|none s (v repr))` or `(alias|none l (v repr) (v repr) …)` -/
def step? (enumName : List Char) (ms : List Member) : SX → Option Step
  | .list [a, .atom "s", vr] => match optStr? a, valRepr? vr with
    | some a, some (v, r) => some ⟨enumName, ms, a, .scalar v r⟩
    | _, _ => none
  | .list (a :: .atom "l" :: vrs) => match optStr? a, vrs.mapM valRepr? with
    | some a, some vs => some ⟨enumName, ms, a, .list vs⟩
    | _, _ => none
  | _ => none

def encText : Text → String
  | .unchanged => "u"
  | .one t => "one " ++ encodeStr t
  | .many ts => "many " ++ " ".intercalate (ts.map encodeStr)

def handlers : List (String × Handler) := [
  -- enum.parse cfg ty (values) (varnames) → ok <nullable> name default name default …
  ("enum.parse", fun
    | [c, ty, vs, vn] => match cfg? c, obj? ty vs vn with
      | some c, some o => match parseEnum pyEnv c o with
        | .ok (ms, nullable) => "ok " ++ b2s nullable ++
            String.join (ms.map fun m => " " ++ encodeStr m.1 ++ " " ++ encD m.2)
        | .outOfFuel => "fuel"
        | .error => "error"
      | _, _ => "err args"
    | _ => "err args"),
  -- what Python reads back from the rendered members, and what list(EnumClass) keeps
  ("enum.values", fun
    | [c, ty, vs, vn] => match cfg? c, obj? ty vs vn with
      | some c, some o => match parseEnum pyEnv c o with
        | .ok (ms, _) =>
          match ms.mapM (fun m => evalDefault m.2) with
          | some vals => "ok " ++ " ".intercalate (vals.map encJ) ++ " | " ++
              " ".intercalate ((effectiveValues vals).map encJ)
          | none => "unreadable"
        | .outOfFuel => "fuel"
        | .error => "error"
      | _, _ => "err args"
    | _ => "err args"),
  -- enum.default cfg ty (values) (varnames) value repr → ok name | none
  ("enum.find", fun
    | [c, ty, vs, vn, v, r] => match cfg? c, obj? ty vs vn, jval? v, r.str? with
      | some c, some o, some v, some r => match parseEnum pyEnv c o with
        | .ok (ms, _) => match findMember ms v r with
          | some n => "ok " ++ encodeStr n
          | none => "none"
        | .outOfFuel => "fuel"
        | .error => "error"
      | _, _, _, _ => "err args"
    | _ => "err args"),
  ("enum.default", fun
    | [c, ty, vs, vn, v, r] => match cfg? c, obj? ty vs vn, jval? v, r.str? with
      | some c, some o, some v, some r => match parseEnum pyEnv c o with
        | .ok (ms, _) => match defaultMember ms v r with
          | some n => "ok " ++ encodeStr n
          | none => "none"
        | .outOfFuel => "fuel"
        | .error => "error"
      | _, _, _, _ => "err args"
    | _ => "err args"),
  -- enum.setdefaults cfg ty (values) (varnames) enumName (step …) → text | text | …   (runSteps from the empty heap,
  -- every default rendered in the final heap)
  ("enum.setdefaults", fun
    | [c, ty, vs, vn, en, .list steps] => match cfg? c, obj? ty vs vn, en.str? with
      | some c, some o, some en => match parseEnum pyEnv c o with
        | .ok (ms, _) => match steps.mapM (step? en ms) with
          | some ss =>
            let r := runSteps [] ss
            " | ".intercalate ((r.2.map (renderOut r.1)).map encText)
          | none => "err args"
        | .outOfFuel => "fuel"
        | .error => "error"
      | _, _, _ => "err args"
    | _ => "err args"),
  -- enum.gql cfg (names) → ok name default name default …   (GraphQLParser.parse_enum: the GraphQL call site)
  ("enum.gql", fun
    | [c, ns] => match cfg? c, ns.strs? with
      | some c, some names => match parseGraphqlEnum pyEnv c names with
        | .ok ms => "ok" ++ String.join (ms.map fun m => " " ++ encodeStr m.1 ++ " " ++ encD m.2)
        | .outOfFuel => "fuel"
        | .error => "error"
      | _, _ => "err args"
    | _ => "err args"),
  ("enum.literal", fun
    | [m, ty, vs] => match mode? m, obj? ty vs (.list []) with
      | some m, some o => "ok " ++ b2s (shouldParseAsLiteral m o) ++
          String.join ((parseEnumAsLiteral o).map fun v => " " ++ encJ v)
      | _, _ => "err args"
    | _ => "err args")
]
end Dcg.Driver.Enum
