import Dcg.Driver.Proto
import Dcg.Model.Sort
import Dcg.Model.SortPost
import Dcg.Model.Repoint
/-!
Line protocol for `Model.Sort`.
  sort.data <rc> ((path (refs…) (bases…)) …)      → ok (unresolved…) (sorted…) (upd…) | err <kind>
  sort.bubble <fuel> ((path (refs…) (bases…)) …)  → ok <passes> (paths…) | none
  sort.models <fuel> (imported…) ((name (bases…)) …) → ok (names…) | none      (names as x41,42)
  sort.stack <hatch 0|1> <stack> <rc> ((path (refs…) (bases…)) …) → as sort.data | err recursionError
  sort.reuse ((path key) …) (upd…) → ok ((path reuse01 base|-) …) (upd as p or p/r …) (footer …)
  repoint.run ((ref (users…)) …) ((user ref|-) …) (op…) (refs…) (users…) → ok ((ref (users…)) …) ((user ref|-) …) | raise
      op = (rp dup target (users that take part…)) | (live dup target (users…)) | (set user ref|-)
-/
namespace Dcg.Driver.Sort
open Dcg.Driver Dcg.Model.Sort

def nats? : SX → Option (List Nat)
  | .list xs => xs.mapM SX.nat?
  | _ => none

def model? : SX → Option Model
  | .list [p, r, b] => do
    let p ← p.nat?
    let r ← nats? r
    let b ← nats? b
    pure ⟨p, r, b⟩
  | _ => none

def models? : SX → Option (List Model)
  | .list xs => xs.mapM model?
  | _ => none

def name? (s : SX) : Option (List Nat) := (s.str?).map (·.map Char.toNat)

def names? : SX → Option (List (List Nat))
  | .list xs => xs.mapM name?
  | _ => none

def named? : SX → Option Named
  | .list [n, b] => do
    let n ← name? n
    let b ← names? b
    pure ⟨n, b⟩
  | _ => none

def nameds? : SX → Option (List Named)
  | .list xs => xs.mapM named?
  | _ => none

def showNats (xs : List Nat) : String := "(" ++ " ".intercalate (xs.map toString) ++ ")"
def showPaths (ms : List Model) : String := showNats (ms.map (·.path))

/-- number of passes the bubble needs (the pass that confirms the fix-point included) -/
def bubbleCount : Nat → Nat → List Model → Option (Nat × List Model)
  | 0, _, _ => none
  | f + 1, k, l =>
    let l' := bubblePass l
    if l' = l then some (k + 1, l) else bubbleCount f (k + 1) l'

def rpath? : SX → Option Rendered
  | .list [p, k] => do
    let p ← p.nat?
    let k ← k.nat?
    pure ⟨(p, false), k, none⟩
  | _ => none

def showRPath (p : RPath) : String := toString p.1 ++ (if p.2 then "r" else "")
def showRPaths (ps : List RPath) : String := "(" ++ " ".intercalate (ps.map showRPath) ++ ")"

/-! `Model.Repoint` -/
section Repoint
open Dcg.Model.Repoint

def optNat? : SX → Option (Option Nat)
  | .atom "-" => some none
  | x => x.nat?.map some

def kidsEntry? : SX → Option (Nat × List Nat)
  | .list [r, us] => do pure (← r.nat?, ← nats? us)
  | _ => none

def refEntry? : SX → Option (Nat × Option Nat)
  | .list [u, r] => do pure (← u.nat?, ← optNat? r)
  | _ => none

def runOp (s : Store) : SX → Option (Option Store)   -- outer none: bad request; inner none: raise
  | .list [.atom "rp", d, t, m] => do
    let m ← nats? m
    pure (repoint (fun u => m.contains u) (← d.nat?) (← t.nat?) s)
  | .list [.atom "live", d, t, m] => do
    let m ← nats? m
    let d ← d.nat?
    pure (repointLive (fun u => m.contains u) d (← t.nat?) ((s.kids d).length + 1) 0 s)
  | .list [.atom "set", u, r] => do pure (replaceReference s (← u.nat?) (← optNat? r))
  | _ => none

def runOps : List SX → Store → Option (Option Store)
  | [], s => some (some s)
  | op :: ops, s => match runOp s op with
    | none => none
    | some none => some none
    | some (some s1) => runOps ops s1

def showOptNat : Option Nat → String
  | none => "-"
  | some n => toString n

def repointHandler : Handler := fun
  | [.list ks, .list rs, .list ops, showR, showU] =>
    match ks.mapM kidsEntry?, rs.mapM refEntry?, nats? showR, nats? showU with
    | some ks, some rs, some showR, some showU =>
      match runOps ops (Store.ofLists ks rs) with
      | none => "err args"
      | some none => "raise"
      | some (some s) =>
        let v := s.view showR showU
        "ok (" ++ " ".intercalate (v.1.map (fun e => "(" ++ toString e.1 ++ " " ++ showNats e.2 ++ ")")) ++ ") (" ++
          " ".intercalate (v.2.map (fun e => "(" ++ toString e.1 ++ " " ++ showOptNat e.2 ++ ")")) ++ ")"
    | _, _, _, _ => "err args"
  | _ => "err args"

end Repoint

def handlers : List (String × Handler) := [
  ("repoint.run", repointHandler),
  ("sort.stack", fun
    | [h, st, rc, ms] => match h.nat?, st.nat?, rc.nat?, models? ms with
      | some h, some st, some rc, some ms => match sortDataModelsS (h != 0) st rc ms with
        | .ok o => "ok " ++ showPaths o.unresolved ++ " " ++ showPaths o.sorted ++ " " ++ showNats o.upd
        | .error (.sorter .circularBases) => "err circularBases"
        | .error (.sorter .unresolved) => "err unresolved"
        | .error .recursionError => "err recursionError"
      | _, _, _, _ => "err args"
    | _ => "err args"),
  ("sort.reuse", fun
    | [.list ms, upd] => match ms.mapM rpath?, nats? upd with
      | some ms, some upd =>
        let u := upd.map (fun p => ((p, false) : RPath))
        let r := reusePass ms u
        "ok (" ++ " ".intercalate (r.1.map (fun m => "(" ++ showRPath m.path ++ " " ++
            (match m.reuseOf with | some c => showRPath c | none => "-") ++ ")")) ++ ") " ++
          showRPaths r.2 ++ " " ++ showRPaths (emitFooter ms u)
      | _, _ => "err args"
    | _ => "err args"),
  ("sort.data", fun
    | [rc, ms] => match rc.nat?, models? ms with
      | some rc, some ms => match sortDataModels rc ms with
        | .ok o => "ok " ++ showPaths o.unresolved ++ " " ++ showPaths o.sorted ++ " " ++ showNats o.upd
        | .error .circularBases => "err circularBases"
        | .error .unresolved => "err unresolved"
      | _, _ => "err args"
    | _ => "err args"),
  ("sort.bubble", fun
    | [f, ms] => match f.nat?, models? ms with
      | some f, some ms => match bubbleCount f 0 ms with
        | some (k, l) => "ok " ++ toString k ++ " " ++ showPaths l
        | none => "none"
      | _, _ => "err args"
    | _ => "err args"),
  ("sort.models", fun
    | [f, imp, ms] => match f.nat?, names? imp, nameds? ms with
      | some f, some imp, some ms => match sortModels imp f ms with
        | some l => "ok (" ++ " ".intercalate (l.map (fun m => encodeStr (m.name.map Char.ofNat))) ++ ")"
        | none => "none"
      | _, _, _ => "err args"
    | _ => "err args")
]
end Dcg.Driver.Sort
