import Dcg.Driver.Field
import Dcg.Model.FieldInherit
/-! Driver for the inheritance part of the C05 model: an inherited member as the subclass sees it
(field record / shape / semantics), and the class-level field-order rule of dataclasses / msgspec. -/
namespace Dcg.Driver.FieldInherit
open Dcg.Driver Dcg.Driver.Field Dcg.Model.Field

def relist? : SX → Option Relist
  | .atom "no" => some .no | .atom "owner" => some .owner | .atom "sibling" => some .sibling
  | .atom "item" => some .item | _ => none

def ivec? : List SX → Option IVec
  | [k, n, r, d, t, c, o, name, sc, rel] => do
    let v ← vec? [k, n, r, d, t, c, o, .atom "own", name, sc]
    let rel ← relist? rel
    pure ⟨v, rel⟩
  | _ => none

/-- `<key><n|a|o>`: no default / a default left as class attribute / another default -/
def decl? (s : String) : Option Decl :=
  match s.toList.reverse with
  | 'n' :: ds => (String.mk ds.reverse).toNat?.map (·, .none)
  | 'a' :: ds => (String.mk ds.reverse).toNat?.map (·, .attr)
  | 'o' :: ds => (String.mk ds.reverse).toNat?.map (·, .other)
  | _ => none

def decls? : SX → Option (List Decl)
  | .atom "-" => some []
  | .atom s => (s.splitOn ".").mapM decl?
  | _ => none

def declStr (d : Decl) : String :=
  toString d.1 ++ (match d.2 with | .none => "n" | .attr => "a" | .other => "o")

def handlers : List (String × Handler) := [
  -- field.renderi <kind> <nullsrc> <inreq> <dflt> <ty> <constr> <opts> <name> <sc> <relist>
  ("field.renderi", fun args => match ivec? args with
    | some i =>
      if !i.valid then "invalid"
      else
        let f := fromInherit i
        let key := match sortKey i.base.kind f with | none => "-" | some x => b x
        "ok " ++ irStr f ++ " key=" ++ key ++ " | " ++ shapeStr (renderI i) ++ " | " ++ semStr (semI i) ++
          " | over=" ++ b i.overridden
    | none => "err args"),
  -- field.classorder <kind> <base decls> <own decls> → ok <class can be created> <merged fields>
  ("field.classorder", fun
    | [k, bs, os] => match kind? k, decls? bs, decls? os with
      | some k, some bs, some os =>
        "ok " ++ b (classOrderOk k bs os) ++ " " ++ ".".intercalate ((mergeDecls k bs os).map declStr)
      | _, _, _ => "err args"
    | _ => "err args")
]
end Dcg.Driver.FieldInherit
