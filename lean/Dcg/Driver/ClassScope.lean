import Dcg.Driver.Proto
import Dcg.Model.ClassScope
/-!
Line protocol for Model.ClassScope.

`classscope.check <kind> (<builtin>…) <future 0|1> (<stmt>…)` ↦ `ok (<problem>…)`

* kind: `v1 | v2 | dc | td | ms`
* stmt: `(imp <name>…)` | `(cls <name> <bindsModule 0|1> (<header use>…) (<item>…))` |
        `(asg (<target>…) (<value use>…) <- | (<annotation use>…)>)` | `(ex <use>…)` | `(fn <name> <use>…)` | `(late <name read by a lambda body>…)`
* item: `(<target> (<bound>…) <- | site> <- | site> <keptDc 0|1>)`   (annotation site, value site)
* site: `((<use>…) (<name read by a lambda body>…) <expr>)`
* expr: `(n <name>)` | `l` | `(s <head> <arg>…)` | `(c <f> <arg>…)` | `(a <e>)` | `(t <e>…)` | `(o <e>…)`
* problem: `(order <n>)` | `(missing <n>)` | `(rebind <n>)` | `(hides <cls> <user> <n> <body|creation> <effect>)`

`classscope.outcome (<hidden>…) (<bound>…) <expr>` ↦ `ok <effect>`
-/
namespace Dcg.Driver.ClassScope
open Dcg.Driver Dcg.Model.ClassScope

partial def expr? : SX → Option Expr
  | .atom "l" => some .lit
  | .list [.atom "n", x] => x.str?.map .name
  | .list (.atom "s" :: h :: args) => do
    let h ← expr? h
    let args ← args.mapM expr?
    pure (.sub h args)
  | .list (.atom "c" :: f :: args) => do
    let f ← expr? f
    let args ← args.mapM expr?
    pure (.call f args)
  | .list [.atom "a", e] => (expr? e).map .attr
  | .list (.atom "t" :: es) => (es.mapM expr?).map .tuple
  | .list (.atom "o" :: es) => (es.mapM expr?).map .op
  | _ => none

def site? : SX → Option Site
  | .list [uses, late, e] => do
    let u ← uses.strs?
    let l ← late.strs?
    let e ← expr? e
    pure ⟨u, l, e⟩
  | _ => none

def optSite? : SX → Option (Option Site)
  | .atom "-" => some none
  | x => (site? x).map some

def item? : SX → Option Item
  | .list [t, b, a, v, k] => do
    let t ← t.str?
    let b ← b.strs?
    let a ← optSite? a
    let v ← optSite? v
    let k ← k.bool?
    pure { target := t, binds := b, ann := a, value := v, keptDc := k }
  | _ => none

def stmt? : SX → Option Stmt
  | .list (.atom "imp" :: ns) => (ns.mapM SX.str?).map .imp
  | .list [.atom "cls", n, bm, h, .list items] => do
    let n ← n.str?
    let bm ← bm.bool?
    let h ← h.strs?
    let items ← items.mapM item?
    pure (.cls { name := n, bindsModule := bm, header := h, items := items })
  | .list [.atom "asg", ts, v, a] => do
    let ts ← ts.strs?
    let v ← v.strs?
    let a ← (match a with
      | .atom "-" => some none
      | x => x.strs?.map some)
    pure (.assign ts v a)
  | .list (.atom "ex" :: us) => (us.mapM SX.str?).map .expr
  | .list (.atom "fn" :: n :: us) => do
    let n ← n.str?
    let us ← us.mapM SX.str?
    pure (.fn n us)
  | .list (.atom "late" :: us) => (us.mapM SX.str?).map .late
  | _ => none

def kind? : SX → Option Kind
  | .atom "v1" => some .pydV1
  | .atom "v2" => some .pydV2
  | .atom "dc" => some .dataclass
  | .atom "td" => some .typedDict
  | .atom "ms" => some .msgspec
  | _ => none

def effS : Outcome → String
  | .ok => "ok"
  | .passedOn => "passed_on"
  | .nameError => "name_error"
  | .exception => "exception"
  | .valueDependent => "value_dependent"

def problemS : Problem → String
  | .order n => "(order " ++ encodeStr n ++ ")"
  | .missing n => "(missing " ++ encodeStr n ++ ")"
  | .rebind n => "(rebind " ++ encodeStr n ++ ")"
  | .hides c u n ph eff =>
    "(hides " ++ encodeStr c ++ " " ++ encodeStr u ++ " " ++ encodeStr n ++ " " ++
      (match ph with | .body => "body" | .creation => "creation") ++ " " ++ effS eff ++ ")"

def handlers : List (String × Handler) := [
  ("classscope.check", fun
    | [k, b, f, .list stmts] => match kind? k, b.strs?, f.bool?, stmts.mapM stmt? with
      | some k, some b, some f, some stmts =>
        "ok (" ++ " ".intercalate ((problems ⟨k, b⟩ ⟨f, stmts⟩).map problemS) ++ ")"
      | _, _, _, _ => "err args"
    | _ => "err args"),
  ("classscope.outcome", fun
    | [h, b, e] => match h.strs?, b.strs?, expr? e with
      | some h, some b, some e => "ok " ++ effS (outcome (fun n => decide (n ∈ h)) (fun n => decide (n ∈ b)) e)
      | _, _, _ => "err args"
    | _ => "err args")
]
end Dcg.Driver.ClassScope
