import Dcg.Driver.Proto
import Dcg.Model.Inherit
/-
Driver for `Dcg.Model.Inherit` (C04: `required` naming an inherited member).
A table travels as `((<class> ((<original name> <required 0|1> <placeholder 0|1> <tag>)…) (<base>…))…)`.
The fuel is not an argument: it is the bound of `findField_terminates` (`queueCost` with the number of classes as
rank bound), so that every run also checks that the bound suffices.
-/
namespace Dcg.Driver.Inherit
open Dcg.Driver Dcg.Model.Inherit

def fld? : SX → Option Fld
  | .list [n, r, p, t] => match n.str?, r.bool?, p.bool?, t.nat? with
    | some n, some r, some p, some t => some ⟨n, r, p, t⟩
    | _, _, _, _ => none
  | _ => none

def cls? : SX → Option (Name × Cls)
  | .list [n, .list fs, bs] => match n.str?, fs.mapM fld?, bs.strs? with
    | some n, some fs, some bs => some (n, ⟨fs, bs⟩)
    | _, _, _ => none
  | _ => none

def table? : SX → Option Table
  | .list cs => cs.mapM cls?
  | _ => none

def showFld (f : Fld) : String :=
  "(" ++ encodeStr f.name ++ " " ++ (if f.required then "1" else "0") ++ " " ++
    (if f.placeholder then "1" else "0") ++ " " ++ toString f.tag ++ ")"

def showFound : Found → String
  | .found c f => "found " ++ encodeStr c ++ " " ++ showFld f
  | .absent => "absent"
  | .outOfFuel => "fuel"

/-- the fuel of `findField_terminates` for a work list (rank bound = number of classes) -/
def fuelFor (T : Table) (q : List Name) : Nat := queueCost T T.length q

/-- the largest fuel any lookup of the pass can need -/
def passFuel (T : Table) : Nat := (T.map (fun e => fuelFor T (bases T e.1))).foldl max 0

def handlers : List (String × Handler) := [
  -- inh.find <table> <class> <name>   (`_find_field(name, _find_base_classes(class))`)
  ("inh.find", fun
    | [t, c, n] => match table? t, c.str?, n.str? with
      | some T, some c, some n => "ok " ++ showFound (findField T n (fuelFor T (bases T c)) (bases T c))
      | _, _, _ => "err args"
    | _ => "err args"),
  -- inh.pass <table> <order>   (`__override_required_field` over the classes in that order) → the fields per class
  ("inh.pass", fun
    | [t, o] => match table? t, o.strs? with
      | some T, some order =>
        let T' := overrideAll (passFuel T) T order
        "ok (" ++ " ".intercalate (T'.map (fun e => "(" ++ encodeStr e.1 ++ " " ++
          " ".intercalate (e.2.fields.map showFld) ++ ")")) ++ ")"
      | _, _ => "err args"
    | _ => "err args")
]
end Dcg.Driver.Inherit
