import Dcg.Driver.Proto
import Dcg.Model.Bounds
import Dcg.Gen.Formats
namespace Dcg.Driver.Bounds
open Dcg.Driver Dcg.Model.Bounds

/-- `-` (absent) | `(n 12)` | `(b 1)` -/
def excl? : SX → Option (Option (Excl Int))
  | .atom "-" => some none
  | .list [.atom "n", .atom s] => s.toInt?.map (fun i => some (.num i))
  | .list [.atom "b", x] => x.bool?.map (fun b => some (.flag b))
  | _ => none

def num? : SX → Option (Option Int)
  | .atom "-" => some none
  | .list [.atom "n", .atom s] => s.toInt?.map some
  | _ => none

def encNum : Option Int → String
  | none => "-"
  | some i => "(n " ++ toString i ++ ")"

def encExcl : Option (Excl Int) → String
  | none => "-"
  | some (.num i) => "(n " ++ toString i ++ ")"
  | some (.flag b) => "(b " ++ (if b then "1" else "0") ++ ")"

def body? : SX → Option Body
  | .atom "empty" => some .empty
  | .atom "keywords" => some .keywordsOnly
  | .atom "typed" => some .typed
  | .atom "notmapping" => some .notAMapping
  | _ => none

def entry? : SX → Option (String × Body)
  | .list [n, b] => match n.str?, body? b with
    | some n, some b => some (String.ofList n, b)
    | _, _ => none
  | _ => none

def containerEntries? : SX → Option (String × List (String × Body))
  | .list (k :: es) => match k.str?, es.mapM entry? with
    | some k, some es => some (String.ofList k, es)
    | _, _ => none
  | _ => none

def handlers : List (String × Handler) := [
  ("bounds.normalise", fun
    | [mn, mx, emn, emx] => match num? mn, num? mx, excl? emn, excl? emx with
      | some mn, some mx, some emn, some emx =>
        match normalise ({ minimum := mn, maximum := mx, exclusiveMinimum := emn, exclusiveMaximum := emx } : Rec Int) with
        | none => "keyerror"
        | some r => "ok " ++ encNum r.minimum ++ " " ++ encNum r.maximum ++ " "
            ++ encExcl r.exclusiveMinimum ++ " " ++ encExcl r.exclusiveMaximum
      | _, _, _, _ => "err args"
    | _ => "err args"),
  -- defs.doc (x64,65,66 (xNAME body) …) … : one item per container of the document (root key, entries in order);
  -- reply: the (container path, name) pairs that become definitions, in walk order, or `error`
  ("defs.doc", fun cs => match cs.mapM containerEntries? with
    | some cs => match walkDoc cs containerPaths with
      | some ws => "ok " ++ " ".intercalate (ws.map (fun w => "(" ++ encodeStr w.1.toList ++ " " ++ encodeStr w.2.toList ++ ")"))
      | none => "error"
    | none => "err args"),
  -- defs.walk (xNAME empty|keywords|typed|notmapping) … : names handed to parse_raw_obj, or `error`
  ("defs.walk", fun es => match es.mapM entry? with
    | some es => match walkNamed es with
      | some ns => "ok " ++ " ".intercalate (ns.map (fun s => encodeStr s.toList))
      | none => "error"
    | none => "err args")
]
end Dcg.Driver.Bounds
