import Dcg.Driver.Proto
import Dcg.Model.ResolverWalk
import Dcg.Gen.ResolverTables
/-!
`res.walk <tree>` runs `Model.ResolverWalk.collect` over the keyword list read from the source
(`Gen.ResolverTables.parseRefDescends`) and replies `ok (r…)`: the numbers of the references the walk hands
to `resolve_ref`, in order. `res.walkall <tree>` replies every reference written in the tree.
A tree is a list of entries `(r <n>)` / `(s <keyword> <tree>)`.
-/
namespace Dcg.Driver.ResolverWalk
open Dcg.Driver Dcg.Model.ResolverWalk

partial def tree? : List SX → Option Sch
  | [] => some .nil
  | .list [.atom "r", n] :: rest => do
    let n ← n.nat?
    let rest ← tree? rest
    pure (.ref n rest)
  | .list [.atom "s", kw, .list child] :: rest => do
    let kw ← kw.str?
    let child ← tree? child
    let rest ← tree? rest
    pure (.sub kw child rest)
  | _ => none

def showNats (xs : List Nat) : String := "ok (" ++ " ".intercalate (xs.map toString) ++ ")"

def handlers : List (String × Handler) := [
  ("res.walk", fun
    | [.list t] => match tree? t with
      | some t => showNats (collect Dcg.Gen.ResolverTables.parseRefDescends t)
      | none => "err args"
    | _ => "err args"),
  ("res.walkall", fun
    | [.list t] => match tree? t with
      | some t => showNats (allRefs t)
      | none => "err args"
    | _ => "err args")
]
end Dcg.Driver.ResolverWalk
