import Dcg.Driver.Proto
import Dcg.Py.Lex
import Dcg.Py.LexState
namespace Dcg.Driver.Lex
open Dcg.Driver Dcg.Py.Lex

def quote? : SX → Option Char
  | .atom "sq" => some '\''
  | .atom "dq" => some '"'
  | _ => none

def two (f : Char → List Char → Option (List Char × List Char)) : Handler
  | [q, s] => match quote? q, s.str? with
    | some q, some s => encodeOptPair (f q s)
    | _, _ => "err args"
  | _ => "err args"

def handlers : List (String × Handler) := [
  ("lex.lit", two lit),
  ("lex.litraw", two litRaw),
  ("lex.scanlong", two scanLong),
  ("lex.state", fun
    | [.atom st, s] => match Dcg.Py.LexState.St.ofName st, s.str? with
      | some st, some s => "ok " ++ (Dcg.Py.LexState.lexState st s).name
      | _, _ => "err args"
    | _ => "err args"),
  ("lex.comment", fun
    | [s] => match s.str? with
      | some s => let p := comment s; "ok " ++ encodeStr p.1 ++ " " ++ encodeStr p.2
      | none => "err args"
    | _ => "err args")
]
end Dcg.Driver.Lex
