import Dcg.Driver.Proto
import Dcg.Model.PathNorm
namespace Dcg.Driver.PathNorm
open Dcg.Driver Dcg.Model.PathNorm

def handlers : List (String × Handler) := [
  /- pathnorm.normalise <home> <cwd> <value> → none | ok <text> : str(Path(value).expanduser().resolve()) -/
  ("pathnorm.normalise", fun
    | [h, c, v] => match h.str?, c.str?, v.str? with
      | some h, some c, some v => match normalise h c v with
        | some r => "ok " ++ encodeStr r
        | none => "none"
      | _, _, _ => "err args"
    | _ => "err args")
]
end Dcg.Driver.PathNorm
