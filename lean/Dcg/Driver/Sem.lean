import Dcg.Driver.Proto
import Dcg.Driver.Constraints
import Dcg.Sem.Pyd
import Dcg.Model.Names
import Dcg.Model.Siblings
/-
Driver for the semantic model (C03/C04/C14): `validJ`, `tr` (IR dump), `acceptsTy`.
Schemas, JSON values and the regular-expression oracle travel as S-expressions (see vlib/semlean.py).
-/
namespace Dcg.Driver.Sem
open Dcg.Driver Dcg.Sem Dcg.Sem.Pyd Dcg.Model.Constraints Dcg.Model.Translate
open Dcg.Driver.Constraints (style? int? showStyle)

def dec? : List SX → Option Dec
  | [m, e] => match int? m, e.nat? with
    | some m, some e => some ⟨m, e⟩
    | _, _ => none
  | _ => none

partial def json? : SX → Option Json
  | .atom "null" => some .null
  | .list [.atom "b", b] => b.bool?.map .bool
  | .list (.atom "n" :: rest) => (dec? rest).map .num
  | .list [.atom "s", s] => s.str?.map .str
  | .list (.atom "a" :: xs) => (xs.mapM json?).map .arr
  | .list (.atom "o" :: kvs) =>
    (kvs.mapM (fun (kv : SX) => match kv with
      | .list [k, v] => match k.str?, json? v with
        | some k, some v => some (k, v)
        | _, _ => none
      | _ => none)).map .obj
  | _ => none

def atom? : SX → Option Atom
  | .list [.atom "s", s] => s.str?.map .str
  | .list [.atom "i", i] => (int? i).map .int
  | _ => none

def optNat? : SX → Option (Option Nat)
  | .atom "none" => some none
  | x => x.nat?.map some

def bounds? (xs : List SX) : Option Bounds :=
  xs.foldlM (fun (b : Bounds) x => match x with
    | .list (.atom "min" :: r) => (dec? r).map (fun d => { b with minimum := some d })
    | .list (.atom "max" :: r) => (dec? r).map (fun d => { b with maximum := some d })
    | .list (.atom "xmin" :: r) => (dec? r).map (fun d => { b with exclMin := some d })
    | .list (.atom "xmax" :: r) => (dec? r).map (fun d => { b with exclMax := some d })
    | .list (.atom "mul" :: r) => (dec? r).map (fun d => { b with multipleOf := some d })
    | .list [.atom "minlen", n] => n.nat?.map (fun n => { b with minLength := some n })
    | .list [.atom "maxlen", n] => n.nat?.map (fun n => { b with maxLength := some n })
    | .list [.atom "pat", p] => p.str?.map (fun p => { b with pattern := some p })
    | _ => none) {}

def sty? : SX → Option STy
  | .atom "integer" => some .integer
  | .atom "number" => some .number
  | .atom "string" => some .string
  | .atom "boolean" => some .boolean
  | _ => none

def addl? : SX → Option Addl
  | .atom "absent" => some .absent
  | .atom "allow" => some .allow
  | .atom "forbid" => some .forbid
  | _ => none

partial def schema? : SX → Option Schema
  | .atom "any" => some .any
  | .atom "null" => some .null
  | .list [.atom "scalar", ty, n, .list (.atom "bounds" :: bs)] =>
    match sty? ty, n.bool?, bounds? bs with
    | some ty, some n, some b => some (.scalar ty n b)
    | _, _, _ => none
  | .list (.atom "enum" :: xs) => (xs.mapM atom?).map .enum
  | .list [.atom "const", a] => (atom? a).map .const
  | .list [.atom "array", it, mn, mx] =>
    match schema? it, optNat? mn, optNat? mx with
    | some it, some mn, some mx => some (.array it mn mx)
    | _, _, _ => none
  | .list [.atom "object", .list ps, .list req, ad] =>
    match ps.mapM (fun (p : SX) => match p with
        | .list [k, s] => match k.str?, schema? s with
          | some k, some s => some (k, s)
          | _, _ => none
        | _ => none), req.mapM SX.str?, addl? ad with
    | some ps, some req, some ad => some (.object ps req ad)
    | _, _, _ => none
  | .list [.atom "dict", s] => (schema? s).map .dict
  | .list [.atom "ndict", s] => (schema? s).map .ndict
  | .list [.atom "ref", n] => n.str?.map .ref
  | .list (.atom "anyOf" :: xs) => (xs.mapM schema?).map .anyOf
  | .list (.atom "oneOf" :: xs) => (xs.mapM schema?).map .oneOf
  -- (sib (bounds …) (anyOf|oneOf …)): a combination with sibling keywords = the combination of the members with
  -- the keywords merged in (`Dcg.Model.Translate.distribute`)
  | .list [.atom "sib", .list (.atom "bounds" :: bs), u] =>
    match bounds? bs, schema? u with
    | some b, some (.anyOf alts) => some (.anyOf (distribute b alts))
    | some b, some (.oneOf alts) => some (.oneOf (distribute b alts))
    | _, _ => none
  | .list [.atom "allOf", .list refs, .list ps, .list req, .list xreq] =>
    match refs.mapM SX.str?, ps.mapM (fun (p : SX) => match p with
        | .list [k, s] => match k.str?, schema? s with
          | some k, some s => some (k, s)
          | _, _ => none
        | _ => none), req.mapM SX.str?, xreq.mapM SX.str? with
    | some refs, some ps, some req, some xreq => some (.allOf refs ps req xreq)
    | _, _, _, _ => none
  -- (disc <oneOf:0|1> <prop> (<ref>…) ((<tag> <ref>)…))
  | .list [.atom "disc", one, prop, .list refs, .list mp] =>
    match one.bool?, prop.str?, refs.mapM SX.str?, mp.mapM (fun (e : SX) => match e with
        | .list [k, r] => match k.str?, r.str? with
          | some k, some r => some (k, r)
          | _, _ => none
        | _ => none) with
    | some one, some prop, some refs, some mp => some (.disc one prop refs mp)
    | _, _, _, _ => none
  | _ => none

def defs? : SX → Option Defs
  | .list ps => ps.mapM (fun (p : SX) => match p with
    | .list [k, s] => match k.str?, schema? s with
      | some k, some s => some (k, s)
      | _, _ => none
    | _ => none)
  | _ => none

/-- the regular-expression oracle as a finite table `((pattern string 0|1)…)`; a pair that is
not listed does not match -/
def regex? : SX → Option Regex
  | .list rows =>
    (rows.mapM (fun (r : SX) => match r with
      | .list [p, s, b] => match p.str?, s.str?, b.bool? with
        | some p, some s, some b => some (p, s, b)
        | _, _, _ => none
      | _ => none)).map (fun (tab : List (List Char × List Char × Bool)) => fun p s => tab.any (fun r => r.1 == p && r.2.1 == s && r.2.2))
  | _ => none

def opts? : SX → Option Opts
  | .atom "contype" => some {}
  | .atom "field" => some { fieldConstraints := true }
  | .atom "annotated" => some { fieldConstraints := true, useAnnotated := true }
  | _ => none

def ctx? : SX → Option Ctx
  | .atom "top" => some .top
  | .atom "plain" => some .plain
  | .atom "item" => some (.item false)
  | _ => none

/-! dumps -/
def showDec (d : Dec) : String := toString d.m ++ " " ++ toString d.e

def showAtom : Atom → String
  | .str s => "(s " ++ encodeStr s ++ ")"
  | .int i => "(i " ++ toString i ++ ")"

def showCons (c : Cons) : String :=
  let f (k : String) (v : Option String) : List String := match v with
    | some s => ["(" ++ k ++ " " ++ s ++ ")"]
    | none => []
  "(cons" ++ String.join ((
    f "ge" (c.ge.map showDec) ++ f "gt" (c.gt.map showDec) ++ f "le" (c.le.map showDec) ++
    f "lt" (c.lt.map showDec) ++ f "multiple_of" (c.multipleOf.map showDec) ++
    f "min_length" (c.minLength.map toString) ++ f "max_length" (c.maxLength.map toString) ++
    f "min_items" (c.minItems.map toString) ++ f "max_items" (c.maxItems.map toString) ++
    f "regex" (c.regex.map encodeStr) ++ f "pattern" (c.pattern.map encodeStr)).map (" " ++ ·)) ++ ")"

def showSTy : STy → String
  | .integer => "integer" | .number => "number" | .string => "string" | .boolean => "boolean"

def showExtra : Extra → String
  | .unset => "unset" | .allow => "allow" | .forbid => "forbid"

partial def showTy : Ty → String
  | .any => "any"
  | .null => "null"
  | .scalar p kw => "(scalar " ++ showSTy p ++ " " ++ showCons kw ++ ")"
  | .const a => "(const " ++ showAtom a ++ ")"
  | .enumCls vals => "(enum" ++ String.join (vals.map (" " ++ showAtom ·)) ++ ")"
  | .list t => "(list " ++ showTy t ++ ")"
  | .dict t => "(dict " ++ showTy t ++ ")"
  | .model fields extra =>
    "(model " ++ showExtra extra ++ String.join (fields.map (fun f =>
      " (field " ++ encodeStr f.1 ++ " " ++ (if f.2.1 then "1" else "0") ++ " " ++ showCons f.2.2.1 ++ " " ++
        showTy f.2.2.2 ++ ")")) ++ ")"
  | .derived bases fields extra =>
    "(derived (" ++ " ".intercalate (bases.map encodeStr) ++ ") " ++ showExtra extra ++
      String.join (fields.map (fun f =>
        " (field " ++ encodeStr f.1 ++ " " ++ (if f.2.1 then "1" else "0") ++ " " ++ showCons f.2.2.1 ++ " " ++
          showTy f.2.2.2 ++ ")")) ++ ")"
  | .root c t => "(root " ++ showCons c ++ " " ++ showTy t ++ ")"
  | .ref n => "(ref " ++ encodeStr n ++ ")"
  | .opt t => "(opt " ++ showTy t ++ ")"
  | .union ts => "(union" ++ String.join (ts.map (" " ++ showTy ·)) ++ ")"
  | .tagged prop bs =>
    "(tagged " ++ encodeStr prop ++ String.join (bs.map (fun b =>
      " ((" ++ " ".intercalate (b.1.map showAtom) ++ ") " ++ encodeStr b.2 ++ ")")) ++ ")"

partial def showJson : Json → String
  | .null => "null"
  | .bool b => "(b " ++ (if b then "1" else "0") ++ ")"
  | .num d => "(n " ++ toString d.m ++ " " ++ toString d.e ++ ")"
  | .str s => "(s " ++ encodeStr s ++ ")"
  | .arr xs => "(a" ++ String.join (xs.map (" " ++ showJson ·)) ++ ")"
  | .obj kvs => "(o" ++ String.join (kvs.map (fun kv => " (" ++ encodeStr kv.1 ++ " " ++ showJson kv.2 ++ ")")) ++ ")"

def showTri : Tri → String
  | .accept => "accept" | .reject => "reject" | .laxZone => "lax"

def handlers : List (String × Handler) := [
  -- sem.valid <fuel> <regex-table> <defs> <schema> <json>
  ("sem.valid", fun
    | [f, re, ds, s, v] => match f.nat?, regex? re, defs? ds, schema? s, json? v with
      | some f, some re, some ds, some s, some v => "ok " ++ toString (validJ re f ds s v)
      | _, _, _, _, _ => "err args"
    | _ => "err args"),
  -- sem.validn <fuel> <regex-table> <defs> <schema> <json>   (validity up to null for a non-required member)
  ("sem.validn", fun
    | [f, re, ds, s, v] => match f.nat?, regex? re, defs? ds, schema? s, json? v with
      | some f, some re, some ds, some s, some v => "ok " ++ toString (validJN re f ds s v)
      | _, _, _, _, _ => "err args"
    | _ => "err args"),
  -- sem.insubset <defs> <schema>
  ("sem.insubset", fun
    | [ds, s] => match defs? ds, schema? s with
      | some ds, some s => "ok " ++ toString (s.inSubset && defsInSubset ds)
      | _, _ => "err args"
    | _ => "err args"),
  -- sem.tr <style> <routing> <ctx> <schema>
  ("sem.tr", fun
    | [st, o, c, s] => match style? st, opts? o, ctx? c, schema? s with
      | some st, some o, some c, some s => "ok " ++ showTy (tr st o c s)
      | _, _, _, _ => "err args"
    | _ => "err args"),
  -- sem.trsib <style> <routing> (bounds …) <anyOf|oneOf schema>   (the type of a member that is a combination with
  --   sibling keywords: `parse_combined_schema` over `_deep_merge(base_object, member)`)
  ("sem.trsib", fun
    | [st, o, .list (.atom "bounds" :: bs), u] => match style? st, opts? o, bounds? bs, schema? u with
      | some st, some o, some b, some (.anyOf alts) => "ok " ++ showTy (trSib st o b alts)
      | some st, some o, some b, some (.oneOf alts) => "ok " ++ showTy (trSib st o b alts)
      | _, _, _, _ => "err args"
    | _ => "err args"),
  -- sem.pfields <style> <routing> <snake_case_field 0|1> <allOf schema>
  --   own fields of the class of an allOf, WITH their Python names (field-name resolver of Dcg.Model.Names),
  --   after the allOf-level `required` was applied: ok (<python name> <original name> <required>)…
  ("sem.pfields", fun
    | [st, o, sn, s] => match style? st, opts? o, sn.bool?, schema? s with
      | some st, some o, some sn, some (.allOf _ props req xreq) =>
        match Dcg.Model.Names.foldProps Dcg.Model.Names.pyEnv .pydantic { snakeCase := sn }
            (props.map (fun p => (p.1, false))) [] with
        | .ok (fs, _) =>
          let table := (props.map (·.1)).zip (fs.map (·.1.1))
          let nm := fun (n : List Char) => (table.lookup n).getD n
          "ok" ++ String.join ((markRequired xreq (parseFields st o nm req props)).map (fun f =>
            " (" ++ encodeStr f.name ++ " " ++ encodeStr f.key ++ " " ++ (if f.required then "1" else "0") ++ ")"))
        | _ => "err resolver"
      | _, _, _, _ => "err args"
    | _ => "err args"),
  -- sem.trdef <style> <routing> <defs> <body> <name>   (the class of a definition after the discriminator pass)
  ("sem.trdef", fun
    | [st, o, ds, body, n] => match style? st, opts? o, defs? ds, schema? body, n.str? with
      | some st, some o, some ds, some body, some n =>
        match (patchDefs (docSites ds body) (trDefs st o ds)).lookup n with
        | some d => "ok " ++ showTy d
        | none => "err no such definition"
      | _, _, _, _, _ => "err args"
    | _ => "err args"),
  -- sem.dump <style> <routing> <fuel> <regex-table> <defs> <schema> <json>   (document = top context)
  --   → ok <verdict> <declared 0|1> <dumped json>
  ("sem.dump", fun
    | [st, o, g, re, ds, s, v] =>
      match style? st, opts? o, g.nat?, regex? re, defs? ds, schema? s, json? v with
      | some st, some o, some g, some re, some ds, some s, some v =>
        let D := trDefs st o ds
        let t := tr st o .top s
        "ok " ++ showTri (acceptsTy st re g D t v) ++ " " ++ (if declared st re g D t v then "1" else "0") ++ " " ++
          showJson (dump st re g D t v)
      | _, _, _, _, _, _, _ => "err args"
    | _ => "err args"),
  -- sem.accepts <style> <routing> <fuel> <regex-table> <defs> <schema> <json>   (document = top context)
  ("sem.accepts", fun
    | [st, o, g, re, ds, s, v] =>
      match style? st, opts? o, g.nat?, regex? re, defs? ds, schema? s, json? v with
      | some st, some o, some g, some re, some ds, some s, some v =>
        "ok " ++ showTri (acceptsTy st re g (trDefs st o ds) (tr st o .top s) v)
      | _, _, _, _, _, _, _ => "err args"
    | _ => "err args")
]
end Dcg.Driver.Sem
