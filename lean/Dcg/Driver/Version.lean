import Dcg.Driver.Proto
import Dcg.Model.Version
import Dcg.Gen.HeaderFlow
namespace Dcg.Driver.Version
open Dcg.Driver Dcg.Model.Version Dcg.Gen.Versions Dcg.Model.KwFlow Dcg.Gen.KwSites

def showAvail : Avail → String
  | .thirdParty => "thirdparty"
  | .since v => "since " ++ toString v
  | .unknown => "unknown"

def bad (ver : Nat) (i : Nat × Nat) : Bool := !okFor (avail i.1 i.2) ver

def handlers : List (String × Handler) := [
  /- version.avail <module key> <name key> → thirdparty | since N | unknown   (keys in decimal) -/
  ("version.avail", fun
    | [m, n] => match m.nat?, n.nat? with
      | some m, some n => showAvail (avail m n)
      | _, _ => "err args"
    | _ => "err args"),
  /- version.construct <predicate key> → since N | none : authored first version behind a has_* predicate -/
  ("version.construct", fun
    | [p] => match p.nat? with
      | some p => match (predicateConstruct.lookup p).bind (fun c => constructSince.lookup c) with
        | some v => "since " ++ toString v
        | none => "none"
      | none => "err args"
    | _ => "err args"),
  /- version.refute → none | ok <model type key> <minor> <module key> <name key> :
     first selected / shared import that the target does not provide -/
  ("version.refute", fun
    | [] =>
      let hits := selection.filterMap (fun e =>
        ((possibleImports e.1 e.2).find? (bad e.1.2)).map (fun i => (e.1.1, e.1.2, i.1, i.2)))
      match hits.head? with
      | some (mt, v, m, n) => s!"ok {mt} {v} {m} {n}"
      | none => "none"
    | _ => "err args"),
  /- version.reviewed <module key> <name key> → 1 | 0 : is the name in the reviewed list of version-dependent constants -/
  ("version.reviewed", fun
    | [m, n] => match m.nat?, n.nat? with
      | some m, some n => if versionDependent.contains (m, n) then "1" else "0"
      | _, _ => "err args"
    | _ => "err args"),
  /- version.refuteattr → none | ok <model type key> <minor> <class key> <attribute key> <module key> <name key> :
     first class-level import attribute of a selected class that holds a name the target does not provide -/
  ("version.refuteattr", fun
    | [] =>
      let hits := classImportAttrs.flatMap (fun e => e.2.filterMap (fun a =>
        (a.2.2.2.find? (bad e.1.2)).map (fun i => (e.1.1, e.1.2, a.2.1, a.2.2.1, i.1, i.2))))
      match hits.head? with
      | some (mt, v, c, a, m, n) => s!"ok {mt} {v} {c} {a} {m} {n}"
      | none => "none"
    | _ => "err args"),
  /- version.origin <model type key> <minor> <module key> <name key> → <classattr|typemap|enum|pool|outside> <ok 0|1> :
     where the tables know this import from for that selection, and whether the target provides it -/
  ("version.origin", fun
    | [mt, v, m, n] => match mt.nat?, v.nat?, m.nat?, n.nat? with
      | some mt, some v, some m, some n =>
        let o := match origin (mt, v) (m, n) with
          | .classAttr => "classattr" | .typeMap => "typemap" | .enumModel => "enum" | .pool => "pool" | .outside => "outside"
        s!"{o} {if bad v (m, n) then 0 else 1}"
      | _, _, _, _ => "err args"
    | _ => "err args"),
  /- version.refutehas → none | ok <predicate key> <minor> : predicate value differs from the authored table -/
  ("version.refutehas", fun
    | [] =>
      let hits := hasTable.filterMap (fun p =>
        match (predicateConstruct.lookup p.1).bind (fun c => constructSince.lookup c) with
        | some v => (p.2.find? (fun a => a.2 != decide (v ≤ a.1))).map (fun a => (p.1, a.1))
        | none => some (p.1, 0))
      match hits.head? with
      | some (p, v) => s!"ok {p} {v}"
      | none => "none"
    | _ => "err args"),
  /- version.refutekw → none | ok <file key> <function key> <line> <text|value> :
     first site of the keyword-only flag that may be true with the flag false and a target below the bound -/
  ("version.refutekw", fun
    | [] => match sites.find? (fun s => !siteOk s) with
      | some s => s!"ok {s.file} {s.func} {s.line} {if isText s then "text" else "value"}"
      | none => "none"
    | _ => "err args"),
  /- version.kwpredict <model type key> <flag 0|1> <target minor> → <class-level 0|1> <field-level possible 0|1> -/
  ("version.kwpredict", fun
    | [kd, f, t] => match kd.nat?, f.nat?, t.nat? with
      | some kd, some f, some t =>
        s!"{if writesClassLevel kd (f != 0) t then 1 else 0} {if fieldLevelPossible kd then 1 else 0}"
      | _, _, _ => "err args"
    | _ => "err args"),
  /- version.header <header items: 0 doc | 1 future | 2 code>… → <effective 0|1> <misplaced 0|1> | unmodelled :
     the module written by the translated print calls of generate() for this header in front of a body `future, code` -/
  ("version.header", fun args =>
    match args.mapM SX.nat? with
    | some ns =>
      let h := ns.map (fun n => if n == 0 then Dcg.Model.Header.Item.doc else if n == 1 then .future else .code)
      match Dcg.Model.Header.emit (Dcg.Gen.HeaderFlow.prints.map (·.2)) h [.future, .code] with
      | some out => s!"{if Dcg.Model.Header.effective out then 1 else 0} {if Dcg.Model.Header.misplaced out then 1 else 0}"
      | none => "unmodelled"
    | none => "err args"),
  /- version.kwsites → <number of sites> <number of text sites> <number of field-key sites> -/
  ("version.kwsites", fun
    | [] => s!"{sites.length} {(sites.filter isText).length} {(sites.filter (fun s => s.kind == .fieldKey)).length}"
    | _ => "err args")
]
end Dcg.Driver.Version
