import Dcg.Driver.Proto
import Dcg.Model.Template
import Dcg.Gen.TemplateAst
import Dcg.Model.TemplateBlock
import Dcg.Model.TemplateLex
/-! Driver for the template interpreter: `tpl.render <template name> <context>` renders one of the
generated template ASTs in a context given as an S-expression:

  value ::= undef | none | true | false | (i <int>) | (s <hex str>) | (l value…) | (d (<hex key> value)…)

reply: `ok <hex text>` | `err undefined` | `err type` | `unmodelled <what>` | `unsupported`. -/
namespace Dcg.Driver.Template
open Dcg.Driver Dcg.Model.Template Dcg.Model.TemplateSyntax Dcg.Model.TemplateAbs Dcg.Model.TemplateBlock

partial def val? : SX → Option Val
  | .atom "undef" => some .undef
  | .atom "none" => some .none
  | .atom "true" => some (.bool true)
  | .atom "false" => some (.bool false)
  | .list [.atom "i", .atom n] => (n.toInt?).map .int
  | .list [.atom "s", s] => s.str?.map .str
  | .list (.atom "l" :: xs) => (xs.mapM val?).map .list
  | .list (.atom "d" :: kvs) => (kvs.mapM (fun
      | SX.list [k, v] => do
        let k ← k.str?
        let v ← val? v
        pure (String.ofList k, v)
      | _ => none)).map .dict
  | _ => none

def errStr : Err → String
  | .undefined => "err undefined"
  | .type => "err type"
  | .unmodelled w => "unmodelled " ++ w.replace " " "_"
  | .unsupported => "unsupported"

def factsStr (σ : Facts) : String :=
  ",".intercalate (σ.map (fun p => p.1.src ++ "=" ++ (if p.2 then "1" else "0")))

/-- model-level refuter of the block check: the first assignment of the context names the template
reads under which the class block may be malformed -/
def blockRefute (strict : Bool) (t : List Tpl) : String :=
  match refute blockAuto BSt.init (if strict then goodClass else good) [] (factExprs t) t with
  | none => "none"
  | some σ =>
    let why := match finalStates blockAuto BSt.init σ t with
      | none => "giveup"
      | some S => if S.any (fun b => b.phase == .first || b.hdr) then "nobody"
                  else if S.any (fun b => b.bad) then "shape" else "noclass"
    "refuted " ++ why ++ " " ++ factsStr σ

def handlers : List (String × Handler) := [
  ("tpl.lexstate", fun
    | [s] => match s.str? with
      | some s => "ok " ++ (Dcg.Model.TemplateLex.lexAuto.run Dcg.Model.TemplateLex.LQ.code s : Dcg.Model.TemplateLex.LQ).proj.name
      | none => "err args"
    | _ => "err args"),
  ("tpl.lexrefute", fun
    | [name] => match name.str? with
      | some name =>
        (match Dcg.Gen.TemplateAst.templates.lookup (String.ofList name) with
         | some t => (match Dcg.Model.TemplateLex.finalNames t with
           | some fs => if check Dcg.Model.TemplateLex.lexAuto .code Dcg.Model.TemplateLex.lexGood [] [] t then "none"
                        else "refuted finals " ++ ",".intercalate fs
           | none => "refuted site " ++ ";".intercalate ((Dcg.Model.TemplateLex.siteRows t).map
               (fun r => r.expr ++ "@" ++ ",".intercalate r.states)))
         | none => "err no-such-template")
      | none => "err args"
    | _ => "err args"),
  ("tpl.blockrefute", fun
    | [name, strict] => match name.str?, strict.bool? with
      | some name, some strict =>
        (match Dcg.Gen.TemplateAst.templates.lookup (String.ofList name) with
         | some t => blockRefute strict t
         | none => "err no-such-template")
      | _, _ => "err args"
    | _ => "err args"),
  ("tpl.render", fun
    | [name, ctx] => match name.str?, val? ctx with
      | some name, some (.dict kvs) =>
        (match Dcg.Gen.TemplateAst.templates.lookup (String.ofList name) with
         | some t => (match renderTemplate kvs t with
           | .ok o => "ok " ++ encodeStr o.text
           | .error e => errStr e)
         | none => "err no-such-template")
      | _, _ => "err args"
    | _ => "err args"),
  ("tpl.names", fun _ => "ok " ++ " ".intercalate (Dcg.Gen.TemplateAst.templates.map (fun t => encodeStr t.1.toList))),
  ("tpl.unsupported", fun _ => "ok " ++ toString (Dcg.Gen.TemplateAst.templates.foldl (fun n t => n + Tpl.unsupportedCountL t.2) 0)),
  ("tpl.indent", fun
    | [w, s] => match w.nat?, s.str? with
      | some w, some s => "ok " ++ encodeStr (indentStr w s)
      | _, _ => "err args"
    | _ => "err args"),
  ("tpl.splitlines", fun
    | [s] => match s.str? with
      | some s => "ok " ++ " ".intercalate ((splitlines s).map encodeStr)
      | none => "err args"
    | _ => "err args")
]
end Dcg.Driver.Template
