import Dcg.Driver.Proto
import Dcg.Model.Write
import Dcg.Gen.GenerateSteps
namespace Dcg.Driver.Write
open Dcg.Driver Dcg.Model.Write Dcg.Gen.GenerateSteps

def strOf (s : SX) : Option String := s.str?.map String.ofList
def pathOf (s : SX) : Option Path :=
  match s with
  | .list xs => xs.mapM strOf
  | _ => none

/-- `(path flag)` : module path below the output and whether its text is encodable -/
def modOf (s : SX) : Option (Path × Content) :=
  match s with
  | .list [p, e] => match pathOf p, e.bool? with
    | some p, some e => some (p, if e then ['o', 'k'] else ['b', 'a', 'd'])
    | _, _ => none
  | _ => none

/-- the fault oracle: the `n`-th (0-based) step of segment `seg` whose `what` is `w` fails -/
def faultsOf (seg : String) (w : String) (n : Nat) : Faults :=
  let idx (steps : List Step) : Option Nat :=
    ((steps.zipIdx.filter (fun p => p.1.what == w && p.1.kind.canRaise)).map (·.2))[n]?
  ⟨fun i => seg == "pre" && idx pre == some i,
   fun _ i => seg == "loop" && idx loopBody == some i,
   fun i => seg == "post" && idx post == some i⟩

def statusOf (before after : List (Path × Content)) (p : Path) : String :=
  match getFile before p, getFile after p with
  | none, none => "absent"
  | some _, none => "removed"
  | none, some _ => "created"
  | some a, some b => if a = b then "unchanged" else "changed"

def firstRefuter : Option String :=
  -- a step that breaks `raisesBeforeWrites`: an effect in `pre`, or a may-raise step at/after the write loop
  match pre.find? (·.kind.isFsEffect) with
  | some s => some ("effect-before-raise " ++ s.what)
  | none => (loopBody ++ post).find? (·.kind.canRaise) |>.map (fun s => "raise-after-effect " ++ s.what)

def resultName : ResultKind → String
  | .nothing => "nothing" | .single => "single" | .modular => "modular"
def resultOf (s : String) : Option ResultKind :=
  if s == "nothing" then some .nothing else if s == "single" then some .single else if s == "modular" then some .modular else none
def decisionStr : Decision → String
  | .proceeds => "proceeds"
  | .refused m => "refused:" ++ encodeStr m.toList
  | .unreviewed c => "unreviewed:" ++ encodeStr c.toList

def handlers : List (String × Handler) := [
  ("write.run", fun
    | [out, mods, files, chdirSome?, seg, w, n] =>
      match pathOf out, (match mods with | .list ms => ms.mapM modOf | _ => none),
            (match files with | .list fs => fs.mapM pathOf | _ => none), chdirSome?.bool?, strOf seg, strOf w, n.nat? with
      | some out, some mods, some files, some cs, some seg, some w, some n =>
        let env : Env := ⟨out, mods, fun t => t == ['o', 'k'], if cs then chdirSome else chdirNone⟩
        let st : St := ⟨files.map (·, ['o', 'l', 'd']), .orig⟩
        let f := if seg == "none" then ⟨fun _ => false, fun _ _ => false, fun _ => false⟩ else faultsOf seg w n
        let r := run env f pre loopBody post st
        let paths := (files ++ mods.map (fun m => out ++ m.1)).eraseDups
        (match r with | .done _ => "done" | .failed _ => "failed") ++ " cwd=" ++
          (if r.st.cwd == .orig then "orig" else "target") ++
          String.join (paths.map (fun p => " " ++ "/".intercalate p ++ "=" ++ statusOf st.files r.st.files p))
      | _, _, _, _, _, _, _ => "err args"
    | _ => "err args"),
  ("write.tables", fun
    | [] => "ok raisesBeforeWrites=" ++ toString (raisesBeforeWrites pre loopBody post) ++
        " restoresSome=" ++ toString (restoresCwd chdirSome) ++ " restoresNone=" ++ toString (restoresCwd chdirNone) ++
        " writesOnlyInLoop=" ++ toString (writesOnlyInLoop pre loopBody post) ++
        " refuter=" ++ (match firstRefuter with | some s => s.replace " " "_" | none => "none") ++
        " effectsAfterRaises=" ++ toString (effectsAfterRaises chdirSome pre loopBody post && effectsAfterRaises chdirNone pre loopBody post) ++
        " ctxRefuter=" ++ (match (effectRefuter chdirSome pre loopBody post).orElse (fun _ => effectRefuter chdirNone pre loopBody post) with
          | some s => s.replace " " "_" | none => "none") ++
        " tableMeetsContract=" ++ toString (tableMeetsContract refusals) ++
        " contractRefuter=" ++ (match contractRefuter refusals with
          | some (r, o) => resultName r ++ "/" ++ (if o.isNone then "stdout" else if o.hasSuffix then "suffix" else "nosuffix")
          | none => "none")
    | _ => "err args"),
  ("write.refusal", fun
    | [r, isNone, hasSuffix] =>
      match strOf r, isNone.bool?, hasSuffix.bool? with
      | some r, some n, some s =>
        match resultOf r with
        | some r => "ok contract=" ++ decisionStr (contractDecision r ⟨n, s⟩) ++ " table=" ++ decisionStr (tableDecision r ⟨n, s⟩ refusals)
        | none => "err result kind"
      | _, _, _ => "err args"
    | _ => "err args"),
  -- `write.chdir <path is not None> <fault>`: the context manager alone. fault: `none`, `enter` (the switch to the target raises),
  -- `body` (the body of the `with` raises). Reply: directory while the body runs, directory afterwards, effect steps executed.
  ("write.chdir", fun
    | [some?, fault] =>
      match some?.bool?, strOf fault with
      | some sm, some fl =>
        let cs := if sm then chdirSome else chdirNone
        let enterIdx := ((ctxEnter cs).zipIdx.find? (fun p => p.1.kind == .chdirTarget)).map (·.2)
        let f : Option Nat := if fl == "enter" then enterIdx else if fl == "body" then some (yieldIndex cs) else none
        let nm (c : Cwd) := if c == .orig then "orig" else "target"
        "ok inside=" ++ nm (cwdInside cs) ++ " after=" ++ nm (cwdAfter cs f) ++
          " mkdirs=" ++ toString ((ctxEffectsBefore cs f).filter (·.kind == .mkdir)).length ++
          " otherEffects=" ++ toString ((ctxEffectsBefore cs f).filter (·.kind != .mkdir)).length ++ " entered=" ++ toString (fl != "enter" || enterIdx.isNone)
      | _, _ => "err args"
    | _ => "err args"),
  ("write.steps", fun
    | [seg] => match strOf seg with
      | some "pre" => "ok" ++ String.join (pre.filter (·.kind.canRaise) |>.map (fun s => " " ++ encodeStr s.what.toList))
      | some "loop" => "ok" ++ String.join (loopBody.map (fun s => " " ++ encodeStr s.what.toList))
      | _ => "err args"
    | _ => "err args")
]
end Dcg.Driver.Write
