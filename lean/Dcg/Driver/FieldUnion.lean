import Dcg.Driver.Field
import Dcg.Model.FieldUnion
/-! Driver for the union part of the C05 model: a union-typed member in, field record / shape /
semantics / (annotation admits None, is_optional) out; and `DataType.type_hint` of a tree of
nameless `DataType`s (hint text and `is_optional` afterwards) in either spelling. -/
namespace Dcg.Driver.FieldUnion
open Dcg.Driver Dcg.Driver.Field Dcg.Model.Field

def atom? : Char → Option Atom
  | 'a' => some .a | 'b' => some .b | 'c' => some .c | 'y' => some .any | _ => none

/-- `pa` plain a, `na` type list [a, null], `fa` OpenAPI nullable flag, `z` type null -/
def alt? (s : String) : Option Alt :=
  match s.toList with
  | ['z'] => some .null
  | ['p', x] => (atom? x).map .plain
  | ['n', x] => (atom? x).map .nullable
  | ['f', x] => (atom? x).map .flag
  | _ => none

def alts? : SX → Option (List Alt)
  | .atom s => (s.splitOn ".").mapM alt?
  | _ => none

def atomStr : Atom → String
  | .a => "str" | .b => "int" | .c => "bool" | .any => "Any"

def partStr : Part → String
  | .none => "None" | .atom x => atomStr x

def pStr (h : PHint) : String := " | ".intercalate (h.map partStr)

mutual
def bStr : BHint → String
  | .none => "None"
  | .atom x => atomStr x
  | .opt h => "Optional[" ++ bStr h ++ "]"
  | .union [] => ""
  | .union hs => "Union[" ++ ", ".intercalate (bStrL hs) ++ "]"
def bStrL : List BHint → List String
  | [] => []
  | h :: hs => bStr h :: bStrL hs
end

/-- a tree of `DataType`s: `leaf x o` = `DataType(type=<x>, is_optional=o)`, `nullT` =
`DataType(type="None")`, `node kids o` = `DataType(data_types=kids, is_optional=o)` -/
inductive DTree where
  | leaf (x : Atom) (o : Bool)
  | nullT
  | node (kids : List DTree) (o : Bool)
  deriving Inhabited

mutual
def evalP : DTree → PHint × Bool
  | .leaf x o => finishP [.atom x] o
  | .nullT => finishP [.none] false
  | .node kids o => nodeP (evalPL kids) o
def evalPL : List DTree → List PHint
  | [] => []
  | t :: ts => (evalP t).1 :: evalPL ts
end

mutual
def evalB : DTree → BHint × Bool
  | .leaf x o => finishB (.atom x) o
  | .nullT => finishB .none false
  | .node kids o => nodeB (evalBL kids) o
def evalBL : List DTree → List BHint
  | [] => []
  | t :: ts => (evalB t).1 :: evalBL ts
end

mutual
def tree? : SX → Option DTree
  | .atom "z" => some .nullT
  | .atom s => match s.toList with
    | [x, '0'] => (atom? x).map (.leaf · false)
    | [x, '1'] => (atom? x).map (.leaf · true)
    | _ => none
  | .list (.atom "u0" :: kids) => (trees? kids).map (.node · false)
  | .list (.atom "u1" :: kids) => (trees? kids).map (.node · true)
  | .list _ => none
def trees? : List SX → Option (List DTree)
  | [] => some []
  | k :: ks => match tree? k, trees? ks with
    | some t, some ts => some (t :: ts)
    | _, _ => none
end

def uvec? : List SX → Option UVec
  | [k, r, d, o, via, name, sc, uo, alts] => do
    let k ← kind? k; let r ← r.bool?; let d ← dflt? d; let o ← opts? o
    let via ← via? via; let name ← name? name; let sc ← sc.bool?; let uo ← uo.bool?; let alts ← alts? alts
    pure ⟨⟨k, .no, r, d, .scalar, false, o, via, name, sc⟩, alts, uo⟩
  | _ => none

def handlers : List (String × Handler) := [
  ("field.renderu", fun args => match uvec? args with
    | some u =>
      if !u.valid then "invalid"
      else
        let f := fromUnion u
        let key := match sortKey u.base.kind f with | none => "-" | some x => b x
        "ok " ++ irStr f ++ " key=" ++ key ++ " | " ++ shapeStr (renderU u) ++ " | " ++ semStr (semU u) ++
          " | text=" ++ b u.textNull ++ " flag=" ++ b u.flag
    | none => "err args"),
  ("field.unionhint", fun
    | [uo, t] => match uo.bool?, tree? t with
      | some true, some t => let r := evalP t; "ok " ++ b r.2 ++ " " ++ pStr r.1
      | some false, some t => let r := evalB t; "ok " ++ b r.2 ++ " " ++ bStr r.1
      | _, _ => "err args"
    | _ => "err args")
]
end Dcg.Driver.FieldUnion
