import Dcg.Driver.Proto
import Dcg.Model.Field
/-! Driver for the C05 field model: one abstract vector in, the model's field record, rendered
shape and semantics out. -/
namespace Dcg.Driver.Field
open Dcg.Driver Dcg.Model.Field

def kind? : SX → Option Kind
  | .atom "v1" => some .v1 | .atom "v2" => some .v2 | .atom "dc" => some .dc
  | .atom "td" => some .td | .atom "ms" => some .ms | _ => none

def nullsrc? : SX → Option NullSrc
  | .atom "no" => some .no | .atom "typelist" => some .typelist | .atom "flag" => some .flag | _ => none

def dflt? : SX → Option Dflt
  | .atom "none" => some .none | .atom "null" => some .null | .atom "falsy" => some .falsy
  | .atom "truthy" => some .truthy | .atom "str" => some .str | .atom "listE" => some .listE
  | .atom "listN" => some .listN | .atom "dictE" => some .dictE | .atom "dictN" => some .dictN | _ => none

def ty? : SX → Option Ty
  | .atom "scalar" => some .scalar | .atom "array" => some .array | .atom "object" => some .object | _ => none

def opts? : SX → Option Opts
  | .atom s => match s.toList.map (· == '1') with
    | [sn, ud, fo, sd, an, fc] => if s.toList.all (fun c => c == '0' || c == '1') then some ⟨sn, ud, fo, sd, an, fc⟩ else none
    | _ => none
  | _ => none

def via? : SX → Option Via
  | .atom "own" => some .own | .atom "sibling" => some .sibling | .atom "owner" => some .owner | _ => none

def name? : SX → Option NameKind
  | .atom "plain" => some .plain | .atom "alias" => some .alias | .atom "keyword" => some .keyword
  | .atom "camel" => some .camel | _ => none

def vec? : List SX → Option Vec
  | [k, n, r, d, t, c, o, via, name, sc] => do
    let k ← kind? k; let n ← nullsrc? n; let r ← r.bool?; let d ← dflt? d; let t ← ty? t
    let c ← c.bool?; let o ← opts? o; let via ← via? via; let name ← name? name; let sc ← sc.bool?
    pure ⟨k, n, r, d, t, c, o, via, name, sc⟩
  | _ => none

def b (x : Bool) : String := if x then "1" else "0"

/-- rendered default class as the harness sees it: `none` (Python None) or `dflt` (the schema default) -/
def dv (d : Dflt) : String := if d.isNone then "none" else "dflt"

def asgStr : Asg → String
  | .none => "none"
  | .lit d => "lit:" ++ dv d
  | .fieldReq => "Field:req"
  | .fieldDflt d => "Field:" ++ dv d
  | .fieldNoDefault => "Field:nodefault"
  | .factory d => "field:factory:" ++ dv d
  | .msField none => "field:nodefault"
  | .msField (some d) => "field:kw" ++ dv d

def annStr : Ann → String
  | .no => "0" | .plain => "1" | .req => "req"

def shapeStr (s : Shape) : String :=
  s!"opt={b s.opt} nr={b s.nr} ann={annStr s.ann} asg={asgStr s.asg}"

def omittedStr : Omitted → String
  | .rejected => "rejected" | .absent => "absent" | .value d => dv d

def semStr (s : Sem) : String :=
  s!"loads={b s.loads} must={b s.mustSupply} null={b s.acceptsNull} omitted={omittedStr s.omitted} shared={b s.shared}"

def irStr (f : FieldRec) : String :=
  let n := match f.nullable with | none => "N" | some true => "T" | some false => "F"
  let c := match f.constraints with | .none => "none" | .empty => "empty" | .keyword => "keyword"
  s!"req={b f.required} nullable={n} hd={b f.hasDefault} thn={b f.typeHasNull} sdn={b f.stripDefaultNone} dio={b f.dataTypeIsOptional} cons={c} alias={b f.hasAlias}"

def handlers : List (String × Handler) := [
  ("field.render", fun args =>
    -- an optional 11th argument: use_generic_container_types
    let (args, ug) := match args with
      | [k, n, r, d, t, c, o, via, name, sc, ug] => ([k, n, r, d, t, c, o, via, name, sc], ug.bool?.getD false)
      | _ => (args, false)
    match vec? args with
    | some v =>
      if !v.valid then "invalid"
      else
        let key := match sortKey v.kind (fromSchema v) with | none => "-" | some x => b x
        "ok " ++ irStr (fromSchema v) ++ " key=" ++ key ++ " | " ++ shapeStr (render v) ++ " | " ++ semStr (semG v ug)
    | none => "err args"),
  ("field.templateok", fun
    | [k] => match kind? k with
      | some k => "ok " ++ toString (templateWellFormed k)
      | none => "err args"
    | _ => "err args")
]
end Dcg.Driver.Field
