import Dcg.Driver.Proto
import Dcg.Model.Config
import Dcg.Gen.CliTables
namespace Dcg.Driver.Config
open Dcg.Driver Dcg.Model.Config Dcg.Gen.CliTables Dcg.Model.Key

def realEnv : Env :=
  ⟨fun k => (configFields.lookup k).getD (k! "None"), validConcrete kwOnlyTargets⟩

def str? (x : SX) : Option String := x.str?.map String.ofList

/-- strings travel in the usual hex form; the model works on their keys -/
def key? (x : SX) : Option Nat := x.str?.map keyOf

def spair? : SX → Option (String × String)
  | .list [k, v] => match str? k, str? v with
    | some k, some v => some (k, v)
    | _, _ => none
  | _ => none

def pair? : SX → Option (Key × Val)
  | .list [k, v] => match key? k, key? v with
    | some k, some v => some (k, v)
    | _, _ => none
  | _ => none

def optPair? : SX → Option (Key × Option Val)
  | .list [k, .atom "none"] => (key? k).map (fun k => (k, none))
  | .list [k, v] => match key? k, key? v with
    | some k, some v => some (k, some v)
    | _, _ => none
  | _ => none

def listOf? {α} (f : SX → Option α) : SX → Option (List α)
  | .list xs => xs.mapM f
  | _ => none

def enc (s : String) : String := encodeStr s.toList
def encK (n : Nat) : String := encodeStr (unkey n)

def handlers : List (String × Handler) := [
  /- config.merge ((k v)…) ((k v|none)…) (k…)  →  none | ok v… : effective value of each asked key -/
  ("config.merge", fun
    | [py, cli, keys] => match listOf? pair? py, listOf? optPair? cli, listOf? key? keys with
      | some py, some cli, some keys => match merge realEnv py cli with
        | some c => "ok " ++ " ".intercalate (keys.map (fun k => encK (c k)))
        | none => "none"
      | _, _, _ => "err args"
    | _ => "err args"),
  /- config.normkeys ((k v)…) → ok (k v)… : `_get_pyproject_toml_config` key normalisation -/
  ("config.normkeys", fun
    | [raw] => match listOf? spair? raw with
      | some raw => "ok " ++ " ".intercalate ((normaliseKeys raw).map (fun kv => "(" ++ enc kv.1 ++ " " ++ enc kv.2 ++ ")"))
      | none => "err args"
    | _ => "err args"),
  /- config.discover ((section git)…) → none | ok i -/
  ("config.discover", fun
    | [.list ds] =>
      match ds.mapM (fun | .list [a, b] => (match a.bool?, b.bool? with
                                            | some a, some b => some (Dir.mk a b)
                                            | _, _ => none)
                         | _ => none) with
      | some ds => match discover ds with
        | some i => "ok " ++ toString i
        | none => "none"
      | none => "err args"
    | _ => "err args"),
  /- model-side refuters for the table obligations: first offending entry -/
  ("config.refute", fun
    | [.atom "defaults"] =>
      match (actions.filter (fun a => !metaDests.contains a.dest)).find? (fun a => !a.defaultIsNone) with
      | some a => "ok " ++ encK a.dest ++ " " ++ encK a.default
      | none => "none"
    | [.atom "dests"] =>
      match (actions.filter (fun a => !metaDests.contains a.dest)).find? (fun a => (configFields.lookup a.dest).isNone) with
      | some a => "ok " ++ encK a.dest
      | none => "none"
    | [.atom "forwarded"] =>
      match configFields.find? (fun kv =>
        !(consumedInMain.contains kv.1 ||
          specialForward.any (fun s => s.1 == kv.1 && mainGenerateCall.contains (s.2.1, s.2.2)) ||
          mainGenerateCallAttr.contains (rename kv.1, k! "config", kv.1))) with
      | some kv => "ok " ++ encK kv.1
      | none => "none"
    | [.atom "parser"] =>
      match generateParams.find? (fun kv =>
        !((consumedInGenerate.lookup kv.1).isSome || parserCall.contains (kv.1, kv.1) ||
          parserCallSpecial.any (fun s => s.1 == kv.1 && parserCall.contains s))) with
      | some kv => "ok " ++ encK kv.1
      | none => "none"
    | [.atom "paths"] =>
      /- first path-valued field whose argparse type is not a string type (beyond the reviewed FileType options) or whose
         validator is not the reviewed one -/
      match pathFields.find? (fun f =>
        !((cliOpensRawString.contains f.1 || actionTypes.all (fun a => a.1 != f.1 || strTypes.contains a.2)) &&
          fieldValidators.lookup f.1 == some [pathValidator f.2] &&
          (validatorBranches.lookup (pathValidator f.2)) == reviewedValidatorBranches.lookup (pathValidator f.2))) with
      | some f => "ok " ++ encK f.1
      | none => match pathFields.find? (fun f => !reviewedPathFields.contains f) with
        | some f => "ok " ++ encK f.1
        | none => "none"
    | _ => "err args")
]
end Dcg.Driver.Config
