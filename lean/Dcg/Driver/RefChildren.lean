import Dcg.Driver.Proto
import Dcg.Driver.Sort
import Dcg.Model.RefChildren
/-!
Line protocol for `Model.RefChildren`.
  refkids.run ((ref (children…)) …) ((use ref|-) …) (uses…) ((dropped kept (children that take part…)) …)
     → ok <registered 0|1> (unregistered uses…) ((uses still naming the dropped model after drop 1…) …) ((use ref|-) …) | raise
-/
namespace Dcg.Driver.RefChildren
open Dcg.Driver Dcg.Driver.Sort Dcg.Model.Repoint Dcg.Model.RefChildren

def op? : SX → Option (Nat × Nat × List Nat)
  | .list [d, t, m] => do pure (← d.nat?, ← t.nat?, ← nats? m)
  | _ => none

def runHandler : Handler := fun
  | [.list ks, .list rs, uses, .list ops] =>
    match ks.mapM kidsEntry?, rs.mapM refEntry?, nats? uses, ops.mapM op? with
    | some ks, some rs, some uses, some ops =>
      let s := Store.ofLists ks rs
      match redirectAll ops s with
      | none => "raise"
      | some s' =>
        "ok " ++ (if registered s uses then "1" else "0") ++ " " ++ showNats (unregistered s uses) ++ " (" ++
          " ".intercalate ((leftBehind uses ops s).map showNats) ++ ") (" ++
          " ".intercalate (uses.map (fun u => "(" ++ toString u ++ " " ++ showOptNat (s'.refOf u) ++ ")")) ++ ")"
    | _, _, _, _ => "err args"
  | _ => "err args"

def handlers : List (String × Handler) := [("refkids.run", runHandler)]

end Dcg.Driver.RefChildren
