import Dcg.Driver.Proto
import Dcg.Model.Constraints
namespace Dcg.Driver.Constraints
open Dcg.Driver Dcg.Model.Constraints

def style? : SX → Option Style
  | .atom "v1" => some .v1
  | .atom "v2" => some .v2
  | _ => none

def routing? : SX → Option Routing
  | .atom "contype" => some .conType
  | .atom "field" => some .field
  | .atom "annotated" => some .annotated
  | _ => none

def fam? : SX → Option Fam
  | .atom "int" => some .int
  | .atom "num" => some .num
  | .atom "str" => some .str
  | .atom "arr" => some .arr
  | _ => none

def int? : SX → Option Int
  | .atom s => s.toInt?
  | _ => none

def optInt? : SX → Option (Option Int)
  | .atom "none" => some none
  | x => (int? x).map some

def excl? : SX → Option (Option (Excl Int))
  | .atom "none" => some none
  | .atom "true" => some (some (.flag true))
  | .atom "false" => some (some (.flag false))
  | x => (int? x).map (fun i => some (.val i))

def showOptInt : Option Int → String
  | none => "none"
  | some i => toString i

def showOptStr : Option String → String
  | none => "none"
  | some s => "ok " ++ encodeStr s.toList

def showStyle : Style → String
  | .v1 => "v1" | .v2 => "v2"
def showRouting : Routing → String
  | .conType => "contype" | .field => "field" | .annotated => "annotated"
def showFam : Fam → String
  | .int => "int" | .num => "num" | .str => "str" | .arr => "arr"

def handlers : List (String × Handler) := [
  ("con.route", fun
    | [st, r, f, kw] => match style? st, routing? r, fam? f, kw.str? with
      | some st, some r, some f, some kw => showOptStr (routeKw st r f (String.ofList kw))
      | _, _, _, _ => "err args"
    | _ => "err args"),
  ("con.reported", fun
    | [st, f, pk] => match style? st, fam? f, pk.str? with
      | some st, some f, some pk => showOptStr (reported st f (String.ofList pk))
      | _, _, _ => "err args"
    | _ => "err args"),
  ("con.roundtrip", fun
    | [st, r, f, kw] => match style? st, routing? r, fam? f, kw.str? with
      | some st, some r, some f, some kw => showOptStr (roundTrip st r f (String.ofList kw))
      | _, _, _, _ => "err args"
    | _ => "err args"),
  ("con.findbroken", fun
    | [] => match findBrokenKeyword with
      | none => "none"
      | some (st, r, f, kw) =>
        "ok " ++ showStyle st ++ " " ++ showRouting r ++ " " ++ showFam f ++ " " ++ encodeStr kw.toList
    | _ => "err args"),
  ("con.norm", fun
    | [i, e] => match optInt? i, excl? e with
      | some i, some e => match normaliseSide (⟨i, e⟩ : RawSide Int) with
        | none => "raise"
        | some s => "ok " ++ showOptInt s.incl ++ " " ++ showOptInt s.excl
      | _, _ => "err args"
    | _ => "err args"),
  ("con.admits", fun
    | [i, e, x] => match optInt? i, excl? e, int? x with
      | some i, some e, some x =>
        "ok " ++ toString (admitsRaw (fun (b x : Int) => decide (b ≤ x)) (fun b x => decide (b < x)) ⟨i, e⟩ x)
      | _, _, _ => "err args"
    | _ => "err args"),
  ("con.cast", fun
    | [r, f, pk, m, e] => match routing? r, fam? f, pk.str?, int? m, e.nat? with
      | some r, some f, some pk, some m, some e =>
        let d := castValue r f (String.ofList pk) ⟨m, e⟩
        "ok " ++ toString d.m ++ " " ++ toString d.e
      | _, _, _, _, _ => "err args"
    | _ => "err args"),
  ("con.extra", fun
    | [st, ap] => match style? st, ap.str? with
      | some st, some ap => showOptStr ((extraMap st).lookup (String.ofList ap))
      | _, _ => "err args"
    | _ => "err args")
]
end Dcg.Driver.Constraints
