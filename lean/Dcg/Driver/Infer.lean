import Dcg.Driver.Proto
import Dcg.Model.Infer
namespace Dcg.Driver.Infer
open Dcg.Driver Dcg.Sem.JsonLite Dcg.Model.Infer

/-- `null` | `(b 1)` | `(i -12)` | `(f 1)` (float; 1 = integral value) | `(s x41)` | `(a v…)` | `(o (k v)…)` -/
partial def json? : SX → Option Json
  | .atom "null" => some .null
  | .list [.atom "b", x] => x.bool?.map .bool
  | .list [.atom "i", .atom s] => s.toInt?.map .int
  | .list [.atom "f", x] => x.bool?.map .flt
  | .list [.atom "s", s] => s.str?.map .str
  | .list (.atom "a" :: xs) => (xs.mapM json?).map .arr
  | .list (.atom "o" :: kvs) => (kvs.mapM (fun (kv : SX) => match kv with
      | SX.list [k, v] => match k.str?, json? v with
        | some k, some v => some (k, v)
        | _, _ => none
      | _ => none)).map .obj
  | _ => none

def b (x : Bool) : String := if x then "1" else "0"

partial def encNode : Node → String
  | .mk nu bo st nm ar ho ps rq =>
    "(node " ++ b nu ++ " " ++ b bo ++ " " ++ b st ++ " "
      ++ (match nm with | none => "-" | some .integer => "i" | some .number => "n") ++ " "
      ++ (match ar with | none => "-" | some items => "(items " ++ encNode items ++ ")") ++ " "
      ++ (if ho then "(obj (props " ++ " ".intercalate (ps.map (fun p => "(" ++ encodeStr p.1 ++ " " ++ encNode p.2 ++ ")"))
            ++ ") (req " ++ " ".intercalate (rq.map encodeStr) ++ "))" else "-")
      ++ ")"

def handlers : List (String × Handler) := [
  ("infer.schema", fun
    | [v] => match json? v with
      | some v => "ok " ++ encNode (infer v)
      | none => "err args"
    | _ => "err args"),
  ("infer.valid", fun
    | [v, w] => match json? v, json? w with
      | some v, some w => "ok " ++ b (validL (infer v) w)
      | _, _ => "err args"
    | _ => "err args"),
  -- infer.csv (xHEADER …) (xCELL …): the schema inferred from a CSV header + first row
  ("infer.csv", fun
    | [.list hs, .list cs] => match hs.mapM SX.str?, cs.mapM SX.str? with
      | some hs, some cs => "ok " ++ encNode (infer (csvSample hs cs))
      | _, _ => "err args"
    | _ => "err args"),
  ("infer.covers", fun
    | [v, w] => match json? v, json? w with
      | some v, some w => "ok " ++ b (covers (infer v) w)
      | _, _ => "err args"
    | _ => "err args")
]
end Dcg.Driver.Infer
