import Dcg.Model.TemplateLex
import Dcg.Gen.TemplateAst
import Dcg.Gen.Templates
/-! The site table written by the Python translator (`Gen/Templates`, `vlib/translate/templates.py`)
is exactly what the Lean analysis computes from the template ASTs — the Python data-flow analysis
is cross-checked by the kernel on every run and no longer trusted. -/
namespace Dcg.Proofs.TemplateCheckTable
open Dcg.Model.TemplateSyntax Dcg.Model.TemplateAbs Dcg.Model.TemplateLex Dcg.Gen.TemplateAst

/-- the rows of one template in the Python table (loop headers carry no state and are dropped) -/
def tableRows (name : String) : List Row :=
  (Dcg.Gen.Templates.sites.filter (fun s => s.template == name && !s.expr.startsWith "for:")).map
    (fun s => ⟨s.expr, s.filters.contains "escape_docstring", s.states⟩)

def tableAgrees : Bool :=
  templates.all (fun t => siteRows t.2 == tableRows t.1 &&
    finalNames t.2 == Dcg.Gen.Templates.finals.lookup t.1) &&
  Dcg.Gen.Templates.sites.all (fun s => templates.any (fun t => t.1 == s.template)) &&
  Dcg.Gen.Templates.finals.all (fun f => templates.any (fun t => t.1 == f.1))

theorem tableAgrees_ok : tableAgrees = true := by decide +kernel

end Dcg.Proofs.TemplateCheckTable
