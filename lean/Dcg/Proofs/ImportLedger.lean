import Dcg.Proofs.Imports
/-!
The ledger discipline of `Parser.parse` (Model/Imports.lean, `ledgerRun`): as long as every batch
removal takes back a batch that was filed, the counter of every key is exactly what the batches still
filed credit it with, minus the single removals.
-/
namespace Dcg.Proofs.ImportLedger
open Dcg.Model.Types Dcg.Model.Imports Dcg.Proofs.Imports

theorem sameBatch_count (a b : List Key) (h : sameBatch a b = true) (k : Key) : a.count k = b.count k := by
  unfold sameBatch at h
  rw [List.all_eq_true] at h
  by_cases hk : k ∈ a ++ b
  · have := h k hk
    simpa using this
  · rw [List.mem_append, not_or] at hk
    rw [List.count_eq_zero_of_not_mem hk.1, List.count_eq_zero_of_not_mem hk.2]

theorem credit_cons (b : List Key) (f : List (List Key)) (k : Key) : credit (b :: f) k = b.count k + credit f k := by
  simp [credit]

theorem takeBatch_credit (b : List Key) (k : Key) : ∀ (f f' : List (List Key)), takeBatch b f = some f' →
    credit f k = credit f' k + b.count k := by
  intro f
  induction f with
  | nil => intro f' h; simp [takeBatch] at h
  | cons c r ih =>
    intro f' h
    simp only [takeBatch] at h
    split at h
    · rename_i hs
      cases h
      rw [credit_cons, sameBatch_count c b hs k]; omega
    · cases ht : takeBatch b r with
      | none => rw [ht] at h; cases h
      | some r' =>
        rw [ht] at h; cases h
        rw [credit_cons, credit_cons, ih r' ht]; omega

theorem count_keysOf_cons (i : Imp) (is : List Imp) (k : Key) :
    (keysOf (i :: is)).count k = (keysOf is).count k + (if k = keyOf i then 1 else 0) := by
  simp only [keysOf, List.map_cons, List.count_cons]
  by_cases h : k = keyOf i
  · subst h; simp
  · have : (keyOf i == k) = false := by
      simp only [beq_eq_false_iff_ne, ne_eq]; exact fun e => h e.symm
    simp [this, h]

theorem count_foldl_append (is : List Imp) (k : Key) : ∀ s : State,
    count (is.foldl append1 s) k = count s k + ((keysOf is).count k : Nat) := by
  induction is with
  | nil => intro s; simp [keysOf]
  | cons i is ih =>
    intro s
    rw [List.foldl_cons, ih, count_append1, count_keysOf_cons]
    by_cases h : k = keyOf i
    · subst h; simp only [if_true]; omega
    · simp only [h, if_false]; omega

theorem count_remove1 (s s' : State) (i : Imp) (hr : remove1 s i = some s') (k : Key) :
    count s' k = if k = keyOf i then count s k - 1 else count s k := by
  unfold remove1 at hr
  simp only [] at hr
  split at hr
  · split at hr
    · rw [count_dropAlias _ _ _ hr, count_dropName, count_setCount]
      by_cases h : k = keyOf i
      · subst h; simp
      · simp [h]
    · cases hr
  · cases hr
    rw [count_setCount]
    by_cases h : k = keyOf i
    · subst h; simp
    · simp [h]

theorem count_removeAll (is : List Imp) (k : Key) : ∀ (s s' : State), removeAll s is = some s' →
    count s' k = count s k - ((keysOf is).count k : Nat) := by
  induction is with
  | nil => intro s s' h; simp only [removeAll] at h; cases h; simp [keysOf]
  | cons i is ih =>
    intro s s' h
    simp only [removeAll] at h
    split at h
    · rename_i s1 h1
      rw [ih s1 s' h, count_remove1 s s1 i h1, count_keysOf_cons]
      by_cases hk : k = keyOf i
      · subst hk; simp only [if_true]; omega
      · simp only [hk, if_false]; omega
    · cases h

/-- the counters are what the ledger says -/
def Booked (s : State) (L : Ledger) : Prop :=
  ∀ k, count s k = (credit L.filed k : Int) - (L.debits.count k : Nat)

theorem count_debit_cons (k0 : Key) (d : List Key) (k : Key) :
    (k0 :: d).count k = d.count k + (if k = k0 then 1 else 0) := by
  simp only [List.count_cons]
  by_cases h : k = k0
  · subst h; simp
  · have : (k0 == k) = false := by
      simp only [beq_eq_false_iff_ne, ne_eq]; exact fun e => h e.symm
    simp [this, h]

theorem Booked_step (s s' : State) (L L' : Ledger) (o : LOp) (hb : Booked s L)
    (hl : ledgerStep s L o = some L') (hs : step s o.op = some s') : Booked s' L' := by
  intro k
  have hk := hb k
  cases o with
  | app is =>
    simp only [ledgerStep] at hl; cases hl
    simp only [LOp.op, step] at hs; cases hs
    dsimp only
    rw [count_foldl_append, credit_cons]; omega
  | rem is =>
    simp only [LOp.op, step] at hs
    have hc := count_removeAll is k s s' hs
    simp only [ledgerStep] at hl
    split at hl
    · rename_i he
      cases hl
      have : is = [] := by simpa using he
      subst this
      simp [keysOf] at hc; omega
    · cases ht : takeBatch (keysOf is) L.filed with
      | none => rw [ht] at hl; cases hl
      | some f =>
        rw [ht] at hl; cases hl
        have := takeBatch_credit (keysOf is) k L.filed f ht
        dsimp only; omega
  | rem1 i =>
    simp only [ledgerStep] at hl; cases hl
    simp only [LOp.op, step, removeAll] at hs
    split at hs
    · rename_i s1 h1
      cases hs
      dsimp only
      rw [count_remove1 s s' i h1, count_debit_cons]
      by_cases h : k = keyOf i
      · subst h; simp only [if_true]; omega
      · simp only [h, if_false]; omega
    · cases hs
  | rr p =>
    simp only [LOp.op, step] at hs
    simp only [ledgerStep] at hl
    split at hs
    · rename_i i hi
      rw [hi] at hl; cases hl
      dsimp only
      rw [count_remove1 s s' i hs, count_debit_cons]
      by_cases h : k = keyOf i
      · subst h; simp only [if_true]; omega
      · simp only [h, if_false]; omega
    · rename_i hi
      rw [hi] at hl; cases hl; cases hs; exact hk

theorem Booked_run (os : List LOp) : ∀ (s s' : State) (L L' : Ledger), Booked s L →
    ledgerRun s L os = some L' → run s (os.map LOp.op) = some s' → Booked s' L' := by
  induction os with
  | nil => intro s s' L L' hb hl hr; simp only [ledgerRun] at hl; simp only [List.map_nil, run] at hr; cases hl; cases hr; exact hb
  | cons o os ih =>
    intro s s' L L' hb hl hr
    simp only [List.map_cons, run] at hr
    simp only [ledgerRun] at hl
    cases h1 : ledgerStep s L o with
    | none => rw [h1] at hl; cases hl
    | some L1 =>
      rw [h1] at hl
      cases h2 : step s o.op with
      | none => rw [h2] at hr; cases hr
      | some s1 =>
        rw [h2] at hr hl
        exact ih s1 s' L1 L' (Booked_step s s1 L L1 o hb h1 h2) hl hr

theorem credit_ge_of_mem (b : List Key) (k : Key) : ∀ f : List (List Key), b ∈ f → b.count k ≤ credit f k := by
  intro f
  induction f with
  | nil => intro h; cases h
  | cons c r ih =>
    intro h
    rw [credit_cons]
    rcases List.mem_cons.mp h with h | h
    · subst h; omega
    · have := ih h; omega

theorem Booked_empty : Booked {} {} := by
  intro k; simp [count, credit, List.lookup]

theorem ledgerBreak_none_iff (os : List LOp) : ∀ (s : State) (L : Ledger) (n : Nat),
    ledgerBreak s L os n = none ↔ (ledgerRun s L os).isSome = true := by
  induction os with
  | nil => intro s L n; simp [ledgerBreak, ledgerRun]
  | cons o os ih =>
    intro s L n
    simp only [ledgerBreak, ledgerRun]
    cases h1 : ledgerStep s L o with
    | none => simp
    | some L1 =>
      cases h2 : step s o.op with
      | none => simp
      | some s1 => simp only []; exact ih s1 L1 (n + 1)

end Dcg.Proofs.ImportLedger
