import Dcg.Model.GraphqlBridge
import Dcg.Proofs.Graphql
import Dcg.Props.C13
/-!
Helper lemmas for the composed C17 theorem (`rendered_hint_mirrors_type`), typing spelling.
From C13 only the property theorems are used: `typeHint_eq_print_typing` (the text `type_hint` builds
by string surgery is the printed structural rendering `hintE`), `optional_keeps_alternatives_text`
(`get_optional_type` on text = on expressions) and `hint_unambiguous` (the printer is injective).
Here: what `hintE` is on a GraphQL chain (`chainE`), and what that expression denotes (`denChain`).
-/
set_option linter.unusedSimpArgs false
set_option linter.unusedVariables false
namespace Dcg.Proofs.GraphqlBridge
open Dcg.Model.Graphql (GType FieldIR parseField unroll)
open Dcg.Model.Types Dcg.Model.HintExpr Dcg.Model.GraphqlBridge
open Dcg.Sem.Typing hiding Str sNone sComma sPipe

/-! ### names -/

theorem okName_plain {n : Str} (h : okName n = true) : plainName n = true := by
  simp only [okName, Bool.and_eq_true] at h; exact h.1

theorem okName_not_reserved {n : Str} (h : okName n = true) {r : Str} (hr : r ∈ reservedNames) : n ≠ r := by
  simp only [okName, Bool.and_eq_true, Bool.not_eq_true', ] at h
  intro e
  subst e
  have : reservedNames.contains n = true := by simpa using hr
  rw [this] at h
  exact absurd h.2 (by simp)

theorem okName_ne_nil {n : Str} (h : okName n = true) : n ≠ [] := by
  have := okName_plain h
  intro e; subst e
  simp [plainName] at this

theorem okName_ne_none {n : Str} (h : okName n = true) : n ≠ sNone :=
  okName_not_reserved h (by decide)

theorem okName_ne_any {n : Str} (h : okName n = true) : n ≠ sAny :=
  okName_not_reserved h (by decide)

theorem okName_normBare {n : Str} (h : okName n = true) : normBare n = .atom n := by
  have h1 : listNames.contains n = false := by
    cases hc : listNames.contains n with
    | false => rfl
    | true =>
      have hm : n ∈ listNames := by simpa using hc
      exact absurd rfl (okName_not_reserved h (r := n) (by simp [reservedNames, hm]))
  have h2 : setNames.contains n = false := by
    cases hc : setNames.contains n with
    | false => rfl
    | true =>
      have hm : n ∈ setNames := by simpa using hc
      exact absurd rfl (okName_not_reserved h (r := n) (by simp [reservedNames, hm]))
  have h3 : dictNames.contains n = false := by
    cases hc : dictNames.contains n with
    | false => rfl
    | true =>
      have hm : n ∈ dictNames := by simpa using hc
      exact absurd rfl (okName_not_reserved h (r := n) (by simp [reservedNames, hm]))
  have g1 : n ∉ listNames := by intro hm; have : listNames.contains n = true := by simpa using hm
                                rw [h1] at this; exact absurd this (by simp)
  have g2 : n ∉ setNames := by intro hm; have : setNames.contains n = true := by simpa using hm
                               rw [h2] at this; exact absurd this (by simp)
  have g3 : n ∉ dictNames := by intro hm; have : dictNames.contains n = true := by simpa using hm
                                rw [h3] at this; exact absurd this (by simp)
  simp [normBare, g1, g2, g3]

/-! ### printing -/

theorem print_app_ne (h : Str) (args : List TExpr) (s : Str) (hs : '[' ∉ s) : print (.app h args) ≠ s := by
  intro e
  apply hs
  rw [← e]
  simp [print]

theorem listName_cases (o : Opts) :
    listName o = sSequence ∨ listName o = sStdList ∨ listName o = sList := by
  unfold listName
  split
  · exact Or.inl rfl
  · split
    · exact Or.inr (Or.inl rfl)
    · exact Or.inr (Or.inr rfl)

theorem listName_ne_union (o : Opts) : listName o ≠ sUnion := by
  rcases listName_cases o with h | h | h <;> rw [h] <;> decide

theorem listName_ne_optional (o : Opts) : listName o ≠ sOptional := by
  rcases listName_cases o with h | h | h <;> rw [h] <;> decide

theorem normHead_listName (o : Opts) : normHead (listName o) = nList := by
  rcases listName_cases o with h | h | h <;> rw [h] <;> decide

/-! ### `get_optional_type` on the expressions of a chain -/

theorem getOptionalE_atom (n : Str) (h1 : n ≠ []) (h2 : n ≠ sNone) :
    getOptionalE false (.atom n) = .app sOptional [.atom n] := by
  simp [getOptionalE, rmE, rmU, print, h1, h2]

theorem getOptionalE_app (h : Str) (args : List TExpr) (hh : h ≠ sUnion) :
    getOptionalE false (.app h args) = .app sOptional [.app h args] := by
  have h1 : print (.app h args) ≠ [] := print_app_ne h args [] (by simp)
  have h2 : print (.app h args) ≠ sNone := print_app_ne h args sNone (by decide)
  simp [getOptionalE, rmE, rmU, hh, h1, h2]

/-- the core of a chain's expression: what stands inside the optional wrap -/
def coreE (o : Opts) : GDT → TExpr
  | .leaf _ n => .atom n
  | .listOf _ d => .app (listName o) [chainE o d]

theorem chainE_eq (o : Opts) (d : GDT) : chainE o d = optE d.optional (coreE o d) := by
  cases d <;> simp [chainE, coreE, Dcg.Model.Graphql.DT.optional]

theorem getOptionalE_core (o : Opts) (d : GDT) (hn : okName d.typeName = true) :
    getOptionalE false (coreE o d) = .app sOptional [coreE o d] := by
  cases d with
  | leaf opt n =>
    simp only [Dcg.Model.Graphql.DT.typeName] at hn
    exact getOptionalE_atom n (okName_ne_nil hn) (okName_ne_none hn)
  | listOf opt d => exact getOptionalE_app _ _ (listName_ne_union o)

theorem print_core_ne_any (o : Opts) (d : GDT) (hn : okName d.typeName = true) :
    print (coreE o d) ≠ sAny := by
  cases d with
  | leaf opt n =>
    simp only [Dcg.Model.Graphql.DT.typeName] at hn
    simpa [coreE, print] using okName_ne_any hn
  | listOf opt d => exact print_app_ne _ _ sAny (by decide)

theorem print_core_ne_nil (o : Opts) (d : GDT) (hn : okName d.typeName = true) :
    print (coreE o d) ≠ [] := by
  cases d with
  | leaf opt n =>
    simp only [Dcg.Model.Graphql.DT.typeName] at hn
    simpa [coreE, print] using okName_ne_nil hn
  | listOf opt d => exact print_app_ne _ _ [] (by simp)

theorem print_chain_ne_nil (o : Opts) (d : GDT) (hn : okName d.typeName = true) :
    print (chainE o d) ≠ [] := by
  rw [chainE_eq]
  cases d.optional
  · simpa [optE] using print_core_ne_nil o d hn
  · simpa [optE] using print_app_ne sOptional [coreE o d] [] (by simp)

theorem finishE_core (o : Opts) (d : GDT) (hn : okName d.typeName = true) (opt : Bool) :
    finishE false (coreE o d) opt = (optE opt (coreE o d), opt) := by
  cases opt with
  | false => simp [finishE, optE]
  | true =>
    have := print_core_ne_any o d hn
    simp [finishE, optE, this, getOptionalE_core o d hn]

/-! ### `hintE` on a chain -/

theorem hintE_chain (o : Opts) (ho : o.unionOp = false) (isEnum : Str → Bool) :
    ∀ d : GDT, okName d.typeName = true → hintE o (toTypes isEnum d) = (chainE o d, d.optional)
  | .leaf opt n, hn => by
    have hfin := finishE_core o (.leaf opt n) hn opt
    simp only [Dcg.Model.Graphql.DT.typeName] at hn
    have hne := okName_ne_nil hn
    simp only [coreE] at hfin
    by_cases he : isEnum n = true <;>
      simp [toTypes, hintE, hintEO, hintEL, hintNodeE, baseE, containerE, refNullable, hne, ho, he,
        hfin, chainE, Dcg.Model.Graphql.DT.optional]
  | .listOf opt d, hn => by
    have hfin := finishE_core o (.listOf opt d) hn opt
    simp only [Dcg.Model.Graphql.DT.typeName] at hn
    have ih := hintE_chain o ho isEnum d hn
    have hp := print_chain_ne_nil o d hn
    simp only [coreE] at hfin
    simp [toTypes, hintE, hintEO, hintEL, hintNodeE, baseE, containerE, wrap1E, refNullable, ho, ih,
      hp, hfin, chainE, Dcg.Model.Graphql.DT.optional]


/-! ### the chain is a tree C13's theorems apply to -/

theorem wfTree_toTypes (isEnum : Str → Bool) :
    ∀ d : GDT, okName d.typeName = true → wfTree (toTypes isEnum d) = true
  | .leaf opt n, hn => by
    simp only [Dcg.Model.Graphql.DT.typeName] at hn
    have hp := okName_plain hn
    have hne := okName_ne_nil hn
    by_cases he : isEnum n = true <;>
      simp [toTypes, wfTree, wfTreeO, wfTreeL, wfAttrs, hp, he, hne]
  | .listOf opt d, hn => by
    simp only [Dcg.Model.Graphql.DT.typeName] at hn
    simp [toTypes, wfTree, wfTreeO, wfTreeL, wfAttrs, wfTree_toTypes isEnum d hn]

theorem okName_free {n : Str} (h : okName n = true) : Dcg.Proofs.Types.allCont.contains n = false := by
  cases hc : Dcg.Proofs.Types.allCont.contains n with
  | false => rfl
  | true =>
    have hm : n ∈ Dcg.Proofs.Types.allCont := by simpa using hc
    have : n ∈ reservedNames := by
      simp only [Dcg.Proofs.Types.allCont, List.mem_append] at hm
      simp only [reservedNames, List.mem_append]
      rcases hm with (hm | hm) | hm
      · exact Or.inl (Or.inl (Or.inl (Or.inr hm)))
      · exact Or.inl (Or.inl (Or.inr hm))
      · exact Or.inl (Or.inr hm)
    exact absurd rfl (okName_not_reserved h this)

theorem freeTree_toTypes (isEnum : Str → Bool) :
    ∀ d : GDT, okName d.typeName = true → Dcg.Proofs.Types.freeTree (toTypes isEnum d) = true
  | .leaf opt n, hn => by
    simp only [Dcg.Model.Graphql.DT.typeName] at hn
    have hf : n ∉ Dcg.Proofs.Types.allCont := by
      intro hm
      have : Dcg.Proofs.Types.allCont.contains n = true := by simpa using hm
      rw [okName_free hn] at this; exact absurd this (by simp)
    by_cases he : isEnum n = true <;>
      simp [toTypes, Dcg.Proofs.Types.freeTree, Dcg.Proofs.Types.freeTreeO, Dcg.Proofs.Types.freeTreeL,
        Dcg.Proofs.Types.freeAttrs, hf, he]
  | .listOf opt d, hn => by
    simp only [Dcg.Model.Graphql.DT.typeName] at hn
    have h0 : ([] : Str) ∉ Dcg.Proofs.Types.allCont := by decide
    simp [toTypes, Dcg.Proofs.Types.freeTree, Dcg.Proofs.Types.freeTreeO, Dcg.Proofs.Types.freeTreeL,
      Dcg.Proofs.Types.freeAttrs, h0, freeTree_toTypes isEnum d hn]

/-- the expression of a chain is well-formed (from C13: the structural rendering of a plain tree is) -/
theorem wfU_chain (o : Opts) (ho : o.unionOp = false) (isEnum : Str → Bool) (d : GDT)
    (hn : okName d.typeName = true) : Dcg.Proofs.Types.wfU (chainE o d) = true := by
  have := (Dcg.Proofs.Types.typeHint_typing o ho (toTypes isEnum d) (wfTree_toTypes isEnum d hn)).2
  rwa [hintE_chain o ho isEnum d hn] at this

/-! ### what the expression of a chain denotes -/

theorem mkTy_single_false (t : Ty) : mkTy [t] false = t := by
  simp [mkTy, dedup]

theorem mkTy_single_true (t : Ty) : mkTy [t] true = .union [t] true := by
  simp [mkTy, dedup]

theorem denote_optional (e : TExpr) (x : Ty) (ha : alts e = [x]) :
    denote (.app sOptional [e]) = .union [x] true := by
  have h1 : alts (.app sOptional [e]) = alts e := by simp [alts, altsL]
  have h2 : hasNone (.app sOptional [e]) = true := by simp [hasNone]
  unfold denote
  rw [h1, h2, ha, mkTy_single_true]

theorem denote_plain (e : TExpr) (x : Ty) (ha : alts e = [x]) (hh : hasNone e = false) : denote e = x := by
  unfold denote
  rw [ha, hh, mkTy_single_false]

/-- the one alternative of a level, without its `None` -/
def coreTy : GDT → Ty
  | .leaf _ n => .atom n
  | .listOf _ d => .app nList [denChain d]

theorem denChain_eq (d : GDT) : denChain d = withNone d.optional (coreTy d) := by
  cases d <;> simp [denChain, coreTy, Dcg.Model.Graphql.DT.optional]

theorem denote_chain (o : Opts) : ∀ d : GDT, okName d.typeName = true →
    alts (coreE o d) = [coreTy d] ∧ hasNone (coreE o d) = false ∧ denote (chainE o d) = denChain d
  | .leaf opt n, hn => by
    simp only [Dcg.Model.Graphql.DT.typeName] at hn
    have h1 : n ≠ Dcg.Sem.Typing.sNone := okName_ne_none hn
    have hb := okName_normBare hn
    have ha : alts (.atom n) = [Ty.atom n] := by simp [alts, h1, hb]
    have hh : hasNone (.atom n) = false := by simp [hasNone, h1]
    refine ⟨by simpa [coreE, coreTy] using ha, by simpa [coreE] using hh, ?_⟩
    cases opt with
    | false => simpa [chainE, optE, denChain, withNone] using denote_plain _ _ ha hh
    | true => simpa [chainE, optE, denChain, withNone] using denote_optional _ _ ha
  | .listOf opt d, hn => by
    simp only [Dcg.Model.Graphql.DT.typeName] at hn
    obtain ⟨_, _, ih⟩ := denote_chain o d hn
    have hd : denoteL [chainE o d] = [denChain d] := by
      have : denote (chainE o d) = mkTy (alts (chainE o d)) (hasNone (chainE o d)) := rfl
      simp [denoteL, ← this, ih]
    have ha : alts (.app (listName o) [chainE o d]) = [Ty.app nList [denChain d]] := by
      simp [alts, listName_ne_optional o, listName_ne_union o, normHead_listName o, hd]
    have hh : hasNone (.app (listName o) [chainE o d]) = false := by
      simp [hasNone, listName_ne_optional o, listName_ne_union o]
    refine ⟨by simpa [coreE, coreTy] using ha, by simpa [coreE] using hh, ?_⟩
    cases opt with
    | false => simpa [chainE, optE, denChain, withNone] using denote_plain _ _ ha hh
    | true => simpa [chainE, optE, denChain, withNone] using denote_optional _ _ ha

theorem denChain_unroll (t : GType) : ∀ opt, denChain (unroll t opt) = den opt t := by
  induction t with
  | named n => intro opt; rfl
  | list t ih => intro opt; simp [unroll, denChain, den, ih]
  | nonNull t ih => intro opt; simp [unroll, den, ih]

/-! ### the member level -/

theorem coreE_setOpt (o : Opts) (b : Bool) (d : GDT) : coreE o (setOpt b d) = coreE o d := by
  cases d <;> rfl

theorem optional_setOpt (b : Bool) (d : GDT) : (setOpt b d).optional = b := by
  cases d <;> rfl

theorem typeName_setOpt (b : Bool) (d : GDT) : (setOpt b d).typeName = d.typeName := by
  cases d <;> rfl

theorem attrs_ty_ne_any (isEnum : Str → Bool) (d : GDT) (hn : okName d.typeName = true) :
    (toTypes isEnum d).attrs.ty ≠ sAny := by
  cases d with
  | leaf opt n =>
    simp only [Dcg.Model.Graphql.DT.typeName] at hn
    simpa [toTypes, Dcg.Model.Types.DT.attrs] using okName_ne_any hn
  | listOf opt d => simp [toTypes, Dcg.Model.Types.DT.attrs, sAny]

/-- `DataModelFieldBase.type_hint` on a chain: the node's hint, wrapped in `Optional[…]` exactly when
the node is not optional and the member is not required -/
theorem fieldHint_chain (o : Opts) (ho : o.unionOp = false) (isEnum : Str → Bool) (d : GDT)
    (hn : okName d.typeName = true) (r : Bool) :
    fieldTypeHint o { required := r } (toTypes isEnum d) =
      print (chainE o (if d.optional || r then d else setOpt true d)) := by
  have hw := wfTree_toTypes isEnum d hn
  obtain ⟨h1, h2⟩ := Dcg.Props.C13.typeHint_eq_print_typing o ho (toTypes isEnum d) hw
  rw [hintE_chain o ho isEnum d hn] at h1 h2
  simp only at h1 h2
  have hne := print_chain_ne_nil o d hn
  have hty := attrs_ty_ne_any isEnum d hn
  unfold fieldTypeHint
  simp only [h1, h2, ho]
  cases hopt : d.optional with
  | true => simp [fieldDecide, hne, hty]
  | false =>
    cases r with
    | true => simp [fieldDecide, hne]
    | false =>
      have hwf := wfU_chain o ho isEnum d hn
      have hopt' := Dcg.Props.C13.optional_keeps_alternatives_text (chainE o d) hwf
      have hc : chainE o d = coreE o d := by rw [chainE_eq, hopt]; rfl
      have hs : chainE o (setOpt true d) = .app sOptional [coreE o d] := by
        rw [chainE_eq, optional_setOpt, coreE_setOpt]; rfl
      simp only [fieldDecide, hne, if_false, Bool.false_eq_true, false_and, or_self, Bool.or_false]
      rw [hopt', hc, getOptionalE_core o d hn, hs]
      simp

/-- for a well-formed type the chain of the member, made optional at the top when the member is not
required, is the chain of the declared type -/
theorem member_chain (fo : Bool) (t : GType) (hwf : t.wf = true) :
    (let d := unroll t true
     if d.optional || (!fo && !d.optional) then d else setOpt true d) = unroll (declared fo t) true := by
  have ho := Dcg.Proofs.Graphql.unroll_optional t hwf true
  cases fo with
  | false => cases h : (unroll t true).optional <;> simp [declared, h]
  | true =>
    cases t with
    | named n => simp [unroll, declared, GType.nullableTop, Dcg.Model.Graphql.DT.optional]
    | list s => simp [unroll, declared, GType.nullableTop, Dcg.Model.Graphql.DT.optional]
    | nonNull s =>
      cases s with
      | named n => simp [unroll, declared, GType.nullableTop, Dcg.Model.Graphql.DT.optional, setOpt]
      | list s' => simp [unroll, declared, GType.nullableTop, Dcg.Model.Graphql.DT.optional, setOpt]
      | nonNull s' => simp [GType.wf] at hwf

theorem baseName_declared (fo : Bool) (t : GType) : (declared fo t).baseName = t.baseName := by
  cases fo <;> cases t <;> simp [declared, GType.nullableTop, GType.baseName]

/-- the annotation of a member is the printed expression of the chain of its declared type -/
theorem annotation_eq (o : Opts) (ho : o.unionOp = false) (isEnum : Str → Bool) (fo : Bool) (t : GType)
    (hwf : t.wf = true) (hn : okName t.baseName = true) :
    annotation o isEnum fo t = print (chainE o (unroll (declared fo t) true)) := by
  have hn' : okName (unroll t true).typeName = true := by
    rw [Dcg.Proofs.Graphql.unroll_typeName]; exact hn
  unfold annotation
  simp only [parseField, fieldBits]
  rw [fieldHint_chain o ho isEnum _ hn', ← member_chain fo t hwf]

end Dcg.Proofs.GraphqlBridge
