import Dcg.Model.ResolverWorklist
/-! Helper lemmas for the reserved-reference work list (C06). -/
namespace Dcg.Proofs.ResolverWorklist
open Dcg.Model.ResolverWorklist

/-- what one step may do to the state: `reserved` is extended at the end, `loaded` only grows -/
structure Ext (st st' : WState) : Prop where
  res : ∃ t, st'.reserved = st.reserved ++ t
  ld : ∀ x ∈ st.loaded, x ∈ st'.loaded

theorem Ext.refl (st : WState) : Ext st st := ⟨⟨[], by simp⟩, fun _ h => h⟩

theorem Ext.trans {a b c : WState} (h1 : Ext a b) (h2 : Ext b c) : Ext a c := by
  obtain ⟨t1, e1⟩ := h1.res
  obtain ⟨t2, e2⟩ := h2.res
  exact ⟨⟨t1 ++ t2, by rw [e2, e1, List.append_assoc]⟩, fun x hx => h2.ld x (h1.ld x hx)⟩

theorem reserve_ext (st : WState) (r : Ptr) : Ext st (reserve st r) := by
  unfold reserve
  split
  · exact Ext.refl st
  · exact ⟨⟨[r], rfl⟩, fun _ h => h⟩

theorem foldl_reserve_ext (refs : List Ptr) (st : WState) : Ext st (refs.foldl reserve st) := by
  induction refs generalizing st with
  | nil => exact Ext.refl st
  | cons r rs ih => exact (reserve_ext st r).trans (ih _)

theorem load_ext (st : WState) (p : Ptr) (refs : List Ptr) : Ext st (load st p refs) := by
  have h := foldl_reserve_ext refs { st with loaded := p :: st.loaded }
  unfold load
  exact ⟨h.res, fun x hx => h.ld x (List.mem_cons_of_mem _ hx)⟩

theorem load_loaded (st : WState) (p : Ptr) (refs : List Ptr) : p ∈ (load st p refs).loaded := by
  have h := foldl_reserve_ext refs { st with loaded := p :: st.loaded }
  unfold load
  exact h.ld p List.mem_cons_self

/-- a round extends the state and leaves every pointer of its snapshot loaded -/
theorem round_spec (doc : Ptr → Option (List Ptr)) : ∀ (ps : List Ptr) (st st' : WState),
    round doc ps st = some st' → Ext st st' ∧ ∀ p ∈ ps, p ∈ st'.loaded := by
  intro ps
  induction ps with
  | nil =>
    intro st st' h
    simp only [round, Option.some.injEq] at h
    subst h
    exact ⟨Ext.refl _, by simp⟩
  | cons p ps ih =>
    intro st st' h
    simp only [round] at h
    split at h
    · next hp =>
      obtain ⟨he, hall⟩ := ih _ _ h
      refine ⟨he, ?_⟩
      intro q hq
      rcases List.mem_cons.mp hq with hq | hq
      · subst hq; exact he.ld _ hp
      · exact hall q hq
    · split at h
      · cases h
      · next refs hd =>
        obtain ⟨he, hall⟩ := ih _ _ h
        refine ⟨(load_ext st p refs).trans he, ?_⟩
        intro q hq
        rcases List.mem_cons.mp hq with hq | hq
        · subst hq; exact he.ld _ (load_loaded st _ refs)
        · exact hall q hq

/-! ### the reserved set stays duplicate free and inside the finite universe of the document -/

/-- every reference written in the document belongs to `U` -/
def Closed (U : List Ptr) (doc : Ptr → Option (List Ptr)) : Prop :=
  ∀ p refs, doc p = some refs → ∀ r ∈ refs, r ∈ U

def Inv (U : List Ptr) (st : WState) : Prop := st.reserved.Nodup ∧ ∀ r ∈ st.reserved, r ∈ U

theorem reserve_inv {U : List Ptr} {st : WState} {r : Ptr} (hr : r ∈ U) (h : Inv U st) : Inv U (reserve st r) := by
  unfold reserve
  split
  · exact h
  · next hn =>
    simp only [not_or] at hn
    refine ⟨?_, ?_⟩
    · rw [List.nodup_append]
      refine ⟨h.1, by simp, ?_⟩
      intro a ha b hb
      simp only [List.mem_singleton] at hb
      subst hb
      intro hab; subst hab
      exact hn.2 ha
    · intro x hx
      rcases List.mem_append.mp hx with hx | hx
      · exact h.2 x hx
      · simp only [List.mem_singleton] at hx; subst hx; exact hr

theorem foldl_reserve_inv {U : List Ptr} (refs : List Ptr) (st : WState) (hr : ∀ r ∈ refs, r ∈ U) (h : Inv U st) :
    Inv U (refs.foldl reserve st) := by
  induction refs generalizing st with
  | nil => exact h
  | cons r rs ih =>
    exact ih _ (fun x hx => hr x (List.mem_cons_of_mem _ hx)) (reserve_inv (hr r List.mem_cons_self) h)

theorem round_inv {U : List Ptr} {doc : Ptr → Option (List Ptr)} (hc : Closed U doc) :
    ∀ (ps : List Ptr) (st st' : WState), round doc ps st = some st' → Inv U st → Inv U st' := by
  intro ps
  induction ps with
  | nil =>
    intro st st' h hi
    simp only [round, Option.some.injEq] at h
    subst h; exact hi
  | cons p ps ih =>
    intro st st' h hi
    simp only [round] at h
    split at h
    · exact ih _ _ h hi
    · split at h
      · cases h
      · next refs hd =>
        refine ih _ _ h ?_
        unfold load
        exact foldl_reserve_inv refs _ (hc p refs hd) hi

theorem inv_length_le {U : List Ptr} {st : WState} (h : Inv U st) : st.reserved.length ≤ U.length :=
  h.1.length_le_of_subset (fun x hx => h.2 x hx)

/-- completeness: when the loop ends normally, every reserved pointer is loaded -/
theorem loop_complete (doc : Ptr → Option (List Ptr)) : ∀ (fuel : Nat) (st st' : WState),
    loop doc fuel st = .done st' → ∀ r ∈ st'.reserved, r ∈ st'.loaded := by
  intro fuel
  induction fuel with
  | zero => intro st st' h; simp [loop] at h
  | succ n ih =>
    intro st st' h
    simp only [loop] at h
    split at h
    · next he =>
      cases h
      intro r hr
      rw [he] at hr
      cases hr
    · split at h
      · cases h
      · next st1 hr =>
        obtain ⟨hext, hall⟩ := round_spec doc _ _ _ hr
        split at h
        · next hl =>
          cases h
          obtain ⟨t, ht⟩ := hext.res
          have : t = [] := by
            have := congrArg List.length ht
            rw [List.length_append, hl] at this
            exact List.eq_nil_of_length_eq_zero (by omega)
          rw [this, List.append_nil] at ht
          intro r hr
          exact hall r (ht ▸ hr)
        · exact ih _ _ h

/-- termination: `|U| - |reserved| + 1` rounds are enough -/
theorem loop_fuel {U : List Ptr} {doc : Ptr → Option (List Ptr)} (hc : Closed U doc) :
    ∀ (fuel : Nat) (st : WState), Inv U st → U.length - st.reserved.length + 1 ≤ fuel →
      loop doc fuel st ≠ .outOfFuel := by
  intro fuel
  induction fuel with
  | zero => intro st _ h; omega
  | succ n ih =>
    intro st hi hf
    simp only [loop]
    split
    · simp
    · split
      · simp
      · next st1 hr =>
        split
        · simp
        · next hne =>
          have hi1 := round_inv hc _ _ _ hr hi
          obtain ⟨t, ht⟩ := (round_spec doc _ _ _ hr).1.res
          have hlen : st.reserved.length < st1.reserved.length := by
            have := congrArg List.length ht
            rw [List.length_append] at this
            omega
          have := inv_length_le hi1
          exact ih st1 hi1 (by omega)

end Dcg.Proofs.ResolverWorklist
