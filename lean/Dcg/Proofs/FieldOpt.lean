import Dcg.Proofs.Types
import Dcg.Proofs.NoneOnce
import Dcg.Model.HintInv
/-
Dcg.Proofs.FieldOpt — no doubly wrapped optional in the `Optional[…]`/`Union[…]` spelling:
inside `optRegion` the structural rendering of a type tree contains no `Optional[Optional[…]]`
(`noDbl_hintE`), and under the parser-output invariant `anyContPlain` the field-level decision of
`DataModelFieldBase.type_hint` adds none (`noDbl_fieldE`).  The tie to the text the code builds is
`typeHint_typing` / `getOptionalType_typing` (Proofs/Types): `fieldTypeHint_typing`.
-/
namespace Dcg.Proofs.FieldOpt
open Dcg.Model.Types Dcg.Model.HintExpr Dcg.Proofs.Cover Dcg.Proofs.Types Dcg.Proofs.NoneOnce
open Dcg.Sem.Typing hiding Str sNone sComma sPipe

/-! ### list forms -/

theorem noDblL_mem {es : List TExpr} (h : noDblL es = true) : ∀ e ∈ es, noDbl e = true := by
  induction es with
  | nil => intro e he; cases he
  | cons a l ih =>
    simp only [noDblL, Bool.and_eq_true] at h
    intro e he
    cases he with
    | head => exact h.1
    | tail _ h' => exact ih h.2 e h'

theorem noDblL_of_mem {es : List TExpr} (h : ∀ e ∈ es, noDbl e = true) : noDblL es = true := by
  induction es with
  | nil => rfl
  | cons a l ih =>
    simp only [noDblL, Bool.and_eq_true]
    exact ⟨h a (List.mem_cons_self ..), ih (fun e he => h e (List.mem_cons_of_mem _ he))⟩

theorem noOptTopL_mem {es : List TExpr} (h : noOptTopL es = true) : ∀ e ∈ es, noOptTop e = true := by
  induction es with
  | nil => intro e he; cases he
  | cons a l ih =>
    simp only [noOptTopL, Bool.and_eq_true] at h
    intro e he
    cases he with
    | head => exact h.1
    | tail _ h' => exact ih h.2 e h'

theorem noOptTopL_of_mem {es : List TExpr} (h : ∀ e ∈ es, noOptTop e = true) : noOptTopL es = true := by
  induction es with
  | nil => rfl
  | cons a l ih =>
    simp only [noOptTopL, Bool.and_eq_true]
    exact ⟨h a (List.mem_cons_self ..), ih (fun e he => h e (List.mem_cons_of_mem _ he))⟩

theorem optRooted_of_noOptTop (e : TExpr) (h : noOptTop e = true) : optRooted e = false := by
  cases e with
  | atom s => rfl
  | bor args => rfl
  | app hd args =>
    simp only [noOptTop] at h
    simp only [optRooted, beq_eq_false_iff_ne, ne_eq]
    intro hh
    simp [hh] at h

/-! ### the `None` removal keeps both predicates -/

theorem rmUL_mem (P : TExpr → Prop) : ∀ (args : List TExpr), (∀ a ∈ args, P a → P (rmU a)) → (∀ a ∈ args, P a) →
    ∀ x ∈ rmUL args, P x := by
  intro args
  induction args with
  | nil => intro _ _ x hx; simp [rmUL] at hx
  | cons a l ih =>
    intro hr hp x hx
    have hl := ih (fun y hy => hr y (List.mem_cons_of_mem _ hy)) (fun y hy => hp y (List.mem_cons_of_mem _ hy))
    simp only [rmUL] at hx
    split at hx
    · exact hl x hx
    · simp only [List.mem_cons] at hx
      rcases hx with rfl | hx
      · exact hr a (List.mem_cons_self ..) (hp a (List.mem_cons_self ..))
      · exact hl x hx

theorem noOptTop_mkUnionE (ps : List TExpr) (h : ∀ p ∈ ps, noOptTop p = true) : noOptTop (mkUnionE ps) = true := by
  match ps, h with
  | [], _ => rfl
  | [p], h => exact h p (List.mem_cons_self ..)
  | a :: b :: r, h =>
    have hne : sUnion ≠ sOptional := by decide
    simp only [mkUnionE, noOptTop, hne, if_false, if_true]
    exact noOptTopL_of_mem h

theorem noDbl_mkUnionE (ps : List TExpr) (h : ∀ p ∈ ps, noDbl p = true) : noDbl (mkUnionE ps) = true := by
  match ps, h with
  | [], _ => rfl
  | [p], h => exact h p (List.mem_cons_self ..)
  | a :: b :: r, h =>
    have hne : (sUnion == sOptional) = false := by decide
    simp only [mkUnionE, noDbl, hne, Bool.false_and, Bool.not_false, Bool.true_and]
    exact noDblL_of_mem h

theorem noOptTop_rmU : ∀ e, noOptTop e = true → noOptTop (rmU e) = true := by
  apply TExpr.ind
  · intro s h; simpa [rmU] using h
  · intro h args ih hp
    simp only [rmU]
    split
    · rename_i hu
      subst hu
      have hne : sUnion ≠ sOptional := by decide
      simp only [noOptTop, hne, if_false, if_true] at hp
      exact noOptTop_mkUnionE _ (rmUL_mem (fun e => noOptTop e = true) args ih (noOptTopL_mem hp))
    · exact hp
  · intro args _ hp; simpa [rmU] using hp

theorem noDbl_rmU : ∀ e, noDbl e = true → noDbl (rmU e) = true := by
  apply TExpr.ind
  · intro s h; simpa [rmU] using h
  · intro h args ih hp
    simp only [rmU]
    split
    · simp only [noDbl, Bool.and_eq_true] at hp
      exact noDbl_mkUnionE _ (rmUL_mem (fun e => noDbl e = true) args ih (noDblL_mem hp.2))
    · exact hp
  · intro args _ hp; simpa [rmU] using hp

/-! ### the union loop -/

theorem loop_mem (P : TExpr → Prop) (hP : ∀ e, P e → P (rmU e)) :
    ∀ (hs acc : List TExpr) (f : Bool), (∀ h ∈ hs, P h) → (∀ a ∈ acc, P a) →
    ∀ d ∈ (unionLoopE false hs acc f).1, P d := by
  intro hs
  induction hs with
  | nil => intro acc f _ ha d hd; exact ha d hd
  | cons h hs ih =>
    intro acc f hh ha
    have hhs : ∀ x ∈ hs, P x := fun x hx => hh x (List.mem_cons_of_mem _ hx)
    simp only [unionLoopE]
    split
    · exact ih acc f hhs ha
    · split
      · exact ih acc true hhs ha
      · apply ih _ _ hhs
        intro x hx
        rcases List.mem_append.mp hx with hx | hx
        · exact ha x hx
        · simp only [List.mem_singleton] at hx
          subst hx
          simp only [rmE, Bool.false_eq_true, if_false]
          exact hP h (hh h (List.mem_cons_self ..))

/-! ### one node -/

theorem noDbl_union (ds : List TExpr) (h : ∀ d ∈ ds, noDbl d = true) : noDbl (.app sUnion ds) = true := by
  have hne : (sUnion == sOptional) = false := by decide
  simp only [noDbl, hne, Bool.false_and, Bool.not_false, Bool.true_and]
  exact noDblL_of_mem h

theorem noOptTop_union (ds : List TExpr) (h : ∀ d ∈ ds, noOptTop d = true) : noOptTop (.app sUnion ds) = true := by
  have hne : sUnion ≠ sOptional := by decide
  simp only [noOptTop, hne, if_false, if_true]
  exact noOptTopL_of_mem h

theorem noDbl_literal (toks : List Str) : noDbl (.app sLiteral (toks.map .atom)) = true := by
  have hne : (sLiteral == sOptional) = false := by decide
  simp only [noDbl, hne, Bool.false_and, Bool.not_false, Bool.true_and]
  apply noDblL_of_mem
  intro e he
  simp only [List.mem_map] at he
  obtain ⟨tok, _, rfl⟩ := he
  rfl

theorem noOptTop_literal (toks : List Str) : noOptTop (.app sLiteral (toks.map .atom)) = true := by
  have h1 : sLiteral ≠ sOptional := by decide
  have h2 : sLiteral ≠ sUnion := by decide
  simp only [noOptTop, h1, h2, if_false]

/-- `P` holds of the base text of a node when it holds of the member hints that are used and is kept by
the `None` removal, by `Union[…]` of such, and holds of names and `Literal[…]` -/
theorem base_pred (P : TExpr → Prop) (hP : ∀ e, P e → P (rmU e)) (hatom : ∀ s, P (.atom s))
    (hunion : ∀ ds, (∀ d ∈ ds, P d) → P (.app sUnion ds)) (hlit : ∀ toks : List Str, P (.app sLiteral (toks.map .atom)))
    (o : Opts) (ho : o.unionOp = false) (a : Attrs) (kidEs : List TExpr)
    (hk : a.ty = [] → ∀ k ∈ kidEs, P k) : P (baseE o a kidEs).1 := by
  unfold baseE
  split
  · exact hatom _
  · rename_i hty
    have hty' : a.ty = [] := by simpa using hty
    have hk := hk hty'
    match kidEs, hk with
    | k1 :: k2 :: ks, hk =>
      simp only [ho, Bool.false_eq_true, if_false]
      have hl := loop_mem P hP (k1 :: k2 :: ks) [] a.isOptional hk (by intro x hx; cases hx)
      generalize unionLoopE false (k1 :: k2 :: ks) [] a.isOptional = r at hl
      obtain ⟨r1, r2⟩ := r
      simp only [] at hl ⊢
      match r1, hl with
      | [d], hl => exact hl d (List.mem_cons_self ..)
      | [], hl => exact hunion _ hl
      | d1 :: d2 :: ds, hl => exact hunion _ hl
    | [k], hk => exact hk k (List.mem_cons_self ..)
    | [], _ =>
      simp only []
      split
      · exact hlit _
      · split <;> exact hatom _

theorem noDbl_base (o : Opts) (ho : o.unionOp = false) (a : Attrs) (kidEs : List TExpr)
    (hk : ∀ k ∈ kidEs, noDbl k = true) : noDbl (baseE o a kidEs).1 = true :=
  base_pred (fun e => noDbl e = true) noDbl_rmU (fun _ => rfl) noDbl_union noDbl_literal o ho a kidEs (fun _ => hk)

theorem noOptTop_base (o : Opts) (ho : o.unionOp = false) (a : Attrs) (kidEs : List TExpr)
    (hk : a.ty = [] → ∀ k ∈ kidEs, noOptTop k = true) : noOptTop (baseE o a kidEs).1 = true :=
  base_pred (fun e => noOptTop e = true) noOptTop_rmU (fun _ => rfl) noOptTop_union noOptTop_literal o ho a kidEs hk

theorem optRooted_ne (h : Str) (args : List TExpr) (hne : (h != sOptional) = true) : optRooted (.app h args) = false := by
  simp only [optRooted]
  simpa [bne_iff_ne] using hne

theorem noDbl_app1 (h : Str) (b : TExpr) (hne : (h != sOptional) = true) (hb : noDbl b = true) :
    noDbl (.app h [b]) = true := by
  have : (h == sOptional) = false := by simpa [bne_iff_ne] using hne
  simp [noDbl, noDblL, this, hb]

theorem noOptTop_app (h : Str) (args : List TExpr) (h1 : (h != sOptional) = true) (h2 : (h != sUnion) = true) :
    noOptTop (.app h args) = true := by
  have e1 : h ≠ sOptional := by simpa [bne_iff_ne] using h1
  have e2 : h ≠ sUnion := by simpa [bne_iff_ne] using h2
  simp only [noOptTop, e1, e2, if_false]

theorem noDbl_container (o : Opts) (a : Attrs) (keyE : Option TExpr) (b : TExpr) (hb : noDbl b = true)
    (hkey : ∀ k, keyE = some k → noDbl k = true) : noDbl (containerE o a keyE b) = true := by
  obtain ⟨h1, _, h3, _, h5, _⟩ := names_ne o
  unfold containerE
  split
  · unfold wrap1E; split
    · rfl
    · exact noDbl_app1 _ _ h1 hb
  · split
    · unfold wrap1E; split
      · rfl
      · exact noDbl_app1 _ _ h3 hb
    · split
      · split
        · have hk : noDbl (keyE.getD (.atom sStr)) = true := by
            cases keyE with
            | none => rfl
            | some k => simpa using hkey k rfl
          have hv : noDbl (if print b = [] then TExpr.atom sAny else b) = true := by
            split
            · rfl
            · exact hb
          have : (dictName o == sOptional) = false := by simpa [bne_iff_ne] using h5
          simp [noDbl, noDblL, this, hk, hv]
        · rfl
      · exact hb

/-- a node with a container of its own never reaches an `Optional[…]` before its own wrapper; one without
does not when its base text does not -/
theorem noOptTop_container (o : Opts) (a : Attrs) (keyE : Option TExpr) (b : TExpr)
    (hb : isCont a = false → noOptTop b = true) : noOptTop (containerE o a keyE b) = true := by
  obtain ⟨h1, h2, h3, h4, h5, h6⟩ := names_ne o
  unfold containerE
  split
  · unfold wrap1E; split
    · rfl
    · exact noOptTop_app _ _ h1 h2
  · split
    · unfold wrap1E; split
      · rfl
      · exact noOptTop_app _ _ h3 h4
    · split
      · split
        · exact noOptTop_app _ _ h5 h6
        · rfl
      · rename_i hl hs hd
        apply hb
        simp only [isCont]
        simp only [Bool.not_eq_true] at hl hs hd
        simp [hl, hs, hd]

theorem noDbl_getOptionalE (c : TExpr) (hc : noDbl c = true) (ht : noOptTop c = true) :
    noDbl (getOptionalE false c) = true := by
  unfold getOptionalE
  simp only [rmE, Bool.false_eq_true, if_false]
  split
  · rfl
  · have h1 := noDbl_rmU c hc
    have h2 := optRooted_of_noOptTop _ (noOptTop_rmU c ht)
    simp [noDbl, noDblL, h1, h2]

theorem noDbl_finish (c : TExpr) (f : Bool) (hc : noDbl c = true) (ht : noOptTop c = true) :
    noDbl (finishE false c f).1 = true := by
  unfold finishE
  split
  · exact noDbl_getOptionalE c hc ht
  · exact hc

theorem finish_false (u : Bool) (c : TExpr) : finishE u c false = (c, false) := by
  simp [finishE]

theorem finish_snd (u : Bool) (c : TExpr) (f : Bool) : (finishE u c f).2 = f := by
  unfold finishE; split <;> rfl

theorem hintEL_mem (o : Opts) (P : TExpr → Prop) : ∀ (kids : List DT), (∀ c ∈ kids, P (hintE o c).1) →
    ∀ k ∈ hintEL o kids, P k := by
  intro kids
  induction kids with
  | nil => intro _ k hk; cases hk
  | cons c cs ih =>
    intro h k hk
    simp only [hintEL, List.mem_cons] at hk
    rcases hk with rfl | hk
    · exact h c (List.mem_cons_self ..)
    · exact ih (fun x hx => h x (List.mem_cons_of_mem _ hx)) k hk

theorem optRegionL_mem (o : Opts) {kids : List DT} (h : optRegionL o kids = true) : ∀ c ∈ kids, optRegion o c = true := by
  induction kids with
  | nil => intro c hc; cases hc
  | cons a l ih =>
    simp only [optRegionL, Bool.and_eq_true] at h
    intro c hc
    cases hc with
    | head => exact h.1
    | tail _ h' => exact ih h.2 c h'

/-- what the rendering of one node looks like before the node's own `Optional[…]`:
`c` has no doubly wrapped optional and does not reach an `Optional[…]` -/
theorem node_pre (o : Opts) (ho : o.unionOp = false) (a : Attrs) (key : Option DT) (kids : List DT)
    (hkids : ∀ k ∈ hintEL o kids, noDbl k = true) (hkey : ∀ k, hintEO o key = some k → noDbl k = true)
    (hn : optNode o a kids = true) :
    noDbl (containerE o a (hintEO o key) (baseE o a (hintEL o kids)).1) = true ∧
    noOptTop (containerE o a (hintEO o key) (baseE o a (hintEL o kids)).1) = true := by
  refine ⟨noDbl_container o a _ _ (noDbl_base o ho a _ hkids) hkey, ?_⟩
  apply noOptTop_container
  intro hc
  apply noOptTop_base o ho
  intro hty
  simp only [optNode, hty, hc, and_self, if_true] at hn
  exact noOptTopL_mem hn

/-- `no_double_optional`, `Optional[…]`/`Union[…]` spelling, every tree inside `optRegion` (no hypothesis on names):
the structural rendering contains no `Optional[Optional[…]]`; and a node that is not optional after the call
does not reach an `Optional[…]` (so that a wrapper put around it by the field is the only one). -/
theorem noDbl_hintE (o : Opts) (ho : o.unionOp = false) : ∀ t, optRegion o t = true →
    noDbl (hintE o t).1 = true ∧ ((hintE o t).2 = false → noOptTop (hintE o t).1 = true) := by
  apply DT.ind
  intro a key kids ihk ihl hr
  simp only [optRegion, Bool.and_eq_true] at hr
  obtain ⟨⟨hn, hrk⟩, hrl⟩ := hr
  have hkids : ∀ k ∈ hintEL o kids, noDbl k = true :=
    hintEL_mem o (fun e => noDbl e = true) kids (fun c hc => (ihl c hc (optRegionL_mem o hrl c hc)).1)
  have hkey : ∀ k, hintEO o key = some k → noDbl k = true := by
    cases key with
    | none => intro k hk; simp [hintEO] at hk
    | some kk =>
      intro k hk
      simp only [hintEO, Option.some.injEq] at hk
      subst hk
      simp only [optRegionO] at hrk
      exact (ihk kk rfl hrk).1
  obtain ⟨h1, h2⟩ := node_pre o ho a key kids hkids hkey hn
  simp only [hintE, hintNodeE, ho]
  refine ⟨noDbl_finish _ _ h1 h2, ?_⟩
  intro hf
  rw [finish_snd] at hf
  rw [hf, finish_false]
  exact h2

/-! ### the field -/

theorem fieldDecideE_cases (u : Bool) (fb : FieldBits) (e : TExpr) (f : Bool) (ty : Str) :
    fieldDecideE u fb e f ty = eNone ∨ fieldDecideE u fb e f ty = e ∨
    (fieldDecideE u fb e f ty = getOptionalE u e ∧ ¬ (f = true ∧ ty ≠ sAny)) := by
  unfold fieldDecideE
  split
  · exact Or.inl rfl
  · split
    · exact Or.inr (Or.inl rfl)
    · rename_i hg
      have hg' : ¬ (f = true ∧ ty ≠ sAny) := fun h => hg (Or.inr h)
      split
      · exact Or.inr (Or.inr ⟨rfl, hg'⟩)
      · exact Or.inr (Or.inl rfl)
      · split
        · split
          · exact Or.inr (Or.inr ⟨rfl, hg'⟩)
          · exact Or.inr (Or.inl rfl)
        · split
          · exact Or.inr (Or.inr ⟨rfl, hg'⟩)
          · exact Or.inr (Or.inl rfl)

/-- a node whose raw type is `Any`: without a container it renders as `Any` and is never wrapped; the flag
after the call is the node's own flag or its nullable reference -/
theorem hintE_any (o : Opts) (a : Attrs) (key : Option DT) (kids : List DT) (hty : a.ty = sAny) :
    (hintE o (.mk a key kids)).2 = (a.isOptional || refNullable a) ∧
    (isCont a = false → (hintE o (.mk a key kids)).1 = .atom sAny) := by
  have hne : a.ty ≠ [] := by rw [hty]; decide
  have hb : baseE o a (hintEL o kids) = (.atom a.ty, a.isOptional) := by
    unfold baseE; simp [hne]
  simp only [hintE, hintNodeE, hb, finish_snd, true_and]
  intro hc
  simp only [isCont, Bool.or_eq_false_iff] at hc
  obtain ⟨⟨hl, hs⟩, hd⟩ := hc
  have hcont : containerE o a (hintEO o key) (.atom a.ty) = .atom a.ty := by
    unfold containerE; simp [hl, hs, hd]
  rw [hcont, hty]
  unfold finishE
  simp [print_atom]

/-- THE FIELD: inside `optRegion`, when the type handed to the field satisfies the parser-output invariant at
its root, the annotation of the field (any `required` / `nullable` / `type_has_null` / default-factory setting)
contains no `Optional[Optional[…]]`. -/
theorem noDbl_fieldE (o : Opts) (ho : o.unionOp = false) (fb : FieldBits) (t : DT)
    (hi : anyContPlain t = true) (hr : optRegion o t = true) : noDbl (fieldE o fb t) = true := by
  obtain ⟨h1, h2⟩ := noDbl_hintE o ho t hr
  unfold fieldE
  simp only [ho]
  rcases fieldDecideE_cases false fb (hintE o t).1 (hintE o t).2 t.attrs.ty with h | h | ⟨h, hg⟩
  · rw [h]; rfl
  · rw [h]; exact h1
  · rw [h]
    apply noDbl_getOptionalE _ h1
    cases hf : (hintE o t).2 with
    | false => exact h2 hf
    | true =>
      have hty : t.attrs.ty = sAny := by
        by_cases hh : t.attrs.ty = sAny
        · exact hh
        · exact absurd ⟨hf, hh⟩ hg
      obtain ⟨a, key, kids⟩ := t
      simp only [DT.attrs] at hty
      obtain ⟨hfl, hat⟩ := hintE_any o a key kids hty
      simp only [anyContPlain, anyContPlainA, Bool.and_eq_true, Bool.not_eq_true'] at hi
      have hroot := hi.1.1
      rw [hfl] at hf
      cases hc : isCont a with
      | false => rw [hat hc]; rfl
      | true =>
        simp [hty, hc, hf] at hroot

/-! ### the tie to the text -/

theorem fieldDecide_typing (fb : FieldBits) (e : TExpr) (f : Bool) (ty : Str) (hw : wfU e = true) :
    fieldDecide false fb (print e) f ty = print (fieldDecideE false fb e f ty) ∧
    wfU (fieldDecideE false fb e f ty) = true := by
  obtain ⟨hg1, hg2⟩ := getOptionalType_typing e hw
  have hnone : sNone = print eNone ∧ wfU eNone = true := ⟨by simp [eNone, print_atom, Dcg.Sem.Typing.sNone, sNone], by decide⟩
  obtain ⟨df, nl, rq, tn, fk⟩ := fb
  unfold fieldDecide fieldDecideE
  simp only []
  split
  · exact ⟨hnone.1, hnone.2⟩
  · split
    · exact ⟨rfl, hw⟩
    · cases nl with
      | none => cases rq <;> cases tn <;> cases fk <;> simp [hg1, hg2, hw]
      | some b => cases b <;> simp [hg1, hg2, hw]

/-- the text `DataModelFieldBase.type_hint` builds is the printed form of `fieldE` (plain names) -/
theorem fieldTypeHint_typing (o : Opts) (ho : o.unionOp = false) (fb : FieldBits) (t : DT) (hw : wfTree t = true) :
    fieldTypeHint o fb t = print (fieldE o fb t) ∧ wfU (fieldE o fb t) = true := by
  obtain ⟨h1, h2⟩ := typeHint_typing o ho t hw
  unfold fieldTypeHint fieldE
  simp only [h1, ho]
  exact fieldDecide_typing fb _ _ _ h2

end Dcg.Proofs.FieldOpt
