import Dcg.Model.HintExpr
import Dcg.Proofs.Cover
namespace Dcg.Proofs.Types
open Dcg.Model.Types Dcg.Model.HintExpr Dcg.Proofs.Cover
open Dcg.Sem.Typing hiding Str sNone sComma sPipe

/-! ### `re.split(r"\s*\|\s*")`: no part contains a `|` (the nested call of the code is dead) -/

theorem splitPipeAux_no_pipe : ∀ (s : Str) (skip : Bool) (cur ws : Str),
    '|' ∉ cur → '|' ∉ ws → ∀ p ∈ splitPipeAux s skip cur ws, '|' ∉ p := by
  intro s
  induction s with
  | nil =>
    intro skip cur ws hc hw p hp
    simp only [splitPipeAux, List.mem_singleton] at hp
    subst hp; simp [hc, hw]
  | cons c cs ih =>
    intro skip cur ws hc hw p hp
    simp only [splitPipeAux] at hp
    split at hp
    · simp only [List.mem_cons] at hp
      rcases hp with rfl | hp
      · exact hc
      · exact ih true [] [] (by simp) (by simp) p hp
    · rename_i hne
      split at hp
      · rename_i hsp
        have hcne : c ≠ '|' := hne
        split at hp
        · exact ih true [] [] (by simp) (by simp) p hp
        · exact ih false cur (ws ++ [c]) hc (by simp [hw, Ne.symm hcne]) p hp
      · exact ih false (cur ++ ws ++ [c]) [] (by simp [hc, hw, Ne.symm hne]) (by simp) p hp

theorem splitPipe_no_pipe (s : Str) : ∀ p ∈ splitPipe s, '|' ∉ p :=
  splitPipeAux_no_pipe s false [] [] (by simp) (by simp)

/-- hence `" | " in part` is false for every part -/
theorem containsSub_of_mem {sub s : Str} (h : containsSub sub s = true) : ∀ c ∈ sub, c ∈ s := by
  induction s with
  | nil =>
    simp only [containsSub, List.isEmpty_iff] at h
    subst h; intro c hc; cases hc
  | cons x xs ih =>
    simp only [containsSub, Bool.or_eq_true] at h
    rcases h with h | h
    · intro c hc
      have := List.IsPrefix.subset (List.isPrefixOf_iff_prefix.mp h)
      exact this hc
    · intro c hc; exact List.mem_cons_of_mem _ (ih h c hc)

theorem splitPipe_parts_have_no_union (s : Str) : ∀ p ∈ splitPipe s, containsSub sPipe p = false := by
  intro p hp
  cases h : containsSub sPipe p with
  | false => rfl
  | true => exact absurd (containsSub_of_mem h '|' (by simp [sPipe])) (splitPipe_no_pipe s p hp)


/-! ### bracket depth -/

/-- depth after reading `s` from depth `d`; `none` when a `]` has no `[` -/
def scan : Nat → Str → Option Nat
  | d, [] => some d
  | d, c :: cs =>
    if c = '[' then scan (d + 1) cs
    else if c = ']' then (match d with | 0 => none | d' + 1 => scan d' cs)
    else scan d cs

theorem balancedFrom_eq_scan : ∀ (s : Str) (d : Nat), balancedFrom d s = (scan d s == some 0) := by
  intro s
  induction s with
  | nil => intro d; simp [balancedFrom, scan]
  | cons c cs ih =>
    intro d
    simp only [balancedFrom, scan]
    split
    · exact ih _
    · split
      · cases d with
        | zero => simp
        | succ d' => exact ih _
      · exact ih _

theorem scan_append : ∀ (s r : Str) (d : Nat), scan d (s ++ r) = (scan d s).bind (fun d' => scan d' r) := by
  intro s
  induction s with
  | nil => intro r d; simp [scan]
  | cons c cs ih =>
    intro r d
    simp only [List.cons_append, scan]
    split
    · exact ih _ _
    · split
      · cases d with
        | zero => simp
        | succ d' => exact ih _ _
      · exact ih _ _

def bracketFree (s : Str) : Bool := s.all (fun c => c != '[' && c != ']')

theorem scan_bracketFree : ∀ (s : Str) (d : Nat), bracketFree s = true → scan d s = some d := by
  intro s
  induction s with
  | nil => intro d _; rfl
  | cons c cs ih =>
    intro d h
    simp only [bracketFree, List.all_cons, Bool.and_eq_true, bne_iff_ne] at h
    simp only [scan, h.1.1, h.1.2, if_false]
    exact ih d (by simpa [bracketFree] using h.2)

mutual
/-- no name of the expression contains a bracket -/
def namesBracketFree : TExpr → Bool
  | .atom s => bracketFree s
  | .app h args => bracketFree h && namesBracketFreeL args
  | .bor args => namesBracketFreeL args
def namesBracketFreeL : List TExpr → Bool
  | [] => true
  | e :: es => namesBracketFree e && namesBracketFreeL es
end

theorem printL_nil (sep : Str) : printL sep [] = [] := by simp [printL]
theorem printL_single (sep : Str) (a : TExpr) : printL sep [a] = print a := by simp [printL]
theorem printL_cons_cons (sep : Str) (a b : TExpr) (l : List TExpr) :
    printL sep (a :: b :: l) = print a ++ (sep ++ printL sep (b :: l)) := by
  simp [printL, List.append_assoc]
theorem print_app (h : Str) (args : List TExpr) :
    print (.app h args) = h ++ ('[' :: (printL Dcg.Sem.Typing.sComma args ++ [']'])) := by simp [print]
theorem print_bor (args : List TExpr) : print (.bor args) = printL Dcg.Sem.Typing.sPipe args := by simp [print]
theorem print_atom (s : Str) : print (.atom s) = s := by simp [print]

theorem scan_printL (sep : Str) (hsep : bracketFree sep = true) : ∀ (l : List TExpr),
    (∀ a ∈ l, namesBracketFree a = true → ∀ d, scan d (print a) = some d) →
    namesBracketFreeL l = true → ∀ d, scan d (printL sep l) = some d := by
  intro l
  induction l with
  | nil => intro _ _ d; rw [printL_nil]; rfl
  | cons a l ihl =>
    intro hal hbl d
    simp only [namesBracketFreeL, Bool.and_eq_true] at hbl
    cases l with
    | nil => rw [printL_single]; exact hal a (List.mem_cons_self ..) hbl.1 d
    | cons b l' =>
      rw [printL_cons_cons, scan_append, hal a (List.mem_cons_self ..) hbl.1 d]
      simp only [Option.bind_some]
      rw [scan_append, scan_bracketFree sep d hsep]
      simp only [Option.bind_some]
      exact ihl (fun x hx => hal x (List.mem_cons_of_mem _ hx)) hbl.2 d

theorem scan_print : ∀ e, namesBracketFree e = true → ∀ d, scan d (print e) = some d := by
  apply TExpr.ind
  · intro s h d; rw [print_atom]; exact scan_bracketFree s d (by simpa [namesBracketFree] using h)
  · intro h args ih hb d
    simp only [namesBracketFree, Bool.and_eq_true] at hb
    rw [print_app, scan_append, scan_bracketFree h d hb.1]
    simp only [Option.bind_some, scan, if_true]
    rw [scan_append, scan_printL _ (by decide) args ih hb.2 (d + 1)]
    simp [scan]
  · intro args ih hb d
    simp only [namesBracketFree] at hb
    rw [print_bor]
    exact scan_printL _ (by decide) args ih hb d

/-- every typing expression whose names contain no bracket prints with balanced brackets -/
theorem print_balanced (e : TExpr) (h : namesBracketFree e = true) : balanced (print e) = true := by
  unfold balanced
  rw [balancedFrom_eq_scan, scan_print e h 0]; rfl


/-! ### `Union[…]` structure of a hint, and the structural `None` removal -/

/-- a hint seen as nested `Union[…]` over opaque leaves -/
inductive UTree where
  | leaf (s : Str)
  | union (kids : List UTree)

theorem UTree.ind {P : UTree → Prop} (hleaf : ∀ s, P (.leaf s))
    (hunion : ∀ kids, (∀ k ∈ kids, P k) → P (.union kids)) : ∀ u, P u := by
  intro u
  induction u using UTree.rec (motive_2 := fun l => ∀ a ∈ l, P a) with
  | leaf s => exact hleaf s
  | union kids ih => exact hunion kids ih
  | nil => rename_i hc; cases hc
  | cons hd tl ih1 ih2 =>
    rename_i c hc
    cases hc with
    | head => exact ih1
    | tail _ h' => exact ih2 c h'

mutual
def printU : UTree → Str
  | .leaf s => s
  | .union kids => sUnionPrefix ++ joinSep sComma (printUL kids) ++ [']']
def printUL : List UTree → List Str
  | [] => []
  | k :: ks => printU k :: printUL ks
end

def isNoneLeaf : UTree → Bool
  | .leaf s => s = sNone
  | .union _ => false

def mkU : List UTree → UTree
  | [] => .leaf sNone
  | [k] => k
  | ks => .union ks

mutual
/-- what `_remove_none_from_union` is meant to do: drop the `None` members, recursively through
directly nested unions; an empty union is `None`, a singleton is its member -/
def rmTree : UTree → UTree
  | .leaf s => .leaf s
  | .union kids => mkU (rmTreeL kids)
def rmTreeL : List UTree → List UTree
  | [] => []
  | k :: ks => if isNoneLeaf k then rmTreeL ks else rmTree k :: rmTreeL ks
end

/-- scanning a closed piece of text: `none` when a `]` closes nothing or a `,` stands at depth 0 -/
def scanTop : Nat → Str → Option Nat
  | d, [] => some d
  | d, c :: cs =>
    if c = '[' then scanTop (d + 1) cs
    else if c = ']' then (match d with | 0 => none | d' + 1 => scanTop d' cs)
    else if c = ',' then (match d with | 0 => none | _ + 1 => scanTop d cs)
    else scanTop d cs

/-- a leaf: not empty, no white space at its ends, not itself a `Union[`, brackets closed, and no
comma outside brackets -/
def closedLeaf (s : Str) : Bool :=
  !s.isEmpty && s.head?.all (fun c => !isSpace c) && s.getLast?.all (fun c => !isSpace c) &&
  !startsWith sUnionPrefix s && scanTop 0 s == some 0

mutual
def okU : UTree → Bool
  | .leaf s => closedLeaf s
  | .union kids => okUL kids
def okUL : List UTree → Bool
  | [] => true
  | k :: ks => okU k && okUL ks
end

/-! #### the character loop passes over closed text -/

theorem splitTop_pass : ∀ (p rest cur : Str) (k k' : Nat), scanTop k p = some k' →
    splitTopAux (p ++ rest) (k : Int) cur = splitTopAux rest (k' : Int) (cur ++ p) := by
  intro p
  induction p with
  | nil => intro rest cur k k' h; simp only [scanTop, Option.some.injEq] at h; subst h; simp
  | cons c cs ih =>
    intro rest cur k k' h
    simp only [scanTop] at h
    simp only [List.cons_append, splitTopAux]
    split at h
    · rename_i hc; subst hc
      simp only [if_true]
      have := ih rest (cur ++ ['[']) (k + 1) k' h
      simpa [List.append_assoc] using this
    · rename_i hc1
      split at h
      · rename_i hc; subst hc
        cases k with
        | zero => simp at h
        | succ k0 =>
          simp only [] at h
          have := ih rest (cur ++ [']']) k0 k' h
          simp only [show (']' : Char) ≠ '[' by decide, if_false, if_true]
          have e : ((k0 + 1 : Nat) : Int) - 1 = (k0 : Int) := by omega
          rw [e]
          simpa [List.append_assoc] using this
      · rename_i hc2
        split at h
        · rename_i hc; subst hc
          cases k with
          | zero => simp at h
          | succ k0 =>
            simp only [] at h
            have := ih rest (cur ++ [',']) (k0 + 1) k' h
            have ne0 : ¬ (((k0 + 1 : Nat) : Int) = 0) := by omega
            simp only [show (',' : Char) ≠ '[' by decide, show (',' : Char) ≠ ']' by decide, if_false, ne0, and_false]
            simpa [List.append_assoc] using this
        · rename_i hc3
          have := ih rest (cur ++ [c]) k k' h
          simp only [hc1, hc2, hc3, if_false, false_and]
          simpa [List.append_assoc] using this


theorem scanTop_append : ∀ (s r : Str) (d : Nat), scanTop d (s ++ r) = (scanTop d s).bind (fun d' => scanTop d' r) := by
  intro s
  induction s with
  | nil => intro r d; simp [scanTop]
  | cons c cs ih =>
    intro r d
    simp only [List.cons_append, scanTop]
    split
    · exact ih _ _
    · split
      · cases d with
        | zero => simp
        | succ d' => exact ih _ _
      · split
        · cases d with
          | zero => simp
          | succ d' => exact ih _ _
        · exact ih _ _

theorem scanTop_shift : ∀ (s : Str) (d d' k : Nat), scanTop d s = some d' → scanTop (d + k) s = some (d' + k) := by
  intro s
  induction s with
  | nil => intro d d' k h; simp only [scanTop, Option.some.injEq] at h ⊢; omega
  | cons c cs ih =>
    intro d d' k h
    simp only [scanTop] at h ⊢
    split
    · rename_i hc; simp only [hc, if_true] at h
      have := ih (d + 1) d' k h
      have e : d + 1 + k = d + k + 1 := by omega
      rw [e] at this; exact this
    · rename_i hc1; simp only [hc1, if_false] at h
      split
      · rename_i hc; simp only [hc, if_true] at h
        cases d with
        | zero => simp at h
        | succ d0 =>
          simp only [] at h
          have e : d0 + 1 + k = (d0 + k) + 1 := by omega
          rw [e]; exact ih d0 d' k h
      · rename_i hc2; simp only [hc2, if_false] at h
        split
        · rename_i hc; simp only [hc, if_true] at h
          cases d with
          | zero => simp at h
          | succ d0 =>
            simp only [] at h
            have e : d0 + 1 + k = (d0 + k) + 1 := by omega
            rw [e]
            have := ih (d0 + 1) d' k h
            have e2 : d0 + 1 + k = d0 + k + 1 := by omega
            rw [e2] at this; exact this
        · rename_i hc3; simp only [hc3, if_false] at h
          exact ih d d' k h

theorem scanTop_closed (s : Str) (h : scanTop 0 s = some 0) (k : Nat) : scanTop k s = some k := by
  have := scanTop_shift s 0 0 k h
  simpa using this

/-- the raw segments the loop produces for `", ".join(ps)` -/
def segsOf : Str → List Str → List Str
  | cur, [] => [cur]
  | cur, [p] => [cur ++ p]
  | cur, p :: q :: r => (cur ++ p) :: segsOf [' '] (q :: r)

theorem joinSep_cons_cons (sep p q : Str) (r : List Str) :
    joinSep sep (p :: q :: r) = p ++ (sep ++ joinSep sep (q :: r)) := by
  simp [joinSep, List.append_assoc]

theorem splitTop_join : ∀ (ps : List Str) (cur : Str), (∀ p ∈ ps, scanTop 0 p = some 0) →
    splitTopAux (joinSep sComma ps) 0 cur = segsOf cur ps := by
  intro ps
  induction ps with
  | nil => intro cur _; simp [joinSep, splitTopAux, segsOf]
  | cons p ps ih =>
    intro cur h
    cases ps with
    | nil =>
      have := splitTop_pass p [] cur 0 0 (h p (List.mem_cons_self ..))
      simp only [List.append_nil] at this
      simp only [joinSep, segsOf]
      rw [show ((0 : Nat) : Int) = 0 from rfl] at this
      rw [this]; simp [splitTopAux]
    | cons q r =>
      rw [joinSep_cons_cons]
      have := splitTop_pass p (sComma ++ joinSep sComma (q :: r)) cur 0 0 (h p (List.mem_cons_self ..))
      rw [show ((0 : Nat) : Int) = 0 from rfl] at this
      rw [this]
      simp only [sComma, List.cons_append, List.nil_append, splitTopAux,
        show (',' : Char) ≠ '[' by decide, show (',' : Char) ≠ ']' by decide,
        show (' ' : Char) ≠ '[' by decide, show (' ' : Char) ≠ ']' by decide, show (' ' : Char) ≠ ',' by decide,
        if_false, if_true, and_self, false_and]
      simp only [segsOf]
      congr 1
      have := ih [' '] (fun x hx => h x (List.mem_cons_of_mem _ hx))
      simpa [sComma] using this

/-- no white space at either end, and not empty -/
def trimmedS (s : Str) : Bool :=
  !s.isEmpty && s.head?.all (fun c => !isSpace c) && s.getLast?.all (fun c => !isSpace c)

theorem dropWhile_head_false {α} (p : α → Bool) (l : List α) (h : l.head?.all (fun c => !p c) = true) :
    l.dropWhile p = l := by
  cases l with
  | nil => rfl
  | cons a r =>
    simp only [List.head?_cons, Option.all_some, Bool.not_eq_true'] at h
    simp [List.dropWhile, h]

theorem strip_trimmed (s : Str) (h : trimmedS s = true) : strip s = s := by
  simp only [trimmedS, Bool.and_eq_true] at h
  obtain ⟨⟨_, hh⟩, hl⟩ := h
  unfold strip lstrip rstrip
  rw [dropWhile_head_false isSpace s hh]
  rw [dropWhile_head_false isSpace s.reverse (by simpa [List.head?_reverse] using hl)]
  simp

theorem strip_space_trimmed (s : Str) (h : trimmedS s = true) : strip (' ' :: s) = s := by
  have : strip (' ' :: s) = strip s := by
    unfold strip lstrip
    have : isSpace ' ' = true := by decide
    simp [List.dropWhile, this]
  rw [this, strip_trimmed s h]

theorem procSegs_segs (rec : Str → Str) : ∀ (ps : List Str) (cur : Str), (∀ p ∈ ps, trimmedS p = true) →
    (cur = [] ∨ (cur = [' '] ∧ ps ≠ [])) →
    procSegs rec (segsOf cur ps) = ps.flatMap (procPart rec) := by
  intro ps
  induction ps with
  | nil =>
    intro cur _ hc
    rcases hc with rfl | ⟨_, h⟩
    · simp [segsOf, procSegs]
    · exact absurd rfl h
  | cons p ps ih =>
    intro cur ht hc
    have htp := ht p (List.mem_cons_self ..)
    have hne : p ≠ [] := by
      intro h; subst h; simp [trimmedS] at htp
    have hstrip : strip (cur ++ p) = p := by
      rcases hc with rfl | ⟨rfl, _⟩
      · simpa using strip_trimmed p htp
      · simpa using strip_space_trimmed p htp
    have hcne : cur ++ p ≠ [] := by simp [hne]
    cases ps with
    | nil =>
      simp only [segsOf, procSegs, hcne, if_false, hstrip, List.flatMap_cons, List.flatMap_nil, List.append_nil]
    | cons q r =>
      simp only [segsOf]
      have hrest : segsOf [' '] (q :: r) ≠ [] := by
        cases r <;> simp [segsOf]
      have : procSegs rec ((cur ++ p) :: segsOf [' '] (q :: r)) =
          procPart rec (strip (cur ++ p)) ++ procSegs rec (segsOf [' '] (q :: r)) := by
        cases hs : segsOf [' '] (q :: r) with
        | nil => exact absurd hs hrest
        | cons a b => simp [procSegs]
      rw [this, hstrip, ih [' '] (fun x hx => ht x (List.mem_cons_of_mem _ hx)) (Or.inr ⟨rfl, by simp⟩)]
      simp [List.flatMap_cons]


/-! #### what a printed tree looks like -/

theorem printUL_eq_map (ks : List UTree) : printUL ks = ks.map printU := by
  induction ks with
  | nil => rfl
  | cons k ks ih => simp [printUL, ih]

theorem scanTop_joinSep (k : Nat) : ∀ (ps : List Str), (∀ p ∈ ps, scanTop (k + 1) p = some (k + 1)) →
    scanTop (k + 1) (joinSep sComma ps) = some (k + 1) := by
  intro ps
  induction ps with
  | nil => intro _; rfl
  | cons p ps ih =>
    intro h
    cases ps with
    | nil => simpa [joinSep] using h p (List.mem_cons_self ..)
    | cons q r =>
      rw [joinSep_cons_cons, scanTop_append, h p (List.mem_cons_self ..)]
      simp only [Option.bind_some]
      rw [scanTop_append]
      have : scanTop (k + 1) sComma = some (k + 1) := by simp [sComma, scanTop]
      rw [this]
      simp only [Option.bind_some]
      exact ih (fun x hx => h x (List.mem_cons_of_mem _ hx))

theorem scanTop_union (k : Nat) (J : Str) (h : scanTop (k + 1) J = some (k + 1)) :
    scanTop k (sUnionPrefix ++ J ++ [']']) = some k := by
  have e : sUnionPrefix ++ J ++ [']'] = ['U', 'n', 'i', 'o', 'n'] ++ ('[' :: (J ++ [']'])) := by
    simp [sUnionPrefix]
  rw [e, scanTop_append]
  have : scanTop k ['U', 'n', 'i', 'o', 'n'] = some k := by simp [scanTop]
  rw [this]
  simp only [Option.bind_some, scanTop, if_true]
  rw [scanTop_append, h]
  simp [scanTop]

theorem scanTop_printU : ∀ u, okU u = true → ∀ k, scanTop k (printU u) = some k := by
  apply UTree.ind
  · intro s h k
    simp only [okU, closedLeaf, Bool.and_eq_true, beq_iff_eq] at h
    simp only [printU]; exact scanTop_closed s h.2 k
  · intro kids ih h k
    simp only [okU] at h
    simp only [printU]
    apply scanTop_union
    apply scanTop_joinSep
    intro p hp
    rw [printUL_eq_map] at hp
    simp only [List.mem_map] at hp
    obtain ⟨c, hc, rfl⟩ := hp
    have hok : okU c = true := by
      clear ih
      induction kids with
      | nil => cases hc
      | cons a l ihl =>
        simp only [okUL, Bool.and_eq_true] at h
        cases hc with
        | head => exact h.1
        | tail _ h' => exact ihl h.2 h'
    exact ih c hc hok (k + 1)

theorem okUL_mem {kids : List UTree} (h : okUL kids = true) : ∀ c ∈ kids, okU c = true := by
  induction kids with
  | nil => intro c hc; cases hc
  | cons a l ih =>
    simp only [okUL, Bool.and_eq_true] at h
    intro c hc
    cases hc with
    | head => exact h.1
    | tail _ h' => exact ih h.2 c h'

theorem trimmed_union (J : Str) : trimmedS (sUnionPrefix ++ J ++ [']']) = true := by
  simp only [trimmedS, sUnionPrefix, List.cons_append, List.nil_append, List.isEmpty_cons, Bool.not_false,
    List.head?_cons, Option.all_some, Bool.true_and, Bool.and_eq_true]
  refine ⟨by decide, ?_⟩
  have : (('U' :: 'n' :: 'i' :: 'o' :: 'n' :: '[' :: (J ++ [']'])) : Str).getLast? = some ']' := by
    have : ('U' :: 'n' :: 'i' :: 'o' :: 'n' :: '[' :: (J ++ [']'])) = (['U', 'n', 'i', 'o', 'n', '['] ++ J) ++ [']'] := by simp
    rw [this, List.getLast?_append]; simp
  rw [this]; decide

theorem trimmed_printU (u : UTree) (h : okU u = true) : trimmedS (printU u) = true := by
  cases u with
  | leaf s =>
    simp only [okU, closedLeaf, Bool.and_eq_true] at h
    simp only [printU, trimmedS, Bool.and_eq_true]
    exact ⟨⟨h.1.1.1.1, h.1.1.1.2⟩, h.1.1.2⟩
  | union kids => simp only [printU]; exact trimmed_union _

theorem startsWith_union (J : Str) : startsWith sUnionPrefix (sUnionPrefix ++ J ++ [']']) = true := by
  simp [startsWith, sUnionPrefix]

theorem union_ne_none (J : Str) : sUnionPrefix ++ J ++ [']'] ≠ sNone := by
  simp [sUnionPrefix, sNone]

theorem drop_union (J : Str) : ((sUnionPrefix ++ J ++ [']']).drop 6).dropLast = J := by
  simp [sUnionPrefix]

theorem print_mkU (ks : List UTree) :
    (match printUL ks with
      | [] => sNone
      | [p] => p
      | parts => sUnionPrefix ++ joinSep sComma parts ++ [']']) = printU (mkU ks) := by
  match ks with
  | [] => simp [printUL, mkU, printU]
  | [k] => simp [printUL, mkU]
  | a :: b :: r => simp [printUL, mkU, printU]

theorem length_le_joinSep (sep : Str) : ∀ (ps : List Str), ∀ p ∈ ps, p.length ≤ (joinSep sep ps).length := by
  intro ps
  induction ps with
  | nil => intro p hp; cases hp
  | cons a l ih =>
    intro p hp
    cases l with
    | nil => simp only [List.mem_singleton] at hp; subst hp; simp [joinSep]
    | cons b r =>
      rw [joinSep_cons_cons]
      simp only [List.length_append]
      cases hp with
      | head => omega
      | tail _ h' => have := ih p h'; omega

/-- `removeNone_structural`, `Union[…]` spelling: on any text that is the printed form of a tree of
nested unions over closed leaves, the character-level surgery of the code is the structural removal.
Any fuel ≥ the length of the text suffices. -/
theorem removeNoneUF_printU : ∀ u, okU u = true → ∀ n, (printU u).length ≤ n →
    removeNoneUF n (printU u) = printU (rmTree u) := by
  apply UTree.ind
  · intro s h n _
    simp only [okU, closedLeaf, Bool.and_eq_true, Bool.not_eq_true'] at h
    simp only [printU, rmTree]
    cases n with
    | zero => rfl
    | succ m => simp [removeNoneUF, h.1.2]
  · intro kids ih h n hn
    simp only [okU] at h
    simp only [printU] at hn ⊢
    cases n with
    | zero => simp [sUnionPrefix] at hn
    | succ m =>
      simp only [removeNoneUF, startsWith_union, if_true, drop_union]
      have hkids := okUL_mem h
      rw [splitTop_join (printUL kids) [] (by
        intro p hp; rw [printUL_eq_map] at hp; simp only [List.mem_map] at hp
        obtain ⟨c, hc, rfl⟩ := hp; exact scanTop_printU c (hkids c hc) 0)]
      rw [procSegs_segs _ (printUL kids) [] (by
        intro p hp; rw [printUL_eq_map] at hp; simp only [List.mem_map] at hp
        obtain ⟨c, hc, rfl⟩ := hp; exact trimmed_printU c (hkids c hc)) (Or.inl rfl)]
      -- the parts are the printed forms of the structurally cleaned members
      have hfuel : ∀ c ∈ kids, (printU c).length ≤ m := by
        intro c hc
        have h1 := length_le_joinSep sComma (printUL kids) (printU c) (by rw [printUL_eq_map]; exact List.mem_map_of_mem hc)
        simp only [List.length_append, sUnionPrefix, List.length_cons, List.length_nil] at hn
        omega
      have hparts : ∀ (l : List UTree), (∀ c ∈ l, c ∈ kids) →
          (printUL l).flatMap (procPart (removeNoneUF m)) = printUL (rmTreeL l) := by
        intro l
        induction l with
        | nil => intro _; rfl
        | cons c l ihl =>
          intro hsub
          have hc := hsub c (List.mem_cons_self ..)
          simp only [printUL, List.flatMap_cons, rmTreeL]
          rw [ihl (fun x hx => hsub x (List.mem_cons_of_mem _ hx))]
          cases c with
          | leaf s =>
            have hok := hkids _ hc
            simp only [okU, closedLeaf, Bool.and_eq_true, Bool.not_eq_true'] at hok
            simp only [printU, isNoneLeaf, procPart]
            by_cases hs : s = sNone
            · simp [hs]
            · simp [hs, hok.1.2, printUL, rmTree, printU]
          | union ks =>
            simp only [printU, isNoneLeaf, procPart, union_ne_none, if_false, startsWith_union, if_true]
            have := ih _ hc (hkids _ hc) m (hfuel _ hc)
            simp only [printU] at this
            rw [this]; simp [printUL]
      rw [hparts kids (fun c hc => hc)]
      simp only [rmTree]
      exact print_mkU _

end Dcg.Proofs.Types
