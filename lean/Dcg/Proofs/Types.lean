import Dcg.Model.HintExpr
import Dcg.Proofs.Cover
namespace Dcg.Proofs.Types
open Dcg.Model.Types Dcg.Model.HintExpr Dcg.Proofs.Cover
open Dcg.Sem.Typing hiding Str sNone sComma sPipe

/-! ### `re.split(r"\s*\|\s*")`: no part contains a `|` (the nested call of the code is dead) -/

theorem splitPipeAux_no_pipe : ∀ (s : Str) (skip : Bool) (cur ws : Str),
    '|' ∉ cur → '|' ∉ ws → ∀ p ∈ splitPipeAux s skip cur ws, '|' ∉ p := by
  intro s
  induction s with
  | nil =>
    intro skip cur ws hc hw p hp
    simp only [splitPipeAux, List.mem_singleton] at hp
    subst hp; simp [hc, hw]
  | cons c cs ih =>
    intro skip cur ws hc hw p hp
    simp only [splitPipeAux] at hp
    split at hp
    · simp only [List.mem_cons] at hp
      rcases hp with rfl | hp
      · exact hc
      · exact ih true [] [] (by simp) (by simp) p hp
    · rename_i hne
      split at hp
      · rename_i hsp
        have hcne : c ≠ '|' := hne
        split at hp
        · exact ih true [] [] (by simp) (by simp) p hp
        · exact ih false cur (ws ++ [c]) hc (by simp [hw, Ne.symm hcne]) p hp
      · exact ih false (cur ++ ws ++ [c]) [] (by simp [hc, hw, Ne.symm hne]) (by simp) p hp

theorem splitPipe_no_pipe (s : Str) : ∀ p ∈ splitPipe s, '|' ∉ p :=
  splitPipeAux_no_pipe s false [] [] (by simp) (by simp)

/-- hence `" | " in part` is false for every part -/
theorem containsSub_of_mem {sub s : Str} (h : containsSub sub s = true) : ∀ c ∈ sub, c ∈ s := by
  induction s with
  | nil =>
    simp only [containsSub, List.isEmpty_iff] at h
    subst h; intro c hc; cases hc
  | cons x xs ih =>
    simp only [containsSub, Bool.or_eq_true] at h
    rcases h with h | h
    · intro c hc
      have := List.IsPrefix.subset (List.isPrefixOf_iff_prefix.mp h)
      exact this hc
    · intro c hc; exact List.mem_cons_of_mem _ (ih h c hc)

theorem splitPipe_parts_have_no_union (s : Str) : ∀ p ∈ splitPipe s, containsSub sPipe p = false := by
  intro p hp
  cases h : containsSub sPipe p with
  | false => rfl
  | true => exact absurd (containsSub_of_mem h '|' (by simp [sPipe])) (splitPipe_no_pipe s p hp)


/-! ### bracket depth -/

/-- depth after reading `s` from depth `d`; `none` when a `]` has no `[` -/
def scan : Nat → Str → Option Nat
  | d, [] => some d
  | d, c :: cs =>
    if c = '[' then scan (d + 1) cs
    else if c = ']' then (match d with | 0 => none | d' + 1 => scan d' cs)
    else scan d cs

theorem balancedFrom_eq_scan : ∀ (s : Str) (d : Nat), balancedFrom d s = (scan d s == some 0) := by
  intro s
  induction s with
  | nil => intro d; simp [balancedFrom, scan]
  | cons c cs ih =>
    intro d
    simp only [balancedFrom, scan]
    split
    · exact ih _
    · split
      · cases d with
        | zero => simp
        | succ d' => exact ih _
      · exact ih _

theorem scan_append : ∀ (s r : Str) (d : Nat), scan d (s ++ r) = (scan d s).bind (fun d' => scan d' r) := by
  intro s
  induction s with
  | nil => intro r d; simp [scan]
  | cons c cs ih =>
    intro r d
    simp only [List.cons_append, scan]
    split
    · exact ih _ _
    · split
      · cases d with
        | zero => simp
        | succ d' => exact ih _ _
      · exact ih _ _

def bracketFree (s : Str) : Bool := s.all (fun c => c != '[' && c != ']')

theorem scan_bracketFree : ∀ (s : Str) (d : Nat), bracketFree s = true → scan d s = some d := by
  intro s
  induction s with
  | nil => intro d _; rfl
  | cons c cs ih =>
    intro d h
    simp only [bracketFree, List.all_cons, Bool.and_eq_true, bne_iff_ne] at h
    simp only [scan, h.1.1, h.1.2, if_false]
    exact ih d (by simpa [bracketFree] using h.2)

mutual
/-- no name of the expression contains a bracket -/
def namesBracketFree : TExpr → Bool
  | .atom s => bracketFree s
  | .app h args => bracketFree h && namesBracketFreeL args
  | .bor args => namesBracketFreeL args
def namesBracketFreeL : List TExpr → Bool
  | [] => true
  | e :: es => namesBracketFree e && namesBracketFreeL es
end

theorem printL_nil (sep : Str) : printL sep [] = [] := by simp [printL]
theorem printL_single (sep : Str) (a : TExpr) : printL sep [a] = print a := by simp [printL]
theorem printL_cons_cons (sep : Str) (a b : TExpr) (l : List TExpr) :
    printL sep (a :: b :: l) = print a ++ (sep ++ printL sep (b :: l)) := by
  simp [printL, List.append_assoc]
theorem print_app (h : Str) (args : List TExpr) :
    print (.app h args) = h ++ ('[' :: (printL Dcg.Sem.Typing.sComma args ++ [']'])) := by simp [print]
theorem print_bor (args : List TExpr) : print (.bor args) = printL Dcg.Sem.Typing.sPipe args := by simp [print]
theorem print_atom (s : Str) : print (.atom s) = s := by simp [print]

theorem scan_printL (sep : Str) (hsep : bracketFree sep = true) : ∀ (l : List TExpr),
    (∀ a ∈ l, namesBracketFree a = true → ∀ d, scan d (print a) = some d) →
    namesBracketFreeL l = true → ∀ d, scan d (printL sep l) = some d := by
  intro l
  induction l with
  | nil => intro _ _ d; rw [printL_nil]; rfl
  | cons a l ihl =>
    intro hal hbl d
    simp only [namesBracketFreeL, Bool.and_eq_true] at hbl
    cases l with
    | nil => rw [printL_single]; exact hal a (List.mem_cons_self ..) hbl.1 d
    | cons b l' =>
      rw [printL_cons_cons, scan_append, hal a (List.mem_cons_self ..) hbl.1 d]
      simp only [Option.bind_some]
      rw [scan_append, scan_bracketFree sep d hsep]
      simp only [Option.bind_some]
      exact ihl (fun x hx => hal x (List.mem_cons_of_mem _ hx)) hbl.2 d

theorem scan_print : ∀ e, namesBracketFree e = true → ∀ d, scan d (print e) = some d := by
  apply TExpr.ind
  · intro s h d; rw [print_atom]; exact scan_bracketFree s d (by simpa [namesBracketFree] using h)
  · intro h args ih hb d
    simp only [namesBracketFree, Bool.and_eq_true] at hb
    rw [print_app, scan_append, scan_bracketFree h d hb.1]
    simp only [Option.bind_some, scan, if_true]
    rw [scan_append, scan_printL _ (by decide) args ih hb.2 (d + 1)]
    simp [scan]
  · intro args ih hb d
    simp only [namesBracketFree] at hb
    rw [print_bor]
    exact scan_printL _ (by decide) args ih hb d

/-- every typing expression whose names contain no bracket prints with balanced brackets -/
theorem print_balanced (e : TExpr) (h : namesBracketFree e = true) : balanced (print e) = true := by
  unfold balanced
  rw [balancedFrom_eq_scan, scan_print e h 0]; rfl


/-! ### `Union[…]` structure of a hint, and the structural `None` removal -/

/-- a hint seen as nested `Union[…]` over opaque leaves -/
inductive UTree where
  | leaf (s : Str)
  | union (kids : List UTree)

theorem UTree.ind {P : UTree → Prop} (hleaf : ∀ s, P (.leaf s))
    (hunion : ∀ kids, (∀ k ∈ kids, P k) → P (.union kids)) : ∀ u, P u := by
  intro u
  induction u using UTree.rec (motive_2 := fun l => ∀ a ∈ l, P a) with
  | leaf s => exact hleaf s
  | union kids ih => exact hunion kids ih
  | nil => rename_i hc; cases hc
  | cons hd tl ih1 ih2 =>
    rename_i c hc
    cases hc with
    | head => exact ih1
    | tail _ h' => exact ih2 c h'

mutual
def printU : UTree → Str
  | .leaf s => s
  | .union kids => sUnionPrefix ++ joinSep sComma (printUL kids) ++ [']']
def printUL : List UTree → List Str
  | [] => []
  | k :: ks => printU k :: printUL ks
end

def isNoneLeaf : UTree → Bool
  | .leaf s => s = sNone
  | .union _ => false

def mkU : List UTree → UTree
  | [] => .leaf sNone
  | [k] => k
  | ks => .union ks

mutual
/-- what `_remove_none_from_union` is meant to do: drop the `None` members, recursively through
directly nested unions; an empty union is `None`, a singleton is its member -/
def rmTree : UTree → UTree
  | .leaf s => .leaf s
  | .union kids => mkU (rmTreeL kids)
def rmTreeL : List UTree → List UTree
  | [] => []
  | k :: ks => if isNoneLeaf k then rmTreeL ks else rmTree k :: rmTreeL ks
end

/-- scanning a closed piece of text: `none` when a `]` closes nothing or a `,` stands at depth 0 -/
def scanTop : Nat → Str → Option Nat
  | d, [] => some d
  | d, c :: cs =>
    if c = '[' then scanTop (d + 1) cs
    else if c = ']' then (match d with | 0 => none | d' + 1 => scanTop d' cs)
    else if c = ',' then (match d with | 0 => none | _ + 1 => scanTop d cs)
    else scanTop d cs

/-- a leaf: not empty, no white space at its ends, not itself a `Union[`, brackets closed, and no
comma outside brackets -/
def closedLeaf (s : Str) : Bool :=
  !s.isEmpty && s.head?.all (fun c => !isSpace c) && s.getLast?.all (fun c => !isSpace c) &&
  !startsWith sUnionPrefix s && scanTop 0 s == some 0

mutual
def okU : UTree → Bool
  | .leaf s => closedLeaf s
  | .union kids => okUL kids
def okUL : List UTree → Bool
  | [] => true
  | k :: ks => okU k && okUL ks
end

/-! #### the character loop passes over closed text -/

theorem splitTop_pass : ∀ (p rest cur : Str) (k k' : Nat), scanTop k p = some k' →
    splitTopAux (p ++ rest) (k : Int) cur = splitTopAux rest (k' : Int) (cur ++ p) := by
  intro p
  induction p with
  | nil => intro rest cur k k' h; simp only [scanTop, Option.some.injEq] at h; subst h; simp
  | cons c cs ih =>
    intro rest cur k k' h
    simp only [scanTop] at h
    simp only [List.cons_append, splitTopAux]
    split at h
    · rename_i hc; subst hc
      simp only [if_true]
      have := ih rest (cur ++ ['[']) (k + 1) k' h
      simpa [List.append_assoc] using this
    · rename_i hc1
      split at h
      · rename_i hc; subst hc
        cases k with
        | zero => simp at h
        | succ k0 =>
          simp only [] at h
          have := ih rest (cur ++ [']']) k0 k' h
          simp only [show (']' : Char) ≠ '[' by decide, if_false, if_true]
          have e : ((k0 + 1 : Nat) : Int) - 1 = (k0 : Int) := by omega
          rw [e]
          simpa [List.append_assoc] using this
      · rename_i hc2
        split at h
        · rename_i hc; subst hc
          cases k with
          | zero => simp at h
          | succ k0 =>
            simp only [] at h
            have := ih rest (cur ++ [',']) (k0 + 1) k' h
            have ne0 : ¬ (((k0 + 1 : Nat) : Int) = 0) := by omega
            simp only [show (',' : Char) ≠ '[' by decide, show (',' : Char) ≠ ']' by decide, if_false, ne0, and_false]
            simpa [List.append_assoc] using this
        · rename_i hc3
          have := ih rest (cur ++ [c]) k k' h
          simp only [hc1, hc2, hc3, if_false, false_and]
          simpa [List.append_assoc] using this


theorem scanTop_append : ∀ (s r : Str) (d : Nat), scanTop d (s ++ r) = (scanTop d s).bind (fun d' => scanTop d' r) := by
  intro s
  induction s with
  | nil => intro r d; simp [scanTop]
  | cons c cs ih =>
    intro r d
    simp only [List.cons_append, scanTop]
    split
    · exact ih _ _
    · split
      · cases d with
        | zero => simp
        | succ d' => exact ih _ _
      · split
        · cases d with
          | zero => simp
          | succ d' => exact ih _ _
        · exact ih _ _

theorem scanTop_shift : ∀ (s : Str) (d d' k : Nat), scanTop d s = some d' → scanTop (d + k) s = some (d' + k) := by
  intro s
  induction s with
  | nil => intro d d' k h; simp only [scanTop, Option.some.injEq] at h ⊢; omega
  | cons c cs ih =>
    intro d d' k h
    simp only [scanTop] at h ⊢
    split
    · rename_i hc; simp only [hc, if_true] at h
      have := ih (d + 1) d' k h
      have e : d + 1 + k = d + k + 1 := by omega
      rw [e] at this; exact this
    · rename_i hc1; simp only [hc1, if_false] at h
      split
      · rename_i hc; simp only [hc, if_true] at h
        cases d with
        | zero => simp at h
        | succ d0 =>
          simp only [] at h
          have e : d0 + 1 + k = (d0 + k) + 1 := by omega
          rw [e]; exact ih d0 d' k h
      · rename_i hc2; simp only [hc2, if_false] at h
        split
        · rename_i hc; simp only [hc, if_true] at h
          cases d with
          | zero => simp at h
          | succ d0 =>
            simp only [] at h
            have e : d0 + 1 + k = (d0 + k) + 1 := by omega
            rw [e]
            have := ih (d0 + 1) d' k h
            have e2 : d0 + 1 + k = d0 + k + 1 := by omega
            rw [e2] at this; exact this
        · rename_i hc3; simp only [hc3, if_false] at h
          exact ih d d' k h

theorem scanTop_closed (s : Str) (h : scanTop 0 s = some 0) (k : Nat) : scanTop k s = some k := by
  have := scanTop_shift s 0 0 k h
  simpa using this

/-- the raw segments the loop produces for `", ".join(ps)` -/
def segsOf : Str → List Str → List Str
  | cur, [] => [cur]
  | cur, [p] => [cur ++ p]
  | cur, p :: q :: r => (cur ++ p) :: segsOf [' '] (q :: r)

theorem joinSep_cons_cons (sep p q : Str) (r : List Str) :
    joinSep sep (p :: q :: r) = p ++ (sep ++ joinSep sep (q :: r)) := by
  simp [joinSep, List.append_assoc]

theorem splitTop_join : ∀ (ps : List Str) (cur : Str), (∀ p ∈ ps, scanTop 0 p = some 0) →
    splitTopAux (joinSep sComma ps) 0 cur = segsOf cur ps := by
  intro ps
  induction ps with
  | nil => intro cur _; simp [joinSep, splitTopAux, segsOf]
  | cons p ps ih =>
    intro cur h
    cases ps with
    | nil =>
      have := splitTop_pass p [] cur 0 0 (h p (List.mem_cons_self ..))
      simp only [List.append_nil] at this
      simp only [joinSep, segsOf]
      rw [show ((0 : Nat) : Int) = 0 from rfl] at this
      rw [this]; simp [splitTopAux]
    | cons q r =>
      rw [joinSep_cons_cons]
      have := splitTop_pass p (sComma ++ joinSep sComma (q :: r)) cur 0 0 (h p (List.mem_cons_self ..))
      rw [show ((0 : Nat) : Int) = 0 from rfl] at this
      rw [this]
      simp only [sComma, List.cons_append, List.nil_append, splitTopAux,
        show (',' : Char) ≠ '[' by decide, show (',' : Char) ≠ ']' by decide,
        show (' ' : Char) ≠ '[' by decide, show (' ' : Char) ≠ ']' by decide, show (' ' : Char) ≠ ',' by decide,
        if_false, if_true, and_self, false_and]
      simp only [segsOf]
      congr 1
      have := ih [' '] (fun x hx => h x (List.mem_cons_of_mem _ hx))
      simpa [sComma] using this

/-- no white space at either end, and not empty -/
def trimmedS (s : Str) : Bool :=
  !s.isEmpty && s.head?.all (fun c => !isSpace c) && s.getLast?.all (fun c => !isSpace c)

theorem dropWhile_head_false {α} (p : α → Bool) (l : List α) (h : l.head?.all (fun c => !p c) = true) :
    l.dropWhile p = l := by
  cases l with
  | nil => rfl
  | cons a r =>
    simp only [List.head?_cons, Option.all_some, Bool.not_eq_true'] at h
    simp [List.dropWhile, h]

theorem strip_trimmed (s : Str) (h : trimmedS s = true) : strip s = s := by
  simp only [trimmedS, Bool.and_eq_true] at h
  obtain ⟨⟨_, hh⟩, hl⟩ := h
  unfold strip lstrip rstrip
  rw [dropWhile_head_false isSpace s hh]
  rw [dropWhile_head_false isSpace s.reverse (by simpa [List.head?_reverse] using hl)]
  simp

theorem strip_space_trimmed (s : Str) (h : trimmedS s = true) : strip (' ' :: s) = s := by
  have : strip (' ' :: s) = strip s := by
    unfold strip lstrip
    have : isSpace ' ' = true := by decide
    simp [List.dropWhile, this]
  rw [this, strip_trimmed s h]

theorem procSegs_segs (rec : Str → Str) : ∀ (ps : List Str) (cur : Str), (∀ p ∈ ps, trimmedS p = true) →
    (cur = [] ∨ (cur = [' '] ∧ ps ≠ [])) →
    procSegs rec (segsOf cur ps) = ps.flatMap (procPart rec) := by
  intro ps
  induction ps with
  | nil =>
    intro cur _ hc
    rcases hc with rfl | ⟨_, h⟩
    · simp [segsOf, procSegs]
    · exact absurd rfl h
  | cons p ps ih =>
    intro cur ht hc
    have htp := ht p (List.mem_cons_self ..)
    have hne : p ≠ [] := by
      intro h; subst h; simp [trimmedS] at htp
    have hstrip : strip (cur ++ p) = p := by
      rcases hc with rfl | ⟨rfl, _⟩
      · simpa using strip_trimmed p htp
      · simpa using strip_space_trimmed p htp
    have hcne : cur ++ p ≠ [] := by simp [hne]
    cases ps with
    | nil =>
      simp only [segsOf, procSegs, hcne, if_false, hstrip, List.flatMap_cons, List.flatMap_nil, List.append_nil]
    | cons q r =>
      simp only [segsOf]
      have hrest : segsOf [' '] (q :: r) ≠ [] := by
        cases r <;> simp [segsOf]
      have : procSegs rec ((cur ++ p) :: segsOf [' '] (q :: r)) =
          procPart rec (strip (cur ++ p)) ++ procSegs rec (segsOf [' '] (q :: r)) := by
        cases hs : segsOf [' '] (q :: r) with
        | nil => exact absurd hs hrest
        | cons a b => simp [procSegs]
      rw [this, hstrip, ih [' '] (fun x hx => ht x (List.mem_cons_of_mem _ hx)) (Or.inr ⟨rfl, by simp⟩)]
      simp [List.flatMap_cons]


/-! #### what a printed tree looks like -/

theorem printUL_eq_map (ks : List UTree) : printUL ks = ks.map printU := by
  induction ks with
  | nil => rfl
  | cons k ks ih => simp [printUL, ih]

theorem scanTop_joinSep (k : Nat) : ∀ (ps : List Str), (∀ p ∈ ps, scanTop (k + 1) p = some (k + 1)) →
    scanTop (k + 1) (joinSep sComma ps) = some (k + 1) := by
  intro ps
  induction ps with
  | nil => intro _; rfl
  | cons p ps ih =>
    intro h
    cases ps with
    | nil => simpa [joinSep] using h p (List.mem_cons_self ..)
    | cons q r =>
      rw [joinSep_cons_cons, scanTop_append, h p (List.mem_cons_self ..)]
      simp only [Option.bind_some]
      rw [scanTop_append]
      have : scanTop (k + 1) sComma = some (k + 1) := by simp [sComma, scanTop]
      rw [this]
      simp only [Option.bind_some]
      exact ih (fun x hx => h x (List.mem_cons_of_mem _ hx))

theorem scanTop_union (k : Nat) (J : Str) (h : scanTop (k + 1) J = some (k + 1)) :
    scanTop k (sUnionPrefix ++ J ++ [']']) = some k := by
  have e : sUnionPrefix ++ J ++ [']'] = ['U', 'n', 'i', 'o', 'n'] ++ ('[' :: (J ++ [']'])) := by
    simp [sUnionPrefix]
  rw [e, scanTop_append]
  have : scanTop k ['U', 'n', 'i', 'o', 'n'] = some k := by simp [scanTop]
  rw [this]
  simp only [Option.bind_some, scanTop, if_true]
  rw [scanTop_append, h]
  simp [scanTop]

theorem scanTop_printU : ∀ u, okU u = true → ∀ k, scanTop k (printU u) = some k := by
  apply UTree.ind
  · intro s h k
    simp only [okU, closedLeaf, Bool.and_eq_true, beq_iff_eq] at h
    simp only [printU]; exact scanTop_closed s h.2 k
  · intro kids ih h k
    simp only [okU] at h
    simp only [printU]
    apply scanTop_union
    apply scanTop_joinSep
    intro p hp
    rw [printUL_eq_map] at hp
    simp only [List.mem_map] at hp
    obtain ⟨c, hc, rfl⟩ := hp
    have hok : okU c = true := by
      clear ih
      induction kids with
      | nil => cases hc
      | cons a l ihl =>
        simp only [okUL, Bool.and_eq_true] at h
        cases hc with
        | head => exact h.1
        | tail _ h' => exact ihl h.2 h'
    exact ih c hc hok (k + 1)

theorem okUL_mem {kids : List UTree} (h : okUL kids = true) : ∀ c ∈ kids, okU c = true := by
  induction kids with
  | nil => intro c hc; cases hc
  | cons a l ih =>
    simp only [okUL, Bool.and_eq_true] at h
    intro c hc
    cases hc with
    | head => exact h.1
    | tail _ h' => exact ih h.2 c h'

theorem trimmed_union (J : Str) : trimmedS (sUnionPrefix ++ J ++ [']']) = true := by
  simp only [trimmedS, sUnionPrefix, List.cons_append, List.nil_append, List.isEmpty_cons, Bool.not_false,
    List.head?_cons, Option.all_some, Bool.true_and, Bool.and_eq_true]
  refine ⟨by decide, ?_⟩
  have : (('U' :: 'n' :: 'i' :: 'o' :: 'n' :: '[' :: (J ++ [']'])) : Str).getLast? = some ']' := by
    have : ('U' :: 'n' :: 'i' :: 'o' :: 'n' :: '[' :: (J ++ [']'])) = (['U', 'n', 'i', 'o', 'n', '['] ++ J) ++ [']'] := by simp
    rw [this, List.getLast?_append]; simp
  rw [this]; decide

theorem trimmed_printU (u : UTree) (h : okU u = true) : trimmedS (printU u) = true := by
  cases u with
  | leaf s =>
    simp only [okU, closedLeaf, Bool.and_eq_true] at h
    simp only [printU, trimmedS, Bool.and_eq_true]
    exact ⟨⟨h.1.1.1.1, h.1.1.1.2⟩, h.1.1.2⟩
  | union kids => simp only [printU]; exact trimmed_union _

theorem startsWith_union (J : Str) : startsWith sUnionPrefix (sUnionPrefix ++ J ++ [']']) = true := by
  simp [startsWith, sUnionPrefix]

theorem union_ne_none (J : Str) : sUnionPrefix ++ J ++ [']'] ≠ sNone := by
  simp [sUnionPrefix, sNone]

theorem drop_union (J : Str) : ((sUnionPrefix ++ J ++ [']']).drop 6).dropLast = J := by
  simp [sUnionPrefix]

theorem print_mkU (ks : List UTree) :
    (match printUL ks with
      | [] => sNone
      | [p] => p
      | parts => sUnionPrefix ++ joinSep sComma parts ++ [']']) = printU (mkU ks) := by
  match ks with
  | [] => simp [printUL, mkU, printU]
  | [k] => simp [printUL, mkU]
  | a :: b :: r => simp [printUL, mkU, printU]

theorem length_le_joinSep (sep : Str) : ∀ (ps : List Str), ∀ p ∈ ps, p.length ≤ (joinSep sep ps).length := by
  intro ps
  induction ps with
  | nil => intro p hp; cases hp
  | cons a l ih =>
    intro p hp
    cases l with
    | nil => simp only [List.mem_singleton] at hp; subst hp; simp [joinSep]
    | cons b r =>
      rw [joinSep_cons_cons]
      simp only [List.length_append]
      cases hp with
      | head => omega
      | tail _ h' => have := ih p h'; omega

/-- `removeNone_structural`, `Union[…]` spelling: on any text that is the printed form of a tree of
nested unions over closed leaves, the character-level surgery of the code is the structural removal.
Any fuel ≥ the length of the text suffices. -/
theorem removeNoneUF_printU : ∀ u, okU u = true → ∀ n, (printU u).length ≤ n →
    removeNoneUF n (printU u) = printU (rmTree u) := by
  apply UTree.ind
  · intro s h n _
    simp only [okU, closedLeaf, Bool.and_eq_true, Bool.not_eq_true'] at h
    simp only [printU, rmTree]
    cases n with
    | zero => rfl
    | succ m => simp [removeNoneUF, h.1.2]
  · intro kids ih h n hn
    simp only [okU] at h
    simp only [printU] at hn ⊢
    cases n with
    | zero => simp [sUnionPrefix] at hn
    | succ m =>
      simp only [removeNoneUF, startsWith_union, if_true, drop_union]
      have hkids := okUL_mem h
      rw [splitTop_join (printUL kids) [] (by
        intro p hp; rw [printUL_eq_map] at hp; simp only [List.mem_map] at hp
        obtain ⟨c, hc, rfl⟩ := hp; exact scanTop_printU c (hkids c hc) 0)]
      rw [procSegs_segs _ (printUL kids) [] (by
        intro p hp; rw [printUL_eq_map] at hp; simp only [List.mem_map] at hp
        obtain ⟨c, hc, rfl⟩ := hp; exact trimmed_printU c (hkids c hc)) (Or.inl rfl)]
      -- the parts are the printed forms of the structurally cleaned members
      have hfuel : ∀ c ∈ kids, (printU c).length ≤ m := by
        intro c hc
        have h1 := length_le_joinSep sComma (printUL kids) (printU c) (by rw [printUL_eq_map]; exact List.mem_map_of_mem hc)
        simp only [List.length_append, sUnionPrefix, List.length_cons, List.length_nil] at hn
        omega
      have hparts : ∀ (l : List UTree), (∀ c ∈ l, c ∈ kids) →
          (printUL l).flatMap (procPart (removeNoneUF m)) = printUL (rmTreeL l) := by
        intro l
        induction l with
        | nil => intro _; rfl
        | cons c l ihl =>
          intro hsub
          have hc := hsub c (List.mem_cons_self ..)
          simp only [printUL, List.flatMap_cons, rmTreeL]
          rw [ihl (fun x hx => hsub x (List.mem_cons_of_mem _ hx))]
          cases c with
          | leaf s =>
            have hok := hkids _ hc
            simp only [okU, closedLeaf, Bool.and_eq_true, Bool.not_eq_true'] at hok
            simp only [printU, isNoneLeaf, procPart]
            by_cases hs : s = sNone
            · simp [hs]
            · simp [hs, hok.1.2, printUL, rmTree, printU]
          | union ks =>
            simp only [printU, isNoneLeaf, procPart, union_ne_none, if_false, startsWith_union, if_true]
            have := ih _ hc (hkids _ hc) m (hfuel _ hc)
            simp only [printU] at this
            rw [this]; simp [printUL]
      rw [hparts kids (fun c hc => hc)]
      simp only [rmTree]
      exact print_mkU _


/-! ### typing expressions as union trees -/

theorem printL_eq_joinSep (sep : Str) : ∀ (es : List TExpr), printL sep es = joinSep sep (es.map print) := by
  intro es
  induction es with
  | nil => simp [printL_nil, joinSep]
  | cons a l ih =>
    cases l with
    | nil => simp [printL_single, joinSep]
    | cons b r => rw [printL_cons_cons, ih]; simp [joinSep, List.append_assoc]

/-- a name the string surgery cannot misread: not empty, none of `[ ] , |`, no white space at its ends -/
def plainTok (s : Str) : Bool :=
  !s.isEmpty && s.all (fun c => !special c) && s.head?.all (fun c => !isSpace c) &&
  s.getLast?.all (fun c => !isSpace c)

mutual
/-- expressions of the `Union[…]` spelling: plain names, no `|` -/
def wfU : TExpr → Bool
  | .atom s => plainTok s
  | .app h args => plainTok h && (h == sUnion || !args.isEmpty) && wfUL args
  | .bor _ => false
def wfUL : List TExpr → Bool
  | [] => true
  | e :: es => wfU e && wfUL es
end

theorem wfUL_mem {es : List TExpr} (h : wfUL es = true) : ∀ e ∈ es, wfU e = true := by
  induction es with
  | nil => intro e he; cases he
  | cons a l ih =>
    simp only [wfUL, Bool.and_eq_true] at h
    intro e he
    cases he with
    | head => exact h.1
    | tail _ h' => exact ih h.2 e h'

theorem wfUL_of_mem {es : List TExpr} (h : ∀ e ∈ es, wfU e = true) : wfUL es = true := by
  induction es with
  | nil => rfl
  | cons a l ih =>
    simp only [wfUL, Bool.and_eq_true]
    exact ⟨h a (List.mem_cons_self ..), ih (fun e he => h e (List.mem_cons_of_mem _ he))⟩

mutual
def toU : TExpr → UTree
  | .atom s => .leaf s
  | .app h args => if h = sUnion then .union (toUL args) else .leaf (print (.app h args))
  | .bor args => .leaf (print (.bor args))
def toUL : List TExpr → List UTree
  | [] => []
  | e :: es => toU e :: toUL es
end

theorem toUL_eq_map (es : List TExpr) : toUL es = es.map toU := by
  induction es with
  | nil => rfl
  | cons a l ih => simp [toUL, ih]

theorem printU_toU : ∀ e, printU (toU e) = print e := by
  apply TExpr.ind
  · intro s; simp [toU, printU, print]
  · intro h args ih
    simp only [toU]
    split
    · rename_i hu; subst hu
      simp only [printU]
      rw [print_app, printUL_eq_map, toUL_eq_map, printL_eq_joinSep]
      have : (args.map toU).map printU = args.map print := by
        simp only [List.map_map]; apply List.map_congr_left; intro a ha; exact ih a ha
      rw [this]
      simp [sUnionPrefix, sUnion, Dcg.Sem.Typing.sComma, sComma]
    · simp [printU]
  · intro args _; simp [toU, printU]

/-! plain text scans as closed -/

theorem scanTop_plain : ∀ (s : Str), s.all (fun c => !special c) = true → ∀ k, scanTop k s = some k := by
  intro s
  induction s with
  | nil => intro _ k; rfl
  | cons c cs ih =>
    intro h k
    simp only [List.all_cons, Bool.and_eq_true, special, Bool.not_eq_true', Bool.or_eq_false_iff, decide_eq_false_iff_not] at h
    obtain ⟨⟨⟨⟨h1, h2⟩, h3⟩, _⟩, hr⟩ := h
    simp only [scanTop, h1, h2, h3, if_false]
    exact ih (by simpa [special] using hr) k

theorem plain_no_bracket (s : Str) (h : s.all (fun c => !special c) = true) : '[' ∉ s := by
  intro hm
  have := List.all_eq_true.mp h '[' hm
  simp [special] at this

theorem startsWith_union_app (h : Str) (rest : Str) (hp : '[' ∉ h) :
    startsWith sUnionPrefix (h ++ '[' :: rest) = true ↔ h = sUnion := by
  constructor
  · intro hs
    simp only [startsWith, sUnionPrefix] at hs
    have hpre := List.isPrefixOf_iff_prefix.mp hs
    obtain ⟨t, ht⟩ := hpre
    -- compare the position of the first '['
    match h, hp, ht with
    | [], _, ht => simp at ht
    | [a], hp, ht => simp at ht
    | [a, b], hp, ht => simp at ht
    | [a, b, c], hp, ht => simp at ht
    | [a, b, c, d], hp, ht => simp at ht
    | [a, b, c, d, e], hp, ht => simp at ht; obtain ⟨rfl, rfl, rfl, rfl, rfl, _⟩ := ht; rfl
    | a :: b :: c :: d :: e :: f :: r, hp, ht =>
      simp at ht; obtain ⟨_, _, _, _, _, rfl, _⟩ := ht
      exact absurd (by simp) hp
  · intro hh; subst hh; simp [startsWith, sUnionPrefix, sUnion]


theorem plainTok_parts (s : Str) (h : plainTok s = true) :
    s ≠ [] ∧ s.all (fun c => !special c) = true ∧ s.head?.all (fun c => !isSpace c) = true ∧
      s.getLast?.all (fun c => !isSpace c) = true := by
  simp only [plainTok, Bool.and_eq_true, Bool.not_eq_true', List.isEmpty_eq_false_iff] at h
  exact ⟨h.1.1.1, h.1.1.2, h.1.2, h.2⟩

theorem scanTop_print_wfU : ∀ e, wfU e = true → ∀ k, scanTop k (print e) = some k := by
  apply TExpr.ind
  · intro s h k
    simp only [wfU] at h
    rw [print_atom]; exact scanTop_plain s (plainTok_parts s h).2.1 k
  · intro h args ih hw k
    simp only [wfU, Bool.and_eq_true] at hw
    obtain ⟨⟨hh, _⟩, hargs⟩ := hw
    rw [print_app, scanTop_append, scanTop_plain h (plainTok_parts h hh).2.1 k]
    simp only [Option.bind_some, scanTop, if_true]
    rw [scanTop_append, printL_eq_joinSep]
    have : scanTop (k + 1) (joinSep sComma (args.map print)) = some (k + 1) := by
      apply scanTop_joinSep
      intro p hp
      simp only [List.mem_map] at hp
      obtain ⟨a, ha, rfl⟩ := hp
      exact ih a ha (wfUL_mem hargs a ha) (k + 1)
    have e : Dcg.Sem.Typing.sComma = sComma := rfl
    rw [e, this]
    simp [scanTop]
  · intro args _ hw; simp [wfU] at hw

theorem closedLeaf_atom (s : Str) (h : plainTok s = true) : closedLeaf s = true := by
  obtain ⟨hne, hpl, hh, hl⟩ := plainTok_parts s h
  simp only [closedLeaf, Bool.and_eq_true, Bool.not_eq_true', beq_iff_eq, List.isEmpty_eq_false_iff]
  refine ⟨⟨⟨⟨hne, hh⟩, hl⟩, ?_⟩, scanTop_plain s hpl 0⟩
  cases hs : startsWith sUnionPrefix s with
  | false => rfl
  | true =>
    have := List.IsPrefix.subset (List.isPrefixOf_iff_prefix.mp hs)
    exact absurd (this (by simp [sUnionPrefix])) (plain_no_bracket s hpl)

theorem closedLeaf_app (h : Str) (args : List TExpr) (hw : wfU (.app h args) = true) (hu : h ≠ sUnion) :
    closedLeaf (print (.app h args)) = true := by
  have hsc := scanTop_print_wfU _ hw 0
  simp only [wfU, Bool.and_eq_true] at hw
  obtain ⟨hne, hpl, hh, _⟩ := plainTok_parts h hw.1.1
  rw [print_app] at hsc ⊢
  simp only [closedLeaf, Bool.and_eq_true, Bool.not_eq_true', beq_iff_eq, List.isEmpty_eq_false_iff]
  refine ⟨⟨⟨⟨by simp, ?_⟩, ?_⟩, ?_⟩, hsc⟩
  · cases h with
    | nil => exact absurd rfl hne
    | cons c cs => simpa using hh
  · have : h ++ '[' :: (printL Dcg.Sem.Typing.sComma args ++ [']']) = (h ++ '[' :: printL Dcg.Sem.Typing.sComma args) ++ [']'] := by simp
    rw [this, List.getLast?_append]; simp; decide
  · cases hs : startsWith sUnionPrefix (h ++ '[' :: (printL Dcg.Sem.Typing.sComma args ++ [']'])) with
    | false => rfl
    | true => exact absurd ((startsWith_union_app h _ (plain_no_bracket h hpl)).mp hs) hu

theorem okU_toU : ∀ e, wfU e = true → okU (toU e) = true := by
  apply TExpr.ind
  · intro s h; simp only [wfU] at h; simp only [toU, okU]; exact closedLeaf_atom s h
  · intro h args ih hw
    simp only [toU]
    split
    · simp only [okU]
      simp only [wfU, Bool.and_eq_true] at hw
      have hm := wfUL_mem hw.2
      clear hw
      induction args with
      | nil => rfl
      | cons a l ihl =>
        simp only [toUL, okUL, Bool.and_eq_true]
        exact ⟨ih a (List.mem_cons_self ..) (hm a (List.mem_cons_self ..)),
          ihl (fun x hx => ih x (List.mem_cons_of_mem _ hx)) (fun x hx => hm x (List.mem_cons_of_mem _ hx))⟩
    · rename_i hu; simp only [okU]; exact closedLeaf_app h args hw hu
  · intro args _ hw; simp [wfU] at hw

theorem isNoneLeaf_toU (e : TExpr) (hw : wfU e = true) : isNoneLeaf (toU e) = isNoneE e := by
  cases e with
  | atom s => simp [toU, isNoneLeaf, isNoneE, Dcg.Sem.Typing.sNone, sNone]
  | app h args =>
    simp only [toU, isNoneE]
    split
    · rfl
    · simp only [isNoneLeaf, decide_eq_false_iff_not]
      rw [print_app]
      intro hc
      have : '[' ∈ (h ++ '[' :: (printL Dcg.Sem.Typing.sComma args ++ [']'])) := by simp
      rw [hc] at this; simp [sNone] at this
  | bor args => simp [wfU] at hw

theorem mkU_toUL (es : List TExpr) : mkU (toUL es) = toU (mkUnionE es) := by
  match es with
  | [] => simp [toUL, mkU, mkUnionE, eNone, toU, Dcg.Sem.Typing.sNone, sNone]
  | [e] => simp [toUL, mkU, mkUnionE]
  | a :: b :: r => simp [toUL, mkU, mkUnionE, toU]

theorem rmTree_toU : ∀ e, wfU e = true → rmTree (toU e) = toU (rmU e) := by
  apply TExpr.ind
  · intro s _; simp [toU, rmTree, rmU]
  · intro h args ih hw
    simp only [toU, rmU]
    split
    · rename_i hu
      simp only [rmTree]
      rw [← mkU_toUL]
      congr 1
      simp only [wfU, Bool.and_eq_true] at hw
      have hm := wfUL_mem hw.2
      clear hw
      induction args with
      | nil => rfl
      | cons a l ihl =>
        simp only [toUL, rmTreeL, rmUL]
        rw [isNoneLeaf_toU a (hm a (List.mem_cons_self ..))]
        split
        · exact ihl (fun x hx => ih x (List.mem_cons_of_mem _ hx)) (fun x hx => hm x (List.mem_cons_of_mem _ hx))
        · simp only [toUL]
          rw [ih a (List.mem_cons_self ..) (hm a (List.mem_cons_self ..)),
            ihl (fun x hx => ih x (List.mem_cons_of_mem _ hx)) (fun x hx => hm x (List.mem_cons_of_mem _ hx))]
    · rename_i hu; simp [rmTree, toU, hu]
  · intro args _ hw; simp [wfU] at hw

/-- `removeNone_structural` on typing expressions, `Union[…]` spelling: the character-level
surgery of the code on the printed expression = printing the structurally cleaned expression -/
theorem removeNoneU_print (e : TExpr) (hw : wfU e = true) : removeNoneU (print e) = print (rmU e) := by
  unfold removeNoneU
  rw [← printU_toU e, removeNoneUF_printU (toU e) (okU_toU e hw) _ (Nat.le_refl _), rmTree_toU e hw, printU_toU]


/-! ### `DataType.type_hint` in the typing spelling is the printed structural rendering -/

theorem wfU_mkUnionE (ps : List TExpr) (h : wfUL ps = true) : wfU (mkUnionE ps) = true := by
  match ps, h with
  | [], _ => decide
  | [p], h => simp only [wfUL, Bool.and_true] at h; exact h
  | a :: b :: r, h =>
    simp only [mkUnionE, wfU, Bool.and_eq_true]
    exact ⟨⟨by decide, by simp⟩, h⟩

theorem wfU_rmU : ∀ e, wfU e = true → wfU (rmU e) = true := by
  apply TExpr.ind
  · intro s h; simpa [rmU] using h
  · intro h args ih hw
    simp only [rmU]
    split
    · apply wfU_mkUnionE
      simp only [wfU, Bool.and_eq_true] at hw
      have hm := wfUL_mem hw.2
      clear hw
      induction args with
      | nil => rfl
      | cons a l ihl =>
        simp only [rmUL]
        split
        · exact ihl (fun x hx => ih x (List.mem_cons_of_mem _ hx)) (fun x hx => hm x (List.mem_cons_of_mem _ hx))
        · simp only [wfUL, Bool.and_eq_true]
          exact ⟨ih a (List.mem_cons_self ..) (hm a (List.mem_cons_self ..)),
            ihl (fun x hx => ih x (List.mem_cons_of_mem _ hx)) (fun x hx => hm x (List.mem_cons_of_mem _ hx))⟩
    · exact hw
  · intro args _ hw; simp [wfU] at hw

theorem wfUL_append (a b : List TExpr) : wfUL (a ++ b) = (wfUL a && wfUL b) := by
  induction a with
  | nil => simp [wfUL]
  | cons x l ih => simp [wfUL, ih, Bool.and_assoc]

theorem print_ne_nil_of_wfU (e : TExpr) (h : wfU e = true) : print e ≠ [] := by
  cases e with
  | atom s => simp only [wfU] at h; rw [print_atom]; exact (plainTok_parts s h).1
  | app hd args => rw [print_app]; simp
  | bor args => simp [wfU] at h

theorem unionLoop_typing : ∀ (hs acc : List TExpr) (opt : Bool), wfUL hs = true → wfUL acc = true →
    unionLoop false (hs.map print) (acc.map print) opt =
      ((unionLoopE false hs acc opt).1.map print, (unionLoopE false hs acc opt).2) ∧
    wfUL (unionLoopE false hs acc opt).1 = true := by
  intro hs
  induction hs with
  | nil => intro acc opt _ ha; simp [unionLoop, unionLoopE, ha]
  | cons h hs ih =>
    intro acc opt hw ha
    simp only [wfUL, Bool.and_eq_true] at hw
    simp only [List.map_cons, unionLoop, unionLoopE]
    split
    · exact ih acc opt hw.2 ha
    · split
      · exact ih acc true hw.2 ha
      · have hr : removeNone false (print h) = print (rmE false h) := by
          simp only [removeNone, rmE, Bool.false_eq_true, if_false]
          exact removeNoneU_print h hw.1
        rw [hr]
        have ha' : wfUL (acc ++ [rmE false h]) = true := by
          rw [wfUL_append, ha]
          simp only [rmE, Bool.false_eq_true, if_false, wfUL, Bool.and_true, Bool.true_and]
          exact wfU_rmU h hw.1
        have := ih (acc ++ [rmE false h]) (opt || print (rmE false h) != print h) hw.2 ha'
        simpa using this


theorem plainName_plainTok (s : Str) (h : plainName s = true) : plainTok s = true := by
  simp only [plainName, Bool.and_eq_true, Bool.not_eq_true', List.all_eq_true] at h
  obtain ⟨hne, hall⟩ := h
  simp only [plainTok, Bool.and_eq_true, Bool.not_eq_true', List.all_eq_true]
  refine ⟨⟨⟨hne, fun c hc => (hall c hc).1⟩, ?_⟩, ?_⟩
  · cases s with
    | nil => rfl
    | cons c cs => simpa using (hall c (List.mem_cons_self ..)).2
  · cases hl : s.getLast? with
    | none => rfl
    | some c => simpa using (hall c (List.mem_of_getLast? hl)).2

theorem plainToken_plainTok (s : Str) (h : plainToken s = true) : plainTok s = true := by
  simpa [plainToken, plainTok] using h

theorem names_plain (o : Opts) : plainTok (listName o) = true ∧ plainTok (setName o) = true ∧ plainTok (dictName o) = true ∧
    listName o ≠ sUnion ∧ setName o ≠ sUnion ∧ dictName o ≠ sUnion := by
  obtain ⟨u, s, g⟩ := o
  cases u <;> cases s <;> cases g <;> decide

theorem base_typing (o : Opts) (ho : o.unionOp = false) (a : Attrs) (kidEs : List TExpr)
    (hk : wfUL kidEs = true) (ha : wfAttrs a kidEs.length = true) :
    baseOf o a (kidEs.map print) = (print (baseE o a kidEs).1, (baseE o a kidEs).2) ∧
    wfU (baseE o a kidEs).1 = true := by
  simp only [wfAttrs, Bool.and_eq_true, Bool.or_eq_true, Bool.not_eq_true', List.all_eq_true, decide_eq_true_eq] at ha
  obtain ⟨⟨⟨hty, href⟩, hlit⟩, hleafy⟩ := ha
  unfold baseOf baseE
  by_cases hte : a.ty = []
  · simp only [hte, ne_eq, not_true_eq_false, if_false]
    match kidEs, hk with
    | k1 :: k2 :: ks, hk =>
      have hl := unionLoop_typing (k1 :: k2 :: ks) [] a.isOptional hk rfl
      simp only [List.map_cons, List.map_nil] at hl ⊢
      simp only [ho] at hl ⊢
      rw [hl.1]
      generalize hr : unionLoopE false (k1 :: k2 :: ks) [] a.isOptional = r at hl
      obtain ⟨r1, r2⟩ := r
      simp only [] at hl ⊢
      match r1, hl with
      | [d], hl =>
        simp only [List.map_cons, List.map_nil]
        simp only [wfUL, Bool.and_true] at hl
        exact ⟨trivial, hl.2⟩
      | [], hl =>
        simp only [List.map_nil, Bool.false_eq_true, if_false]
        refine ⟨?_, by decide⟩
        rw [print_app]; simp [joinSep, printL_nil, sUnionPrefix, sUnion]
      | d1 :: d2 :: ds, hl =>
        simp only [List.map_cons, Bool.false_eq_true, if_false]
        refine ⟨?_, ?_⟩
        · rw [print_app, printL_eq_joinSep]
          simp [sUnionPrefix, sUnion, Dcg.Sem.Typing.sComma, sComma]
        · simp only [wfU, Bool.and_eq_true]
          exact ⟨⟨by decide, by simp⟩, hl.2⟩
    | [k], hk =>
      simp only [List.map_cons, List.map_nil]
      simp only [wfUL, Bool.and_true] at hk
      exact ⟨trivial, hk⟩
    | [], _ =>
      simp only [List.map_nil]
      by_cases hle : a.literals = []
      · simp only [hle, ne_eq, not_true_eq_false, if_false]
        cases hrf : a.ref with
        | none =>
          exfalso
          simp [hte, hle, hrf] at hleafy
        | some r =>
          simp only []
          rw [hrf] at href
          exact ⟨by rw [print_atom], by simp only [wfU]; exact plainName_plainTok _ href⟩
      · simp only [hle, ne_eq, not_false_eq_true, if_true]
        refine ⟨?_, ?_⟩
        · rw [print_app, printL_eq_joinSep]
          have : (a.literals.map TExpr.atom).map print = a.literals := by
            simp only [List.map_map]
            conv => rhs; rw [← List.map_id a.literals]
            apply List.map_congr_left; intro x _; simp [print_atom]
          rw [this]
          simp [sLiteralPrefix, sLiteral, Dcg.Sem.Typing.sComma, sComma]
        · simp only [wfU, Bool.and_eq_true]
          refine ⟨⟨by decide, ?_⟩, ?_⟩
          · cases hq : a.literals with
            | nil => exact absurd hq hle
            | cons _ _ => simp
          · apply wfUL_of_mem
            intro e he
            simp only [List.mem_map] at he
            obtain ⟨tok, htok, rfl⟩ := he
            simp only [wfU]; exact plainToken_plainTok _ (hlit tok htok)
  · simp only [hte, ne_eq, not_false_eq_true, if_true]
    refine ⟨by rw [print_atom], ?_⟩
    simp only [wfU]
    rcases hty with h | h
    · exact absurd (by simpa using h) hte
    · exact plainName_plainTok _ h

theorem wrap1_typing (name : Str) (b : TExpr) (hn : plainTok name = true) (hu : name ≠ sUnion) (hb : wfU b = true) :
    wrap1 name (print b) = print (wrap1E name b) ∧ wfU (wrap1E name b) = true := by
  have hne := print_ne_nil_of_wfU b hb
  simp only [wrap1, wrap1E, hne, if_false]
  refine ⟨?_, ?_⟩
  · rw [print_app, printL_single]; simp
  · simp only [wfU, wfUL, Bool.and_eq_true, Bool.and_true]
    exact ⟨⟨hn, by simp⟩, hb⟩

theorem container_typing (o : Opts) (a : Attrs) (keyE : Option TExpr) (b : TExpr) (hb : wfU b = true)
    (hkey : ∀ k, keyE = some k → wfU k = true) :
    containerOf o a (keyE.map print) (print b) = print (containerE o a keyE b) ∧
    wfU (containerE o a keyE b) = true := by
  obtain ⟨hl, hs, hd, hlu, hsu, hdu⟩ := names_plain o
  have hne := print_ne_nil_of_wfU b hb
  unfold containerOf containerE
  split
  · exact wrap1_typing _ b hl hlu hb
  · split
    · exact wrap1_typing _ b hs hsu hb
    · split
      · simp only [hne, ne_eq, not_false_eq_true, or_true, if_true, if_false]
        refine ⟨?_, ?_⟩
        · rw [print_app, printL_cons_cons, printL_single]
          cases keyE with
          | none => simp [print_atom, Dcg.Sem.Typing.sComma, sComma]
          | some k => simp [Dcg.Sem.Typing.sComma, sComma]
        · simp only [wfU, wfUL, Bool.and_eq_true, Bool.and_true]
          refine ⟨⟨hd, by simp⟩, ?_, hb⟩
          cases keyE with
          | none => simp only [Option.getD_none, wfU]; decide
          | some k => simpa using hkey k rfl
      · exact ⟨rfl, hb⟩

theorem finish_typing (ty : TExpr) (opt : Bool) (hw : wfU ty = true) :
    finishOf false (print ty) opt = (print (finishE false ty opt).1, (finishE false ty opt).2) ∧
    wfU (finishE false ty opt).1 = true := by
  unfold finishOf finishE
  split
  · simp only []
    unfold getOptionalType getOptionalE
    have hr : removeNone false (print ty) = print (rmE false ty) := by
      simp only [removeNone, rmE, Bool.false_eq_true, if_false]
      exact removeNoneU_print ty hw
    simp only [hr, Bool.false_eq_true, if_false]
    have hwr : wfU (rmE false ty) = true := by
      simp only [rmE, Bool.false_eq_true, if_false]; exact wfU_rmU ty hw
    split
    · exact ⟨by simp [eNone, print_atom, Dcg.Sem.Typing.sNone, sNone], by decide⟩
    · refine ⟨?_, ?_⟩
      · rw [print_app, printL_single]; simp [sOptionalPrefix, sOptional]
      · simp only [wfU, wfUL, Bool.and_eq_true, Bool.and_true]
        exact ⟨⟨by decide, by simp⟩, hwr⟩
  · exact ⟨rfl, hw⟩

theorem node_typing (o : Opts) (ho : o.unionOp = false) (a : Attrs) (keyE : Option TExpr) (kidEs : List TExpr)
    (hk : wfUL kidEs = true) (hkey : ∀ k, keyE = some k → wfU k = true) (ha : wfAttrs a kidEs.length = true) :
    hintNode o a (keyE.map print) (kidEs.map print) =
      (print (hintNodeE o a keyE kidEs).1, (hintNodeE o a keyE kidEs).2) ∧
    wfU (hintNodeE o a keyE kidEs).1 = true := by
  obtain ⟨hb1, hb2⟩ := base_typing o ho a kidEs hk ha
  unfold hintNode hintNodeE
  simp only [hb1, ho]
  obtain ⟨hc1, hc2⟩ := container_typing o a keyE (baseE o a kidEs).1 hb2 hkey
  rw [hc1]
  exact finish_typing _ _ hc2


/-- `typeHint_eq_print`, typing spelling (`use_union_operator = False`; any of the four container
spellings): on a tree whose names are plain, the text `DataType.type_hint` builds by string surgery
is exactly the printed form of the structural rendering, the flag it leaves is the structural
flag, and the expression is well-formed. -/
theorem typeHint_typing (o : Opts) (ho : o.unionOp = false) : ∀ t, wfTree t = true →
    typeHint o t = (print (hintE o t).1, (hintE o t).2) ∧ wfU (hintE o t).1 = true := by
  apply DT.ind
  intro a key kids ihk ihl hw
  simp only [wfTree, Bool.and_eq_true] at hw
  obtain ⟨⟨ha, hwk⟩, hwl⟩ := hw
  have hkids : typeHintL o kids = (hintEL o kids).map print ∧ wfUL (hintEL o kids) = true := by
    clear ha hwk ihk
    induction kids with
    | nil => exact ⟨rfl, rfl⟩
    | cons c cs ihc =>
      simp only [wfTreeL, Bool.and_eq_true] at hwl
      obtain ⟨h1, h2⟩ := ihl c (List.mem_cons_self ..) hwl.1
      obtain ⟨h3, h4⟩ := ihc (fun x hx => ihl x (List.mem_cons_of_mem _ hx)) hwl.2
      simp only [typeHintL, hintEL, List.map_cons, wfUL, Bool.and_eq_true]
      exact ⟨by rw [h1, h3], h2, h4⟩
  have hkey : typeHintO o key = (hintEO o key).map print ∧ ∀ k, hintEO o key = some k → wfU k = true := by
    cases key with
    | none => exact ⟨rfl, by intro k hk; simp [hintEO] at hk⟩
    | some kk =>
      simp only [wfTreeO] at hwk
      obtain ⟨h1, h2⟩ := ihk kk rfl hwk
      refine ⟨by simp [typeHintO, hintEO, h1], ?_⟩
      intro k hk
      simp only [hintEO, Option.some.injEq] at hk
      subst hk; exact h2
  simp only [typeHint, hintE]
  rw [hkids.1, hkey.1]
  exact node_typing o ho a _ _ hkids.2 hkey.2 (by rw [hintEL_length]; exact ha)

theorem wfU_namesBracketFree : ∀ e, wfU e = true → namesBracketFree e = true := by
  have hbf : ∀ s, plainTok s = true → bracketFree s = true := by
    intro s h
    have := (plainTok_parts s h).2.1
    simp only [bracketFree, List.all_eq_true, Bool.and_eq_true, bne_iff_ne] at this ⊢
    intro c hc
    have := this c hc
    simp only [special, Bool.not_eq_true', Bool.or_eq_false_iff, decide_eq_false_iff_not] at this
    exact ⟨this.1.1.1, this.1.1.2⟩
  apply TExpr.ind
  · intro s h; simp only [wfU] at h; simp only [namesBracketFree]; exact hbf s h
  · intro h args ih hw
    simp only [wfU, Bool.and_eq_true] at hw
    simp only [namesBracketFree, Bool.and_eq_true]
    refine ⟨hbf h hw.1.1, ?_⟩
    have hm := wfUL_mem hw.2
    clear hw
    induction args with
    | nil => rfl
    | cons a l ihl =>
      simp only [namesBracketFreeL, Bool.and_eq_true]
      exact ⟨ih a (List.mem_cons_self ..) (hm a (List.mem_cons_self ..)),
        ihl (fun x hx => ih x (List.mem_cons_of_mem _ hx)) (fun x hx => hm x (List.mem_cons_of_mem _ hx))⟩
  · intro args _ hw; simp [wfU] at hw

theorem hint_balanced_typing (o : Opts) (ho : o.unionOp = false) (t : DT) (hw : wfTree t = true) :
    balanced (typeHint o t).1 = true := by
  obtain ⟨h1, h2⟩ := typeHint_typing o ho t hw
  rw [h1]
  exact print_balanced _ (wfU_namesBracketFree _ h2)

/-- the flags agree (what `imports_cover_hint_partial` of C02 needs), typing spelling -/
theorem flagsAgree_typing (o : Opts) (ho : o.unionOp = false) : ∀ t, wfTree t = true → flagsAgree o t = true := by
  apply DT.ind
  intro a key kids ihk ihl hw
  have hself := (typeHint_typing o ho (.mk a key kids) hw).1
  simp only [wfTree, Bool.and_eq_true] at hw
  obtain ⟨⟨hat, hwk⟩, hwl⟩ := hw
  simp only [flagsAgree, Bool.and_eq_true, beq_iff_eq]
  refine ⟨⟨?_, ?_⟩, ?_⟩
  · simp only [flagE, Dcg.Model.Imports.flagAfter]; rw [hself]
  · cases key with
    | none => rfl
    | some k => simp only [flagsAgreeO]; simp only [wfTreeO] at hwk; exact ihk k rfl hwk
  · clear hself hwk ihk hat
    induction kids with
    | nil => rfl
    | cons c cs ihc =>
      simp only [wfTreeL, Bool.and_eq_true] at hwl
      simp only [flagsAgreeL, Bool.and_eq_true]
      exact ⟨ihl c (List.mem_cons_self ..) hwl.1, ihc (fun x hx => ihl x (List.mem_cons_of_mem _ hx)) hwl.2⟩


/-! ### the operator spelling: brackets survive the `|` surgery untouched -/

/-- closed: from any depth the text returns to that depth without ever closing too much -/
def Dyck (s : Str) : Prop := ∀ d, scan d s = some d

theorem Dyck_bracketFree (s : Str) (h : bracketFree s = true) : Dyck s := fun d => scan_bracketFree s d h

theorem Dyck_append {a b : Str} (ha : Dyck a) (hb : Dyck b) : Dyck (a ++ b) := by
  intro d; rw [scan_append, ha d]; exact hb d

theorem Dyck_wrap (name s : Str) (hn : bracketFree name = true) (hs : Dyck s) : Dyck (name ++ ['['] ++ s ++ [']']) := by
  intro d
  rw [List.append_assoc, List.append_assoc, scan_append, scan_bracketFree name d hn]
  simp only [Option.bind_some, List.singleton_append, scan, if_true]
  rw [scan_append, hs (d + 1)]
  simp [scan]

theorem Dyck_joinSep (sep : Str) (hsep : bracketFree sep = true) : ∀ (ps : List Str), (∀ p ∈ ps, Dyck p) → Dyck (joinSep sep ps) := by
  intro ps
  induction ps with
  | nil => intro _ d; rfl
  | cons p ps ih =>
    intro h
    cases ps with
    | nil => simpa [joinSep] using h p (List.mem_cons_self ..)
    | cons q r =>
      rw [joinSep_cons_cons]
      exact Dyck_append (h p (List.mem_cons_self ..)) (Dyck_append (Dyck_bracketFree sep hsep) (ih (fun x hx => h x (List.mem_cons_of_mem _ hx))))

def isBr (c : Char) : Bool := c == '[' || c == ']'
/-- the bracket subsequence -/
def br (s : Str) : Str := s.filter isBr

theorem scan_br : ∀ (s : Str) (d : Nat), scan d s = scan d (br s) := by
  intro s
  induction s with
  | nil => intro d; rfl
  | cons c cs ih =>
    intro d
    by_cases h1 : c = '['
    · subst h1; simp only [br, isBr, List.filter, scan, if_true]; exact ih _
    · by_cases h2 : c = ']'
      · subst h2
        simp only [br, isBr, List.filter, scan, show (']' : Char) ≠ '[' by decide, if_false, if_true]
        cases d with
        | zero => rfl
        | succ d' => exact ih _
      · have : isBr c = false := by simp [isBr, h1, h2]
        simp only [br, List.filter, this, scan, h1, h2, if_false]
        exact ih _

theorem Dyck_of_br_eq {s s' : Str} (h : br s' = br s) (hs : Dyck s) : Dyck s' := by
  intro d; rw [scan_br, h, ← scan_br]; exact hs d

theorem br_append (a b : Str) : br (a ++ b) = br a ++ br b := by simp [br]

theorem br_joinSep (sep : Str) (hsep : br sep = []) : ∀ (ps : List Str), br (joinSep sep ps) = ps.flatMap br := by
  intro ps
  induction ps with
  | nil => rfl
  | cons p ps ih =>
    cases ps with
    | nil => simp [joinSep]
    | cons q r => rw [joinSep_cons_cons, br_append, br_append, hsep, ih]; simp

theorem isBr_space (c : Char) (h : isSpace c = true) : isBr c = false := by
  cases hb : isBr c with
  | false => rfl
  | true =>
    simp only [isBr, Bool.or_eq_true, beq_iff_eq] at hb
    rcases hb with rfl | rfl <;> simp [isSpace] at h

theorem br_spaces (ws : Str) (h : ws.all isSpace = true) : br ws = [] := by
  induction ws with
  | nil => rfl
  | cons c cs ih =>
    simp only [List.all_cons, Bool.and_eq_true] at h
    have := ih h.2
    simp only [br] at this ⊢
    simp [List.filter, isBr_space c h.1, this]

theorem br_splitPipeAux : ∀ (s : Str) (skip : Bool) (cur ws : Str), ws.all isSpace = true →
    (skip = true → cur = [] ∧ ws = []) →
    (splitPipeAux s skip cur ws).flatMap br = br cur ++ br s := by
  intro s
  induction s with
  | nil => intro skip cur ws hws _; simp [splitPipeAux, br_append, br_spaces ws hws]; simp [br]
  | cons c cs ih =>
    intro skip cur ws hws hskip
    simp only [splitPipeAux]
    split
    · rename_i hc; subst hc
      simp only [List.flatMap_cons]
      rw [ih true [] [] rfl (fun _ => ⟨rfl, rfl⟩)]
      simp [br, List.filter, isBr]
    · rename_i hne
      split
      · rename_i hsp
        have hb : br (c :: cs) = br cs := by simp [br, List.filter, isBr_space c hsp]
        split
        · rename_i hsk
          obtain ⟨rfl, rfl⟩ := hskip hsk
          rw [ih true [] [] rfl (fun _ => ⟨rfl, rfl⟩), hb]
        · rename_i hsk
          rw [ih false cur (ws ++ [c]) (by simp [hws, hsp]) (by intro h; cases h), hb]
      · rw [ih false (cur ++ ws ++ [c]) [] rfl (by intro h; cases h)]
        simp only [br_append, br_spaces ws hws, List.append_nil, List.append_assoc]
        cases hb : isBr c <;> simp [br, List.filter, hb]

theorem br_splitPipe (s : Str) : (splitPipe s).flatMap br = br s := by
  unfold splitPipe
  rw [br_splitPipeAux s false [] [] rfl (by intro h; cases h)]; simp [br]

theorem flatMap_br_filter_none (ps : List Str) : (ps.filter (· ≠ sNone)).flatMap br = ps.flatMap br := by
  induction ps with
  | nil => rfl
  | cons p ps ih =>
    by_cases h : p = sNone
    · subst h
      have e : br sNone = [] := by decide
      simp only [List.filter, ne_eq, not_true_eq_false, decide_false, List.flatMap_cons, e, List.nil_append]
      exact ih
    · simp only [List.filter, ne_eq, h, not_false_eq_true, decide_true, List.flatMap_cons]
      rw [ih]

/-- the whole surgery of the operator spelling leaves the bracket subsequence as it was -/
theorem br_removeNoneB (s : Str) : br (removeNoneB s) = br s := by
  unfold removeNoneB
  split
  · have h1 := br_splitPipe s
    have h2 := flatMap_br_filter_none (splitPipe s)
    split
    · rename_i hnil
      rw [hnil] at h2
      simp only [List.flatMap_nil] at h2
      rw [← h1, ← h2]; decide
    · rw [br_joinSep sPipe (by decide), h2, h1]
  · rfl

theorem Dyck_removeNoneB {s : Str} (h : Dyck s) : Dyck (removeNoneB s) := Dyck_of_br_eq (br_removeNoneB s) h

theorem Dyck_none : Dyck sNone := Dyck_bracketFree _ (by decide)

theorem Dyck_getOptional {s : Str} (h : Dyck s) : Dyck (getOptionalType true s) := by
  unfold getOptionalType
  simp only [removeNone, if_true]
  split
  · exact Dyck_none
  · exact Dyck_append (Dyck_append (Dyck_removeNoneB h) (Dyck_bracketFree _ (by decide))) Dyck_none

theorem Dyck_unionLoop : ∀ (hs acc : List Str) (opt : Bool), (∀ h ∈ hs, Dyck h) → (∀ h ∈ acc, Dyck h) →
    ∀ d ∈ (unionLoop true hs acc opt).1, Dyck d := by
  intro hs
  induction hs with
  | nil => intro acc opt _ ha; simpa [unionLoop] using ha
  | cons h hs ih =>
    intro acc opt hh ha
    simp only [unionLoop]
    have hrest := fun x hx => hh x (List.mem_cons_of_mem _ hx)
    split
    · exact ih acc opt hrest ha
    · split
      · exact ih acc true hrest ha
      · apply ih _ _ hrest
        intro x hx
        simp only [List.mem_append, List.mem_singleton] at hx
        rcases hx with hx | rfl
        · exact ha x hx
        · simp only [removeNone, if_true]; exact Dyck_removeNoneB (hh h (List.mem_cons_self ..))

/-- no name of the node contains a bracket -/
def bfAttrs (a : Attrs) : Bool :=
  bracketFree a.ty && (match a.ref with | some r => bracketFree r.shortName | none => true) &&
  a.literals.all bracketFree

mutual
def bfTree : DT → Bool
  | .mk a key kids => bfAttrs a && bfTreeO key && bfTreeL kids
def bfTreeO : Option DT → Bool
  | none => true
  | some k => bfTree k
def bfTreeL : List DT → Bool
  | [] => true
  | t :: ts => bfTree t && bfTreeL ts
end

theorem Dyck_base (o : Opts) (ho : o.unionOp = true) (a : Attrs) (kidHints : List Str) (ha : bfAttrs a = true)
    (hk : ∀ h ∈ kidHints, Dyck h) : Dyck (baseOf o a kidHints).1 := by
  simp only [bfAttrs, Bool.and_eq_true, List.all_eq_true] at ha
  obtain ⟨⟨hty, href⟩, hlit⟩ := ha
  unfold baseOf
  split
  · exact Dyck_bracketFree _ hty
  · match kidHints, hk with
    | k1 :: k2 :: ks, hk =>
      simp only [ho]
      have hl := Dyck_unionLoop (k1 :: k2 :: ks) [] a.isOptional hk (by intro h hh; cases hh)
      split
      · rename_i d hd; exact hl d (by rw [hd]; simp)
      · simp only [if_true]; exact Dyck_joinSep sPipe (by decide) _ hl
    | [k], hk => exact hk k (by simp)
    | [], _ =>
      simp only []
      split
      · have : Dyck (joinSep sComma a.literals) := Dyck_joinSep sComma (by decide) _ (fun p hp => Dyck_bracketFree p (hlit p hp))
        have := Dyck_wrap ['L', 'i', 't', 'e', 'r', 'a', 'l'] _ (by decide) this
        simpa [sLiteralPrefix] using this
      · split
        · rename_i r hr; rw [hr] at href; exact Dyck_bracketFree _ href
        · exact Dyck_bracketFree _ rfl

theorem bf_names (o : Opts) : bracketFree (listName o) = true ∧ bracketFree (setName o) = true ∧ bracketFree (dictName o) = true := by
  obtain ⟨u, s, g⟩ := o
  cases u <;> cases s <;> cases g <;> decide

theorem Dyck_wrap1 (name b : Str) (hn : bracketFree name = true) (hb : Dyck b) : Dyck (wrap1 name b) := by
  unfold wrap1; split
  · exact Dyck_bracketFree _ hn
  · exact Dyck_wrap name b hn hb

theorem Dyck_container (o : Opts) (a : Attrs) (keyHint : Option Str) (b : Str) (hb : Dyck b)
    (hkey : ∀ k, keyHint = some k → Dyck k) : Dyck (containerOf o a keyHint b) := by
  obtain ⟨hl, hs, hd⟩ := bf_names o
  unfold containerOf
  split
  · exact Dyck_wrap1 _ b hl hb
  · split
    · exact Dyck_wrap1 _ b hs hb
    · split
      · split
        · have hk : Dyck (keyHint.getD sStr) := by
            cases keyHint with
            | none => exact Dyck_bracketFree _ (by decide)
            | some k => exact hkey k rfl
          have hv : Dyck (if b = [] then sAny else b) := by
            split
            · exact Dyck_bracketFree _ (by decide)
            · exact hb
          have := Dyck_wrap (dictName o) _ hd (Dyck_append hk (Dyck_append (Dyck_bracketFree sComma (by decide)) hv))
          simpa [List.append_assoc] using this
        · exact Dyck_bracketFree _ hd
      · exact hb

theorem Dyck_finish (ty : Str) (opt : Bool) (h : Dyck ty) : Dyck (finishOf true ty opt).1 := by
  unfold finishOf; split
  · exact Dyck_getOptional h
  · exact h

/-- operator spelling: brackets are balanced for EVERY tree whose names contain no bracket
(commas, pipes and blanks in names and literal values do not matter here) -/
theorem Dyck_typeHint_operator (o : Opts) (ho : o.unionOp = true) : ∀ t, bfTree t = true → Dyck (typeHint o t).1 := by
  apply DT.ind
  intro a key kids ihk ihl hw
  simp only [bfTree, Bool.and_eq_true] at hw
  obtain ⟨⟨ha, hwk⟩, hwl⟩ := hw
  have hkids : ∀ h ∈ typeHintL o kids, Dyck h := by
    clear ha hwk ihk
    induction kids with
    | nil => intro h hh; simp [typeHintL] at hh
    | cons c cs ihc =>
      simp only [bfTreeL, Bool.and_eq_true] at hwl
      intro h hh
      simp only [typeHintL, List.mem_cons] at hh
      rcases hh with rfl | hh
      · exact ihl c (List.mem_cons_self ..) hwl.1
      · exact ihc (fun x hx => ihl x (List.mem_cons_of_mem _ hx)) hwl.2 h hh
  have hkey : ∀ k, typeHintO o key = some k → Dyck k := by
    intro k hk
    cases key with
    | none => simp [typeHintO] at hk
    | some kk =>
      simp only [typeHintO, Option.some.injEq] at hk
      subst hk
      simp only [bfTreeO] at hwk
      exact ihk kk rfl hwk
  simp only [typeHint, hintNode, ho]
  exact Dyck_finish _ _ (Dyck_container o a _ _ (Dyck_base o ho a _ ha hkids) hkey)

theorem hint_balanced_operator (o : Opts) (ho : o.unionOp = true) (t : DT) (hw : bfTree t = true) :
    balanced (typeHint o t).1 = true := by
  unfold balanced
  rw [balancedFrom_eq_scan, Dyck_typeHint_operator o ho t hw 0]; rfl


/-! ### what making a type optional does to its alternatives (on expressions) -/

theorem altsL_append (a b : List TExpr) : altsL (a ++ b) = altsL a ++ altsL b := by
  induction a with
  | nil => simp [altsL]
  | cons x l ih => simp [altsL, ih]

theorem alts_none : alts eNone = [] := by simp [eNone, alts]
theorem hasNone_none : hasNone eNone = true := by simp [eNone, hasNone]

theorem alts_isNoneE (e : TExpr) (h : isNoneE e = true) : alts e = [] := by
  cases e with
  | atom s =>
    simp only [isNoneE, decide_eq_true_eq] at h
    subst h; simp [alts, sNone, Dcg.Sem.Typing.sNone]
  | app hd args => simp [isNoneE] at h
  | bor args => simp [isNoneE] at h

theorem alts_mkUnionE (ps : List TExpr) : alts (mkUnionE ps) = altsL ps := by
  match ps with
  | [] => simp [mkUnionE, alts_none, altsL]
  | [p] => simp [mkUnionE, altsL]
  | a :: b :: r => simp [mkUnionE, alts]

theorem alts_rmU : ∀ e, alts (rmU e) = alts e := by
  apply TExpr.ind
  · intro s; simp [rmU]
  · intro h args ih
    simp only [rmU]
    split
    · rename_i hu; subst hu
      rw [alts_mkUnionE]
      simp only [alts, or_true, if_true]
      induction args with
      | nil => rfl
      | cons a l ihl =>
        simp only [rmUL]
        split
        · rename_i hn
          simp only [altsL, alts_isNoneE a hn, List.nil_append]
          exact ihl (fun x hx => ih x (List.mem_cons_of_mem _ hx))
        · simp only [altsL, ih a (List.mem_cons_self ..)]
          rw [ihl (fun x hx => ih x (List.mem_cons_of_mem _ hx))]
    · rfl
  · intro args _; simp [rmU]

theorem alts_mkBorE (ps : List TExpr) : alts (mkBorE ps) = altsL ps := by
  match ps with
  | [] => simp [mkBorE, alts_none, altsL]
  | [p] => simp [mkBorE, altsL]
  | a :: b :: r => simp [mkBorE, alts]

theorem altsL_filter_notNone (l : List TExpr) : altsL (l.filter (fun e => !isNoneE e)) = altsL l := by
  induction l with
  | nil => rfl
  | cons a l ih =>
    by_cases h : isNoneE a = true
    · simp [List.filter, h, altsL, alts_isNoneE a h, ih]
    · simp [List.filter, h, altsL, ih]

theorem alts_rmB (e : TExpr) : alts (rmB e) = alts e := by
  cases e with
  | atom s => rfl
  | app h args => rfl
  | bor args => simp only [rmB, alts_mkBorE, altsL_filter_notNone, alts]

/-- removing `None` never touches another alternative -/
theorem alts_rmE (u : Bool) (e : TExpr) : alts (rmE u e) = alts e := by
  unfold rmE; split
  · exact alts_rmB e
  · exact alts_rmU e

theorem alts_borArgs (e : TExpr) : altsL (borArgs e) = alts e := by
  cases e with
  | atom s => simp [borArgs, altsL]
  | app h args => simp [borArgs, altsL]
  | bor args => simp [borArgs, alts]

/-- `optional_keeps_alternatives` on expressions: `get_optional_type` adds `None` and keeps every
other alternative, in both spellings (the only thing it may drop is the empty hint) -/
theorem alts_getOptionalE (u : Bool) (e : TExpr) (hne : alts e ≠ [] → print (rmE u e) ≠ [] ∧ print (rmE u e) ≠ sNone) :
    alts (getOptionalE u e) = alts e ∧ hasNone (getOptionalE u e) = true := by
  unfold getOptionalE
  simp only []
  split
  · rename_i htest
    refine ⟨?_, hasNone_none⟩
    rw [alts_none]
    by_cases h : alts e = []
    · exact h.symm
    · have := hne h
      rcases htest with h1 | h1
      · exact absurd h1 this.1
      · exact absurd h1 this.2
  · split
    · -- operator spelling: t | None, flattened
      have hflat : ∀ (t : TExpr), alts (borFlat [t, eNone]) = alts t ∧ hasNone (borFlat [t, eNone]) = true := by
        intro t
        unfold borFlat
        simp only [List.flatMap_cons, List.flatMap_nil, List.append_nil]
        have hb : borArgs eNone = [eNone] := by simp [eNone, borArgs]
        rw [hb]
        generalize hl : borArgs t = l
        have hal : altsL l = alts t := by rw [← hl]; exact alts_borArgs t
        match l, hal with
        | [], hal =>
          simp only [List.nil_append, borFlat.mkBorE']
          exact ⟨by rw [alts_none]; simpa [altsL] using hal, hasNone_none⟩
        | x :: r, hal =>
          have : borFlat.mkBorE' ((x :: r) ++ [eNone]) = .bor ((x :: r) ++ [eNone]) := by
            cases r <;> simp [borFlat.mkBorE']
          rw [this]
          refine ⟨?_, ?_⟩
          · simp only [alts, altsL_append, altsL, alts_none, List.append_nil]; exact hal
          · simp only [hasNone]
            have : ∀ (l : List TExpr), hasNoneL (l ++ [eNone]) = true := by
              intro l; induction l with
              | nil => simp [hasNoneL, hasNone_none]
              | cons a l ih => simp [hasNoneL, ih]
            exact this _
      obtain ⟨h1, h2⟩ := hflat (rmE u e)
      exact ⟨by rw [h1, alts_rmE], h2⟩
    · refine ⟨?_, by simp [hasNone]⟩
      simp only [alts, true_or, if_true, altsL, List.append_nil]
      exact alts_rmE u e


theorem getOptionalType_typing (e : TExpr) (hw : wfU e = true) :
    getOptionalType false (print e) = print (getOptionalE false e) ∧ wfU (getOptionalE false e) = true := by
  have h := finish_typing e true hw
  by_cases ha : print e = sAny
  · -- `Any` is a plain atom: the surgery leaves it, the wrap is Optional[Any]
    unfold getOptionalType getOptionalE
    have hr : removeNone false (print e) = print (rmE false e) := by
      simp only [removeNone, rmE, Bool.false_eq_true, if_false]; exact removeNoneU_print e hw
    have hwr : wfU (rmE false e) = true := by
      simp only [rmE, Bool.false_eq_true, if_false]; exact wfU_rmU e hw
    simp only [hr, Bool.false_eq_true, if_false]
    split
    · exact ⟨by simp [eNone, print_atom, Dcg.Sem.Typing.sNone, sNone], by decide⟩
    · refine ⟨?_, ?_⟩
      · rw [print_app, printL_single]; simp [sOptionalPrefix, sOptional]
      · simp only [wfU, wfUL, Bool.and_eq_true, Bool.and_true]
        exact ⟨⟨by decide, by simp⟩, hwr⟩
  · simp only [finishOf, finishE, ha, ne_eq, not_false_eq_true, and_self, if_true] at h
    exact ⟨by simpa using congrArg Prod.fst h.1, h.2⟩

theorem bfTree_of_wfTree : ∀ t, wfTree t = true → bfTree t = true := by
  have hbf : ∀ s, plainTok s = true → bracketFree s = true := by
    intro s h
    have := (plainTok_parts s h).2.1
    simp only [bracketFree, List.all_eq_true, Bool.and_eq_true, bne_iff_ne] at this ⊢
    intro c hc
    have := this c hc
    simp only [special, Bool.not_eq_true', Bool.or_eq_false_iff, decide_eq_false_iff_not] at this
    exact ⟨this.1.1.1, this.1.1.2⟩
  apply DT.ind
  intro a key kids ihk ihl hw
  simp only [wfTree, Bool.and_eq_true] at hw
  obtain ⟨⟨ha, hwk⟩, hwl⟩ := hw
  simp only [bfTree, Bool.and_eq_true]
  refine ⟨⟨?_, ?_⟩, ?_⟩
  · simp only [wfAttrs, Bool.and_eq_true, Bool.or_eq_true, List.all_eq_true] at ha
    obtain ⟨⟨⟨hty, href⟩, hlit⟩, _⟩ := ha
    simp only [bfAttrs, Bool.and_eq_true, List.all_eq_true]
    refine ⟨⟨?_, ?_⟩, ?_⟩
    · rcases hty with h | h
      · have : a.ty = [] := by simpa using h
        rw [this]; rfl
      · exact hbf _ (plainName_plainTok _ h)
    · cases hr : a.ref with
      | none => rfl
      | some r => rw [hr] at href; exact hbf _ (plainName_plainTok _ href)
    · intro x hx; exact hbf _ (plainToken_plainTok _ (hlit x hx))
  · cases key with
    | none => rfl
    | some k => simp only [bfTreeO]; simp only [wfTreeO] at hwk; exact ihk k rfl hwk
  · clear ha hwk ihk
    induction kids with
    | nil => rfl
    | cons c cs ihc =>
      simp only [wfTreeL, Bool.and_eq_true] at hwl
      simp only [bfTreeL, Bool.and_eq_true]
      exact ⟨ihl c (List.mem_cons_self ..) hwl.1, ihc (fun x hx => ihl x (List.mem_cons_of_mem _ hx)) hwl.2⟩


/-! ### the printer is injective on well-formed expressions of the typing spelling -/

theorem append_bracket_inj : ∀ (h h' r r' : Str), '[' ∉ h → '[' ∉ h' → h ++ '[' :: r = h' ++ '[' :: r' → h = h' ∧ r = r' := by
  intro h
  induction h with
  | nil =>
    intro h' r r' _ hh' he
    cases h' with
    | nil => simp at he; exact ⟨rfl, he⟩
    | cons c cs => simp at he; exact absurd (he.1 ▸ List.mem_cons_self ..) hh'
  | cons a l ih =>
    intro h' r r' hh hh' he
    cases h' with
    | nil => simp at he; exact absurd (he.1 ▸ List.mem_cons_self ..) hh
    | cons c cs =>
      simp only [List.cons_append, List.cons.injEq] at he
      obtain ⟨rfl, he⟩ := he
      obtain ⟨h1, h2⟩ := ih cs r r' (fun hm => hh (List.mem_cons_of_mem _ hm)) (fun hm => hh' (List.mem_cons_of_mem _ hm)) he
      exact ⟨by rw [h1], h2⟩

theorem segsOf_inj : ∀ (ps ps' : List Str) (cur : Str), (∀ p ∈ ps, p ≠ []) → (∀ p ∈ ps', p ≠ []) →
    (ps = [] → cur = []) → (ps' = [] → cur = []) →
    segsOf cur ps = segsOf cur ps' → ps = ps' := by
  intro ps
  induction ps with
  | nil =>
    intro ps' cur _ hne' hc _ he
    cases ps' with
    | nil => rfl
    | cons p r =>
      have hcur := hc rfl
      subst hcur
      cases r with
      | nil => simp [segsOf] at he; exact absurd he (hne' p (by simp))
      | cons q r' => cases r' <;> simp [segsOf] at he
  | cons p ps ih =>
    intro ps' cur hne hne' _ hc' he
    cases ps' with
    | nil =>
      have hcur := hc' rfl
      subst hcur
      cases ps with
      | nil => simp [segsOf] at he; exact absurd he (hne p (by simp))
      | cons q r => cases r <;> simp [segsOf] at he
    | cons p' ps' =>
      cases ps with
      | nil =>
        cases ps' with
        | nil => simp [segsOf] at he; rw [he]
        | cons q' r' => cases r' <;> simp [segsOf] at he
      | cons q r =>
        cases ps' with
        | nil => cases r <;> simp [segsOf] at he
        | cons q' r' =>
          simp only [segsOf, List.cons.injEq, List.append_cancel_left_eq] at he
          obtain ⟨rfl, he⟩ := he
          have := ih (q' :: r') [' '] (fun x hx => hne x (List.mem_cons_of_mem _ hx))
            (fun x hx => hne' x (List.mem_cons_of_mem _ hx)) (by intro h; cases h) (by intro h; cases h) he
          rw [this]

theorem joinSep_comma_inj (ps ps' : List Str) (h0 : ∀ p ∈ ps, scanTop 0 p = some 0) (h0' : ∀ p ∈ ps', scanTop 0 p = some 0)
    (hne : ∀ p ∈ ps, p ≠ []) (hne' : ∀ p ∈ ps', p ≠ []) (he : joinSep sComma ps = joinSep sComma ps') : ps = ps' := by
  have h1 := splitTop_join ps [] h0
  have h2 := splitTop_join ps' [] h0'
  rw [he, h2] at h1
  exact (segsOf_inj ps' ps [] hne' hne (fun _ => rfl) (fun _ => rfl) h1).symm

theorem print_inj : ∀ e, wfU e = true → ∀ e', wfU e' = true → print e = print e' → e = e' := by
  apply TExpr.ind
  · intro s hs e' he' hp
    cases e' with
    | atom s' => rw [print_atom, print_atom] at hp; rw [hp]
    | app h' args' =>
      rw [print_atom, print_app] at hp
      simp only [wfU] at hs
      exact absurd (hp ▸ (by simp : '[' ∈ h' ++ '[' :: (printL Dcg.Sem.Typing.sComma args' ++ [']']))) (plain_no_bracket s (plainTok_parts s hs).2.1)
    | bor a => simp [wfU] at he'
  · intro h args ih hw e' he' hp
    cases e' with
    | atom s' =>
      rw [print_atom, print_app] at hp
      simp only [wfU] at he'
      exact absurd (hp.symm ▸ (by simp : '[' ∈ h ++ '[' :: (printL Dcg.Sem.Typing.sComma args ++ [']']))) (plain_no_bracket s' (plainTok_parts s' he').2.1)
    | bor a => simp [wfU] at he'
    | app h' args' =>
      rw [print_app, print_app] at hp
      simp only [wfU, Bool.and_eq_true] at hw he'
      obtain ⟨hh, hr⟩ := append_bracket_inj h h' _ _ (plain_no_bracket h (plainTok_parts h hw.1.1).2.1)
        (plain_no_bracket h' (plainTok_parts h' he'.1.1).2.1) hp
      subst hh
      have hJ : printL Dcg.Sem.Typing.sComma args = printL Dcg.Sem.Typing.sComma args' := List.append_cancel_right hr
      rw [printL_eq_joinSep, printL_eq_joinSep] at hJ
      have hm := wfUL_mem hw.2
      have hm' := wfUL_mem he'.2
      have hmaps : args.map print = args'.map print := by
        apply joinSep_comma_inj _ _ _ _ _ _ hJ
        · intro p hp; simp only [List.mem_map] at hp; obtain ⟨a, ha, rfl⟩ := hp; exact scanTop_print_wfU a (hm a ha) 0
        · intro p hp; simp only [List.mem_map] at hp; obtain ⟨a, ha, rfl⟩ := hp; exact scanTop_print_wfU a (hm' a ha) 0
        · intro p hp; simp only [List.mem_map] at hp; obtain ⟨a, ha, rfl⟩ := hp; exact print_ne_nil_of_wfU a (hm a ha)
        · intro p hp; simp only [List.mem_map] at hp; obtain ⟨a, ha, rfl⟩ := hp; exact print_ne_nil_of_wfU a (hm' a ha)
      congr 1
      clear hw he' hp hr hJ
      induction args generalizing args' with
      | nil => cases args' with
        | nil => rfl
        | cons _ _ => simp at hmaps
      | cons a l ihl =>
        cases args' with
        | nil => simp at hmaps
        | cons a' l' =>
          simp only [List.map_cons, List.cons.injEq] at hmaps
          rw [ih a (List.mem_cons_self ..) (hm a (List.mem_cons_self ..)) a' (hm' a' (List.mem_cons_self ..)) hmaps.1]
          rw [ihl (fun x hx => ih x (List.mem_cons_of_mem _ hx)) l' (fun x hx => hm x (List.mem_cons_of_mem _ hx))
            (fun x hx => hm' x (List.mem_cons_of_mem _ hx)) hmaps.2]
  · intro args _ hw; simp [wfU] at hw

end Dcg.Proofs.Types
