import Dcg.Model.ResolverWalk
/-!
Lemmas about `Model.ResolverWalk` (the walk `parse_ref`): the walk over a keyword list `kws` hands over
only references that are written in the schema, and ALL of them when every keyword that occurs in the
schema is in `kws`; a keyword outside `kws` hides the references below it.
-/
namespace Dcg.Proofs.ResolverWalk
open Dcg.Model.ResolverWalk

theorem collect_complete (kws : List Str) (t : Sch) (h : ∀ k ∈ keywordsOf t, k ∈ kws) :
    collect kws t = allRefs t := by
  induction t with
  | nil => rfl
  | ref r rest ih =>
    simp only [collect, allRefs]
    rw [ih (fun k hk => h k (by simpa [keywordsOf] using hk))]
  | sub kw c rest ihc ihr =>
    have hk : kw ∈ kws := h kw (by simp [keywordsOf])
    have hc := ihc (fun k hk' => h k (by simp [keywordsOf, hk']))
    have hr := ihr (fun k hk' => h k (by simp [keywordsOf, hk']))
    simp only [collect, allRefs, if_pos hk, hc, hr]

theorem collect_sound (kws : List Str) (t : Sch) (r : Nat) (h : r ∈ collect kws t) : r ∈ allRefs t := by
  induction t with
  | nil => simp [collect] at h
  | ref r' rest ih =>
    simp only [collect, List.mem_cons] at h
    simp only [allRefs, List.mem_cons]
    exact h.elim Or.inl (fun h' => Or.inr (ih h'))
  | sub kw c rest ihc ihr =>
    simp only [collect, List.mem_append] at h
    simp only [allRefs, List.mem_append]
    rcases h with h | h
    · by_cases hk : kw ∈ kws
      · rw [if_pos hk] at h; exact Or.inl (ihc h)
      · rw [if_neg hk] at h; simp at h
    · exact Or.inr (ihr h)

theorem collect_misses (kws : List Str) (kw : Str) (r : Nat) (h : kw ∉ kws) :
    collect kws (.sub kw (.ref r .nil) .nil) = [] ∧ allRefs (.sub kw (.ref r .nil) .nil) = [r] := by
  simp [collect, allRefs, h]

end Dcg.Proofs.ResolverWalk
