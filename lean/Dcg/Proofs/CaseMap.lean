import Dcg.Proofs.Names
/-
CaseOK for CPython's case maps as generated (Dcg/Gen/Unicode lowerMap*/upperMap*): the
character-wise `lowerS`/`upperS` of Dcg/Py/Chars send an identifier to an identifier, and one that
does not start with `_` to one that does not start with `_`. Proved from two kernel-evaluated conditions on the tables:
every run keeps XID_Start and XID_Continue *interval-wise* (the image interval lies inside one
range of the class table, or the source interval misses the table altogether), every explicit
entry is checked character by character.
-/
namespace Dcg.Proofs.CaseMap
open Dcg.Py.Chars Dcg.Py.Ident Dcg.Model.Names Dcg.Proofs.Names Dcg.Gen.Unicode

/-- the interval [a, b] lies inside one range of the (sorted) table -/
def containedIn : List (Nat × Nat) → Nat → Nat → Bool
  | [], _, _ => false
  | (lo, hi) :: rest, a, b => !(Nat.blt a lo) && (Nat.ble b hi || (Nat.blt hi a && containedIn rest a b))

/-- the interval [a, b] meets no range of the (sorted) table -/
def disjointFrom : List (Nat × Nat) → Nat → Nat → Bool
  | [], _, _ => true
  | (lo, hi) :: rest, a, b => Nat.blt b lo || (Nat.blt hi a && disjointFrom rest a b)

theorem blt_false {a b : Nat} : Nat.blt a b = false ↔ b ≤ a := by
  rw [← Bool.not_eq_true, Nat.blt_eq]; omega

theorem blt_true {a b : Nat} : Nat.blt a b = true ↔ a < b := by rw [Nat.blt_eq]

theorem ble_true {a b : Nat} : Nat.ble a b = true ↔ a ≤ b := by rw [Nat.ble_eq]

theorem ble_false {a b : Nat} : Nat.ble a b = false ↔ b < a := by
  rw [← Bool.not_eq_true, Nat.ble_eq]; omega

theorem inRanges_cons_true {lo hi n : Nat} {rest : List (Nat × Nat)} (h1 : lo ≤ n)
    (h2 : n ≤ hi ∨ inRanges rest n = true) : inRanges ((lo, hi) :: rest) n = true := by
  simp only [inRanges, blt_false.mpr h1, Bool.not_false, Bool.true_and, Bool.or_eq_true]
  rcases h2 with h2 | h2
  · exact Or.inl (ble_true.mpr h2)
  · exact Or.inr h2

theorem containedIn_spec : ∀ (t : List (Nat × Nat)) (a b : Nat), containedIn t a b = true →
    ∀ n, a ≤ n → n ≤ b → inRanges t n = true := by
  intro t
  induction t with
  | nil => intro a b h; simp [containedIn] at h
  | cons r rest ih =>
    obtain ⟨lo, hi⟩ := r
    intro a b h n hn1 hn2
    simp only [containedIn] at h
    cases h1 : Nat.blt a lo with
    | true => simp [h1] at h
    | false =>
      have hlo : lo ≤ a := blt_false.mp h1
      simp only [h1, Bool.not_false, Bool.true_and, Bool.or_eq_true, Bool.and_eq_true] at h
      rcases h with h | ⟨_, h⟩
      · exact inRanges_cons_true (by omega) (Or.inl (by have := ble_true.mp h; omega))
      · exact inRanges_cons_true (by omega) (Or.inr (ih a b h n hn1 hn2))

theorem disjointFrom_spec : ∀ (t : List (Nat × Nat)) (a b : Nat), disjointFrom t a b = true →
    ∀ n, a ≤ n → n ≤ b → inRanges t n = false := by
  intro t
  induction t with
  | nil => intro a b _ n _ _; rfl
  | cons r rest ih =>
    obtain ⟨lo, hi⟩ := r
    intro a b h n hn1 hn2
    simp only [disjointFrom, Bool.or_eq_true, Bool.and_eq_true] at h
    simp only [inRanges]
    rcases h with h | ⟨h3, h4⟩
    · have : Nat.blt n lo = true := blt_true.mpr (by have := blt_true.mp h; omega)
      simp [this]
    · have hr := ih a b h4 n hn1 hn2
      have : Nat.ble n hi = false := ble_false.mpr (by have := blt_true.mp h3; omega)
      simp [this, hr]

def validScalar (n : Nat) : Bool := Nat.blt n 0xD800 || (Nat.blt 0xDFFF n && Nat.blt n 0x110000)

theorem toNat_ofNat_valid {n : Nat} (h : validScalar n = true) : (Char.ofNat n).toNat = n := by
  simp only [validScalar, Bool.or_eq_true, Nat.blt_eq, decide_eq_true_eq, Bool.and_eq_true] at h
  have hv : n.isValidChar := by
    rcases h with h | ⟨h1, h2⟩
    · exact Or.inl h
    · exact Or.inr ⟨h1, h2⟩
  simp only [Char.ofNat, dif_pos hv]
  simp [Char.ofNatAux, Char.toNat, UInt32.toNat_ofNatLT]

/-- one class table is respected by a run, interval-wise -/
def runClassOK (t : List (Nat × Nat)) (r : Run) : Bool :=
  containedIn t (r.image r.1) (r.image r.2.1) || disjointFrom t r.1 r.2.1

def runOK (r : Run) : Bool :=
  (Nat.blt (r.image r.2.1) 0xD800 || (Nat.blt 0xDFFF (r.image r.1) && Nat.blt (r.image r.2.1) 0x110000)) &&
  runClassOK xidStart r && runClassOK xidContinue r &&
  (Nat.blt 95 (r.image r.1) || Nat.blt (r.image r.2.1) 95)

def specialOK (e : Nat × List Nat) : Bool :=
  match e.2 with
  | [] => false
  | h :: t =>
    (h :: t).all validScalar && h != 95 &&
    (!inRanges xidContinue e.1 || (h :: t).all (inRanges xidContinue)) &&
    (!inRanges xidStart e.1 || (inRanges xidStart h && t.all (inRanges xidContinue)))

/-- what the sanitiser needs of the image of one character -/
def CharOK (c : Char) (img : List Char) : Prop :=
  (isIdCont c = true → img.all isIdCont = true) ∧
  (isIdStart c = true → ∃ h t, img = h :: t ∧ isIdStart h = true ∧ t.all isIdCont = true) ∧
  (img.head? = some '_' → c = '_')

theorem image_mono (r : Run) {n : Nat} (h1 : r.1 ≤ n) (h2 : n ≤ r.2.1) :
    r.image r.1 ≤ r.image n ∧ r.image n ≤ r.image r.2.1 := by
  simp only [Run.image]; omega

theorem charOK_run {r : Run} (hr : runOK r = true) {c : Char} (hc : r.covers c.toNat = true) :
    CharOK c [Char.ofNat (r.image c.toNat)] := by
  simp only [Run.covers, Bool.and_eq_true, decide_eq_true_eq] at hc
  obtain ⟨⟨h1, h2⟩, _⟩ := hc
  obtain ⟨m1, m2⟩ := image_mono r h1 h2
  simp only [runOK, Bool.and_eq_true, Bool.or_eq_true, Nat.blt_eq, decide_eq_true_eq] at hr
  obtain ⟨⟨⟨hv, hs⟩, hcn⟩, hu⟩ := hr
  have hvalid : validScalar (r.image c.toNat) = true := by
    simp only [validScalar, Bool.or_eq_true, Nat.blt_eq, decide_eq_true_eq, Bool.and_eq_true]
    rcases hv with hv | ⟨hv1, hv2⟩
    · exact Or.inl (by omega)
    · exact Or.inr ⟨by omega, by omega⟩
  have hto := toNat_ofNat_valid hvalid
  have cls : ∀ t, runClassOK t r = true → inRanges t c.toNat = true →
      inRanges t (Char.ofNat (r.image c.toNat)).toNat = true := by
    intro t ht hin
    rw [hto]
    simp only [runClassOK, Bool.or_eq_true] at ht
    rcases ht with ht | ht
    · exact containedIn_spec t _ _ ht _ m1 m2
    · rw [disjointFrom_spec t _ _ ht _ h1 h2] at hin; cases hin
  refine ⟨fun h => ?_, fun h => ⟨_, [], rfl, ?_, rfl⟩, fun h => ?_⟩
  · simpa [isIdCont] using cls xidContinue hcn h
  · exact cls xidStart hs h
  · exfalso
    simp only [List.head?_cons, Option.some.injEq] at h
    have := congrArg Char.toNat h
    rw [hto] at this
    have h95 : ('_' : Char).toNat = 95 := by decide
    rw [h95] at this
    omega

theorem lookup_mem_nat {t : List (Nat × List Nat)} {k : Nat} {v : List Nat} (h : t.lookup k = some v) :
    (k, v) ∈ t := by
  induction t with
  | nil => simp at h
  | cons kv t ih =>
    obtain ⟨k', w⟩ := kv
    simp only [List.lookup] at h
    split at h
    · rename_i heq
      have : k = k' := by simpa using heq
      simp at h; subst h; subst this; simp
    · exact List.mem_cons_of_mem _ (ih h)

theorem all_map_ofNat {t : List (Nat × Nat)} {l : List Nat} (hv : l.all validScalar = true)
    (h : l.all (inRanges t) = true) : (l.map Char.ofNat).all (fun c => inRanges t c.toNat) = true := by
  rw [List.all_eq_true] at hv h ⊢
  intro c hc
  obtain ⟨n, hn, rfl⟩ := List.mem_map.mp hc
  rw [toNat_ofNat_valid (hv n hn)]
  exact h n hn

theorem charOK_special {e : Nat × List Nat} (he : specialOK e = true) {c : Char} (hc : c.toNat = e.1) :
    CharOK c (e.2.map Char.ofNat) := by
  obtain ⟨k, img⟩ := e
  simp only at hc
  subst hc
  cases img with
  | nil => simp [specialOK] at he
  | cons h t =>
    simp only [specialOK, Bool.and_eq_true, Bool.or_eq_true, Bool.not_eq_eq_eq_not, Bool.not_true,
      bne_iff_ne, ne_eq] at he
    obtain ⟨⟨⟨hv, h95⟩, hcont⟩, hstart⟩ := he
    have hv' := hv
    simp only [List.all_cons, Bool.and_eq_true] at hv'
    refine ⟨fun hc => ?_, fun hc => ?_, fun hh => ?_⟩
    · rcases hcont with hcont | hcont
      · simp only [isIdCont] at hc; rw [hc] at hcont; cases hcont
      · exact all_map_ofNat hv hcont
    · rcases hstart with hstart | hstart
      · simp only [isIdStart] at hc; rw [hc] at hstart; cases hstart
      · refine ⟨Char.ofNat h, t.map Char.ofNat, rfl, ?_, ?_⟩
        · simp only [isIdStart]; rw [toNat_ofNat_valid hv'.1]; exact hstart.1
        · exact all_map_ofNat hv'.2 hstart.2
    · exfalso
      simp only [List.map_cons, List.head?_cons, Option.some.injEq] at hh
      have := congrArg Char.toNat hh
      rw [toNat_ofNat_valid hv'.1] at this
      have h95' : ('_' : Char).toNat = 95 := by decide
      rw [h95'] at this
      exact h95 this

theorem charOK_self (c : Char) : CharOK c [c] :=
  ⟨fun h => by simp [h], fun h => ⟨c, [], rfl, h, rfl⟩, fun h => by simpa using h⟩

/-- every image under a case map whose runs and explicit entries pass the checks is fine -/
theorem charOK_caseMap {runs : List Run} {special : List (Nat × List Nat)}
    (hr : runs.all runOK = true) (hs : special.all specialOK = true) (c : Char) :
    CharOK c (caseMap runs special c) := by
  unfold caseMap
  split
  · rename_i img hl
    have hm := lookup_mem_nat hl
    exact charOK_special (e := (c.toNat, img)) (List.all_eq_true.mp hs _ hm) rfl
  · split
    · rename_i r hf
      have hmem := List.mem_of_find?_eq_some hf
      have hcov := List.find?_some hf
      exact charOK_run (List.all_eq_true.mp hr _ hmem) hcov
    · exact charOK_self c

/-- a character-wise string map whose images are all fine is a legal case map -/
theorem caseFnOK_flatMap {f : Char → List Char} (hf : ∀ c, CharOK c (f c)) :
    CaseFnOK (fun s => s.flatMap f) := by
  intro s hs
  cases s with
  | nil => simp [isIdentifier] at hs
  | cons c cs =>
    simp only [isIdentifier, Bool.and_eq_true] at hs
    obtain ⟨h, t, himg, hstart, htail⟩ := (hf c).2.1 hs.1
    have hrest : (cs.flatMap f).all isIdCont = true := by
      rw [List.all_eq_true]
      intro d hd
      obtain ⟨e, he, hde⟩ := List.mem_flatMap.mp hd
      have hec : isIdCont e = true := List.all_eq_true.mp hs.2 e he
      exact List.all_eq_true.mp ((hf e).1 hec) d hde
    simp only [List.flatMap_cons, himg, List.cons_append]
    refine ⟨by simp [isIdentifier, hstart, htail, hrest], fun hh => ?_⟩
    simp only [List.head?_cons, ne_eq, Option.some.injEq]
    intro hu
    apply hh
    have := (hf c).2.2 (by rw [himg, hu]; rfl)
    simp [this]

theorem lowerRuns_ok : lowerMapRuns.all runOK = true := by decide +kernel
theorem lowerSpecial_ok : lowerMapSpecial.all specialOK = true := by decide +kernel
theorem upperRuns_ok : upperMapRuns.all runOK = true := by decide +kernel
theorem upperSpecial_ok : upperMapSpecial.all specialOK = true := by decide +kernel

/-- CPython's (character-wise) lower/upper as generated satisfy `CaseOK` -/
theorem caseOK_pyEnv : CaseOK pyEnv :=
  ⟨caseFnOK_flatMap (charOK_caseMap lowerRuns_ok lowerSpecial_ok),
   caseFnOK_flatMap (charOK_caseMap upperRuns_ok upperSpecial_ok)⟩

end Dcg.Proofs.CaseMap
