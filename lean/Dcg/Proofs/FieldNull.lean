import Dcg.Proofs.Field
/-! Exhaustive kernel evaluation over every valid reduced vector (closed-form template decision). -/
namespace Dcg.Proofs.Field
open Dcg.Model.Field

theorem nullExact_closed : AllR (fun _ _ n => n.admitsNull) (NullExact closedDecision) := by decide +kernel

end Dcg.Proofs.Field
