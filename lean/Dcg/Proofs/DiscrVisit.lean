import Dcg.Model.DiscrVisit
/-! helper lemmas for the discriminator visits (C07) -/
namespace Dcg.Proofs.DiscrVisit
open Dcg.Model.DiscrVisit

theorem hits_lit (fn : List Char) (m : Member) (b : Bool) : hits fn { m with lit := b } = hits fn m := rfl

theorem mark_mark (fn : List Char) (ms : List Member) : mark fn (mark fn ms).1 = mark fn ms := by
  induction ms with
  | nil => rfl
  | cons m ms ih =>
    by_cases h : hits fn m = true
    · by_cases hl : m.lit = true
      · simp [mark, h, hl]
      · have h' : hits fn { m with lit := true } = true := h
        simp [mark, h, hl, h']
    · simp only [Bool.not_eq_true] at h
      simp [mark, h, ih]

theorem mark_false (fn : List Char) (ms : List Member) (h : (mark fn ms).2 = false) :
    (mark fn ms).1 = ms ∧ ∀ m ∈ ms, hits fn m = false := by
  induction ms with
  | nil => simp [mark]
  | cons m ms ih =>
    by_cases hm : hits fn m = true
    · by_cases hl : m.lit = true <;> simp [mark, hm, hl] at h
    · simp only [Bool.not_eq_true] at hm
      simp only [mark, hm, Bool.false_eq_true, if_false] at h ⊢
      obtain ⟨h1, h2⟩ := ih h
      refine ⟨by rw [h1], ?_⟩
      intro x hx
      rcases List.mem_cons.mp hx with rfl | hx
      · exact hm
      · exact h2 x hx

theorem mark_append_new (fn : List Char) (ms : List Member) (new : Member)
    (hno : ∀ m ∈ ms, hits fn m = false) (hh : hits fn new = true) (hl : new.lit = true) :
    mark fn (ms ++ [new]) = (ms ++ [new], true) := by
  induction ms with
  | nil => simp [mark, hh, hl]
  | cons m ms ih =>
    have hm : hits fn m = false := hno m (List.mem_cons_self ..)
    have := ih (fun x hx => hno x (List.mem_cons_of_mem _ hx))
    simp [mark, hm, this]

theorem mark_true_mem (fn : List Char) (ms : List Member) (h : (mark fn ms).2 = true) :
    ∃ m ∈ ms, hits fn m = true := by
  induction ms with
  | nil => simp [mark] at h
  | cons m ms ih =>
    by_cases hm : hits fn m = true
    · exact ⟨m, List.mem_cons_self .., hm⟩
    · simp only [Bool.not_eq_true] at hm
      simp only [mark, hm, Bool.false_eq_true, if_false] at h
      obtain ⟨x, hx, hh⟩ := ih h
      exact ⟨x, List.mem_cons_of_mem _ hx, hh⟩

theorem mark_wire (fn : List Char) (ms : List Member) : (mark fn ms).1.map Member.wire = ms.map Member.wire := by
  induction ms with
  | nil => rfl
  | cons m ms ih =>
    by_cases hm : hits fn m = true
    · by_cases hl : m.lit = true
      · simp [mark, hm, hl]
      · simp [mark, hm, hl, ih, Member.wire]
    · simp only [Bool.not_eq_true] at hm
      simp [mark, hm, ih]

theorem mark_name (fn : List Char) (ms : List Member) : (mark fn ms).1.map Member.name = ms.map Member.name := by
  induction ms with
  | nil => rfl
  | cons m ms ih =>
    by_cases hm : hits fn m = true
    · by_cases hl : m.lit = true
      · simp [mark, hm, hl]
      · simp [mark, hm, hl, ih]
    · simp only [Bool.not_eq_true] at hm
      simp [mark, hm, ih]

theorem count_one_of_nodup_mem {α : Type} [BEq α] [LawfulBEq α] {a : α} :
    ∀ {l : List α}, l.Nodup → a ∈ l → l.count a = 1
  | [], _, h => by cases h
  | b :: l, hn, h => by
    rw [List.nodup_cons] at hn
    by_cases hab : b = a
    · subst hab
      simp [List.count_eq_zero_of_not_mem hn.1]
    · have hm : a ∈ l := by
        rcases List.mem_cons.mp h with h | h
        · exact absurd h.symm hab
        · exact h
      have := count_one_of_nodup_mem hn.2 hm
      simp [List.count_cons, hab, this]

end Dcg.Proofs.DiscrVisit
