import Dcg.Proofs.TemplateCheckBlockA
/-! Kernel evaluation of the block check on the generated template ASTs (group B: the pydantic
class templates, which include the Config templates through an `indent(4)` filter block). -/
namespace Dcg.Proofs.TemplateCheckBlock
open Dcg.Model.TemplateSyntax Dcg.Model.TemplateAbs Dcg.Model.TemplateBlock Dcg.Gen.TemplateAst

def groupB : List String :=
  ["pydantic/BaseModel.jinja2", "pydantic/BaseModel_root.jinja2", "pydantic_v2/RootModel.jinja2"]

theorem groupB_ok : blockCheckAll goodClass groupB = true := by decide +kernel

end Dcg.Proofs.TemplateCheckBlock
