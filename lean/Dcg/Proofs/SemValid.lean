import Dcg.Proofs.SemBase
import Dcg.Proofs.SemDisc
/-
C03: `valid_accepted` — one lemma per schema constructor and the main induction over the fuel of the
accepting side.
-/
namespace Dcg.Proofs.Sem
open Dcg.Sem Dcg.Sem.Pyd Dcg.Model.Constraints Dcg.Model.Translate

/-! ### `valid_accepted`: one lemma per schema constructor -/

section
variable (st : Style) (o : Opts) (re : Regex) (defs : Defs)

/-- the statement proved by induction on the fuel `g` of the accepting side -/
def IH (g : Nat) : Prop :=
  ∀ f ctx s v, s.inSubset = true → validJ re f defs s v = true →
    acceptsTy st re g (trDefs st o defs) (tr st o ctx s) v ≠ .reject

def IHle (g : Nat) : Prop := ∀ g', g' ≤ g → IH st o re defs g'

theorem validScalar_null (ty : STy) (b : Bounds) : validScalar re ty b .null = false := by
  cases ty <;> simp [validScalar]

theorem acceptsTy_scalarCore (h : TableOK st) (ty : STy) (nullable : Bool) (b : Bounds) (v : Json)
    (hok : scalarOK ty b = true)
    (hv : ((nullable && v.isNull) || validScalar re ty b v) = true) (g : Nat) (D : IRDefs) :
    acceptsTy st re g D (scalarCore st o ty nullable b) v ≠ .reject := by
  cases g with
  | zero => simp [acceptsTy]
  | succ g =>
    unfold scalarCore
    cases nullable with
    | false =>
      simp only [Bool.false_and, Bool.false_or] at hv
      simp only [Bool.false_eq_true, if_false, acceptsTy]
      exact acceptsScalar_typeCons st o re h ty b v hok hv
    | true =>
      simp only [if_true, acceptsTy]
      cases hn : v.isNull with
      | true => simp
      | false =>
        simp only [hn, Bool.and_false, Bool.false_or] at hv
        simp only [Bool.false_eq_true, if_false]
        cases g with
        | zero => simp [acceptsTy]
        | succ g =>
          simp only [acceptsTy]
          exact acceptsScalar_typeCons st o re h ty b v hok hv

theorem checkCons_rootCons_scalar (h : TableOK st) (ty : STy) (nullable : Bool) (b : Bounds)
    (v : Json) (hok : scalarOK ty b = true)
    (hv : ((nullable && v.isNull) || validScalar re ty b v) = true) :
    checkCons st re (rootCons o (fieldConsOfBounds st ty b)) v ≠ .reject := by
  unfold rootCons
  cases o.fieldConstraints with
  | false => simp [checkCons_empty]
  | true =>
    simp only [if_true]
    cases hn : v.isNull with
    | true => cases v <;> simp [Json.isNull] at hn; simp [checkCons]
    | false =>
      simp only [hn, Bool.and_false, Bool.false_or] at hv
      exact checkCons_fieldConsOfBounds st re h ty b v hok hv

theorem scalar_case (h : TableOK st) (g : Nat) (ctx : Ctx) (ty : STy) (nullable : Bool)
    (b : Bounds) (v : Json) (D : IRDefs) (hok : scalarOK ty b = true)
    (hv : ((nullable && v.isNull) || validScalar re ty b v) = true) :
    acceptsTy st re (g + 1) D (tr st o ctx (.scalar ty nullable b)) v ≠ .reject := by
  have hcore := acceptsTy_scalarCore st o re h ty nullable b v hok hv
  have hroot := checkCons_rootCons_scalar st o re h ty nullable b v hok hv
  cases ctx with
  | top =>
    simp only [tr, acceptsTy]
    exact and_ne_reject.mpr ⟨hcore g D, hroot⟩
  | plain =>
    simp only [tr]
    exact hcore (g + 1) D
  | item phc =>
    simp only [tr]
    split
    · simp only [acceptsTy]
      exact and_ne_reject.mpr ⟨hcore g D, hroot⟩
    · exact hcore (g + 1) D


end
end Dcg.Proofs.Sem

namespace Dcg.Proofs.Sem
open Dcg.Sem Dcg.Sem.Pyd Dcg.Model.Constraints Dcg.Model.Translate

section
variable (st : Style) (o : Opts) (re : Regex) (defs : Defs)

/-- a list type accepts an array all of whose items are valid, at any fuel `k ≤ g + 1` -/
theorem list_ne (g : Nat) (ih : IHle st o re defs g) (ctx : Ctx) (items : Schema) (f : Nat)
    (xs : List Json) (hsub : items.inSubset = true)
    (hv : xs.all (fun x => validJ re f defs items x) = true) (k : Nat) (hk : k ≤ g + 1) :
    acceptsTy st re k (trDefs st o defs) (.list (tr st o ctx items)) (.arr xs) ≠ .reject := by
  cases k with
  | zero => simp [acceptsTy]
  | succ k =>
    simp only [acceptsTy]
    rw [all_ne_reject]
    intro t ht
    simp only [List.mem_map] at ht
    obtain ⟨x, hx, rfl⟩ := ht
    have hvx : validJ re f defs items x = true := by
      rw [List.all_eq_true] at hv
      exact hv x hx
    exact ih k (by omega) f ctx items x hsub hvx

theorem array_case (h : TableOK st) (g : Nat) (ih : IHle st o re defs g) (ctx : Ctx)
    (items : Schema) (mn mx : Option Nat) (f : Nat) (v : Json) (hsub : items.inSubset = true)
    (hv : validJ re (f + 1) defs (.array items mn mx) v = true) :
    acceptsTy st re (g + 1) (trDefs st o defs) (tr st o ctx (.array items mn mx)) v ≠ .reject := by
  obtain ⟨_, _, _, _, _, ⟨a1, a2⟩, _, _⟩ := h
  cases v <;> simp [validJ] at hv
  rename_i xs
  obtain ⟨hlen, hall⟩ := hv
  have hall' : xs.all (fun x => validJ re f defs items x) = true := by
    rw [List.all_eq_true]; intro x hx; exact hall x hx
  have hl := list_ne st o re defs g ih (.item (mn.isSome || mx.isSome)) items f xs hsub hall'
  have hc : ∀ c, c = consOfItems (fieldKw st) mn mx → checkCons st re (rootCons o c) (.arr xs) ≠ .reject := by
    intro c hc
    unfold rootCons
    cases o.fieldConstraints <;> simp [checkCons_empty]
    subst hc
    simp [checkCons, checkLen_consOfItems st _ mn mx _ a1 a2, hlen, Tri.ofBool]
  cases ctx with
  | top =>
    simp only [tr, acceptsTy]
    refine and_ne_reject.mpr ⟨hl g (by omega), ?_⟩
    simp [checkCons, checkLen_consOfItems st _ mn mx _ a1 a2, hlen, Tri.ofBool]
  | plain =>
    simp only [tr]
    exact hl (g + 1) (by omega)
  | item phc =>
    simp only [tr]
    split
    · simp only [acceptsTy]
      exact and_ne_reject.mpr ⟨hl g (by omega), hc _ rfl⟩
    · exact hl (g + 1) (by omega)

/-- the `Field()` arguments of a member accept every value its schema admits -/
theorem checkCons_fieldCons (h : TableOK st) (s : Schema) (hsub : s.inSubset = true) (f : Nat)
    (x : Json) (hv : validJ re f defs s x = true) :
    checkCons st re (fieldCons st o s) x ≠ .reject := by
  cases f with
  | zero => simp [validJ] at hv
  | succ f =>
    cases s <;> simp only [fieldCons, checkCons_empty, ne_eq, not_false_eq_true, reduceCtorEq]
    · -- scalar
      rename_i ty nullable b
      simp only [validJ] at hv
      simp only [Schema.inSubset] at hsub
      cases o.fieldConstraints with
      | false => simp [checkCons_empty]
      | true =>
        simp only [if_true]
        cases hn : x.isNull with
        | true => cases x <;> simp [Json.isNull] at hn; simp [checkCons]
        | false =>
          simp only [hn, Bool.and_false, Bool.false_or] at hv
          exact checkCons_fieldConsOfBounds st re h ty b x hsub hv
    · -- array
      rename_i items mn mx
      obtain ⟨_, _, _, _, _, ⟨a1, a2⟩, _, _⟩ := h
      cases x <;> simp [validJ] at hv
      simp [checkCons, checkLen_consOfItems st _ mn mx _ a1 a2, hv.1, Tri.ofBool]


end
end Dcg.Proofs.Sem

namespace Dcg.Proofs.Sem
open Dcg.Sem Dcg.Sem.Pyd Dcg.Model.Constraints Dcg.Model.Translate

section
variable (st : Style) (o : Opts) (re : Regex) (defs : Defs)

theorem object_case (h : TableOK st) (g : Nat) (ih : IHle st o re defs g) (ctx : Ctx)
    (props : List (List Char × Schema)) (req : List (List Char)) (addl : Addl) (f : Nat) (v : Json)
    (hsub : (Schema.object props req addl).inSubset = true)
    (hv : validJ re (f + 1) defs (.object props req addl) v = true) :
    acceptsTy st re (g + 1) (trDefs st o defs) (tr st o ctx (.object props req addl)) v ≠ .reject := by
  simp only [Schema.inSubset, Bool.and_eq_true] at hsub
  obtain ⟨⟨hps, _⟩, _⟩ := hsub
  cases v <;> simp only [validJ, Bool.false_eq_true] at hv
  rename_i kvs
  simp only [Bool.and_eq_true, List.all_eq_true] at hv
  obtain ⟨⟨hreq, hprops⟩, hextra⟩ := hv
  simp only [tr, acceptsTy]
  refine and_ne_reject.mpr ⟨?_, ?_⟩
  · -- every declared member
    rw [all_ne_reject, trProps_eq_map]
    intro t ht
    simp only [List.map_map, List.mem_map, Function.comp] at ht
    obtain ⟨p, hp, rfl⟩ := ht
    obtain ⟨nm, s⟩ := p
    simp only
    have hpx := hprops (nm, s) hp
    simp only at hpx
    cases hl : kvs.lookup nm with
    | none =>
      simp only
      cases hr : req.contains nm with
      | false => simp
      | true =>
        have : nm ∈ req := by simpa using hr
        have := hreq nm this
        simp [hasKey, hl] at this
    | some x =>
      simp only
      split
      · simp
      · rw [hl] at hpx
        simp only at hpx
        have hs : s.inSubset = true := propsInSubset_mem (p := (nm, s)) hps hp
        exact and_ne_reject.mpr ⟨ih g (Nat.le_refl _) f .plain s x hs hpx,
          checkCons_fieldCons st o re defs h s hs f x hpx⟩
  · -- extra members
    have hnames : (trProps st o req props).map (·.1) = props.map (·.1) := by
      rw [trProps_eq_map, List.map_map]; rfl
    rw [hnames]
    obtain ⟨_, _, _, _, _, _, ⟨e1, e2⟩, _⟩ := h
    cases hex : extraOf st addl == Extra.forbid with
    | false => simp
    | true =>
      have haddl : addl = .forbid := by
        have hx : extraOf st addl = .forbid := by simpa using hex
        cases addl with
        | absent => exact absurd hx e1
        | allow => exact absurd hx e2
        | forbid => rfl
      subst haddl
      simp only [if_true]
      rw [ofBool_ne_reject, List.all_eq_true]
      simpa using hextra

/-- own fields of a class: each declared member that is present is accepted, each required one is
present (the allOf case; `R` is the required flag of a member, whatever its origin) -/
theorem fields_ne_reject (h : TableOK st) (g : Nat) (ih : IHle st o re defs g)
    (props : List (List Char × Schema)) (R : List Char × Schema → Bool)
    (kvs : List (List Char × Json)) (f : Nat)
    (hps : Schema.propsInSubset props = true)
    (hreq : ∀ p ∈ props, R p = true → hasKey kvs p.1 = true)
    (hprops : ∀ p ∈ props, (match kvs.lookup p.1 with
      | some x => validJ re f defs p.2 x
      | none => true) = true) :
    Tri.all ((props.map (fun p => (p.1, R p, fieldCons st o p.2, tr st o .plain p.2))).map (fun fld =>
      match kvs.lookup fld.1 with
      | none => if fld.2.1 then (if isOpt fld.2.2.2 then .laxZone else .reject) else .accept
      | some x =>
        if x.isNull && !fld.2.1 && !isConst fld.2.2.2 then .accept
        else Tri.and (acceptsTy st re g (trDefs st o defs) fld.2.2.2 x) (checkCons st re fld.2.2.1 x)))
      ≠ .reject := by
  rw [all_ne_reject]
  intro t ht
  simp only [List.map_map, List.mem_map, Function.comp] at ht
  obtain ⟨p, hp, rfl⟩ := ht
  have hrp := hreq p hp
  obtain ⟨nm, s⟩ := p
  simp only
  have hpx := hprops (nm, s) hp
  simp only at hpx
  cases hl : kvs.lookup nm with
  | none =>
    simp only
    cases hr : R (nm, s) with
    | false => simp
    | true =>
      have := hrp hr
      simp [hasKey, hl] at this
  | some x =>
    simp only
    split
    · simp
    · rw [hl] at hpx
      simp only at hpx
      have hs : s.inSubset = true := propsInSubset_mem (p := (nm, s)) hps hp
      exact and_ne_reject.mpr ⟨ih g (Nat.le_refl _) f .plain s x hs hpx,
        checkCons_fieldCons st o re defs h s hs f x hpx⟩

theorem allOf_case (h : TableOK st) (hd : defsInSubset defs = true) (g : Nat)
    (ih : IHle st o re defs g) (ctx : Ctx) (refs : List (List Char))
    (props : List (List Char × Schema)) (req xreq : List (List Char)) (f : Nat) (v : Json)
    (hsub : (Schema.allOf refs props req xreq).inSubset = true)
    (hv : validJ re (f + 1) defs (.allOf refs props req xreq) v = true) :
    acceptsTy st re (g + 1) (trDefs st o defs) (tr st o ctx (.allOf refs props req xreq)) v ≠ .reject := by
  simp only [Schema.inSubset, Bool.and_eq_true] at hsub
  obtain ⟨⟨hps, _⟩, _⟩ := hsub
  cases v <;> simp only [validJ, Bool.false_eq_true] at hv
  rename_i kvs
  simp only [Bool.and_eq_true, List.all_eq_true] at hv
  obtain ⟨⟨⟨hrefs, hreq⟩, hxreq⟩, hprops⟩ := hv
  -- a referenced part accepts the value
  have hbase : ∀ r ∈ refs, (match (trDefs st o defs).lookup r with
      | some d => acceptsTy st re g (trDefs st o defs) d (.obj kvs)
      | none => .reject) ≠ .reject := by
    intro r hr
    have := hrefs r hr
    rw [lookup_trDefs]
    cases hl : defs.lookup r with
    | none => simp [hl] at this
    | some t =>
      simp only [hl] at this
      simp only [Option.map]
      exact ih g (Nat.le_refl _) f .top t (.obj kvs) (defs_lookup_inSubset hd hl) this
  have hder : acceptsTy st re (g + 1) (trDefs st o defs)
      (.derived refs (markReq xreq (trProps st o req props)) .unset) (.obj kvs) ≠ .reject := by
    simp only [acceptsTy]
    refine and_ne_reject.mpr ⟨?_, ?_⟩
    · rw [all_ne_reject]
      intro t ht
      simp only [List.mem_map] at ht
      obtain ⟨r, hr, rfl⟩ := ht
      exact hbase r hr
    · rw [markReq_trProps]
      refine fields_ne_reject st o re defs h g ih props _ kvs f hps ?_ hprops
      intro p _ hR
      simp only [Bool.or_eq_true, Bool.and_eq_true] at hR
      rcases hR with hR | hR
      · exact hreq p.1 (by simpa using hR.1)
      · exact hxreq p.1 (by simpa using hR)
  cases ctx with
  | top => simpa only [tr] using hder
  | plain =>
    cases refs with
    | nil => simpa only [tr] using hder
    | cons r rs =>
      cases rs with
      | cons r2 rs2 => simpa only [tr] using hder
      | nil =>
        cases props with
        | cons p ps => simpa only [tr] using hder
        | nil =>
          simp only [tr, acceptsTy]
          exact hbase r (by simp)
  | item phc =>
    cases refs with
    | nil => simpa only [tr] using hder
    | cons r rs =>
      cases rs with
      | cons r2 rs2 => simpa only [tr] using hder
      | nil =>
        cases props with
        | cons p ps => simpa only [tr] using hder
        | nil =>
          simp only [tr, acceptsTy]
          exact hbase r (by simp)

/-! ### discriminated unions -/

/-- a reference to a definition under which the value is valid, at any fuel `k ≤ g + 1` -/
theorem ref_ne (hd : defsInSubset defs = true) (g : Nat) (ih : IHle st o re defs g) (r : List Char)
    (f : Nat) (v : Json)
    (hv : (match defs.lookup r with
      | some t => validJ re f defs t v
      | none => false) = true) (k : Nat) (hk : k ≤ g + 1) :
    acceptsTy st re k (trDefs st o defs) (.ref r) v ≠ .reject := by
  cases k with
  | zero => simp [acceptsTy]
  | succ k =>
    simp only [acceptsTy, lookup_trDefs]
    cases hl : defs.lookup r with
    | none => simp [hl] at hv
    | some t =>
      simp only [hl] at hv
      simp only [Option.map]
      exact ih k (by omega) f .top t v (defs_lookup_inSubset hd hl) hv

/-- what validity under a discriminated union provides: the object, its tag, the selected alternative -/
theorem disc_sel (one : Bool) (prop : List Char) (refs : List (List Char))
    (m : List (List Char × List Char)) (f : Nat) (v : Json)
    (hv : validJ re (f + 1) defs (.disc one prop refs m) v = true) :
    ∃ kvs tag r, v = .obj kvs ∧ kvs.lookup prop = some (.str tag) ∧
      (effMapping refs m).lookup tag = some r ∧ r ∈ refs ∧
      (match defs.lookup r with
        | some t => validJ re f defs t v
        | none => false) = true := by
  cases v <;> simp only [validJ, Bool.false_eq_true] at hv
  rename_i kvs
  simp only [Bool.and_eq_true] at hv
  have h2 := hv.2
  cases hl : kvs.lookup prop with
  | none => simp [hl] at h2
  | some x =>
    cases x <;> simp only [hl, Bool.false_eq_true] at h2
    rename_i tag
    cases hm : (effMapping refs m).lookup tag with
    | none => simp [hm] at h2
    | some r =>
      simp only [hm, Bool.and_eq_true] at h2
      exact ⟨kvs, tag, r, rfl, hl, hm, by simpa using h2.1, h2.2⟩

/-- without `Field(discriminator=…)` (value schema of `additionalProperties`, nested union): the plain Union -/
theorem disc_union_ne (hd : defsInSubset defs = true) (g : Nat) (ih : IHle st o re defs g)
    (one : Bool) (prop : List Char) (refs : List (List Char)) (m : List (List Char × List Char))
    (f : Nat) (v : Json) (hv : validJ re (f + 1) defs (.disc one prop refs m) v = true)
    (k : Nat) (hk : k ≤ g + 1) :
    acceptsTy st re k (trDefs st o defs) (.union (refs.map .ref)) v ≠ .reject := by
  obtain ⟨kvs, tag, r, rfl, _, _, hr, hvr⟩ := disc_sel re defs one prop refs m f _ hv
  cases k with
  | zero => simp [acceptsTy]
  | succ k =>
    simp only [acceptsTy]
    rw [any_ne_reject]
    refine ⟨_, List.mem_map.mpr ⟨.ref r, List.mem_map.mpr ⟨r, hr, rfl⟩, rfl⟩, ?_⟩
    exact ref_ne st o re defs hd g ih r f _ hvr k (by omega)

/-- `Union[…] = Field(discriminator=prop)` over the patched classes accepts every value that is valid
under the discriminated union: the tag is a literal of the selected class because EVERY mapping key
pointing at a definition becomes one of its literals (`mem_tagsOf`) -/
theorem tagged_ne (hd : defsInSubset defs = true) (g : Nat) (ih : IHle st o re defs g)
    (one : Bool) (prop : List Char) (refs : List (List Char)) (m : List (List Char × List Char))
    (hn : namesNodup (m.map (·.1)) = true)
    (f : Nat) (v : Json) (hv : validJ re (f + 1) defs (.disc one prop refs m) v = true)
    (k : Nat) (hk : k ≤ g + 1) :
    acceptsTy st re k (trDefs st o defs) (.tagged prop (branchesOf refs m)) v ≠ .reject := by
  obtain ⟨kvs, tag, r, rfl, hl, hm, hr, hvr⟩ := disc_sel re defs one prop refs m f _ hv
  cases k with
  | zero => simp [acceptsTy]
  | succ k =>
    simp only [acceptsTy, hl]
    have hmem : (tag, r) ∈ effMapping refs m := lookup_mem _ _ _ hm
    cases hfind : (branchesOf refs m).find? (fun b => b.1.any (fun a => a.matches (.str tag))) with
    | none =>
      -- impossible: the branch of `r` carries the tag
      rw [List.find?_eq_none] at hfind
      have hb : (tagAtoms refs m r, r) ∈ branchesOf refs m := List.mem_map.mpr ⟨r, hr, rfl⟩
      have := hfind _ hb
      simp only [tagAtoms, List.any_map, List.any_eq_true, Function.comp] at this
      exact absurd ⟨tag, mem_tagsOf hmem, by simp [Atom.matches]⟩ this
    | some b =>
      simp only
      have hp := List.find?_some hfind
      have hbm := List.mem_of_find?_eq_some hfind
      simp only [branchesOf, List.mem_map] at hbm
      obtain ⟨r', _, rfl⟩ := hbm
      -- the branch found is the branch of `r`
      have hr' : r' = r := by
        simp only [tagAtoms, List.any_map, List.any_eq_true, Function.comp] at hp
        obtain ⟨k', hk', hmatch⟩ := hp
        have : k' = tag := by simpa [Atom.matches] using hmatch
        subst this
        exact effMapping_functional refs m hn (of_mem_tagsOf hk') hm
      subst hr'
      simp only [lookup_trDefs]
      cases hd' : defs.lookup r' with
      | none => simp [hd'] at hvr
      | some t =>
        simp only [hd'] at hvr
        simp only [Option.map]
        exact patchTag_ne_reject st re k _ _ kvs prop _ tag hl hp
          (ih k (by omega) f .top t _ (defs_lookup_inSubset hd hd') hvr)

theorem disc_case (hd : defsInSubset defs = true) (g : Nat) (ih : IHle st o re defs g) (ctx : Ctx)
    (one : Bool) (prop : List Char) (refs : List (List Char)) (m : List (List Char × List Char))
    (hsub : (Schema.disc one prop refs m).inSubset = true)
    (f : Nat) (v : Json) (hv : validJ re (f + 1) defs (.disc one prop refs m) v = true) :
    acceptsTy st re (g + 1) (trDefs st o defs) (tr st o ctx (.disc one prop refs m)) v ≠ .reject := by
  simp only [Schema.inSubset, Bool.and_eq_true] at hsub
  have ht := tagged_ne st o re defs hd g ih one prop refs m hsub.1 f v hv
  cases ctx with
  | plain => simpa only [tr] using ht (g + 1) (Nat.le_refl _)
  | top =>
    simp only [tr, acceptsTy]
    exact and_ne_reject.mpr ⟨ht g (by omega), by simp [checkCons_empty]⟩
  | item phc =>
    simp only [tr, acceptsTy]
    exact and_ne_reject.mpr ⟨ht g (by omega), by simp [checkCons_empty]⟩

theorem dict_case (hd : defsInSubset defs = true) (g : Nat) (ih : IHle st o re defs g) (ctx : Ctx) (value : Schema) (f : Nat)
    (v : Json) (hsub : value.inSubset = true)
    (hv : validJ re (f + 1) defs (.dict value) v = true) :
    acceptsTy st re (g + 1) (trDefs st o defs) (tr st o ctx (.dict value)) v ≠ .reject := by
  cases v <;> simp [validJ] at hv
  rename_i kvs
  simp only [tr, acceptsTy]
  rw [all_ne_reject]
  intro t ht
  simp only [List.mem_map] at ht
  obtain ⟨kv, hkv, rfl⟩ := ht
  have hvx := hv kv.1 kv.2 hkv
  cases f with
  | zero => simp [validJ] at hvx
  | succ f =>
    cases value with
    | disc one prop refs m =>
      simp only [Schema.isDisc, Schema.discRefs, if_true]
      exact disc_union_ne st o re defs hd g ih one prop refs m f kv.2 hvx g (by omega)
    | _ =>
      simp only [Schema.isDisc, Bool.false_eq_true, if_false]
      exact ih g (Nat.le_refl _) _ .plain _ kv.2 hsub hvx

/-- a nullable free-form / map object: `Optional[Dict[str, Any]]` (in a root model for a document / definition)
rejects neither null nor any object -/
theorem ndict_case (g : Nat) (ctx : Ctx) (value : Schema) (f : Nat) (v : Json)
    (hv : validJ re (f + 1) defs (.ndict value) v = true) :
    acceptsTy st re (g + 1) (trDefs st o defs) (tr st o ctx (.ndict value)) v ≠ .reject := by
  have core : ∀ g', acceptsTy st re g' (trDefs st o defs) (.opt (.dict .any)) v ≠ .reject := by
    intro g'
    cases g' with
    | zero => simp [acceptsTy]
    | succ g' =>
      cases v with
      | null => simp [acceptsTy, Json.isNull]
      | obj kvs =>
        simp only [acceptsTy, Json.isNull, Bool.false_eq_true, if_false]
        cases g' with
        | zero => simp [acceptsTy]
        | succ g'' =>
          simp only [acceptsTy]
          rw [all_ne_reject]
          intro t ht
          simp only [List.mem_map] at ht
          obtain ⟨kv, _, rfl⟩ := ht
          cases g'' <;> simp [acceptsTy]
      | _ => simp [validJ] at hv
  cases ctx with
  | top =>
    simp only [tr, acceptsTy]
    exact and_ne_reject.mpr ⟨core g, by simp [checkCons_empty]⟩
  | plain => simp only [tr]; exact core (g + 1)
  | item phc => simp only [tr]; exact core (g + 1)

theorem ref_case (hd : defsInSubset defs = true) (g : Nat) (ih : IHle st o re defs g) (ctx : Ctx)
    (n : List Char) (f : Nat) (v : Json)
    (hv : validJ re (f + 1) defs (.ref n) v = true) :
    acceptsTy st re (g + 1) (trDefs st o defs) (tr st o ctx (.ref n)) v ≠ .reject := by
  simp only [validJ] at hv
  simp only [tr, acceptsTy, lookup_trDefs]
  cases hl : defs.lookup n with
  | none => simp [hl] at hv
  | some s =>
    simp only [hl] at hv
    simp only [Option.map]
    exact ih g (Nat.le_refl _) f .top s v (defs_lookup_inSubset hd hl) hv

theorem union_ne (hd : defsInSubset defs = true) (g : Nat) (ih : IHle st o re defs g) (alts : List Schema) (f : Nat) (v : Json)
    (hsub : Schema.allInSubset alts = true)
    (hv : ∃ a ∈ alts, validJ re f defs a v = true) :
    acceptsTy st re (g + 1) (trDefs st o defs) (.union (trAlts st o alts)) v ≠ .reject := by
  obtain ⟨a, ha, hva⟩ := hv
  simp only [acceptsTy]
  rw [any_ne_reject, trAlts_eq_map]
  refine ⟨acceptsTy st re g (trDefs st o defs) (altTy st o a) v, ?_, ?_⟩
  · simp only [List.map_map, List.mem_map, Function.comp]
    exact ⟨a, ha, rfl⟩
  · cases f with
    | zero => simp [validJ] at hva
    | succ f =>
      cases a with
      | disc one prop refs m =>
        simp only [altTy, Schema.isDisc, Schema.discRefs, if_true]
        exact disc_union_ne st o re defs hd g ih one prop refs m f v hva g (by omega)
      | _ =>
        simp only [altTy, Schema.isDisc, Bool.false_eq_true, if_false]
        exact ih g (Nat.le_refl _) _ (.item false) _ v (allInSubset_mem hsub ha) hva

theorem countTrue_pos {bs : List Bool} (h : countTrue bs = 1) : true ∈ bs := by
  unfold countTrue at h
  have : (bs.filter id) ≠ [] := by intro e; rw [e] at h; simp at h
  obtain ⟨b, hb⟩ := List.exists_mem_of_ne_nil _ this
  rw [List.mem_filter] at hb
  have : b = true := by simpa using hb.2
  exact this ▸ hb.1

/-- MAIN INDUCTION: for every fuel of the accepting side -/
theorem valid_accepted_all (h : TableOK st) (hd : defsInSubset defs = true) :
    ∀ g, IHle st o re defs g := by
  intro g
  induction g with
  | zero =>
    intro g' hg' f ctx s v _ _
    have : g' = 0 := by omega
    subst this
    simp [acceptsTy]
  | succ g ih =>
    intro g' hg'
    by_cases hle : g' ≤ g
    · exact ih g' hle
    · have : g' = g + 1 := by omega
      subst this
      intro f ctx s v hsub hv
      cases f with
      | zero => simp [validJ] at hv
      | succ f =>
        cases s with
        | any => simp [tr, acceptsTy]
        | null =>
          simp only [validJ] at hv
          simp [tr, acceptsTy, hv]
        | scalar ty nullable b =>
          simp only [validJ] at hv
          simp only [Schema.inSubset] at hsub
          exact scalar_case st o re h g ctx ty nullable b v _ hsub hv
        | enum vals =>
          simp only [validJ] at hv
          simp [tr, acceptsTy, Tri.ofBool, hv]
        | const a =>
          simp only [validJ] at hv
          simp [tr, acceptsTy, Tri.ofBool, hv]
        | array items mn mx =>
          simp only [Schema.inSubset] at hsub
          exact array_case st o re defs h g ih ctx items mn mx f v hsub hv
        | object props req addl => exact object_case st o re defs h g ih ctx props req addl f v hsub hv
        | dict value =>
          simp only [Schema.inSubset] at hsub
          exact dict_case st o re defs hd g ih ctx value f v hsub hv
        | ndict value => exact ndict_case st o re defs g ctx value f v hv
        | ref n => exact ref_case st o re defs hd g ih ctx n f v hv
        | anyOf alts =>
          simp only [Schema.inSubset] at hsub
          simp only [validJ, List.any_eq_true] at hv
          simp only [tr]
          exact union_ne st o re defs hd g ih alts f v hsub hv
        | oneOf alts =>
          simp only [Schema.inSubset] at hsub
          simp only [validJ, beq_iff_eq] at hv
          simp only [tr]
          have := countTrue_pos hv
          simp only [List.mem_map] at this
          obtain ⟨a, ha, hva⟩ := this
          exact union_ne st o re defs hd g ih alts f v hsub ⟨a, ha, hva⟩
        | allOf refs props req xreq => exact allOf_case st o re defs h hd g ih ctx refs props req xreq f v hsub hv
        | disc one prop refs m => exact disc_case st o re defs hd g ih ctx one prop refs m hsub f v hv


end
end Dcg.Proofs.Sem
