import Dcg.Model.IdRegistry
import Dcg.Proofs.Resolver
/-!
Lemmas about `Model.IdRegistry`: the walk `parse_id` (which `$id`s it hands to `add_id`), the `ids` dict, and how a
reference to a registered `$id` resolves.
-/
namespace Dcg.Proofs.IdRegistry
open Dcg.Model.Resolver Dcg.Model.IdRegistry

/-! ### the walk -/

theorem collectIds_complete (kws : List Str) (t : ISch) (h : ∀ k ∈ keywordsOf t, k ∈ kws) :
    collectIds kws t = allIds t := by
  induction t with
  | nil => rfl
  | id s rest ih =>
    simp only [collectIds, allIds]
    rw [ih (fun k hk => h k (by simpa [keywordsOf] using hk))]
  | sub kw seg c rest ihc ihr =>
    have hk : kw ∈ kws := h kw (by simp [keywordsOf])
    have hc := ihc (fun k hk' => h k (by simp [keywordsOf, hk']))
    have hr := ihr (fun k hk' => h k (by simp [keywordsOf, hk']))
    simp only [collectIds, allIds, if_pos hk, hc, hr]

theorem collectIds_sound (kws : List Str) (t : ISch) (i : Str) (h : i ∈ collectIds kws t) : i ∈ allIds t := by
  induction t with
  | nil => simp [collectIds] at h
  | id s rest ih =>
    simp only [collectIds, List.mem_cons] at h
    simp only [allIds, List.mem_cons]
    exact h.elim Or.inl (fun h' => Or.inr (ih h'))
  | sub kw seg c rest ihc ihr =>
    simp only [collectIds, List.mem_append] at h
    simp only [allIds, List.mem_append]
    rcases h with h | h
    · by_cases hk : kw ∈ kws
      · rw [if_pos hk] at h; exact Or.inl (ihc h)
      · rw [if_neg hk] at h; simp at h
    · exact Or.inr (ihr h)

/-- an `$id` declared on the walked object itself is handed over whatever the keyword list is -/
theorem topIds_collected (kws : List Str) (t : ISch) (i : Str) (h : i ∈ topIds t) : i ∈ collectIds kws t := by
  induction t with
  | nil => simp [topIds] at h
  | id s rest ih =>
    simp only [topIds, List.mem_cons] at h
    simp only [collectIds, List.mem_cons]
    exact h.elim Or.inl (fun h' => Or.inr (ih h'))
  | sub kw seg c rest _ ihr =>
    simp only [topIds] at h
    simp only [collectIds, List.mem_append]
    exact Or.inr (ihr h)

/-! ### the dict -/

theorem get_put_same (m : List (Str × Str)) (k v : Str) : idGet (idPut m k v) k = some v := by
  induction m with
  | nil => simp [idPut, idGet]
  | cons kv m ih =>
    obtain ⟨k', v'⟩ := kv
    by_cases h : k' = k
    · simp [idPut, idGet, h]
    · simp [idPut, idGet, h, ih]

theorem get_put_ne (m : List (Str × Str)) (k v k2 : Str) (hne : k2 ≠ k) : idGet (idPut m k v) k2 = idGet m k2 := by
  induction m with
  | nil =>
    have : ¬ k = k2 := fun h => hne h.symm
    simp [idPut, idGet, this]
  | cons kv m ih =>
    obtain ⟨k', v'⟩ := kv
    by_cases h : k' = k
    · subst h
      have : ¬ k' = k2 := fun h => hne h.symm
      simp [idPut, idGet, this]
    · by_cases h2 : k' = k2
      · subst h2
        simp [idPut, idGet, hne]
      · simp [idPut, idGet, h, h2, ih]

/-! ### `resolve_ref` of a path that is not an id reference does not read the id table -/

/-- the joined `path` of a walk is not itself an id reference (true of every path `_parse_file` walks with:
`path_parts` or `[*path_parts, "#/definitions", key]`) -/
def pathNotId (path : List Str) : Bool :=
  match pre (joinPath path) with
  | some j => !isIdRef j
  | none => true

theorem mid_ids_irrel (e : Env) (m : List (Str × Str)) (j : Str) (h : isIdRef j = false) :
    mid { e with ids := m } j = mid e j := by
  simp only [mid, h, rootJ, rootIdBase]
  rfl

theorem urlStep_ids_irrel (e : Env) (m : List (Str × Str)) (ref : Str) :
    urlStep { e with ids := m } ref = urlStep e ref := rfl

theorem resolve_path_ids_irrel (e : Env) (m : List (Str × Str)) (path : List Str) (h : pathNotId path = true) :
    resolveRefId { e with ids := m } (joinPath path) = resolveRefId e (joinPath path) := by
  unfold resolveRefId
  by_cases h1 : joinPath path = ['#']
  · simp only [h1, if_true]; rfl
  · simp only [h1, if_false]
    by_cases h2 : joinPath path = []
    · simp only [h2, if_true]
    · simp only [h2, if_false]
      unfold pathNotId at h
      cases hp : pre (joinPath path) with
      | none => rfl
      | some j =>
        rw [hp] at h
        have hj : isIdRef j = false := by simpa using h
        simp only [mid_ids_irrel e m j hj, urlStep_ids_irrel]

/-! ### `add_id` over the ids of a walk -/

theorem addIds_spec (path : List Str) (hp : pathNotId path = true) (is : List Str) :
    ∀ (e e' : Env), addIds e path is = some e' →
      e'.root = e.root ∧ e'.rootId = e.rootId ∧ e'.files = e.files ∧
      (∀ k, k ∉ is → idGet e'.ids k = idGet e.ids k) ∧
      (∀ i ∈ is, ∃ v, resolveRefId e (joinPath path) = .ok v ∧ idGet e'.ids i = some v) := by
  induction is with
  | nil =>
    intro e e' h
    simp only [addIds, Option.some.injEq] at h
    subst h
    exact ⟨rfl, rfl, rfl, fun _ _ => rfl, fun i hi => by simp at hi⟩
  | cons i0 is ih =>
    intro e e' h
    simp only [addIds] at h
    cases h1 : addId e path i0 with
    | none => rw [h1] at h; cases h
    | some e1 =>
      rw [h1] at h
      unfold addId at h1
      cases hv : resolveRefId e (joinPath path) with
      | raised => rw [hv] at h1; cases h1
      | unmodelled => rw [hv] at h1; cases h1
      | ok v =>
        rw [hv] at h1
        simp only [Option.some.injEq] at h1
        subst h1
        obtain ⟨r1, r2, r3, r4, r5⟩ := ih _ e' h
        have hv1 : resolveRefId { e with ids := idPut e.ids i0 v } (joinPath path) = .ok v := by
          rw [resolve_path_ids_irrel e _ path hp]; exact hv
        refine ⟨r1, r2, r3, ?_, ?_⟩
        · intro k hk
          simp only [List.mem_cons, not_or] at hk
          rw [r4 k hk.2]
          exact get_put_ne _ _ _ _ hk.1
        · intro i hi
          by_cases hin : i ∈ is
          · obtain ⟨v', hv', hg⟩ := r5 i hin
            rw [hv1] at hv'
            cases hv'
            exact ⟨v, rfl, hg⟩
          · simp only [List.mem_cons] at hi
            have : i = i0 := hi.resolve_right hin
            subst this
            refine ⟨v, rfl, ?_⟩
            rw [r4 i hin]
            exact get_put_same _ _ _

/-- how an id reference resolves: the registered value, passed through the URL step once more -/
theorem idRef_shape {i : Str} (hi : isIdRef i = true) : ∃ c rest, i = '#' :: c :: rest := by
  have hh := Dcg.Proofs.Resolver.isIdRef_head hi
  cases i with
  | nil => simp at hh
  | cons a t =>
    simp only [List.head?_cons, Option.some.injEq] at hh
    subst hh
    cases t with
    | nil => exact absurd hi (by decide)
    | cons c rest => exact ⟨c, rest, rfl⟩

theorem resolve_idRef (e : Env) (i v : Str) (hi : isIdRef i = true) (hg : idGet e.ids i = some v) :
    resolveRefId e i = urlStep e v := by
  obtain ⟨c, rest, rfl⟩ := idRef_shape hi
  have h1 : ('#' :: c :: rest) ≠ ['#'] := by simp
  have h2 : ('#' :: c :: rest) ≠ [] := by simp
  unfold resolveRefId
  simp only [h1, h2, if_false]
  have hpre : pre ('#' :: c :: rest) = some ('#' :: c :: rest) := by simp [pre]
  rw [hpre]
  simp only [mid, hi, if_true, hg]

/-- an unregistered id reference raises (`KeyError`) -/
theorem resolve_idRef_unregistered (e : Env) (i : Str) (hi : isIdRef i = true) (hg : idGet e.ids i = none) :
    resolveRefId e i = .raised := by
  obtain ⟨c, rest, rfl⟩ := idRef_shape hi
  have h1 : ('#' :: c :: rest) ≠ ['#'] := by simp
  have h2 : ('#' :: c :: rest) ≠ [] := by simp
  unfold resolveRefId
  simp only [h1, h2, if_false]
  have hpre : pre ('#' :: c :: rest) = some ('#' :: c :: rest) := by simp [pre]
  rw [hpre]
  simp only [mid, hi, if_true, hg]

theorem urlStep_not_url (e : Env) (v : Str) (h : isUrl v = false) : urlStep e v = .ok v := by
  simp [urlStep, h]

end Dcg.Proofs.IdRegistry
