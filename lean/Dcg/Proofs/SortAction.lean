import Dcg.Model.Sort
/-
The update-action list (`require_update_action_models`) in the cycle fall-back of `sort_data_models`
(`circular` of Dcg/Model/Sort.lean): the list only grows, and a model that is reached when one of its
base classes is already on the list is put on the list too. Helper lemmas for Dcg/Props/C11.lean.
-/
namespace Dcg.Proofs.SortAction
open Dcg.Model.Sort

/-- one turn of `for model in unresolved_references:`: the rest of the loop runs on a list that is the
old one or the old one with the model's path appended, and it IS appended when a base is on the list -/
theorem circular_cons_ok (names : List Path) (m : Model) (ms s : List Model) (u : List Path)
    (s' : List Model) (u' : List Path) (h : circular names (m :: ms) s u = .ok (s', u')) :
    ∃ u1, circular names ms (dictSet s m) u1 = .ok (s', u') ∧ (u1 = u ∨ u1 = u ++ [m.path]) ∧
      (m.bases.any (fun b => u.contains b) = true → u1 = u ++ [m.path]) := by
  simp only [circular] at h
  by_cases hp : (pending s m).isEmpty = true
  · simp only [hp, if_true] at h
    by_cases hb : m.bases.any (fun b => u.contains b) = true
    · rw [if_pos hb] at h
      exact ⟨_, h, Or.inr rfl, fun _ => rfl⟩
    · rw [if_neg hb] at h
      exact ⟨_, h, Or.inl rfl, fun hb' => absurd hb' hb⟩
  · simp only [hp] at h
    by_cases hall : (pending s m).all (fun r => names.contains r) = true
    · simp only [hall, if_true] at h
      exact ⟨_, h, Or.inr rfl, fun _ => rfl⟩
    · rw [if_neg hall] at h
      cases h

/-- the fall-back never takes a model off the list -/
theorem circular_upd_mono (names : List Path) : ∀ (todo s : List Model) (u : List Path)
    (s' : List Model) (u' : List Path), circular names todo s u = .ok (s', u') → ∀ p ∈ u, p ∈ u' := by
  intro todo
  induction todo with
  | nil =>
    intro s u s' u' h p hp
    simp only [circular, Except.ok.injEq, Prod.mk.injEq] at h
    obtain ⟨_, rfl⟩ := h
    exact hp
  | cons m ms ih =>
    intro s u s' u' h p hp
    obtain ⟨u1, h1, hu, _⟩ := circular_cons_ok names m ms s u s' u' h
    apply ih _ _ _ _ h1
    rcases hu with rfl | rfl
    · exact hp
    · exact List.mem_append_left _ hp

/-- the loop over `pre ++ rest` is the loop over `pre` followed by the loop over `rest` -/
theorem circular_split (names : List Path) : ∀ (pre rest s : List Model) (u : List Path)
    (s' : List Model) (u' : List Path), circular names (pre ++ rest) s u = .ok (s', u') →
    ∃ s1 u1, circular names pre s u = .ok (s1, u1) ∧ circular names rest s1 u1 = .ok (s', u') := by
  intro pre
  induction pre with
  | nil =>
    intro rest s u s' u' h
    exact ⟨s, u, by simp [circular], by simpa using h⟩
  | cons m ms ih =>
    intro rest s u s' u' h
    rw [List.cons_append] at h
    simp only [circular] at h ⊢
    by_cases hp : (pending s m).isEmpty = true
    · simp only [hp, if_true] at h ⊢
      exact ih _ _ _ _ _ h
    · simp only [hp] at h ⊢
      by_cases hall : (pending s m).all (fun r => names.contains r) = true
      · simp only [hall, if_true] at h ⊢
        exact ih _ _ _ _ _ h
      · rw [if_neg hall] at h
        cases h

/-- a model reached while one of its bases is on the list ends up on the list -/
theorem circular_flags_subclass (names : List Path) (m : Model) (ms s : List Model) (u : List Path)
    (s' : List Model) (u' : List Path) (h : circular names (m :: ms) s u = .ok (s', u'))
    (b : Path) (hb : b ∈ m.bases) (hu : b ∈ u) : m.path ∈ u' := by
  obtain ⟨u1, h1, _, hflag⟩ := circular_cons_ok names m ms s u s' u' h
  have hany : m.bases.any (fun b => u.contains b) = true :=
    List.any_eq_true.mpr ⟨b, hb, by simpa using hu⟩
  have := hflag hany
  subst this
  exact circular_upd_mono names ms _ _ s' u' h1 m.path (by simp)

/-- `c₁ :: c₂ :: …` is an inheritance chain hanging below the class with path `b`:
`b` is a base of `c₁`, `c₁` a base of `c₂`, … -/
def Descends : Path → List Model → Prop
  | _, [] => True
  | b, c :: cs => b ∈ c.bases ∧ Descends c.path cs

/-- The action propagates down an inheritance chain of ANY depth: when the class `b` is on the list as the
loop starts and `chain` (each the subclass of the one before, the first a subclass of `b`) is met in
this order — other models may stand in between —, every model of the chain ends up on the list. -/
theorem circular_flags_chain (names : List Path) : ∀ (todo s : List Model) (u : List Path)
    (s' : List Model) (u' : List Path), circular names todo s u = .ok (s', u') →
    ∀ (chain : List Model) (b : Path), chain.Sublist todo → Descends b chain → b ∈ u →
    ∀ c ∈ chain, c.path ∈ u' := by
  intro todo
  induction todo with
  | nil =>
    intro s u s' u' _ chain b hsub _ _ c hc
    rw [List.sublist_nil.mp hsub] at hc
    cases hc
  | cons m ms ih =>
    intro s u s' u' h chain b hsub hd hu c hc
    obtain ⟨u1, h1, hu1, hflag⟩ := circular_cons_ok names m ms s u s' u' h
    have hmono : ∀ p ∈ u, p ∈ u1 := by
      intro p hp
      rcases hu1 with rfl | rfl
      · exact hp
      · exact List.mem_append_left _ hp
    cases hsub with
    | cons _ hsub' =>
      exact ih _ _ _ _ h1 chain b hsub' hd (hmono b hu) c hc
    | cons_cons _ hsub' =>
      rename_i chain'
      obtain ⟨hb, hd'⟩ := hd
      have hany : m.bases.any (fun b => u.contains b) = true :=
        List.any_eq_true.mpr ⟨b, hb, by simpa using hu⟩
      have hu1' := hflag hany
      have hm1 : m.path ∈ u1 := by rw [hu1']; simp
      rcases List.mem_cons.mp hc with rfl | hc'
      · exact circular_upd_mono names ms _ _ s' u' h1 _ hm1
      · exact ih _ _ _ _ h1 chain' m.path hsub' hd' hm1 c hc'

end Dcg.Proofs.SortAction
