import Dcg.Model.Collapse
/-!
Lemmas about `Model.Collapse` (Parser.__collapse_root_models): what the pass keeps of every model, what can get
onto `unused_models`, and what the removal does to the list.
-/
namespace Dcg.Proofs.Collapse
open Dcg.Model.Collapse

/-- what the pass never touches of a model: reference, root flag, base classes -/
def key (m : Model) : Nat × Bool × List Nat := (m.name, m.root, m.bases)

theorem removeUnused_sublist (ms : List Model) (un : List Nat) : (removeUnused ms un).Sublist ms :=
  List.filter_sublist

theorem removeUnused_keeps_nonroot (ms : List Model) (un : List Nat) (m : Model) (h : m ∈ ms) (hr : m.root = false) :
    m ∈ removeUnused ms un := by
  unfold removeUnused
  rw [List.mem_filter]
  exact ⟨h, by simp [hr]⟩

theorem removeUnused_removed_is_root (ms : List Model) (un : List Nat) (m : Model) (h : m ∈ ms)
    (hn : m ∉ removeUnused ms un) : m.root = true ∧ m.name ∈ un := by
  unfold removeUnused at hn
  rw [List.mem_filter] at hn
  have : ¬ ((!(m.root && un.contains m.name)) = true) := fun hh => hn ⟨h, hh⟩
  simp at this
  exact this

/-- the outer loop rewrites members only: reference, root flag and base classes of every model, and the order of
the list, are what they were -/
theorem go_keys (ext : List Nat) : ∀ (todo done : List Model) (un : List Nat) (r : List Model) (un' : List Nat),
    go ext done todo un = some (r, un') → r.map key = done.map key ++ todo.map key := by
  intro todo
  induction todo with
  | nil =>
    intro done un r un' h
    simp [go] at h
    simp [h.1]
  | cons m rest ih =>
    intro done un r un' h
    rw [go] at h
    split at h
    · cases h
    · rename_i fs cs _
      have := ih _ _ _ _ h
      rw [this]
      simp [key]

/-- whatever gets onto `unused_models` had, at that moment, no user that `reference.children` counts -/
theorem go_unused (ext : List Nat) : ∀ (todo done : List Model) (un : List Nat) (r : List Model) (un' : List Nat),
    go ext done todo un = some (r, un') → ∀ x ∈ un', x ∈ un ∨ ext.contains x = false := by
  intro todo
  induction todo with
  | nil =>
    intro done un r un' h x hx
    simp [go] at h
    rw [← h.2] at hx
    exact Or.inl hx
  | cons m rest ih =>
    intro done un r un' h x hx
    rw [go] at h
    split at h
    · cases h
    · rename_i fs cs _
      rcases ih _ _ _ _ h x hx with h1 | h1
      · rw [List.mem_append] at h1
        rcases h1 with h1 | h1
        · exact Or.inl h1
        · rw [List.mem_filter] at h1
          have h2 := h1.2
          unfold used at h2
          right
          cases hc : ext.contains x
          · rfl
          · rw [hc] at h2
            simp at h2
      · exact Or.inr h1

end Dcg.Proofs.Collapse

namespace Dcg.Proofs.Collapse
open Dcg.Model.Collapse

theorem used_of_base (ext : List Nat) (ms : List Model) (x : Nat) (b : Model) (hb : b ∈ ms)
    (hx : b.bases.contains x = true) : used ext ms x = true := by
  unfold used
  have : ms.any (usesIn x) = true := by
    rw [List.any_eq_true]
    exact ⟨b, hb, by unfold usesIn; rw [hx]; rfl⟩
  simp [this]

/-- a reference that is the base class of a model of the list never gets onto `unused_models` (the repair a4c2957:
base-class entries survive the filter of `reference.children`) -/
theorem go_unused_base (ext : List Nat) (x : Nat) : ∀ (todo done : List Model) (un : List Nat) (r : List Model) (un' : List Nat),
    go ext done todo un = some (r, un') → (∃ b, (b ∈ done ∨ b ∈ todo) ∧ b.bases.contains x = true) → x ∈ un' → x ∈ un := by
  intro todo
  induction todo with
  | nil =>
    intro done un r un' h _ hx
    simp [go] at h
    rw [← h.2] at hx
    exact hx
  | cons m rest ih =>
    intro done un r un' h hb hx
    rw [go] at h
    split at h
    · cases h
    · rename_i fs cs _
      obtain ⟨b, hbm, hbx⟩ := hb
      -- the same base-class entry in the state after this step
      have hb' : ∃ b', (b' ∈ done ++ [{ m with fields := fs }] ∨ b' ∈ rest) ∧ b'.bases.contains x = true := by
        rcases hbm with hd | ht
        · exact ⟨b, Or.inl (List.mem_append_left _ hd), hbx⟩
        · rcases List.mem_cons.mp ht with rfl | ht
          · exact ⟨{ b with fields := fs }, Or.inl (by simp), hbx⟩
          · exact ⟨b, Or.inr ht, hbx⟩
      have h1 := ih _ _ _ _ h hb' hx
      rw [List.mem_append] at h1
      rcases h1 with h1 | h1
      · exact h1
      · rw [List.mem_filter] at h1
        obtain ⟨b', hm', hx'⟩ := hb'
        have hin : b' ∈ done ++ { m with fields := fs } :: rest := by
          rcases hm' with h2 | h2
          · rw [List.mem_append] at h2
            rcases h2 with h2 | h2
            · exact List.mem_append_left _ h2
            · simp at h2; subst h2; simp
          · simp [h2]
        have := used_of_base ext _ x b' hin hx'
        rw [this] at h1
        simp at h1

end Dcg.Proofs.Collapse
