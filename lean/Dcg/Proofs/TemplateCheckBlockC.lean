import Dcg.Proofs.TemplateCheckBlockA
/-! Kernel evaluation of the block check on the generated template ASTs (group C: templates that
emit a class only in some environments, and `pydantic/Config.jinja2` under an assumed fact). -/
namespace Dcg.Proofs.TemplateCheckBlock
open Dcg.Model.TemplateSyntax Dcg.Model.TemplateAbs Dcg.Model.TemplateBlock Dcg.Gen.TemplateAst

/-- `pydantic_v2/BaseModel.jinja2` emits either an alias assignment or a class -/
def groupC : List String := ["pydantic_v2/BaseModel.jinja2"]

theorem groupC_ok : blockCheckAll good groupC = true := by decide +kernel

/-- the loop header of `pydantic/Config.jinja2` -/
def configItems : Expr := .mcall (.mcall (.name "config") "dict" "exclude_unset=True") "items" ""

/-- `class Config:` has a body PROVIDED the config object has at least one field set -/
theorem config_ok :
    (match templates.lookup "pydantic/Config.jinja2" with
     | some t => check blockAuto BSt.init goodClass [(configItems, true)] [] t
     | none => false) = true := by decide +kernel

/-- …and without that assumption the analysis reports the empty class -/
theorem config_needs_assumption :
    (match templates.lookup "pydantic/Config.jinja2" with
     | some t => check blockAuto BSt.init goodClass [] [] t
     | none => true) = false := by decide +kernel

end Dcg.Proofs.TemplateCheckBlock
