import Dcg.Proofs.Field
/-! Exhaustive kernel evaluation over every valid reduced vector (closed-form template decision). -/
namespace Dcg.Proofs.Field
open Dcg.Model.Field

theorem valueExact_closed : AllR (fun r d _ => !r && !d.isNone) (ValueExact closedDecision) := by decide +kernel

theorem noneReads_closed : AllR (fun r d _ => !r && d.isNone) (NoneReads closedDecision) := by decide +kernel

end Dcg.Proofs.Field
