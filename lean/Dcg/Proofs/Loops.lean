import Dcg.Model.Loops
/-
Lemmas about the loop shapes of `Model/Loops`.
-/
namespace Dcg.Proofs.Loops
open Dcg.Model.Loops

/-- a depth-limited recursion ends after at most `depth` passes: with RecursionError, or in a state
reached by `k + 1 ≤ depth` passes of which the last one did not change the count -/
theorem resolveRec_ends {σ : Type} (pass : σ → σ) (count : σ → Nat) :
    ∀ (d : Nat) (s : σ), resolveRec pass count d s = none ∨
      ∃ k, k < d ∧ resolveRec pass count d s = some (iter pass (k + 1) s) ∧
        count (iter pass (k + 1) s) = count (iter pass k s) := by
  intro d
  induction d with
  | zero => intro s; left; rfl
  | succ d ih =>
    intro s
    by_cases h : count (pass s) ≠ count s
    · rcases ih (pass s) with hn | ⟨k, hk, he, hc⟩
      · left
        simp only [resolveRec, h, ne_eq, not_false_eq_true, if_true]
        simpa using hn
      · right
        refine ⟨k + 1, by omega, ?_, ?_⟩
        · simp only [resolveRec, h, ne_eq, not_false_eq_true, if_true]
          simpa [iter] using he
        · simpa [iter] using hc
    · right
      refine ⟨0, by omega, ?_, ?_⟩
      · simp only [resolveRec, h, if_false]
        rfl
      · have : count (pass s) = count s := by
          simpa using h
        simpa [iter] using this

/-- with a pass that appends a model every time (a reserved pointer that is never marked as loaded)
the recursion ends with RecursionError whatever the limit is … -/
theorem resolveRec_growing_is_error (d : Nat) (s : Nat) :
    resolveRec (fun n => n + 1) id d s = none := by
  induction d generalizing s with
  | zero => rfl
  | succ d ih =>
    have h : id (s + 1) ≠ id s := by simp
    simp only [resolveRec, h, ne_eq, not_false_eq_true, if_true]
    exact ih (s + 1)

/-- … and the same repetition written as `while the count changed` is still running after ANY number
of passes: the exit "this pass appended nothing" alone does not end the loop. -/
theorem count_exit_alone_can_diverge (fuel : Nat) (s : Nat) :
    resolveWhile (fun n => n + 1) id fuel s = none := by
  induction fuel generalizing s with
  | zero => rfl
  | succ f ih =>
    have h : id (s + 1) ≠ id s := by simp
    simp only [resolveWhile, h, ne_eq, not_false_eq_true, if_true]
    exact ih (s + 1)

/-- if the count is bounded and never decreases (the hypothesis the code does not guarantee), the
`while` form does end: within `U + 1` passes when it starts from a count ≤ U -/
theorem resolveWhile_bounded_ends {σ : Type} (pass : σ → σ) (count : σ → Nat) (U : Nat)
    (mono : ∀ s, count s ≤ count (pass s)) (bound : ∀ s, count s ≤ U) :
    ∀ (fuel : Nat) (s : σ), U - count s < fuel → (resolveWhile pass count fuel s).isSome = true := by
  intro fuel
  induction fuel with
  | zero => intro s h; omega
  | succ f ih =>
    intro s h
    by_cases hc : count (pass s) ≠ count s
    · simp only [resolveWhile, hc, ne_eq, not_false_eq_true, if_true]
      apply ih
      have := mono s
      have := bound (pass s)
      omega
    · simp [resolveWhile, hc]

end Dcg.Proofs.Loops
