import Dcg.Model.CrossRef
/-
Helper lemmas for the cross-module use theorems of Props/C12 (Model/CrossRef).
-/
namespace Dcg.Proofs.CrossRef
open Dcg.Py.Import Dcg.Model.Modules Dcg.Model.CrossRef

/-- every record `serveUses` writes is `mkWritten` of one of the uses, of the import `emitted` computes for
it, and of SOME name of the resolver -/
theorem mem_serveUses {vn : List Char → List Char} {exact : Bool} {cur : MPath} {init : Bool} :
    ∀ (uses : List Use) (s : Scope) (ws : List Written), serveUses vn exact cur init s uses = some ws →
    ∀ w ∈ ws, ∃ u ∈ uses, ∃ r a, emitted cur init exact u.isBase u.ref u.cls = some r ∧ w = mkWritten u r a := by
  intro uses
  induction uses with
  | nil =>
    intro s ws h w hw
    simp only [serveUses, Option.some.injEq] at h
    subst h
    cases hw
  | cons u rest ih =>
    intro s ws h w hw
    rw [serveUses] at h
    split at h
    · rename_i key r hk he
      split at h
      · rename_i s' a hadd
        cases hr : serveUses vn exact cur init s' rest with
        | none => rw [hr] at h; cases h
        | some ws' =>
          rw [hr] at h
          simp only [Option.map_some, Option.some.injEq] at h
          subst h
          rcases List.mem_cons.mp hw with rfl | hw'
          · exact ⟨u, List.mem_cons_self, r, a, he, rfl⟩
          · obtain ⟨u', hu', x⟩ := ih s' ws' hr w hw'
            exact ⟨u', List.mem_cons_of_mem _ hu', x⟩
      · cases h
    · obtain ⟨u', hu', x⟩ := ih s ws h w hw
      exact ⟨u', List.mem_cons_of_mem _ hu', x⟩

theorem mem_changeFromImport {vn : List Char → List Char} {exact : Bool} {cur : MPath} {init : Bool}
    {excl : List (List Char)} {classes : List (List Char × List Char)} {uses : List Use} {ws : List Written}
    (h : changeFromImport vn exact cur init excl classes uses = some ws) :
    ∀ w ∈ ws, ∃ u ∈ uses, ∃ r a, emitted cur init exact u.isBase u.ref u.cls = some r ∧ w = mkWritten u r a := by
  unfold changeFromImport at h
  split at h
  · exact mem_serveUses uses _ ws h
  · cases h

/-- the fields of `mkWritten` that do not depend on the case -/
theorem mkWritten_fixed (u : Use) (r : RelImport) (a : Name) :
    (mkWritten u r a).use = u ∧ (mkWritten u r a).imp = r ∧ (mkWritten u r a).alias = a := by
  unfold mkWritten
  split
  · exact ⟨rfl, rfl, rfl⟩
  · split <;> exact ⟨rfl, rfl, rfl⟩

/-- the use is always spelled with the name the import binds: `alias`, or `alias.Class` -/
theorem mkWritten_head (u : Use) (r : RelImport) (a : Name) (hn : r.name ≠ []) :
    (mkWritten u r a).head = a := by
  unfold mkWritten
  split
  · rename_i h
    rcases h with h | h
    · exact absurd h hn
    · exact h.symm
  · split <;> rfl

theorem mkWritten_attr_class (u : Use) (r : RelImport) (a : Name) (h : r.name = u.cls) :
    (mkWritten u r a).attr = none := by
  unfold mkWritten
  split
  · rfl
  · split
    · rfl
    · rename_i h2; exact absurd h.symm h2

theorem mkWritten_attr_module (u : Use) (r : RelImport) (a : Name) (hn : r.name ≠ []) (ha : a ≠ u.cls)
    (hc : u.cls ≠ r.name) : (mkWritten u r a).attr = some u.cls := by
  unfold mkWritten
  split
  · rename_i h
    rcases h with h | h
    · exact absurd h hn
    · exact absurd h ha
  · first
    | rfl
    | (split
       · rename_i h2; exact absurd h2 hc
       · rfl)

/-- the class form of an import names the class itself -/
theorem emitted_class_form {cur : MPath} {init exact isBase : Bool} {ref : MPath} {cls : Name} {r : RelImport}
    (h : emitted cur init exact isBase ref cls = some r) (hm : r.isModule = false) : r.name = cls := by
  unfold emitted at h
  split at h
  · cases h
  · rename_i r0 hr
    simp only [Option.some.injEq] at h
    subst h
    dsimp only [relative] at hr
    split at hr
    · cases hr
    · split at hr
      · simp only [Option.some.injEq] at hr
        subst hr
        split <;> rfl
      · simp only [Option.some.injEq] at hr
        subst hr
        split
        · rfl
        · rename_i hne
          simp only [hne] at hm
          cases hm

/-- `resolveFrom … (pkg ++ [x])` is `resolveFrom … pkg` followed by `x` -/
theorem resolveFrom_snoc {imp : MPath} {isInit : Bool} {dots : Nat} {pkg : List Name} {x : Name} {m : MPath}
    (h : resolveFrom imp isInit dots (pkg ++ [x]) = some m) :
    ∃ p, resolveFrom imp isInit dots pkg = some p ∧ m = p ++ [x] := by
  unfold resolveFrom at h ⊢
  split at h
  · cases h
  · rename_i package hp
    split at h
    · cases h
    · split at h
      · cases h
      · simp only [Option.some.injEq] at h
        rename_i h1 h2
        simp only [h1, h2, if_false]
        exact ⟨_, rfl, by rw [← h, List.append_assoc]⟩

/-- classes whose class name is not among the imported names keep their `reference.name` -/
theorem renamePass_keeps {cn : List Char → List Char} {imported : List (List Char)} :
    ∀ (classes : List (List Char × List Char)) (s : Scope) (out : List (List Char)),
    renamePass cn imported s classes = some out →
    out.length = classes.length ∧
    ∀ i (h : i < classes.length) (h' : i < out.length), imported.contains (classNameOf (classes[i]).2) = false → out[i] = (classes[i]).2 := by
  intro classes
  induction classes with
  | nil =>
    intro s out h
    simp only [renamePass, Option.some.injEq] at h
    subst h
    exact ⟨rfl, fun i h => absurd h (Nat.not_lt_zero _)⟩
  | cons kc rest ih =>
    intro s out h
    obtain ⟨key, name⟩ := kc
    rw [renamePass] at h
    split at h
    · rename_i hin
      split at h
      · cases h
      · rename_i s' nn _
        cases hr : renamePass cn imported s' rest with
        | none => rw [hr] at h; cases h
        | some o =>
          rw [hr] at h
          simp only [Option.map_some, Option.some.injEq] at h
          subst h
          obtain ⟨hl, hk⟩ := ih s' o hr
          refine ⟨by simp [hl], ?_⟩
          intro i hi hi' hc
          cases i with
          | zero => simp only [List.getElem_cons_zero] at hc; rw [hin] at hc; cases hc
          | succ j => simp only [List.getElem_cons_succ] at hc ⊢; exact hk j _ _ hc
    · cases hr : renamePass cn imported s rest with
      | none => rw [hr] at h; cases h
      | some o =>
        rw [hr] at h
        simp only [Option.map_some, Option.some.injEq] at h
        subst h
        obtain ⟨hl, hk⟩ := ih s o hr
        refine ⟨by simp [hl], ?_⟩
        intro i hi hi' hc
        cases i with
        | zero => rfl
        | succ j => simp only [List.getElem_cons_succ] at hc ⊢; exact hk j _ _ hc

end Dcg.Proofs.CrossRef
