import Dcg.Model.CopyTypes
/-
Lemmas about `_copy_data_types` (Dcg/Model/CopyTypes.lean): on trees whose reference nodes are plain the copy
is the tree itself — at every depth and width.
-/
namespace Dcg.Proofs.CopyTypes
open Dcg.Model.CopyTypes

mutual
theorem copyNode_id (dflt : Attrs) : ∀ t : DT, plainRefs dflt t = true → copyNode dflt t = t
  | .node (some r) a ks, h => by
    simp only [plainRefs, Bool.and_eq_true, beq_iff_eq, List.isEmpty_iff] at h
    simp only [copyNode, h.1, h.2]
  | .node none a (k :: ks), h => by
    simp only [plainRefs] at h
    simp only [copyNode, copyList_id dflt (k :: ks) h]
  | .node none a [], _ => by simp only [copyNode]
theorem copyList_id (dflt : Attrs) : ∀ ts : List DT, plainRefsList dflt ts = true → copyList dflt ts = ts
  | [], _ => by simp only [copyList]
  | t :: ts, h => by
    simp only [plainRefsList, Bool.and_eq_true] at h
    simp only [copyList, copyNode_id dflt t h.1, copyList_id dflt ts h.2]
end

theorem overrideType_id (dflt : Attrs) (t : DT) (h : plainRefs dflt t = true) : overrideType dflt t = t := by
  match t, h with
  | .node (some r) a ks, h =>
    simp only [plainRefs, Bool.and_eq_true, beq_iff_eq, List.isEmpty_iff] at h
    simp only [overrideType, h.1, h.2]
  | .node none a (k :: ks), h =>
    simp only [plainRefs] at h
    simp only [overrideType, copyList_id dflt (k :: ks) h]
  | .node none a [], _ => simp only [overrideType]

end Dcg.Proofs.CopyTypes
