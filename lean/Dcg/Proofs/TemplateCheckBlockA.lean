import Dcg.Model.TemplateBlock
import Dcg.Gen.TemplateAst
/-! Kernel evaluation of the block check on the generated template ASTs (group A). Re-checked
whenever a template changes. -/
namespace Dcg.Proofs.TemplateCheckBlock
open Dcg.Model.TemplateSyntax Dcg.Model.TemplateAbs Dcg.Model.TemplateBlock Dcg.Gen.TemplateAst

/-- the block check of every named template, with the facts enumerated over the context names its
conditions and loops read -/
def blockCheckAll (goodP : BSt → Bool) (names : List String) : Bool :=
  names.all (fun n => match templates.lookup n with
    | some t => check blockAuto BSt.init goodP [] (factExprs t) t
    | none => false)

def groupA : List String :=
  ["Enum.jinja2", "TypedDictClass.jinja2", "dataclass.jinja2", "msgspec.jinja2", "pydantic/dataclass.jinja2"]

theorem groupA_ok : blockCheckAll goodClass groupA = true := by decide +kernel

end Dcg.Proofs.TemplateCheckBlock
