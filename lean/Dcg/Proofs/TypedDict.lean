import Dcg.Model.TypedDict
/-
Helper lemmas for C07's TypedDict theorems: insertion-ordered dicts (`dictSet`/`dictUpdate`), the
"last declaration wins" reading of a dict display, `all_fields` over the class tree, `_validate_fields`.
Core Lean only.
-/
namespace Dcg.Proofs.TypedDict
open Dcg.Model.TypedDict

/-! ### insertion-ordered dicts -/

theorem dictGet_dictSet (d : List Entry) (k : List Char) (v : Nat) (x : List Char) :
    dictGet x (dictSet d k v) = if k = x then some v else dictGet x d := by
  induction d with
  | nil => simp [dictSet, dictGet]
  | cons e rest ih =>
    simp only [dictSet]
    by_cases hek : e.1 = k
    · rw [if_pos hek]
      simp only [dictGet]
      by_cases hkx : k = x
      · simp [hkx]
      · have : ¬ e.1 = x := fun h => hkx (hek ▸ h)
        simp [hkx, this]
    · rw [if_neg hek]
      simp only [dictGet, ih]
      by_cases hex : e.1 = x
      · have : ¬ k = x := fun h => hek (h ▸ hex)
        simp [hex, this]
      · simp [hex]

theorem dictGet_dictUpdate (es : List Entry) : ∀ (d : List Entry) (x : List Char),
    dictGet x (dictUpdate d es) = (lastVal x es).or (dictGet x d) := by
  induction es with
  | nil => intro d x; simp [dictUpdate, lastVal]
  | cons e es ih =>
    intro d x
    have h := ih (dictSet d e.1 e.2) x
    simp only [dictUpdate, List.foldl_cons] at h ⊢
    rw [h, dictGet_dictSet]
    simp only [lastVal]
    cases lastVal x es with
    | some v => simp
    | none =>
      by_cases hex : e.1 = x <;> simp [hex]

theorem lastVal_append (x : List Char) (a b : List Entry) :
    lastVal x (a ++ b) = (lastVal x b).or (lastVal x a) := by
  induction a with
  | nil => simp [lastVal]
  | cons e a ih =>
    simp only [List.cons_append, lastVal, ih]
    cases lastVal x b <;> simp

theorem dictGet_dictOf (es : List Entry) (x : List Char) : dictGet x (dictOf es) = lastVal x es := by
  simp [dictOf, dictGet_dictUpdate, dictGet]

theorem dictGet_isSome_iff (d : List Entry) (x : List Char) :
    (dictGet x d).isSome = true ↔ x ∈ d.map (·.1) := by
  induction d with
  | nil => simp [dictGet]
  | cons e rest ih =>
    simp only [dictGet, List.map_cons, List.mem_cons]
    by_cases h : e.1 = x
    · simp [h]
    · rw [if_neg h, ih]
      constructor
      · exact Or.inr
      · rintro (h' | h')
        · exact absurd h'.symm h
        · exact h'

theorem lastVal_isSome_iff (es : List Entry) (x : List Char) :
    (lastVal x es).isSome = true ↔ x ∈ es.map (·.1) := by
  induction es with
  | nil => simp [lastVal]
  | cons e es ih =>
    simp only [lastVal, List.map_cons, List.mem_cons]
    cases hl : lastVal x es with
    | some v =>
      have : x ∈ es.map (·.1) := ih.mp (by simp [hl])
      simp [this]
    | none =>
      have hn : ¬ x ∈ es.map (·.1) := fun hm => by simpa [hl] using ih.mpr hm
      by_cases h : e.1 = x
      · simp [h]
      · simp only [if_neg h, Option.isSome_none, Bool.false_eq_true, false_iff, not_or]
        exact ⟨fun h' => h h'.symm, hn⟩

/-- the keys of an updated dict: those it had, and those written -/
theorem mem_keys_dictUpdate (d es : List Entry) (x : List Char) :
    x ∈ (dictUpdate d es).map (·.1) ↔ x ∈ d.map (·.1) ∨ x ∈ es.map (·.1) := by
  rw [← dictGet_isSome_iff, dictGet_dictUpdate, ← dictGet_isSome_iff, ← lastVal_isSome_iff]
  cases lastVal x es <;> cases dictGet x d <;> simp

theorem mem_keys_dictOf (es : List Entry) (x : List Char) :
    x ∈ (dictOf es).map (·.1) ↔ x ∈ es.map (·.1) := by
  simp [dictOf, mem_keys_dictUpdate]

theorem keys_dictSet_nodup (d : List Entry) (k : List Char) (v : Nat) (h : (d.map (·.1)).Nodup) :
    ((dictSet d k v).map (·.1)).Nodup := by
  induction d with
  | nil => simp [dictSet]
  | cons e rest ih =>
    simp only [List.map_cons, List.nodup_cons] at h
    simp only [dictSet]
    by_cases hek : e.1 = k
    · rw [if_pos hek]
      simp only [List.map_cons, List.nodup_cons]
      exact ⟨hek ▸ h.1, h.2⟩
    · rw [if_neg hek]
      simp only [List.map_cons, List.nodup_cons]
      refine ⟨?_, ih h.2⟩
      intro hm
      have : e.1 ∈ (dictUpdate rest [(k, v)]).map (·.1) := by simpa [dictUpdate] using hm
      rw [mem_keys_dictUpdate] at this
      rcases this with h' | h'
      · exact h.1 h'
      · simp at h'; exact hek h'

theorem keys_dictUpdate_nodup (es : List Entry) : ∀ (d : List Entry), (d.map (·.1)).Nodup →
    ((dictUpdate d es).map (·.1)).Nodup := by
  induction es with
  | nil => intro d h; simpa [dictUpdate] using h
  | cons e es ih =>
    intro d h
    simp only [dictUpdate, List.foldl_cons]
    exact ih _ (keys_dictSet_nodup d e.1 e.2 h)

/-! ### class syntax is only chosen when names and keys coincide -/

theorem tdValid_name_eq_key {f : TdField} (h : tdValid f = true) : f.name.getD [] = f.key := by
  unfold tdValid at h
  unfold TdField.key
  cases ho : f.orig with
  | some o =>
    simp only [ho, Bool.and_eq_true, beq_iff_eq] at h
    simp [h.2]
  | none => simp

theorem class_syntax_entries {fs : List TdField} (h : tdFunctional fs = false) :
    fs.map (fun f => (f.name.getD [], f.tag)) = fs.map TdField.entry := by
  apply List.map_congr_left
  intro f hf
  have hv : tdValid f = true := by
    simp only [tdFunctional, List.any_eq_false, Bool.not_eq_true'] at h
    simpa using h f hf
  simp [TdField.entry, tdValid_name_eq_key hv]

/-! ### `all_fields` over the class tree -/

mutual
theorem allFields_keys : ∀ c : TdClass, c.allFields.map TdField.key = c.wireKeys
  | .other => by simp [TdClass.allFields, TdClass.wireKeys]
  | .cls bases fields => by
    simp only [TdClass.allFields, TdClass.wireKeys, List.map_append, allFieldsL_keys bases]
theorem allFieldsL_keys : ∀ bs : List TdClass, (allFieldsL bs).map TdField.key = wireKeysL bs
  | [] => by simp [allFieldsL, wireKeysL]
  | b :: bs => by
    simp only [allFieldsL, wireKeysL, List.map_append, allFields_keys b, allFieldsL_keys bs]
end

/-- in a dict (keys pairwise distinct) the first and the last entry of a key are the same one -/
theorem lastVal_eq_dictGet_of_nodup (d : List Entry) (x : List Char) (h : (d.map (·.1)).Nodup) :
    lastVal x d = dictGet x d := by
  induction d with
  | nil => rfl
  | cons e rest ih =>
    simp only [List.map_cons, List.nodup_cons] at h
    simp only [lastVal, dictGet, ih h.2]
    by_cases hex : e.1 = x
    · have : dictGet x rest = none := by
        cases hg : dictGet x rest with
        | none => rfl
        | some v =>
          have : x ∈ rest.map (·.1) := (dictGet_isSome_iff rest x).mp (by simp [hg])
          exact absurd (hex ▸ this) h.1
      simp [hex, this]
    · simp only [if_neg hex]
      cases dictGet x rest <;> rfl

theorem collectL_nodup : ∀ (bs : List TdClass) (d : List Entry), (d.map (·.1)).Nodup →
    ((collectL d bs).map (·.1)).Nodup
  | [], d, h => by simpa [collectL] using h
  | b :: bs, d, h => by
    simp only [collectL]
    exact collectL_nodup bs _ (keys_dictUpdate_nodup _ _ h)

/-- what Python builds is a dict: every key once -/
theorem rendered_nodup (c : TdClass) : (c.rendered.map (·.1)).Nodup := by
  cases c with
  | other => simp [TdClass.rendered]
  | cls bases fields =>
    simp only [TdClass.rendered]
    split
    · exact keys_dictUpdate_nodup _ _ (by simp)
    · exact keys_dictUpdate_nodup _ _ (collectL_nodup bases [] (by simp))

mutual
/-- the type found under a key of the class Python builds is that of the LAST declaration of the key along
`all_fields` (bases in order, then the class itself), whichever syntax each class of the tree was written in -/
theorem rendered_get : ∀ (c : TdClass) (x : List Char),
    dictGet x c.rendered = lastVal x (c.allFields.map TdField.entry)
  | .other, x => by simp [TdClass.rendered, TdClass.allFields, dictGet, lastVal]
  | .cls bases fields, x => by
    simp only [TdClass.rendered, TdClass.allFields]
    split
    · rw [dictGet_dictOf]
    · rename_i hf
      have hf' : tdFunctional fields = false := by simpa using hf
      rw [class_syntax_entries hf', dictGet_dictUpdate, collectL_get bases [] x, List.map_append,
        lastVal_append]
      simp [dictGet]
theorem collectL_get : ∀ (bs : List TdClass) (d : List Entry) (x : List Char),
    dictGet x (collectL d bs) = (lastVal x ((allFieldsL bs).map TdField.entry)).or (dictGet x d)
  | [], d, x => by simp [collectL, allFieldsL, lastVal]
  | b :: bs, d, x => by
    simp only [collectL, allFieldsL, List.map_append]
    rw [collectL_get bs _ x, dictGet_dictUpdate, lastVal_append,
      lastVal_eq_dictGet_of_nodup _ x (rendered_nodup b), rendered_get b x]
    cases lastVal x ((allFieldsL bs).map TdField.entry) <;> simp
end

/-- the keys of the class Python builds are exactly the wire keys: inherited ones and own ones -/
theorem mem_rendered_keys (c : TdClass) (x : List Char) :
    x ∈ c.rendered.map (·.1) ↔ x ∈ c.wireKeys := by
  rw [← dictGet_isSome_iff, rendered_get, lastVal_isSome_iff, ← allFields_keys]
  simp [TdField.entry, List.map_map, Function.comp_def]

/-! ### `_validate_fields` -/

theorem validateGo_id : ∀ (fs : List TdField) (seen : List (List Char)),
    ((fs.filterMap (·.name)).Pairwise (· ≠ ·)) → (∀ n ∈ fs.filterMap (·.name), n ∉ seen) →
    validateGo seen fs = fs
  | [], _, _, _ => rfl
  | f :: fs, seen, hp, hs => by
    cases hn : f.name with
    | none =>
      simp only [validateGo, hn]
      rw [validateGo_id fs seen (by simpa [List.filterMap_cons, hn] using hp)
        (by simpa [List.filterMap_cons, hn] using hs)]
    | some n =>
      simp only [List.filterMap_cons, hn, List.pairwise_cons, List.mem_cons, forall_eq_or_imp] at hp hs
      simp only [validateGo, hn]
      by_cases hne : n = []
      · rw [if_pos hne, validateGo_id fs seen hp.2 hs.2]
      · have hns : seen.contains n = false := by simpa using hs.1
        rw [if_neg hne, hns]
        simp only [Bool.false_eq_true, if_false]
        rw [validateGo_id fs (n :: seen) hp.2]
        intro m hm
        simp only [List.mem_cons, not_or]
        exact ⟨fun h => hp.1 m hm h.symm, hs.2 m hm⟩

/-- members whose names are pairwise distinct all survive the constructor -/
theorem validateFields_id (fs : List TdField) (h : (fs.filterMap (·.name)).Pairwise (· ≠ ·)) :
    validateFields fs = fs :=
  validateGo_id fs [] h (by simp)

end Dcg.Proofs.TypedDict
