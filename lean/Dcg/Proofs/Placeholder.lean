import Dcg.Model.Placeholder
/-
Lemmas about `Model/Placeholder`.
-/
namespace Dcg.Proofs.Placeholder
open Dcg.Model.Placeholder

/-- every member after the pass is an original member that was not pending, or a copy (marked
required) of what the lookup returned for a pending one -/
theorem overrideFields_mem {find : List Char → Option Fld} {fs : List Fld} {g : Fld}
    (h : g ∈ overrideFields find fs) :
    (g ∈ fs ∧ pending g = false) ∨
    (∃ f ∈ fs, pending f = true ∧ ∃ o, find (f.orig.getD []) = some o ∧ g = { o with required := true }) := by
  unfold overrideFields at h
  obtain ⟨f, hf, hg⟩ := List.mem_filterMap.mp h
  unfold overrideOne at hg
  by_cases hp : pending f = true
  · right
    rw [if_pos hp] at hg
    obtain ⟨o, ho, hgo⟩ := Option.map_eq_some_iff.mp hg
    exact ⟨f, hf, hp, o, ho, hgo.symm⟩
  · left
    rw [if_neg hp] at hg
    cases hg
    exact ⟨hf, by simpa using hp⟩

/-- a member the breadth-first lookup returns is a member of one of the models it walked, and has
the wire name that was looked for -/
theorem findField_orig {n : List Char} : ∀ (k : Nat) (ms : List Mdl) (o : Fld),
    findField n k ms = some o → o.orig = some n := by
  intro k
  induction k with
  | zero => intro ms o h; cases h
  | succ k ih =>
    intro ms o h
    cases ms with
    | nil => cases h
    | cons m rest =>
      unfold findField at h
      split at h
      · rename_i f hf
        cases h
        have := List.find?_some hf
        simpa using this
      · exact ih _ o h

end Dcg.Proofs.Placeholder
