import Dcg.Model.Placeholder
/-
Lemmas about `Model/Placeholder`.
-/
namespace Dcg.Proofs.Placeholder
open Dcg.Model.Placeholder

/-- `pending` is exactly "has a wire name (any string) and an empty type" -/
theorem pending_iff (f : Fld) : pending f = true ↔ (∃ n, f.orig = some n) ∧ f.typed = false := by
  unfold pending
  cases f.orig <;> cases f.typed <;> simp

/-- every member after the pass is an original member that has no wire name or has a type, or a copy
(marked required) of what the lookup returned for the wire name of a member with an empty type -/
theorem overrideFields_mem {find : List Char → Option Fld} {fs : List Fld} {g : Fld}
    (h : g ∈ overrideFields find fs) :
    (g ∈ fs ∧ (g.orig = none ∨ g.typed = true)) ∨
    (∃ f ∈ fs, ∃ n, f.orig = some n ∧ f.typed = false ∧
      ∃ o, find n = some o ∧ g = { o with required := true }) := by
  unfold overrideFields at h
  obtain ⟨f, hf, hg⟩ := List.mem_filterMap.mp h
  unfold overrideOne at hg
  split at hg
  · rename_i n ho ht
    right
    obtain ⟨o, hfo, hgo⟩ := Option.map_eq_some_iff.mp hg
    exact ⟨f, hf, n, ho, ht, o, hfo, hgo.symm⟩
  · rename_i hne
    left
    cases hg
    refine ⟨hf, ?_⟩
    cases ho : g.orig with
    | none => exact Or.inl rfl
    | some n =>
      cases ht : g.typed with
      | true => exact Or.inr rfl
      | false => exact absurd ht (hne n ho)

/-- a member with a wire name and an empty type never stays as it is: the pass is a function of the
lookup alone for it (dropped when the lookup finds nothing) -/
theorem overrideOne_placeholder (find : List Char → Option Fld) (f : Fld) (n : List Char)
    (ho : f.orig = some n) (ht : f.typed = false) :
    overrideOne find f = (find n).map (fun o => { o with required := true }) := by
  unfold overrideOne
  rw [ho, ht]

/-- a member the breadth-first lookup returns is a member of one of the models it walked, and has
the wire name that was looked for -/
theorem findField_orig {n : List Char} : ∀ (k : Nat) (ms : List Mdl) (o : Fld),
    findField n k ms = some o → o.orig = some n := by
  intro k
  induction k with
  | zero => intro ms o h; cases h
  | succ k ih =>
    intro ms o h
    cases ms with
    | nil => cases h
    | cons m rest =>
      unfold findField at h
      split at h
      · rename_i f hf
        cases h
        have := List.find?_some hf
        simpa using this
      · exact ih _ o h

end Dcg.Proofs.Placeholder
