import Dcg.Proofs.SemOpts
/-
C04: an accepted value is valid (`strictSafe`), by induction on the fuel.
-/
namespace Dcg.Proofs.Sem
open Dcg.Sem Dcg.Sem.Pyd Dcg.Model.Constraints Dcg.Model.Translate

/-! ### C04: an accepted value is valid (up to `null` for a non-required member) -/

theorem propsOneOfFree_mem {ps : List (List Char × Schema)} (h : Schema.propsOneOfFree ps = true)
    {p : List Char × Schema} (hp : p ∈ ps) : p.2.oneOfFree = true := by
  induction ps with
  | nil => simp at hp
  | cons q qs ih =>
    simp only [Schema.propsOneOfFree, Bool.and_eq_true] at h
    cases List.mem_cons.mp hp with
    | inl e => subst e; exact h.1
    | inr e => exact ih h.2 e

theorem allOneOfFree_mem {ss : List Schema} (h : Schema.allOneOfFree ss = true)
    {s : Schema} (hs : s ∈ ss) : s.oneOfFree = true := by
  induction ss with
  | nil => simp at hs
  | cons q qs ih =>
    simp only [Schema.allOneOfFree, Bool.and_eq_true] at h
    cases List.mem_cons.mp hs with
    | inl e => subst e; exact h.1
    | inr e => exact ih h.2 e

/-- more fuel keeps a value valid (no `oneOf`: there more fuel could make a second alternative valid) -/
theorem validJN_mono (re : Regex) (defs : Defs) (hd : Schema.propsOneOfFree defs = true) :
    ∀ f s v, s.oneOfFree = true → validJN re f defs s v = true → validJN re (f + 1) defs s v = true := by
  intro f
  induction f with
  | zero => intro s v _ h; simp [validJN] at h
  | succ f ih =>
    intro s v hs h
    cases s with
    | any => simp [validJN]
    | null => simpa [validJN] using h
    | scalar ty n b => simpa [validJN] using h
    | enum vals => simpa [validJN] using h
    | const a => simpa [validJN] using h
    | array items mn mx =>
      simp only [Schema.oneOfFree] at hs
      cases v <;> simp only [validJN, Bool.false_eq_true] at h
      rename_i xs
      simp only [Bool.and_eq_true, List.all_eq_true] at h
      simp only [validJN, Bool.and_eq_true, List.all_eq_true]
      exact ⟨h.1, fun x hx => ih items x hs (h.2 x hx)⟩
    | object props req addl =>
      simp only [Schema.oneOfFree] at hs
      cases v <;> simp only [validJN, Bool.false_eq_true] at h
      rename_i kvs
      simp only [Bool.and_eq_true, List.all_eq_true] at h
      obtain ⟨⟨h1, h2⟩, h3⟩ := h
      simp only [validJN, Bool.and_eq_true, List.all_eq_true]
      refine ⟨⟨h1, ?_⟩, h3⟩
      intro p hp
      have := h2 p hp
      cases hl : kvs.lookup p.1 with
      | none => simp
      | some x =>
        simp only [hl, Bool.or_eq_true] at this
        simp only [Bool.or_eq_true]
        cases this with
        | inl e => exact Or.inl e
        | inr e => exact Or.inr (ih p.2 x (propsOneOfFree_mem hs hp) e)
    | dict value =>
      simp only [Schema.oneOfFree] at hs
      cases v <;> simp only [validJN, Bool.false_eq_true] at h
      rename_i kvs
      simp only [List.all_eq_true] at h
      simp only [validJN, List.all_eq_true]
      exact fun kv hkv => ih value kv.2 hs (h kv hkv)
    | ref n =>
      simp only [validJN] at h ⊢
      cases hl : defs.lookup n with
      | none => simp [hl] at h
      | some t =>
        simp only [hl] at h ⊢
        exact ih t v (propsOneOfFree_mem (p := (n, t)) hd (lookup_mem defs n t hl)) h
    | anyOf alts =>
      simp only [Schema.oneOfFree] at hs
      simp only [validJN, List.any_eq_true] at h ⊢
      obtain ⟨a, ha, hva⟩ := h
      exact ⟨a, ha, ih a v (allOneOfFree_mem hs ha) hva⟩
    | oneOf alts => simp [Schema.oneOfFree] at hs
    | allOf refs props req xreq => simp [Schema.oneOfFree] at hs
    | disc one prop refs m => simp [Schema.oneOfFree] at hs
    | ndict value => simp [Schema.oneOfFree] at hs

theorem validJN_mono_le (re : Regex) (defs : Defs) (hd : Schema.propsOneOfFree defs = true)
    (s : Schema) (v : Json) (hs : s.oneOfFree = true) (f f' : Nat) (hle : f ≤ f')
    (h : validJN re f defs s v = true) : validJN re f' defs s v = true := by
  induction hle with
  | refl => exact h
  | step _ ih => exact validJN_mono re defs hd _ s v hs ih


end Dcg.Proofs.Sem

namespace Dcg.Proofs.Sem
open Dcg.Sem Dcg.Sem.Pyd Dcg.Model.Constraints Dcg.Model.Translate

mutual
/-- Where the generated model is claimed to reject whatever the schema rejects (standalone
places: document/definition, array item, union alternative, `additionalProperties` value).
Excluded — each refuted on the pinned tree: a constrained scalar in a plain standalone place under
`field_constraints` (D11), item-count constraints on an array that is not a member / definition
without `field_constraints` (D31), `oneOf` (a Union accepts when two alternatives match), and in
`propsStrict` a required `const` member in v1-style output (D30). -/
def strictSafe (st : Style) (fc : Bool) : Ctx → Schema → Bool
  | ctx, .scalar _ _ b => !(ctx == .plain && fc) || !boundsHasConstraint b
  | ctx, .array items mn mx =>
    (match ctx with
      | .top => true
      | .plain => !(mn.isSome || mx.isSome)
      | .item _ => !(mn.isSome || mx.isSome) || fc) &&
    strictSafe st fc (.item (mn.isSome || mx.isSome)) items
  | _, .object props req _ => propsStrict st fc req props
  | _, .dict value => strictSafe st fc .plain value
  | _, .anyOf alts => altsStrict st fc alts
  | _, .oneOf _ => false
  | _, _ => true
/-- a member: its scalar / item-count constraints travel in the type or in `Field()` -/
def memberStrict (st : Style) (fc : Bool) : Schema → Bool
  | .scalar _ _ _ => true
  | .array items mn mx => strictSafe st fc (.item (mn.isSome || mx.isSome)) items
  | .object props req _ => propsStrict st fc req props
  | .dict value => strictSafe st fc .plain value
  | .anyOf alts => altsStrict st fc alts
  | .oneOf _ => false
  | _ => true
def propsStrict (st : Style) (fc : Bool) (req : List (List Char)) : List (List Char × Schema) → Bool
  | [] => true
  | p :: ps =>
    !(constDefaulted st p.2 && req.contains p.1) && memberStrict st fc p.2 && propsStrict st fc req ps
def altsStrict (st : Style) (fc : Bool) : List Schema → Bool
  | [] => true
  | a :: as => strictSafe st fc (.item false) a && altsStrict st fc as
end

def defsStrict (st : Style) (fc : Bool) : Defs → Bool
  | [] => true
  | p :: ps => strictSafe st fc .top p.2 && defsStrict st fc ps

theorem propsStrict_mem {st : Style} {fc : Bool} {req : List (List Char)}
    {ps : List (List Char × Schema)} (h : propsStrict st fc req ps = true)
    {p : List Char × Schema} (hp : p ∈ ps) :
    (constDefaulted st p.2 && req.contains p.1) = false ∧ memberStrict st fc p.2 = true := by
  induction ps with
  | nil => simp at hp
  | cons q qs ih =>
    simp only [propsStrict, Bool.and_eq_true, Bool.not_eq_true'] at h
    cases List.mem_cons.mp hp with
    | inl e => subst e; exact ⟨h.1.1, h.1.2⟩
    | inr e => exact ih h.2 e

theorem altsStrict_mem {st : Style} {fc : Bool} {as : List Schema} (h : altsStrict st fc as = true)
    {a : Schema} (ha : a ∈ as) : strictSafe st fc (.item false) a = true := by
  induction as with
  | nil => simp at ha
  | cons q qs ih =>
    simp only [altsStrict, Bool.and_eq_true] at h
    cases List.mem_cons.mp ha with
    | inl e => subst e; exact h.1
    | inr e => exact ih h.2 e

theorem defsStrict_lookup {st : Style} {fc : Bool} {defs : Defs} (h : defsStrict st fc defs = true)
    {n : List Char} {s : Schema} (hl : defs.lookup n = some s) : strictSafe st fc .top s = true := by
  induction defs with
  | nil => simp [List.lookup] at hl
  | cons p ps ih =>
    obtain ⟨k, t⟩ := p
    simp only [defsStrict, Bool.and_eq_true] at h
    simp only [List.lookup] at hl
    split at hl
    · simp at hl; subst hl; exact h.1
    · exact ih h.2 hl

theorem and_eq_accept {a b : Tri} : Tri.and a b = .accept ↔ a = .accept ∧ b = .accept := by
  cases a <;> cases b <;> simp [Tri.and]

theorem all_eq_accept {xs : List Tri} : Tri.all xs = .accept ↔ ∀ x ∈ xs, x = .accept := by
  induction xs with
  | nil => simp [Tri.all]
  | cons x xs ih =>
    have : Tri.all (x :: xs) = Tri.and x (Tri.all xs) := rfl
    rw [this, and_eq_accept, ih]
    simp

theorem or_eq_accept {a b : Tri} : Tri.or a b = .accept ↔ a = .accept ∨ b = .accept := by
  cases a <;> cases b <;> simp [Tri.or]

theorem any_eq_accept {xs : List Tri} : Tri.any xs = .accept ↔ ∃ x ∈ xs, x = .accept := by
  induction xs with
  | nil => simp [Tri.any]
  | cons x xs ih =>
    have : Tri.any (x :: xs) = Tri.or x (Tri.any xs) := rfl
    rw [this, or_eq_accept, ih]
    constructor
    · rintro (h | ⟨y, hy, rfl⟩)
      · exact ⟨x, by simp, h⟩
      · exact ⟨_, by simp [hy], rfl⟩
    · rintro ⟨y, hy, rfl⟩
      cases List.mem_cons.mp hy with
      | inl e => exact Or.inl e.symm
      | inr e => exact Or.inr ⟨_, e, rfl⟩

theorem ofBool_eq_accept {b : Bool} : Tri.ofBool b = .accept ↔ b = true := by
  cases b <;> simp [Tri.ofBool]

theorem numOK_noCons (b : Bounds) (h : boundsHasConstraint b = false) (x : Dec) : numOK b x = true := by
  obtain ⟨mn, mx, xmn, xmx, mul, minl, maxl, pat⟩ := b
  simp only [boundsHasConstraint, Bool.or_eq_false_iff, Option.isSome_eq_false_iff,
    Option.isNone_iff_eq_none] at h
  obtain ⟨⟨⟨⟨⟨⟨⟨rfl, rfl⟩, rfl⟩, rfl⟩, rfl⟩, rfl⟩, rfl⟩, rfl⟩ := h
  simp [numOK]

theorem strOK_noCons (re : Regex) (b : Bounds) (h : boundsHasConstraint b = false) (s : List Char) :
    strOK re b s = true := by
  obtain ⟨mn, mx, xmn, xmx, mul, minl, maxl, pat⟩ := b
  simp only [boundsHasConstraint, Bool.or_eq_false_iff, Option.isSome_eq_false_iff,
    Option.isNone_iff_eq_none] at h
  obtain ⟨⟨⟨⟨⟨⟨⟨rfl, rfl⟩, rfl⟩, rfl⟩, rfl⟩, rfl⟩, rfl⟩, rfl⟩ := h
  simp [strOK]

/-- a scalar leaf that says `accept` has a value the schema admits — provided its constraints
are somewhere: in the type (no `field_constraints`), in the accompanying `Field()`, or absent -/
theorem scalar_accept_valid (st : Style) (re : Regex) (o : Opts) (h : TableOK st) (ty : STy)
    (n : Bool) (b : Bounds) (v : Json) (hok : scalarOK ty b = true)
    (hacc : coreVerdict st re ty n (typeCons st o ty b) v = .accept)
    (hcons : o.fieldConstraints = false ∨ checkCons st re (fieldConsOfBounds st ty b) v = .accept ∨
      boundsHasConstraint b = false) :
    ((n && v.isNull) || validScalar re ty b v) = true := by
  obtain ⟨⟨i1, i2, i3, i4, i5⟩, ⟨n1, n2, n3, n4, n5⟩, ⟨s1, s2, s3⟩, ⟨f1, f2, f3, f4, f5⟩,
    ⟨g1, g2, g3⟩, _, _, _⟩ := h
  have hint : ty = .integer → ∀ pk d, (d ∈ b.minimum ∨ d ∈ b.maximum ∨ d ∈ b.exclMin ∨ d ∈ b.exclMax ∨
      d ∈ b.multipleOf) → ∀ r, castValue r .int pk d = d := by
    intro hty pk d hd r
    subst hty
    simp only [scalarOK, Bool.and_eq_true] at hok
    exact castValue_integral _ _ _ _ (integral_mem _ hok.2 d hd)
  simp only [coreVerdict] at hacc
  cases hnn : (n && v.isNull) with
  | true => simp
  | false =>
    simp only [hnn, Bool.false_eq_true, if_false] at hacc
    simp only [Bool.false_or]
    unfold typeCons at hacc
    unfold fieldConsOfBounds at hcons
    cases ty <;> cases v <;> simp [acceptsScalar] at hacc <;>
      simp only [scalarOK, Bool.and_eq_true] at hok <;>
      simp only [validScalar, famOf, Option.getD, checkCons] at hcons ⊢
    · -- integer
      rename_i x
      have e1 := checkNum_consOfBounds _ _ b x i1 i2 i3 i4 i5 hok.1 (fun pk d hd => hint rfl pk d hd .conType)
      have e2 := checkNum_consOfBounds _ _ b x f1 f2 f3 f4 f5 hok.1 (fun pk d hd => hint rfl pk d hd .field)
      rcases hcons with hc | hc | hc
      · simp [hc, famOf, e1, Tri.ofBool] at hacc
        cases hi : x.isInt <;> simp_all
      · cases hfc : o.fieldConstraints <;> simp [hfc, famOf, e1, checkNum_empty, Tri.ofBool] at hacc <;>
          simp [e2, Tri.ofBool] at hc <;> cases hi : x.isInt <;> simp_all
      · cases hfc : o.fieldConstraints <;> simp [hfc, famOf, e1, checkNum_empty, Tri.ofBool] at hacc <;>
          cases hi : x.isInt <;> simp_all [numOK_noCons b hc x]
    · -- number
      rename_i x
      have e1 := checkNum_consOfBounds (conTypeKw st .num) (castValue .conType .num) b x n1 n2 n3 n4 n5 hok
        (fun pk d _ => by simp [castValue])
      have e2 := checkNum_consOfBounds (fieldKw st) (castValue .field .num) b x f1 f2 f3 f4 f5 hok
        (fun pk d _ => by simp [castValue])
      rcases hcons with hc | hc | hc
      · simp [hc, famOf, e1, Tri.ofBool] at hacc
        exact hacc
      · simp [e2, Tri.ofBool] at hc
        exact hc
      · exact numOK_noCons b hc x
    · -- string
      rename_i s
      have e1 := checkStr_consOfBounds st re (conTypeKw st .str) (castValue .conType .str) b s s1 s2 s3 hok
      have e2 := checkStr_consOfBounds st re (fieldKw st) (castValue .field .str) b s g1 g2 g3 hok
      rcases hcons with hc | hc | hc
      · simp [hc, famOf, e1, Tri.ofBool] at hacc
        exact hacc
      · simp [e2, Tri.ofBool] at hc
        exact hc
      · exact strOK_noCons re b hc s


end Dcg.Proofs.Sem

namespace Dcg.Proofs.Sem
open Dcg.Sem Dcg.Sem.Pyd Dcg.Model.Constraints Dcg.Model.Translate

section
variable (st : Style) (o : Opts) (re : Regex) (defs : Defs)

/-- statement of the soundness induction at fuel `g` -/
def SD (g : Nat) : Prop :=
  ∀ ctx s v, s.inSubset = true → s.oneOfFree = true → strictSafe st o.fieldConstraints ctx s = true →
    acceptsTy st re g (trDefs st o defs) (tr st o ctx s) v = .accept → validJN re g defs s v = true

def SDle (g : Nat) : Prop := ∀ g', g' ≤ g → SD st o re defs g'

theorem core_accept (ty : STy) (n : Bool) (b : Bounds) (v : Json) (g : Nat) (D : IRDefs)
    (h : acceptsTy st re g D (scalarCore st o ty n b) v = .accept) :
    coreVerdict st re ty n (typeCons st o ty b) v = .accept := by
  rcases acceptsTy_core_cases st o re ty n b v g D with e | e
  · rw [e] at h; cases h
  · rw [e] at h; exact h

theorem sd_scalar (h : TableOK st) (g : Nat) (ctx : Ctx) (ty : STy) (n : Bool) (b : Bounds)
    (v : Json) (hok : scalarOK ty b = true)
    (hs : strictSafe st o.fieldConstraints ctx (.scalar ty n b) = true)
    (hacc : acceptsTy st re (g + 1) (trDefs st o defs) (tr st o ctx (.scalar ty n b)) v = .accept) :
    validJN re (g + 1) defs (.scalar ty n b) v = true := by
  simp only [validJN]
  have key := scalar_accept_valid st re o h ty n b v hok
  cases ctx with
  | top =>
    simp only [tr, acceptsTy, and_eq_accept] at hacc
    refine key (core_accept st o re ty n b v g _ hacc.1) ?_
    cases hfc : o.fieldConstraints with
    | false => exact Or.inl rfl
    | true => simp only [rootCons, hfc, if_true] at hacc; exact Or.inr (Or.inl hacc.2)
  | plain =>
    simp only [tr] at hacc
    refine key (core_accept st o re ty n b v (g + 1) _ hacc) ?_
    cases hfc : o.fieldConstraints with
    | false => exact Or.inl rfl
    | true =>
      simp only [strictSafe, hfc, beq_self_eq_true, Bool.and_true, Bool.not_true, Bool.false_or,
        Bool.not_eq_true'] at hs
      exact Or.inr (Or.inr hs)
  | item phc =>
    simp only [tr] at hacc
    cases hfc : o.fieldConstraints with
    | false =>
      split at hacc
      · simp only [acceptsTy, and_eq_accept] at hacc
        exact key (core_accept st o re ty n b v g _ hacc.1) (Or.inl hfc)
      · exact key (core_accept st o re ty n b v (g + 1) _ hacc) (Or.inl hfc)
    | true =>
      simp only [hfc, Bool.or_true, Bool.and_true] at hacc
      cases hb : boundsHasConstraint b with
      | false =>
        simp only [hb, Bool.false_eq_true, if_false] at hacc
        exact key (core_accept st o re ty n b v (g + 1) _ hacc) (Or.inr (Or.inr hb))
      | true =>
        simp only [hb, if_true, acceptsTy, and_eq_accept, rootCons, hfc] at hacc
        exact key (core_accept st o re ty n b v g _ hacc.1) (Or.inr (Or.inl hacc.2))

/-- a list type that accepts an array: every item is valid (at the fuel the items were checked with) -/
theorem sd_list (hdo : Schema.propsOneOfFree defs = true) (g : Nat) (ih : SDle st o re defs g)
    (ctx : Ctx) (items : Schema) (v : Json) (hsub : items.inSubset = true)
    (hof : items.oneOfFree = true) (hs : strictSafe st o.fieldConstraints ctx items = true)
    (k : Nat) (hk : k ≤ g + 1)
    (hacc : acceptsTy st re k (trDefs st o defs) (.list (tr st o ctx items)) v = .accept) :
    ∃ xs, v = .arr xs ∧ ∀ x ∈ xs, validJN re g defs items x = true := by
  cases k with
  | zero => simp [acceptsTy] at hacc
  | succ k =>
    cases v <;> simp only [acceptsTy, reduceCtorEq] at hacc
    rename_i xs
    refine ⟨xs, rfl, ?_⟩
    intro x hx
    rw [all_eq_accept] at hacc
    have hxa := hacc _ (List.mem_map.mpr ⟨x, hx, rfl⟩)
    have := ih k (by omega) ctx items x hsub hof hs hxa
    exact validJN_mono_le re defs hdo items x hof k g (by omega) this


end
end Dcg.Proofs.Sem

namespace Dcg.Proofs.Sem
open Dcg.Sem Dcg.Sem.Pyd Dcg.Model.Constraints Dcg.Model.Translate

section
variable (st : Style) (o : Opts) (re : Regex) (defs : Defs)

theorem checkCons_items_accept (h : TableOK st) (mn mx : Option Nat) (xs : List Json)
    (hc : checkCons st re (consOfItems (fieldKw st) mn mx) (.arr xs) = .accept) :
    lenOK mn mx xs.length = true := by
  obtain ⟨_, _, _, _, _, ⟨a1, a2⟩, _, _⟩ := h
  simpa [checkCons, checkLen_consOfItems st _ mn mx _ a1 a2, Tri.ofBool] using hc

theorem lenOK_none (n : Nat) : lenOK none none n = true := by simp [lenOK]

theorem sd_array (h : TableOK st) (hdo : Schema.propsOneOfFree defs = true) (g : Nat)
    (ih : SDle st o re defs g) (ctx : Ctx) (items : Schema) (mn mx : Option Nat) (v : Json)
    (hsub : items.inSubset = true) (hof : items.oneOfFree = true)
    (hs : strictSafe st o.fieldConstraints ctx (.array items mn mx) = true)
    (hacc : acceptsTy st re (g + 1) (trDefs st o defs) (tr st o ctx (.array items mn mx)) v = .accept) :
    validJN re (g + 1) defs (.array items mn mx) v = true := by
  simp only [strictSafe, Bool.and_eq_true] at hs
  obtain ⟨hctx, hitems⟩ := hs
  have hl := sd_list st o re defs hdo g ih (.item (mn.isSome || mx.isSome)) items v hsub hof hitems
  have fin : ∀ xs, v = .arr xs → (∀ x ∈ xs, validJN re g defs items x = true) →
      lenOK mn mx xs.length = true → validJN re (g + 1) defs (.array items mn mx) v = true := by
    intro xs hv hall hlen
    subst hv
    simp only [validJN, Bool.and_eq_true, List.all_eq_true]
    exact ⟨hlen, hall⟩
  have noc : (mn.isSome || mx.isSome) = false → ∀ n, lenOK mn mx n = true := by
    intro hc n
    cases mn <;> cases mx <;> simp at hc
    exact lenOK_none n
  cases ctx with
  | top =>
    simp only [tr, acceptsTy, and_eq_accept] at hacc
    obtain ⟨xs, hv, hall⟩ := hl g (by omega) hacc.1
    subst hv
    exact fin xs rfl hall (checkCons_items_accept st re h mn mx xs hacc.2)
  | plain =>
    simp only [tr] at hacc
    obtain ⟨xs, hv, hall⟩ := hl (g + 1) (by omega) hacc
    have hc : (mn.isSome || mx.isSome) = false := by simpa using hctx
    exact fin xs hv hall (noc hc _)
  | item phc =>
    simp only [tr] at hacc
    cases hc : (mn.isSome || mx.isSome) with
    | false =>
      simp only [hc, Bool.false_and, Bool.false_eq_true, if_false] at hacc
      rw [hc] at hl
      obtain ⟨xs, hv, hall⟩ := hl (g + 1) (by omega) hacc
      exact fin xs hv hall (noc hc _)
    | true =>
      simp only [hc, Bool.not_true, Bool.false_or] at hctx
      simp only [hc, hctx, Bool.or_true, Bool.and_true, if_true, acceptsTy, and_eq_accept, rootCons] at hacc
      rw [hc] at hl
      obtain ⟨xs, hv, hall⟩ := hl g (by omega) hacc.1
      subst hv
      exact fin xs rfl hall (checkCons_items_accept st re h mn mx xs hacc.2)

/-- a member: its type verdict together with its `Field()` arguments -/
theorem sd_member (h : TableOK st) (hdo : Schema.propsOneOfFree defs = true) (g : Nat)
    (ih : SDle st o re defs g) (s : Schema) (x : Json) (hsub : s.inSubset = true)
    (hof : s.oneOfFree = true) (hs : memberStrict st o.fieldConstraints s = true)
    (hacc : Tri.and (acceptsTy st re g (trDefs st o defs) (tr st o .plain s) x)
      (checkCons st re (fieldCons st o s) x) = .accept) :
    validJN re g defs s x = true := by
  rw [and_eq_accept] at hacc
  obtain ⟨ht, hc⟩ := hacc
  cases g with
  | zero => simp [acceptsTy] at ht
  | succ g =>
    have ihg : SDle st o re defs g := fun g' hg' => ih g' (by omega)
    cases s with
    | scalar ty n b =>
      simp only [Schema.inSubset] at hsub
      simp only [tr] at ht
      simp only [validJN]
      refine scalar_accept_valid st re o h ty n b x hsub (core_accept st o re ty n b x (g + 1) _ ht) ?_
      cases hfc : o.fieldConstraints with
      | false => exact Or.inl rfl
      | true => simp only [fieldCons, hfc, if_true] at hc; exact Or.inr (Or.inl hc)
    | array items mn mx =>
      simp only [Schema.inSubset] at hsub
      simp only [Schema.oneOfFree] at hof
      simp only [memberStrict] at hs
      simp only [tr] at ht
      obtain ⟨xs, hv, hall⟩ := sd_list st o re defs hdo g ihg (.item (mn.isSome || mx.isSome)) items x hsub hof hs
        (g + 1) (by omega) ht
      subst hv
      simp only [fieldCons] at hc
      simp only [validJN, Bool.and_eq_true, List.all_eq_true]
      exact ⟨checkCons_items_accept st re h mn mx xs hc, hall⟩
    | any => exact ih (g + 1) (Nat.le_refl _) .plain _ x hsub hof (by simp [strictSafe]) ht
    | null => exact ih (g + 1) (Nat.le_refl _) .plain _ x hsub hof (by simp [strictSafe]) ht
    | enum vals => exact ih (g + 1) (Nat.le_refl _) .plain _ x hsub hof (by simp [strictSafe]) ht
    | const a => exact ih (g + 1) (Nat.le_refl _) .plain _ x hsub hof (by simp [strictSafe]) ht
    | ref n => exact ih (g + 1) (Nat.le_refl _) .plain _ x hsub hof (by simp [strictSafe]) ht
    | object props req addl =>
      exact ih (g + 1) (Nat.le_refl _) .plain _ x hsub hof (by simpa [strictSafe, memberStrict] using hs) ht
    | dict value =>
      exact ih (g + 1) (Nat.le_refl _) .plain _ x hsub hof (by simpa [strictSafe, memberStrict] using hs) ht
    | anyOf alts =>
      exact ih (g + 1) (Nat.le_refl _) .plain _ x hsub hof (by simpa [strictSafe, memberStrict] using hs) ht
    | oneOf alts => simp [Schema.oneOfFree] at hof
    | allOf refs props req xreq => simp [Schema.oneOfFree] at hof
    | disc one prop refs m => simp [Schema.oneOfFree] at hof
    | ndict value => simp [Schema.oneOfFree] at hof


end
end Dcg.Proofs.Sem

namespace Dcg.Proofs.Sem
open Dcg.Sem Dcg.Sem.Pyd Dcg.Model.Constraints Dcg.Model.Translate

section
variable (st : Style) (o : Opts) (re : Regex) (defs : Defs)

theorem sd_object (h : TableOK st) (hdo : Schema.propsOneOfFree defs = true) (g : Nat)
    (ih : SDle st o re defs g) (ctx : Ctx) (props : List (List Char × Schema))
    (req : List (List Char)) (addl : Addl) (v : Json)
    (hsub : (Schema.object props req addl).inSubset = true)
    (hof : (Schema.object props req addl).oneOfFree = true)
    (hs : strictSafe st o.fieldConstraints ctx (.object props req addl) = true)
    (hacc : acceptsTy st re (g + 1) (trDefs st o defs) (tr st o ctx (.object props req addl)) v = .accept) :
    validJN re (g + 1) defs (.object props req addl) v = true := by
  simp only [Schema.inSubset, Bool.and_eq_true, List.all_eq_true] at hsub
  obtain ⟨⟨hps, hnd⟩, hreqdecl⟩ := hsub
  simp only [Schema.oneOfFree] at hof
  simp only [strictSafe] at hs
  cases v <;> simp only [tr, acceptsTy, reduceCtorEq] at hacc
  rename_i kvs
  rw [and_eq_accept, all_eq_accept, trProps_eq_map] at hacc
  obtain ⟨hfields, hextra⟩ := hacc
  -- the verdict of one declared member
  have hfield : ∀ p ∈ props,
      (match kvs.lookup p.1 with
        | none => if (req.contains p.1 && !constDefaulted st p.2) = true then
            (if isOpt (tr st o .plain p.2) = true then Tri.laxZone else Tri.reject) else Tri.accept
        | some x => if (x.isNull && !(req.contains p.1 && !constDefaulted st p.2) &&
              !isConst (tr st o .plain p.2)) = true then Tri.accept
            else Tri.and (acceptsTy st re g (trDefs st o defs) (tr st o .plain p.2) x)
              (checkCons st re (fieldCons st o p.2) x)) = Tri.accept := by
    intro p hp
    have := hfields _ (List.mem_map.mpr ⟨(p.1, req.contains p.1 && !constDefaulted st p.2,
      fieldCons st o p.2, tr st o .plain p.2), List.mem_map.mpr ⟨p, hp, rfl⟩, rfl⟩)
    exact this
  simp only [validJN, Bool.and_eq_true, List.all_eq_true]
  refine ⟨⟨?_, ?_⟩, ?_⟩
  · -- required members are present
    intro k hk
    have hdecl : (props.map (·.1)).contains k = true := hreqdecl k hk
    simp only [List.contains_iff_mem, List.mem_map] at hdecl
    obtain ⟨p, hp, rfl⟩ := hdecl
    have hstrict := (propsStrict_mem hs hp).1
    have hf := hfield p hp
    have hrk : req.contains p.1 = true := by simpa using hk
    simp only [hrk, Bool.and_true] at hstrict
    cases hl : kvs.lookup p.1 with
    | none =>
      simp only [hl, hrk, hstrict, Bool.not_false, Bool.and_self, if_true] at hf
      split at hf <;> cases hf
    | some x => simp [hasKey, hl]
  · -- every declared member that is present
    intro p hp
    have hf := hfield p hp
    have hstrict := propsStrict_mem hs hp
    cases hl : kvs.lookup p.1 with
    | none => simp
    | some x =>
      simp only [hl] at hf
      simp only [Bool.or_eq_true, Bool.and_eq_true, Bool.not_eq_true']
      split at hf
      · rename_i hcond
        simp only [Bool.and_eq_true, Bool.not_eq_true', Bool.and_eq_false_iff] at hcond
        obtain ⟨⟨hnull, hnreq⟩, hnc⟩ := hcond
        left
        refine ⟨?_, hnull⟩
        rcases hnreq with hr | hr
        · exact hr
        · -- the member is `const` with a default: then its IR is `const`, contradiction
          simp only [Bool.not_eq_false'] at hr
          rw [isConst_tr] at hnc
          cases hp2 : p.2 <;> simp [hp2, constDefaulted] at hr hnc
      · right
        exact sd_member st o re defs h hdo g ih p.2 x (propsInSubset_mem hps hp)
          (propsOneOfFree_mem hof hp) hstrict.2 hf
  · -- extra members
    have hn2 : (List.map (fun p : List Char × Schema =>
        (p.1, req.contains p.1 && !constDefaulted st p.2, fieldCons st o p.2, tr st o .plain p.2)) props).map
          (·.1) = props.map (·.1) := by
      rw [List.map_map]; rfl
    obtain ⟨_, _, _, _, _, _, _, e3⟩ := h
    cases addl with
    | absent => simp
    | allow => simp
    | forbid =>
      simp only [e3, beq_self_eq_true, if_true] at hextra
      rw [hn2, ofBool_eq_accept] at hextra
      simpa using hextra

theorem sd_all (h : TableOK st) (hd : defsInSubset defs = true)
    (hdo : Schema.propsOneOfFree defs = true)
    (hds : defsStrict st o.fieldConstraints defs = true) : ∀ g, SDle st o re defs g := by
  intro g
  induction g with
  | zero =>
    intro g' hg' ctx s v _ _ _ hacc
    have : g' = 0 := by omega
    subst this
    simp [acceptsTy] at hacc
  | succ g ih =>
    intro g' hg'
    by_cases hle : g' ≤ g
    · exact ih g' hle
    · have : g' = g + 1 := by omega
      subst this
      intro ctx s v hsub hof hs hacc
      cases s with
      | any => simp [validJN]
      | null =>
        simp only [tr, acceptsTy] at hacc
        simp only [validJN]
        cases hn : v.isNull <;> simp [hn] at hacc ⊢
      | scalar ty n b =>
        simp only [Schema.inSubset] at hsub
        exact sd_scalar st o re defs h g ctx ty n b v hsub hs hacc
      | enum vals =>
        simp only [tr, acceptsTy, ofBool_eq_accept] at hacc
        simpa [validJN] using hacc
      | const a =>
        simp only [tr, acceptsTy, ofBool_eq_accept] at hacc
        simpa [validJN] using hacc
      | array items mn mx =>
        simp only [Schema.inSubset] at hsub
        simp only [Schema.oneOfFree] at hof
        exact sd_array st o re defs h hdo g ih ctx items mn mx v hsub hof hs hacc
      | object props req addl => exact sd_object st o re defs h hdo g ih ctx props req addl v hsub hof hs hacc
      | dict value =>
        simp only [Schema.inSubset] at hsub
        simp only [Schema.oneOfFree] at hof
        simp only [strictSafe] at hs
        have hnd : value.isDisc = false := by
          cases value <;> simp [Schema.isDisc] <;> simp [Schema.oneOfFree] at hof
        cases v <;> simp only [tr, acceptsTy, reduceCtorEq, hnd, Bool.false_eq_true, if_false] at hacc
        rename_i kvs
        rw [all_eq_accept] at hacc
        simp only [validJN, List.all_eq_true]
        intro kv hkv
        exact ih g (Nat.le_refl _) .plain value kv.2 hsub hof hs
          (hacc _ (List.mem_map.mpr ⟨kv, hkv, rfl⟩))
      | ref n =>
        simp only [tr, acceptsTy, lookup_trDefs] at hacc
        simp only [validJN]
        cases hl : defs.lookup n with
        | none => simp [hl] at hacc
        | some t =>
          simp only [hl, Option.map] at hacc
          exact ih g (Nat.le_refl _) .top t v (defs_lookup_inSubset hd hl)
            (propsOneOfFree_mem (p := (n, t)) hdo (lookup_mem defs n t hl)) (defsStrict_lookup hds hl) hacc
      | anyOf alts =>
        simp only [Schema.inSubset] at hsub
        simp only [Schema.oneOfFree] at hof
        simp only [strictSafe] at hs
        simp only [tr, acceptsTy, trAlts_eq_map, List.map_map] at hacc
        rw [any_eq_accept] at hacc
        obtain ⟨t, ht, hta⟩ := hacc
        simp only [List.mem_map, Function.comp] at ht
        obtain ⟨a, ha, rfl⟩ := ht
        simp only [validJN, List.any_eq_true]
        have hofa := allOneOfFree_mem hof ha
        have hnd : a.isDisc = false := by
          cases a <;> simp [Schema.isDisc] <;> simp [Schema.oneOfFree] at hofa
        rw [altTy_of_not_disc _ _ _ hnd] at hta
        exact ⟨a, ha, ih g (Nat.le_refl _) (.item false) a v (allInSubset_mem hsub ha)
          hofa (altsStrict_mem hs ha) hta⟩
      | oneOf alts => simp [Schema.oneOfFree] at hof
      | allOf refs props req xreq => simp [Schema.oneOfFree] at hof
      | disc one prop refs m => simp [Schema.oneOfFree] at hof
      | ndict value => simp [Schema.oneOfFree] at hof


end
end Dcg.Proofs.Sem
