import Dcg.Model.ReusePos
/-
Lemmas for the position bookkeeping of `Parser.__reuse_model` (Dcg/Model/ReusePos.lean):
the imperative pass on the live list equals the one-walk `spec`, and `spec` keeps the order of the input.
-/
namespace Dcg.Proofs.ReusePos
open Dcg.Model.ReusePos

/-- the input models are no inserted subclasses -/
abbrev PlainItems (ms : List Item) : Prop := ∀ m ∈ ms, m.sub = none

/-! ### the live list during the loop -/

/-- what the position of `m` holds when the LOOP is over (duplicate enums still there) -/
def keep (cache : Cache) (m : Item) : List Item :=
  match cache.lookup m.key with
  | none => [m]
  | some c =>
    match m.kind with
    | .obj => [mkSub m c]
    | _ => [m]

def dropped (cache : Cache) (m : Item) : List Item :=
  match cache.lookup m.key with
  | none => []
  | some _ =>
    match m.kind with
    | .enum => [m]
    | _ => []

def replGo : Cache → List Item → List Item
  | _, [] => []
  | c, m :: ms => keep c m ++ replGo (cacheStep c m) ms

def dupsGo : Cache → List Item → List Item
  | _, [] => []
  | c, m :: ms => dropped c m ++ dupsGo (cacheStep c m) ms

theorem mkSub_ne (m x : Item) (c : Nat) (hx : x.sub = none) : mkSub m c ≠ x := by
  intro h
  have : (mkSub m c).sub = none := by rw [h]; exact hx
  simp [mkSub] at this

/-- `index`, `insert`, `remove` on the live list: the subclass lands where the model stood -/
theorem insert_index_erase (R : List Item) (m s : Item) (post : List Item) (hR : m ∉ R) (hs : s ≠ m) :
    (insertAt ((R ++ m :: post).idxOf m) s (R ++ m :: post)).erase m = R ++ s :: post := by
  induction R with
  | nil =>
    simp only [List.nil_append, List.idxOf_cons_self, insertAt]
    rw [List.erase_cons_tail (by simpa using hs), List.erase_cons_head]
  | cons r R ih =>
    have hr : r ≠ m := fun h => hR (by simp [h])
    have hR' : m ∉ R := fun h => hR (by simp [h])
    simp only [List.cons_append]
    have hrb : (r == m) = false := by simpa using hr
    rw [List.idxOf_cons, hrb]
    simp only [cond_false, insertAt]
    rw [List.erase_cons_tail (by simpa using hr), ih hR']

theorem loop_inv (post : List Item) : ∀ (R : List Item) (c : Cache) (D : List Item),
    post.Nodup → PlainItems post → (∀ m ∈ post, m ∉ R) →
    ∃ c', loop ⟨R ++ post, c, D⟩ post = some ⟨R ++ replGo c post, c', D ++ dupsGo c post⟩ := by
  induction post with
  | nil => intro R c D _ _ _; exact ⟨c, by simp [loop, replGo, dupsGo]⟩
  | cons m post ih =>
    intro R c D hnd hpl hR
    have hm : m ∉ post := (List.nodup_cons.mp hnd).1
    have hnd' : post.Nodup := (List.nodup_cons.mp hnd).2
    have hpl' : PlainItems post := fun x hx => hpl x (by simp [hx])
    have hmR : m ∉ R := hR m (by simp)
    have hmsub : m.sub = none := hpl m (by simp)
    -- the live list with the head of the rest moved to the settled part
    have hfresh : ∀ x : Item, (x = m ∨ ∃ c0, x = mkSub m c0) → ∀ y ∈ post, y ∉ R ++ [x] := by
      intro x hx y hy hmem
      rcases List.mem_append.mp hmem with h | h
      · exact hR y (by simp [hy]) h
      · have hyx : y = x := by simpa using h
        rcases hx with rfl | ⟨c0, rfl⟩
        · exact hm (hyx ▸ hy)
        · exact mkSub_ne m y c0 (hpl' y hy) hyx.symm
    have hshift : ∀ x : Item, R ++ x :: post = (R ++ [x]) ++ post := by intro x; simp
    simp only [loop, step]
    cases hc : c.lookup m.key with
    | none =>
      obtain ⟨c', h⟩ := ih (R ++ [m]) (c ++ [(m.key, m.id)]) D hnd' hpl' (hfresh m (Or.inl rfl))
      refine ⟨c', ?_⟩
      simp only [Option.bind_some, hshift m, h]
      simp [replGo, dupsGo, keep, dropped, cacheStep, hc]
    | some c0 =>
      cases hk : m.kind with
      | enum =>
        obtain ⟨c', h⟩ := ih (R ++ [m]) c (D ++ [m]) hnd' hpl' (hfresh m (Or.inl rfl))
        refine ⟨c', ?_⟩
        simp only [Option.bind_some, hshift m, h]
        simp [replGo, dupsGo, keep, dropped, cacheStep, hc, hk]
      | alias =>
        obtain ⟨c', h⟩ := ih (R ++ [m]) c D hnd' hpl' (hfresh m (Or.inl rfl))
        refine ⟨c', ?_⟩
        simp only [Option.bind_some, hshift m, h]
        simp [replGo, dupsGo, keep, dropped, cacheStep, hc, hk]
      | obj =>
        obtain ⟨c', h⟩ := ih (R ++ [mkSub m c0]) c D hnd' hpl' (hfresh _ (Or.inr ⟨c0, rfl⟩))
        refine ⟨c', ?_⟩
        have hin : m ∈ R ++ m :: post := by simp
        simp only [hin, if_true, Option.bind_some]
        rw [insert_index_erase R m (mkSub m c0) post hmR (mkSub_ne m m c0 hmsub), hshift, h]
        simp [replGo, dupsGo, keep, dropped, cacheStep, hc, hk]

/-! ### the removal after the loop -/

theorem removeAll_cons_notin (D : List Item) : ∀ (x : Item) (L : List Item), x ∉ D →
    removeAll (x :: L) D = (removeAll L D).map (x :: ·) := by
  induction D with
  | nil => intro x L _; simp [removeAll]
  | cons d D ih =>
    intro x L hx
    have hxd : x ≠ d := fun h => hx (by simp [h])
    have hxD : x ∉ D := fun h => hx (by simp [h])
    simp only [removeAll, List.mem_cons]
    by_cases hd : d ∈ L
    · simp only [hd, or_true, if_true]
      rw [List.erase_cons_tail (by simpa using hxd), ih x _ hxD]
    · have hdx : d ≠ x := fun h => hxd h.symm
      simp [hdx, hd, removeAll]

theorem dupsGo_subset (l : List Item) : ∀ (c : Cache) (d : Item), d ∈ dupsGo c l → d ∈ l := by
  induction l with
  | nil => intro c d h; simp [dupsGo] at h
  | cons m l ih =>
    intro c d h
    simp only [dupsGo, List.mem_append] at h
    rcases h with h | h
    · have : d = m := by
        unfold dropped at h
        split at h
        · simp at h
        · split at h <;> simp at h
          exact h
      simp [this]
    · exact List.mem_cons_of_mem _ (ih _ _ h)

theorem removeAll_inv (l : List Item) : ∀ (c : Cache), l.Nodup → PlainItems l →
    removeAll (replGo c l) (dupsGo c l) = some (specGo c l) := by
  induction l with
  | nil => intro c _ _; simp [replGo, dupsGo, specGo, removeAll]
  | cons m l ih =>
    intro c hnd hpl
    have hm : m ∉ l := (List.nodup_cons.mp hnd).1
    have hnd' : l.Nodup := (List.nodup_cons.mp hnd).2
    have hpl' : PlainItems l := fun x hx => hpl x (by simp [hx])
    have hmD : m ∉ dupsGo (cacheStep c m) l := fun h => hm (dupsGo_subset l _ _ h)
    have hsD : ∀ c0, mkSub m c0 ∉ dupsGo (cacheStep c m) l := fun c0 h =>
      mkSub_ne m _ c0 (hpl' _ (dupsGo_subset l _ _ h)) rfl
    have one : ∀ x : Item, x ∉ dupsGo (cacheStep c m) l →
        removeAll (x :: replGo (cacheStep c m) l) (dupsGo (cacheStep c m) l) = some (x :: specGo (cacheStep c m) l) := by
      intro x hx
      rw [removeAll_cons_notin _ x _ hx, ih _ hnd' hpl']; rfl
    simp only [replGo, dupsGo, specGo, keep, dropped, img]
    cases hc : c.lookup m.key with
    | none => simpa using one m hmD
    | some c0 =>
      cases hk : m.kind with
      | enum =>
        simp only [List.singleton_append, List.nil_append, removeAll, List.mem_cons, true_or, if_true, List.erase_cons_head]
        exact ih _ hnd' hpl'
      | alias => simpa using one m hmD
      | obj => simpa using one _ (hsD c0)

/-- the pass on the live list is the one-walk `spec` -/
theorem pass_eq_spec (ms : List Item) (hnd : ms.Nodup) (hpl : PlainItems ms) : pass ms = some (spec ms) := by
  obtain ⟨c', h⟩ := loop_inv ms [] [] [] hnd hpl (by simp)
  simp only [List.nil_append] at h
  simp only [pass, h, Option.bind_some, spec]
  exact removeAll_inv ms [] hnd hpl

/-! ### `spec` keeps the order of the input -/

theorem specGo_append (l1 : List Item) : ∀ (c : Cache) (l2 : List Item),
    specGo c (l1 ++ l2) = specGo c l1 ++ specGo (cacheGo c l1) l2 := by
  induction l1 with
  | nil => intro c l2; simp [specGo, cacheGo]
  | cons m l1 ih => intro c l2; simp [specGo, cacheGo, ih, List.foldl_cons]

theorem img_ids (c : Cache) (m : Item) : (img c m).map (·.id) = [] ∨ (img c m).map (·.id) = [m.id] := by
  unfold img
  split
  · simp
  · split <;> simp [mkSub]

theorem img_of_not_enum (c : Cache) (m : Item) (h : m.kind ≠ .enum) : ∃ x, img c m = [x] ∧ x.id = m.id := by
  unfold img
  split
  · exact ⟨m, rfl, rfl⟩
  · split
    · exact absurd ‹_› h
    · exact ⟨m, rfl, rfl⟩
    · exact ⟨_, rfl, rfl⟩

theorem specGo_ids_sublist (l : List Item) : ∀ c : Cache, ((specGo c l).map (·.id)).Sublist (l.map (·.id)) := by
  induction l with
  | nil => intro c; simp [specGo]
  | cons m l ih =>
    intro c
    simp only [specGo, List.map_append, List.map_cons]
    rcases img_ids c m with h | h <;> rw [h]
    · exact (ih _).cons _
    · exact (ih _).cons_cons _

/-- the base of an inserted subclass: every entry of the cache names a model that has been written unchanged -/
def CacheOk (c : Cache) (acc : List Item) : Prop :=
  ∀ k i, c.lookup k = some i → ∃ b ∈ acc, b.id = i ∧ b.sub = none

theorem lookup_append_none {c : Cache} {k k' i' : Nat} {i : Nat} (hn : c.lookup k' = none)
    (h : (c ++ [(k', i')]).lookup k = some i) : c.lookup k = some i ∨ (k = k' ∧ i = i') := by
  induction c with
  | nil =>
    simp only [List.nil_append, List.lookup] at h
    split at h
    · right; exact ⟨by simpa using ‹(k == k') = true›, by simpa using h.symm⟩
    · simp [List.lookup] at h
  | cons p c ih =>
    obtain ⟨pk, pi⟩ := p
    simp only [List.cons_append, List.lookup] at h hn ⊢
    split at h
    · left; rename_i heq; simp [heq, h]
    · rename_i hne
      split at hn
      · simp at hn
      · rcases ih hn h with h' | h'
        · left; simp [hne, h']
        · right; exact h'

theorem specGo_sub_base (l : List Item) : ∀ (c : Cache) (acc : List Item), CacheOk c acc → PlainItems l →
    ∀ o1 x o2, specGo c l = o1 ++ x :: o2 → ∀ i, x.sub = some i →
      ∃ b ∈ acc ++ o1, b.id = i ∧ b.sub = none := by
  induction l with
  | nil => intro c acc _ _ o1 x o2 h; simp [specGo] at h
  | cons m l ih =>
    intro c acc hok hpl o1 x o2 h i hx
    have hpl' : PlainItems l := fun y hy => hpl y (by simp [hy])
    have hmsub : m.sub = none := hpl m (by simp)
    simp only [specGo] at h
    -- the cache after this turn is justified by what has been written so far
    have hok' : CacheOk (cacheStep c m) (acc ++ img c m) := by
      intro k j hl
      unfold cacheStep at hl
      cases hc : c.lookup m.key with
      | none =>
        simp only [hc] at hl
        rcases lookup_append_none hc hl with h1 | ⟨_, rfl⟩
        · obtain ⟨b, hb, hb'⟩ := hok k j h1
          exact ⟨b, by simp [hb], hb'⟩
        · exact ⟨m, by simp [img, hc], rfl, hmsub⟩
      | some c0 =>
        simp only [hc] at hl
        obtain ⟨b, hb, hb'⟩ := hok k j hl
        exact ⟨b, by simp [hb], hb'⟩
    -- is `x` the image of `m`, or does it come later?
    have hlen : (img c m).length ≤ 1 := by
      unfold img; split
      · simp
      · split <;> simp
    match himg : img c m with
    | [] =>
      rw [himg] at h hok'
      simp only [List.nil_append, List.append_nil] at h hok'
      exact ih _ acc hok' hpl' o1 x o2 h i hx
    | [y] =>
      rw [himg] at h hok'
      cases o1 with
      | nil =>
        simp only [List.nil_append, List.singleton_append, List.cons.injEq] at h
        obtain ⟨rfl, _⟩ := h
        -- x = y is the image of m: a subclass, and its base is in the cache
        have : ∃ c0, c.lookup m.key = some c0 ∧ c0 = i := by
          unfold img at himg
          cases hc : c.lookup m.key with
          | none =>
            simp only [hc, List.cons.injEq, and_true] at himg
            rw [← himg, hmsub] at hx; simp at hx
          | some c0 =>
            simp only [hc] at himg
            cases hk : m.kind with
            | enum => simp [hk] at himg
            | alias =>
              simp only [hk, List.cons.injEq, and_true] at himg
              rw [← himg, hmsub] at hx; simp at hx
            | obj =>
              simp only [hk, List.cons.injEq, and_true] at himg
              rw [← himg] at hx
              exact ⟨c0, rfl, by simpa [mkSub] using hx⟩
        obtain ⟨c0, hc, rfl⟩ := this
        obtain ⟨b, hb, hb'⟩ := hok _ _ hc
        exact ⟨b, by simpa using hb, hb'⟩
      | cons z o1 =>
        simp only [List.singleton_append, List.cons_append, List.cons.injEq] at h
        obtain ⟨rfl, h⟩ := h
        obtain ⟨b, hb, hb'⟩ := ih _ (acc ++ [y]) hok' hpl' o1 x o2 h i hx
        exact ⟨b, by simpa using hb, hb'⟩
    | _ :: _ :: _ => rw [himg] at hlen; simp at hlen

end Dcg.Proofs.ReusePos
