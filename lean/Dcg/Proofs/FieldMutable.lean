import Dcg.Proofs.Field
/-! Exhaustive kernel evaluation over every valid reduced vector (closed-form template decision). -/
namespace Dcg.Proofs.Field
open Dcg.Model.Field

theorem mutableExact_closed : AllR (fun r d _ => !r && d.isMutable) (MutableExact closedDecision) := by decide +kernel

theorem dcFactory_closed : AllR (fun r d _ => !r && d.isMutable) (DcFactory closedDecision) := by decide +kernel

end Dcg.Proofs.Field
