import Dcg.Model.TreeBridge
import Dcg.Proofs.Rename
/-
Helper lemmas for the composition C13 ∘ C03: the trees `toDT N pos (tr st o ctx s)` satisfy the structural
hypotheses of C13's theorems.
-/
namespace Dcg.Proofs.TreeBridge
open Dcg.Sem Dcg.Model Dcg.Model.Constraints Dcg.Model.Translate Dcg.Model.Types Dcg.Model.HintExpr Dcg.Model.TreeBridge

/-! ### `anyContPlain`: EVERY tree the bridge builds, from every IR type -/

theorem acp_refs (N : Naming) (bs : List (List Atom × List Char)) :
    anyContPlainL (bs.map (fun b => refT (N.ref b.2))) = true := by
  induction bs with
  | nil => rfl
  | cons b bs ih =>
    simp only [List.map_cons, anyContPlainL, ih, Bool.and_true]
    simp [refT, anyContPlain, anyContPlainA, anyContPlainO, anyContPlainL, isCont]

mutual
theorem acp_toDT (N : Naming) : ∀ (pos : List Nat) (t : Ty), anyContPlain (toDT N pos t) = true
  | _, .any => by simp [toDT, leafT, anyContPlain, anyContPlainA, anyContPlainO, anyContPlainL, isCont]
  | _, .null => by simp [toDT, leafT, anyContPlain, anyContPlainA, anyContPlainO, anyContPlainL, isCont]
  | _, .scalar _ _ => by
    simp only [toDT]; split <;> simp [unmodelled, leafT, anyContPlain, anyContPlainA, anyContPlainO, anyContPlainL, isCont]
  | _, .const _ => by simp [toDT, unmodelled, anyContPlain, anyContPlainA, anyContPlainO, anyContPlainL, isCont]
  | _, .enumCls _ => by simp [toDT, refT, anyContPlain, anyContPlainA, anyContPlainO, anyContPlainL, isCont]
  | pos, .list item => by
    cases h : isAnyTy item <;>
      simp [toDT, h, anyContPlain, anyContPlainA, anyContPlainO, anyContPlainL, isCont, refNullable, acp_toDT N (0 :: 0 :: pos) item]
  | pos, .dict v => by
    simp [toDT, anyContPlain, anyContPlainA, anyContPlainO, anyContPlainL, isCont, refNullable, acp_toDT N (0 :: pos) v]
  | _, .model _ _ => by simp [toDT, refT, anyContPlain, anyContPlainA, anyContPlainO, anyContPlainL, isCont]
  | _, .root _ _ => by simp [toDT, refT, anyContPlain, anyContPlainA, anyContPlainO, anyContPlainL, isCont]
  | _, .derived _ _ _ => by simp [toDT, refT, anyContPlain, anyContPlainA, anyContPlainO, anyContPlainL, isCont]
  | _, .ref _ => by simp [toDT, refT, anyContPlain, anyContPlainA, anyContPlainO, anyContPlainL, isCont]
  | pos, .opt t => by
    cases h : isFreeDictTy t <;>
      simp [toDT, h, freeDict, anyContPlain, anyContPlainA, anyContPlainO, anyContPlainL, isCont, refNullable,
        acp_toDT N (0 :: pos) t]
  | pos, .union ts => by
    cases h : ts.isEmpty <;>
      simp [toDT, h, leafT, anyContPlain, anyContPlainA, anyContPlainO, anyContPlainL, isCont, acp_toDTs N pos 0 ts]
  | _, .tagged _ bs => by
    simp [toDT, anyContPlain, anyContPlainA, anyContPlainO, isCont, acp_refs N bs]
theorem acp_toDTs (N : Naming) : ∀ (pos : List Nat) (i : Nat) (ts : List Ty), anyContPlainL (toDTs N pos i ts) = true
  | _, _, [] => by simp [toDTs, anyContPlainL]
  | pos, i, t :: ts => by simp [toDTs, anyContPlainL, acp_toDT N (i :: pos) t, acp_toDTs N pos (i + 1) ts]
end


/-! ### a per-node predicate on every tree `toDT ∘ tr` builds from a supported schema -/

/-- what the predicate must grant: exactly the node kinds the parser builds for the supported subset -/
structure NodeOK (N : Naming) (p : Attrs → Nat → Bool) (u : Bool) : Prop where
  leaf : ∀ s, s = sAny ∨ s = sNone ∨ s = sInt ∨ s = sFloat ∨ s = sStr ∨ s = sBool → p { ty := s } 0 = true
  cls : ∀ pos, p { ref := some { shortName := N.cls pos } } 0 = true
  ref : ∀ n, p { ref := some { shortName := N.ref n } } 0 = true
  wrap1 : p {} 1 = true
  list1 : p { isList := true } 1 = true
  dict1 : p { isDict := true } 1 = true
  opt1 : p { isOptional := true } 1 = true
  free : p { ty := sAny, isDict := true } 0 = true
  union : u = true → ∀ n, 0 < n → p {} n = true

theorem tr_not_any (st : Style) (o : Translate.Opts) (ctx : Ctx) (s : Schema) (h : ∀ _ : s = .any, False) :
    isAnyTy (tr st o ctx s) = false := by
  cases s <;> first
    | exact absurd rfl (fun e => h e)
    | (cases ctx <;> simp only [tr, scalarCore] <;> (repeat' split) <;> rfl)

theorem isDisc_eq (s : Schema) (h : s.isDisc = true) : ∃ a b c d, s = .disc a b c d := by
  cases s <;> simp [Schema.isDisc] at h
  exact ⟨_, _, _, _, rfl⟩

theorem scalar_leaf {N : Naming} {p : Attrs → Nat → Bool} {u : Bool} (h : NodeOK N p u) (ty : STy) :
    p { ty := scalarName ty } 0 = true := by
  cases ty <;> exact h.leaf _ (by simp [scalarName])

theorem all_refs {N : Naming} {p : Attrs → Nat → Bool} {u : Bool} (h : NodeOK N p u) (pos : List Nat) (i : Nat)
    (refs : List (List Char)) : allNodesL p (toDTs N pos i (refs.map .ref)) = true := by
  induction refs generalizing i with
  | nil => rfl
  | cons r rs ih => simp [toDTs, toDT, refT, allNodesL, allNodes, allNodesO, h.ref r, ih]

theorem all_branches {N : Naming} {p : Attrs → Nat → Bool} {u : Bool} (h : NodeOK N p u)
    (bs : List (List Atom × List Char)) : allNodesL p (bs.map (fun b => refT (N.ref b.2))) = true := by
  induction bs with
  | nil => rfl
  | cons b bs ih =>
    simp only [List.map_cons, allNodesL, ih, Bool.and_true]
    simp [refT, allNodes, allNodesO, allNodesL, h.ref b.2]

theorem toDTs_length (N : Naming) (pos : List Nat) (i : Nat) (ts : List Ty) : (toDTs N pos i ts).length = ts.length := by
  induction ts generalizing i with
  | nil => rfl
  | cons t ts ih => simp [toDTs, ih]

theorem trAlts_length (st : Style) (o : Translate.Opts) (alts : List Schema) : (trAlts st o alts).length = alts.length := by
  induction alts with
  | nil => rfl
  | cons a as ih => simp [trAlts, ih]

/-- a union of class references, as the bridge builds it for a discriminated union that is not a field extra -/
theorem all_refUnion {N : Naming} {p : Attrs → Nat → Bool} {u : Bool} (h : NodeOK N p u) (hu : u = true) (pos : List Nat)
    (refs : List (List Char)) (hne : refs.isEmpty = false) :
    allNodes p (toDT N pos (.union (refs.map .ref))) = true := by
  have hl : 0 < refs.length := by cases refs <;> simp_all
  have : (refs.map Ty.ref).isEmpty = false := by cases refs <;> simp_all
  simp [toDT, this, allNodes, allNodesO, all_refs h pos 0 refs, toDTs_length, h.union hu _ hl]

mutual
theorem all_tr {N : Naming} {p : Attrs → Nat → Bool} {u : Bool} (h : NodeOK N p u) (st : Style) (o : Translate.Opts)
    (hfc : o.fieldConstraints = true) :
    ∀ (ctx : Ctx) (pos : List Nat) (s : Schema), sup u s = true → allNodes p (toDT N pos (tr st o ctx s)) = true
  | _, _, .any, _ => by simp [tr, toDT, leafT, allNodes, allNodesO, allNodesL, h.leaf sAny (Or.inl rfl)]
  | _, _, .null, _ => by simp [tr, toDT, leafT, allNodes, allNodesO, allNodesL, h.leaf sNone (Or.inr (Or.inl rfl))]
  | ctx, pos, .scalar ty n b, _ => by
    have hc : typeCons st o ty b = {} := by simp [typeCons, hfc]
    cases ctx <;> cases n <;> simp only [tr, scalarCore, hc] <;> (try split) <;>
      simp [toDT, leafT, refT, isFreeDictTy, allNodes, allNodesO, allNodesL, h.cls pos, h.opt1, scalar_leaf h ty]
  | _, pos, .enum _, _ => by simp [tr, toDT, refT, allNodes, allNodesO, allNodesL, h.cls pos]
  | _, _, .const _, hs => by simp [sup] at hs
  | ctx, pos, .array items mn mx, hs => by
    simp only [sup, Bool.and_eq_true] at hs
    have hna : isAnyTy (tr st o (.item (mn.isSome || mx.isSome)) items) = false :=
      tr_not_any st o _ items (fun e => by subst e; simp at hs)
    have ih := all_tr h st o hfc (.item (mn.isSome || mx.isSome)) (0 :: 0 :: pos) items hs.2
    cases ctx <;> simp only [tr] <;> (try split) <;>
      simp [toDT, refT, hna, allNodes, allNodesO, allNodesL, h.cls pos, h.wrap1, h.list1, ih]
  | _, pos, .object _ _ _, _ => by simp [tr, toDT, refT, allNodes, allNodesO, allNodesL, h.cls pos]
  | _, pos, .dict value, hs => by
    simp only [sup] at hs
    cases hv : value.isDisc with
    | true =>
      obtain ⟨a, b, c, d, rfl⟩ := isDisc_eq value hv
      simp only [sup, Bool.and_eq_true, Bool.not_eq_true'] at hs
      have := all_refUnion h hs.1 (0 :: pos) c hs.2
      simp [tr, Schema.isDisc, Schema.discRefs, toDT, allNodes, allNodesO, allNodesL, h.dict1] at this ⊢
      exact this
    | false =>
      have ih := all_tr h st o hfc .plain (0 :: pos) value hs
      simp [tr, hv, toDT, allNodes, allNodesO, allNodesL, h.dict1, ih]
  | ctx, pos, .ndict _, _ => by
    cases ctx <;>
      simp [tr, toDT, refT, freeDict, isFreeDictTy, allNodes, allNodesO, allNodesL, h.cls pos, h.opt1, h.free]
  | _, _, .ref n, _ => by simp [tr, toDT, refT, allNodes, allNodesO, allNodesL, h.ref n]
  | _, pos, .anyOf alts, hs => by
    simp only [sup, Bool.and_eq_true] at hs
    cases alts with
    | nil => simp [tr, trAlts, toDT, leafT, allNodes, allNodesO, allNodesL, h.leaf sAny (Or.inl rfl)]
    | cons a as =>
      have ih := all_trAlts h st o hfc pos 0 (a :: as) hs.2
      have hne : (trAlts st o (a :: as)).isEmpty = false := by simp [trAlts]
      simp [tr, toDT, hne, allNodes, allNodesO, ih, toDTs_length, trAlts_length, h.union hs.1]
  | _, pos, .oneOf alts, hs => by
    simp only [sup, Bool.and_eq_true] at hs
    cases alts with
    | nil => simp [tr, trAlts, toDT, leafT, allNodes, allNodesO, allNodesL, h.leaf sAny (Or.inl rfl)]
    | cons a as =>
      have ih := all_trAlts h st o hfc pos 0 (a :: as) hs.2
      have hne : (trAlts st o (a :: as)).isEmpty = false := by simp [trAlts]
      simp [tr, toDT, hne, allNodes, allNodesO, ih, toDTs_length, trAlts_length, h.union hs.1]
  | ctx, pos, .allOf refs props req xreq, _ => by
    simp only [tr]; split <;> simp [toDT, refT, allNodes, allNodesO, allNodesL, h.cls pos, h.ref]
  | ctx, pos, .disc _ prop refs mapping, hs => by
    simp only [sup, Bool.and_eq_true, Bool.not_eq_true'] at hs
    have hl : 0 < refs.length := by cases refs <;> simp_all
    cases ctx with
    | plain =>
      simp only [tr, toDT, allNodes, allNodesO, all_branches h, Bool.and_true]
      simp [branchesOf, h.union hs.1 _ hl]
    | top => simp [tr, toDT, refT, allNodes, allNodesO, allNodesL, h.cls pos]
    | item _ => simp [tr, toDT, refT, allNodes, allNodesO, allNodesL, h.cls pos]
theorem all_trAlts {N : Naming} {p : Attrs → Nat → Bool} {u : Bool} (h : NodeOK N p u) (st : Style) (o : Translate.Opts)
    (hfc : o.fieldConstraints = true) :
    ∀ (pos : List Nat) (i : Nat) (alts : List Schema), supL u alts = true →
      allNodesL p (toDTs N pos i (trAlts st o alts)) = true
  | _, _, [], _ => by simp [trAlts, toDTs, allNodesL]
  | pos, i, a :: as, hs => by
    simp only [supL, Bool.and_eq_true] at hs
    have ih := all_trAlts h st o hfc pos (i + 1) as hs.2
    cases hv : a.isDisc with
    | true =>
      obtain ⟨x, b, c, d, rfl⟩ := isDisc_eq a hv
      have hs1 := hs.1
      simp only [sup, Bool.and_eq_true, Bool.not_eq_true'] at hs1
      have := all_refUnion h hs1.1 (i :: pos) c hs1.2
      simp [trAlts, Schema.isDisc, Schema.discRefs, toDTs, allNodesL, ih, this]
    | false =>
      have := all_tr h st o hfc (.item false) (i :: pos) a hs.1
      simp [trAlts, hv, toDTs, allNodesL, ih, this]
end


/-! ### the hypotheses of C13's theorems as per-node predicates -/
open Dcg.Proofs.Types

mutual
theorem wfTree_eq : ∀ t : DT, wfTree t = allNodes wfAttrs t
  | .mk a key kids => by simp [wfTree, allNodes, wfTreeO_eq key, wfTreeL_eq kids]
theorem wfTreeO_eq : ∀ k : Option DT, wfTreeO k = allNodesO wfAttrs k
  | none => rfl
  | some k => by simp [wfTreeO, allNodesO, wfTree_eq k]
theorem wfTreeL_eq : ∀ ts : List DT, wfTreeL ts = allNodesL wfAttrs ts
  | [] => rfl
  | t :: ts => by simp [wfTreeL, allNodesL, wfTree_eq t, wfTreeL_eq ts]
end

mutual
theorem freeTree_eq : ∀ t : DT, freeTree t = allNodes (fun a _ => freeAttrs a) t
  | .mk a key kids => by simp [freeTree, allNodes, freeTreeO_eq key, freeTreeL_eq kids]
theorem freeTreeO_eq : ∀ k : Option DT, freeTreeO k = allNodesO (fun a _ => freeAttrs a) k
  | none => rfl
  | some k => by simp [freeTreeO, allNodesO, freeTree_eq k]
theorem freeTreeL_eq : ∀ ts : List DT, freeTreeL ts = allNodesL (fun a _ => freeAttrs a) ts
  | [] => rfl
  | t :: ts => by simp [freeTreeL, allNodesL, freeTree_eq t, freeTreeL_eq ts]
end

mutual
/-- a tree without a node of two or more members has no union node: it is inside `opRegion` -/
theorem opRegion_of_small (o : Types.Opts) : ∀ t : DT, allNodes (fun _ n => decide (n < 2)) t = true → opRegion o t = true
  | .mk a key kids, h => by
    simp only [allNodes, Bool.and_eq_true, decide_eq_true_eq] at h
    have hn : nodeRegion o a kids = true := by
      rw [nodeRegion, if_neg (fun hc => Nat.not_le.mpr h.1.1 hc.2)]
    simp [opRegion, hn, opRegionO_of_small o key h.1.2, opRegionL_of_small o kids h.2]
theorem opRegionO_of_small (o : Types.Opts) : ∀ k : Option DT, allNodesO (fun _ n => decide (n < 2)) k = true → opRegionO o k = true
  | none, _ => rfl
  | some k, h => by simp only [allNodesO] at h; simp [opRegionO, opRegion_of_small o k h]
theorem opRegionL_of_small (o : Types.Opts) : ∀ ts : List DT, allNodesL (fun _ n => decide (n < 2)) ts = true → opRegionL o ts = true
  | [], _ => rfl
  | t :: ts, h => by
    simp only [allNodesL, Bool.and_eq_true] at h
    simp [opRegionL, opRegion_of_small o t h.1, opRegionL_of_small o ts h.2]
end

/-- class names are plain: non-empty, none of `[ ] , |`, no white space (every Python identifier is) -/
def namesPlain (N : Naming) : Prop := (∀ pos, plainName (N.cls pos) = true) ∧ (∀ n, plainName (N.ref n) = true)
/-- no class is named like one of the nine container names (`List`, `list`, `Sequence`, …) -/
def namesFree (N : Naming) : Prop :=
  (∀ pos, allCont.contains (N.cls pos) = false) ∧ (∀ n, allCont.contains (N.ref n) = false)

theorem nodeOK_wf (N : Naming) (hN : namesPlain N) (u : Bool) : NodeOK N wfAttrs u where
  leaf := by intro s hs; rcases hs with rfl | rfl | rfl | rfl | rfl | rfl <;> decide
  cls := by intro pos; simp [wfAttrs, hN.1 pos]
  ref := by intro n; simp [wfAttrs, hN.2 n]
  wrap1 := by decide
  list1 := by decide
  dict1 := by decide
  opt1 := by decide
  free := by decide
  union := by intro _ n hn; simp [wfAttrs]; omega

theorem nodeOK_free (N : Naming) (hN : namesFree N) (u : Bool) : NodeOK N (fun a _ => freeAttrs a) u where
  leaf := by intro s hs; rcases hs with rfl | rfl | rfl | rfl | rfl | rfl <;> decide
  cls := by
    intro pos; have := hN.1 pos
    simp only [freeAttrs, List.all_nil, Bool.and_true, Bool.and_eq_true, Bool.not_eq_true']
    exact ⟨by decide, this⟩
  ref := by
    intro n; have := hN.2 n
    simp only [freeAttrs, List.all_nil, Bool.and_true, Bool.and_eq_true, Bool.not_eq_true']
    exact ⟨by decide, this⟩
  wrap1 := by decide
  list1 := by decide
  dict1 := by decide
  opt1 := by decide
  free := by decide
  union := by intro _ n _; decide

theorem nodeOK_small (N : Naming) : NodeOK N (fun _ n => decide (n < 2)) false where
  leaf := by intro s _; decide
  cls := by intro pos; decide
  ref := by intro n; decide
  wrap1 := by decide
  list1 := by decide
  dict1 := by decide
  opt1 := by decide
  free := by decide
  union := by intro h; cases h

end Dcg.Proofs.TreeBridge
