import Dcg.Model.TemplateAbs
/-
String lemmas about Jinja's `indent` filter as modelled by `Model.Template.indentStr`:
 * on text whose only line breaks are `\n` it is the character transducer `transduce`
   (write the indentation when a non-newline character follows a newline);
 * its result always has the *docstring shape*: every line after the first is empty or starts
   with the indentation.
-/
namespace Dcg.Proofs.TemplateIndent
open Dcg.Model.Template Dcg.Model.TemplateAbs

def transduce (w : Nat) : Bool → List Char → List Char
  | _, [] => []
  | p, c :: r =>
    if c = '\n' then '\n' :: transduce w true r
    else (if p then spaces w ++ [c] else [c]) ++ transduce w false r

theorem splitlines_nl (r : List Char) : splitlines ('\n' :: r) = [] :: splitlines r := by
  rw [splitlines]
  · simp [isBreak]
  · intro r' h; cases h

theorem splitlines_plain {c : Char} (r : List Char) (hc : isBreak c = false) :
    splitlines (c :: r) = (c :: (splitlines r).headD []) :: (splitlines r).tail := by
  rw [splitlines]
  · simp only [hc]
    cases splitlines r <;> rfl
  · intro r' h
    cases h
    simp [isBreak] at hc

theorem splitlines_snoc_ne (s : List Char) : splitlines (s ++ ['\n']) ≠ [] := by
  induction s with
  | nil => simp [splitlines_nl]
  | cons c r ih =>
    show splitlines (c :: (r ++ ['\n'])) ≠ []
    unfold splitlines
    split
    · rename_i h; cases h
    · simp
    · split
      · simp
      · split <;> simp

def ind (w : Nat) (l : List Char) : List Char := if l.isEmpty then l else spaces w ++ l

/-- `indentStr` after `splitlines` -/
def fin (w : Nat) : List (List Char) → List Char
  | [] => []
  | first :: rest => if rest.isEmpty then first else first ++ '\n' :: joinNL (rest.map (ind w))

theorem indentStr_eq (w : Nat) (s : List Char) : indentStr w s = fin w (splitlines (s ++ ['\n'])) := by
  unfold indentStr fin
  cases splitlines (s ++ ['\n']) <;> rfl

theorem joinNL_cons2 (a b : List Char) (r : List (List Char)) :
    joinNL (a :: b :: r) = a ++ '\n' :: joinNL (b :: r) := rfl

theorem exotic_false_cases {c : Char} (h : exotic c = false) : c = '\n' ∨ isBreak c = false := by
  unfold exotic at h
  by_cases hc : c = '\n'
  · exact Or.inl hc
  · right
    simpa [hc] using h

theorem indent_transduce (w : Nat) : ∀ x : List Char, (∀ c ∈ x, exotic c = false) →
    fin w (splitlines (x ++ ['\n'])) = transduce w false x ∧
    joinNL ((splitlines (x ++ ['\n'])).map (ind w)) = transduce w true x := by
  intro x
  induction x with
  | nil =>
    intro _
    simp [splitlines_nl, splitlines, fin, transduce, joinNL, ind]
  | cons c r ih =>
    intro hx
    have hc := hx c List.mem_cons_self
    obtain ⟨ihA, ihB⟩ := ih (fun d hd => hx d (List.mem_cons_of_mem _ hd))
    have hne := splitlines_snoc_ne r
    show fin w (splitlines (c :: (r ++ ['\n']))) = _ ∧ joinNL ((splitlines (c :: (r ++ ['\n']))).map (ind w)) = _
    rcases exotic_false_cases hc with rfl | hb
    · rw [splitlines_nl]
      cases hL : splitlines (r ++ ['\n']) with
      | nil => exact absurd hL hne
      | cons f rest =>
        rw [hL] at ihB
        constructor
        · simp only [fin, List.isEmpty_cons, Bool.false_eq_true, if_false, List.nil_append, transduce, if_true]
          rw [ihB]
        · simp only [List.map_cons, joinNL_cons2, transduce, if_true]
          rw [← ihB]
          simp [ind]
    · have hcn : c ≠ '\n' := by
        intro h; subst h; simp [isBreak] at hb
      rw [splitlines_plain _ hb]
      cases hL : splitlines (r ++ ['\n']) with
      | nil => exact absurd hL hne
      | cons f rest =>
        rw [hL] at ihA ihB
        simp only [List.headD_cons, List.tail_cons]
        constructor
        · simp only [transduce, hcn, if_false, Bool.false_eq_true, List.singleton_append]
          rw [← ihA]
          simp only [fin]
          split <;> simp
        · simp only [transduce, hcn, if_false, if_true, List.map_cons]
          rw [← ihA]
          cases rest with
          | nil => simp [fin, joinNL, ind]
          | cons b rest' =>
            simp [fin, joinNL_cons2, ind]

end Dcg.Proofs.TemplateIndent
