import Dcg.Model.Config
/-! Helper lemmas about `Dcg.Model.Config` (association lists, the two couplings). -/
namespace Dcg.Proofs.Config
open Dcg.Model.Config

theorem kUA_ne_kFC : kUA ≠ kFC := by decide
theorem kOMT_ne_kUA : kOMT ≠ kUA := by decide
theorem kOMT_ne_kFC : kOMT ≠ kFC := by decide

theorem lookup_filter_ne {k k' : Key} (m : OptMap) (h : k ≠ k') :
    (m.filter (fun kv => kv.1 != k')).lookup k = m.lookup k := by
  induction m with
  | nil => rfl
  | cons a m ih =>
    obtain ⟨a1, a2⟩ := a
    by_cases h1 : a1 = k'
    · subst h1
      have hk : (k == a1) = false := by simpa using h
      simp [List.filter, List.lookup, hk, ih]
    · have h2 : (a1 != k') = true := by simpa using h1
      simp only [List.filter, h2, List.lookup]
      split <;> simp_all

theorem lookup_upsert_ne {k k' : Key} (m : OptMap) (v : Val) (h : k ≠ k') :
    (upsert m k' v).lookup k = m.lookup k := by
  have hk : (k == k') = false := by simpa using h
  simp [upsert, List.lookup, hk, lookup_filter_ne m h]

theorem lookup_upsert_self (m : OptMap) (k : Key) (v : Val) : (upsert m k v).lookup k = some v := by
  simp [upsert, List.lookup]

theorem given_map_some (opts : OptMap) : given (opts.map (fun kv => (kv.1, some kv.2))) = opts := by
  induction opts with
  | nil => rfl
  | cons a m ih => simp_all [given, List.filterMap]

theorem setArgs_nil : setArgs [] = [] := by
  simp [setArgs, given, coupleMsgspec, coupleAnnotated, List.lookup]

/-- keys other than the two coupled ones are untouched by the couplings -/
theorem lookup_setArgs_ne (cli : List (Key × Option Val)) {k : Key} (h1 : k ≠ kUA) (h2 : k ≠ kFC) :
    (setArgs cli).lookup k = (given cli).lookup k := by
  unfold setArgs coupleAnnotated coupleMsgspec
  split <;> split <;> simp [lookup_upsert_ne _ _ h1, lookup_upsert_ne _ _ h2]

theorem validateRoot_ne (c : Cfg) {k : Key} (h : k ≠ kFC) : validateRoot c k = c k := by
  simp [validateRoot, h]

theorem parse_some {E : Env} {m : OptMap} {c : Cfg} (h : parse E m = some c) :
    c = validateRoot (over E.defaults m) := by
  unfold parse at h
  simp only at h
  split at h
  · exact (Option.some.inj h).symm
  · cases h

theorem merge_some {E : Env} {py : OptMap} {cli : List (Key × Option Val)} {c : Cfg}
    (h : merge E py cli = some c) :
    ∃ c0 p, parse E py = some c0 ∧ parse E (setArgs cli) = some p ∧
      c = fun k => if hasKey (setArgs cli) k then p k else c0 k := by
  unfold merge at h
  split at h
  · rename_i c0 p h1 h2
    exact ⟨c0, p, h1, h2, (Option.some.inj h).symm⟩
  · cases h

/-- the couplings leave the parsed configuration unchanged when msgspec is not selected -/
theorem validateRoot_setArgs (d : Key → Val) (opts : OptMap) (hm : opts.lookup kOMT ≠ some msgspec) :
    validateRoot (over d (coupleAnnotated (coupleMsgspec opts))) = validateRoot (over d opts) := by
  have h0 : coupleMsgspec opts = opts := by simp [coupleMsgspec, hm]
  rw [h0]
  unfold coupleAnnotated
  split
  · rename_i hua
    funext k
    by_cases hk : k = kFC
    · subst hk
      have hu : truthy (over d opts kUA) = true := by
        unfold over
        cases hl : opts.lookup kUA with
        | none => simp [hl] at hua
        | some u => simpa [hl] using hua
      have hu' : truthy (over d (upsert opts kFC (k! "True")) kUA) = true := by
        unfold over
        rw [lookup_upsert_ne _ _ kUA_ne_kFC]
        exact hu
      simp [validateRoot, hu, hu']
    · rw [validateRoot_ne _ hk, validateRoot_ne _ hk]
      unfold over
      rw [lookup_upsert_ne _ _ hk]
  · rfl

end Dcg.Proofs.Config
