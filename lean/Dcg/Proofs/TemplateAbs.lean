import Dcg.Model.TemplateAbs
import Dcg.Proofs.TemplateIndent
/-
Soundness of the abstract interpretation `Model.TemplateAbs.absL` with respect to the interpreter
`Model.Template.renderL`, for EVERY automaton and every environment — proved once, by induction
over the template syntax.  Per-template results follow by evaluating `check` in the kernel.
-/
namespace Dcg.Proofs.TemplateAbs
open Dcg.Model.TemplateSyntax Dcg.Model.Template Dcg.Model.TemplateAbs Dcg.Proofs.TemplateIndent

/-! ### small list facts -/

theorem mem_insertNew {α} [DecidableEq α] {x y : α} {l : List α} :
    y ∈ insertNew x l ↔ y ∈ l ∨ y = x := by
  unfold insertNew
  split
  · constructor
    · intro h; exact Or.inl h
    · rintro (h | h)
      · exact h
      · subst h; assumption
  · simp

theorem mem_union {α} [DecidableEq α] {a b : List α} {y : α} : y ∈ union a b ↔ y ∈ a ∨ y ∈ b := by
  unfold union
  induction b generalizing a with
  | nil => simp
  | cons x r ih =>
    simp only [List.foldl_cons, List.mem_cons]
    rw [ih, mem_insertNew]
    constructor
    · rintro ((h | h) | h)
      · exact Or.inl h
      · exact Or.inr (Or.inl h)
      · exact Or.inr (Or.inr h)
    · rintro (h | h | h)
      · exact Or.inl (Or.inl h)
      · exact Or.inl (Or.inr h)
      · exact Or.inr h

theorem mem_dedup {α} [DecidableEq α] {l : List α} {y : α} : y ∈ dedup l ↔ y ∈ l := by
  unfold dedup; rw [mem_union]; simp

theorem subset_sound {α} [DecidableEq α] {a b : List α} (h : subset a b = true) : ∀ x ∈ a, x ∈ b := by
  unfold subset at h
  intro x hx
  have := List.all_eq_true.mp h x hx
  simpa using this

theorem closeLoop_sound {α} [DecidableEq α] (f : List α → Option (List α)) :
    ∀ (n : Nat) (S T : List α), closeLoop f n S = some T →
      (∀ x ∈ S, x ∈ T) ∧ ∃ T', f T = some T' ∧ ∀ x ∈ T', x ∈ T := by
  intro n
  induction n with
  | zero =>
    intro S T h
    simp only [closeLoop] at h
    cases hf : f S with
    | none => simp [hf] at h
    | some S' =>
      simp only [hf, Option.bind_eq_bind, Option.bind_some] at h
      split at h
      · rename_i hs
        cases h
        exact ⟨fun x hx => hx, S', hf, subset_sound hs⟩
      · cases h
  | succ n ih =>
    intro S T h
    simp only [closeLoop] at h
    cases hf : f S with
    | none => simp [hf] at h
    | some S' =>
      simp only [hf, Option.bind_eq_bind, Option.bind_some] at h
      split at h
      · rename_i hs
        cases h
        exact ⟨fun x hx => hx, S', hf, subset_sound hs⟩
      · obtain ⟨h1, h2⟩ := ih _ _ h
        exact ⟨fun x hx => h1 x (mem_union.mpr (Or.inl hx)), h2⟩

theorem mem_of_lookup {α β} [BEq α] [LawfulBEq α] {l : List (α × β)} {k : α} {b : β}
    (h : l.lookup k = some b) : (k, b) ∈ l := by
  induction l with
  | nil => simp [List.lookup] at h
  | cons p r ih =>
    obtain ⟨k', b'⟩ := p
    simp only [List.lookup] at h
    split at h
    · rename_i heq
      have : k = k' := by simpa using heq
      cases h; subst this; exact List.mem_cons_self
    · exact List.mem_cons_of_mem _ (ih h)

/-! ### the monad -/

theorem bind_ok {ε α β} {x : Except ε α} {f : α → Except ε β} {b : β}
    (h : (x >>= f) = .ok b) : ∃ a, x = .ok a ∧ f a = .ok b := by
  cases x with
  | error e => cases h
  | ok a => exact ⟨a, rfl, h⟩

/-! ### automaton runs -/

theorem runM_append (A : Auto) (mq : MQ A) (a b : List Char) :
    runM A mq (a ++ b) = runM A (runM A mq a) b := by
  simp [runM, List.foldl_append]

theorem run_append (A : Auto) (q : A.Q) (a b : List Char) : A.run q (a ++ b) = A.run (A.run q a) b := by
  simp [Auto.run, List.foldl_append]

theorem stepM_isOn (A : Auto) (mq : MQ A) (c : Char) : (stepM A mq c).1.isOn = mq.1.isOn := by
  obtain ⟨m, q⟩ := mq
  cases m with
  | off => rfl
  | on w p =>
    simp only [stepM]
    split <;> rfl

theorem runM_isOn (A : Auto) (s : List Char) : ∀ mq : MQ A, (runM A mq s).1.isOn = mq.1.isOn := by
  induction s with
  | nil => intro mq; rfl
  | cons c r ih =>
    intro mq
    show (runM A (stepM A mq c) r).1.isOn = _
    rw [ih, stepM_isOn]

theorem runM_off (A : Auto) (s : List Char) : ∀ q : A.Q, runM A (Mode.off, q) s = (Mode.off, A.run q s) := by
  induction s with
  | nil => intro q; rfl
  | cons c r ih =>
    intro q
    show runM A (stepM A (Mode.off, q) c) r = (Mode.off, A.run (A.step q c) r)
    exact ih _

def NoExotic (s : List Char) : Prop := ∀ c ∈ s, exotic c = false

theorem NoExotic_append {a b : List Char} (ha : NoExotic a) (hb : NoExotic b) : NoExotic (a ++ b) := by
  intro c hc
  rcases List.mem_append.mp hc with h | h
  · exact ha c h
  · exact hb c h

/-! ### what an analysis must provide to be sound -/

structure Sound (A : Auto) where
  /-- the invariant assumed of a value interpolated at site `e` -/
  Hyp : Expr → List Char → Prop
  slot_sound : ∀ (e : Expr) (q : A.Q) (qs : List A.Q) (v : List Char),
    Hyp e v → A.slot e q = some qs → A.run q v ∈ qs
  oneLine_sound : ∀ (e : Expr) (v : List Char), A.oneLine e = true → Hyp e v → ∀ c ∈ v, isBreak c = false

def SlotsOK {A : Auto} (S : Sound A) (o : Out) : Prop := ∀ p ∈ o.slots, S.Hyp p.1 p.2

theorem SlotsOK_append {A : Auto} {S : Sound A} {a b : Out} (h : SlotsOK S (a ++ b)) :
    SlotsOK S a ∧ SlotsOK S b := by
  constructor
  · intro p hp; exact h p (List.mem_append.mpr (Or.inl hp))
  · intro p hp; exact h p (List.mem_append.mpr (Or.inr hp))

/-! ### facts -/

def Consistent (σ : Facts) (env : Env) : Prop :=
  ∀ e b, (e, b) ∈ σ → ∀ v, eval env e = .ok v → truthy v = b

theorem lookup_mem {σ : Facts} {e : Expr} {b : Bool} (h : σ.lookup e = some b) : (e, b) ∈ σ := by
  induction σ with
  | nil => simp [List.lookup] at h
  | cons p r ih =>
    obtain ⟨e', b'⟩ := p
    simp only [List.lookup] at h
    split at h
    · rename_i heq
      have : e = e' := by simpa using heq
      cases h; subst this; exact List.mem_cons_self
    · exact List.mem_cons_of_mem _ (ih h)


theorem absCond_of_lookup {σ : Facts} {e : Expr} {b : Bool} (h : σ.lookup e = some b) :
    absCond σ e = some b := by
  unfold absCond; simp [h]

theorem truthy_bool (b : Bool) : truthy (.bool b) = b := rfl

/-- where the interpreter states a truth value, it is the Python truth value -/
theorem truthOf_ok {v : Val} {t : Bool} (h : truthOf v = .ok t) : t = truthy v := by
  unfold truthOf at h
  split at h
  · cases h
  · cases h; rfl

theorem absCond_sound {σ : Facts} {env : Env} (hc : Consistent σ env) :
    ∀ (e : Expr) (b : Bool) (v : Val), absCond σ e = some b → eval env e = .ok v → truthy v = b := by
  intro e
  induction e with
  | not e ih =>
    intro b v ha he
    cases hl : σ.lookup (Expr.not e) with
    | some b' =>
      rw [absCond_of_lookup hl] at ha; cases ha
      exact hc _ _ (lookup_mem hl) _ he
    | none =>
      unfold absCond at ha
      simp only [hl] at ha
      simp only [eval] at he
      obtain ⟨x, hx, he⟩ := bind_ok he
      obtain ⟨t, ht, he⟩ := bind_ok he
      cases he
      have ht := truthOf_ok ht
      subst ht
      cases ha' : absCond σ e with
      | none => simp [ha'] at ha
      | some b0 =>
        simp only [ha', Option.map_some, Option.some.injEq] at ha
        rw [truthy_bool, ih b0 x ha' hx, ha]
  | and a c iha ihc =>
    intro b v ha he
    cases hl : σ.lookup (Expr.and a c) with
    | some b' =>
      rw [absCond_of_lookup hl] at ha; cases ha
      exact hc _ _ (lookup_mem hl) _ he
    | none =>
      unfold absCond at ha
      simp only [hl] at ha
      simp only [eval] at he
      obtain ⟨x, hx, he⟩ := bind_ok he
      obtain ⟨t, ht, he⟩ := bind_ok he
      have ht := truthOf_ok ht
      subst ht
      by_cases hx' : truthy x = true
      · simp only [hx', if_true] at he
        split at ha
        · cases ha; rename_i h1; have := iha _ _ h1 hx; rw [this] at hx'; cases hx'
        · cases ha; rename_i h2 _; exact ihc _ _ h2 he
        · cases ha; rename_i h1 h2; exact ihc _ _ h2 he
        · cases ha
      · have hx'' : truthy x = false := by simpa using hx'
        simp only [hx''] at he
        cases he
        split at ha
        · cases ha; exact hx''
        · cases ha; exact hx''
        · cases ha; rename_i h1 h2; have := iha _ _ h1 hx; rw [this] at hx''; cases hx''
        · cases ha
  | or a c iha ihc =>
    intro b v ha he
    cases hl : σ.lookup (Expr.or a c) with
    | some b' =>
      rw [absCond_of_lookup hl] at ha; cases ha
      exact hc _ _ (lookup_mem hl) _ he
    | none =>
      unfold absCond at ha
      simp only [hl] at ha
      simp only [eval] at he
      obtain ⟨x, hx, he⟩ := bind_ok he
      obtain ⟨t, ht, he⟩ := bind_ok he
      have ht := truthOf_ok ht
      subst ht
      by_cases hx' : truthy x = true
      · simp only [hx', if_true] at he
        cases he
        split at ha
        · cases ha; exact hx'
        · cases ha; exact hx'
        · cases ha; rename_i h1 h2; have := iha _ _ h1 hx; rw [this] at hx'; cases hx'
        · cases ha
      · have hx'' : truthy x = false := by simpa using hx'
        simp only [hx''] at he
        split at ha
        · cases ha; rename_i h1; have := iha _ _ h1 hx; rw [this] at hx''; cases hx''
        · cases ha; rename_i h2 _; exact ihc _ _ h2 he
        · cases ha; rename_i h1 h2; exact ihc _ _ h2 he
        · cases ha
  | _ =>
    intro b v ha he
    unfold absCond at ha
    split at ha
    · rename_i hl; cases ha; exact hc _ _ (lookup_mem hl) _ he
    · simp at ha


/-! ### binding a name no fact mentions keeps the facts true -/

theorem get_bind_ne {env : Env} {x n : String} {v : Val} (h : (n == x) = false) :
    (env.bind x v).get n = env.get n := by
  simp [Env.get, Env.bind, List.lookup, h]

theorem eval_bind {env : Env} {x : String} {v : Val} :
    ∀ e : Expr, mentions x e = false → eval (env.bind x v) e = eval env e := by
  intro e
  induction e with
  | name n => intro h; simp only [mentions] at h; simp only [eval, get_bind_ne h]
  | attr e a ih => intro h; simp only [mentions] at h; simp only [eval, ih h]
  | item a b iha ihb =>
    intro h; simp only [mentions, Bool.or_eq_false_iff] at h; simp only [eval, iha h.1, ihb h.2]
  | not e ih => intro h; simp only [mentions] at h; simp only [eval, ih h]
  | and a b iha ihb =>
    intro h; simp only [mentions, Bool.or_eq_false_iff] at h; simp only [eval, iha h.1, ihb h.2]
  | or a b iha ihb =>
    intro h; simp only [mentions, Bool.or_eq_false_iff] at h; simp only [eval, iha h.1, ihb h.2]
  | cmp op a b iha ihb =>
    intro h; simp only [mentions, Bool.or_eq_false_iff] at h; simp only [eval, iha h.1, ihb h.2]
  | filter e f ih => intro h; simp only [mentions] at h; simp only [eval, ih h]
  | isDefined e ih => intro h; simp only [mentions] at h; simp only [eval, ih h]
  | isNone e ih => intro h; simp only [mentions] at h; simp only [eval, ih h]
  | mcall e m args ih => intro h; simp only [mentions] at h; simp only [eval, ih h]
  | _ => intro _; simp only [eval]

theorem has_false {σ : Facts} {x : String} (h : σ.has x = false) :
    ∀ e b, (e, b) ∈ σ → mentions x e = false := by
  intro e b hm
  unfold Facts.has at h
  have := List.any_eq_false.mp h (e, b) hm
  simpa using this

theorem Consistent_bind {σ : Facts} {env : Env} {x : String} {v : Val}
    (hc : Consistent σ env) (h : σ.has x = false) : Consistent σ (env.bind x v) := by
  intro e b hm w hw
  rw [eval_bind e (has_false h e b hm)] at hw
  exact hc e b hm w hw

theorem Consistent_bindAll {σ : Facts} :
    ∀ (xs : List String) (vs : List Val) (env : Env), Consistent σ env →
      xs.any σ.has = false → Consistent σ (bindAll env xs vs) := by
  intro xs
  induction xs with
  | nil => intro vs env hc _; cases vs <;> exact hc
  | cons x xs ih =>
    intro vs env hc h
    simp only [List.any_cons, Bool.or_eq_false_iff] at h
    cases vs with
    | nil => exact ih [] _ (Consistent_bind hc h.1) h.2
    | cons v vs => exact ih vs _ (Consistent_bind hc h.1) h.2

theorem Consistent_bindTarget {σ : Facts} {env env' : Env} {xs : List String} {item : Val}
    (hc : Consistent σ env) (h : xs.any σ.has = false) (hb : bindTarget env xs item = .ok env') :
    Consistent σ env' := by
  unfold bindTarget at hb
  split at hb
  · cases hb
    simp only [List.any_cons, List.any_nil, Bool.or_false] at h
    exact Consistent_bind hc h
  · split at hb
    · split at hb
      · cases hb; exact Consistent_bindAll _ _ _ hc h
      · cases hb
    all_goals cases hb

theorem Consistent_nil (env : Env) : Consistent [] env := by
  intro e b hm; cases hm


/-! ### the indent filter block as a transducer in front of the automaton -/

theorem run_transduce (A : Auto) (w : Nat) :
    ∀ (x : List Char) (p : Bool) (q : A.Q),
      (runM A (Mode.on w p, q) x).2 = A.run q (transduce w p x) := by
  intro x
  induction x with
  | nil => intro p q; rfl
  | cons c r ih =>
    intro p q
    show (runM A (stepM A (Mode.on w p, q) c) r).2 = _
    by_cases hc : c = '\n'
    · subst hc
      simp only [stepM, if_true, transduce]
      rw [ih]; rfl
    · simp only [stepM, hc, if_false, transduce]
      rw [ih, run_append]
      cases p
      · rfl
      · simp only [if_true, run_append]; rfl

theorem run_indentStr (A : Auto) (w : Nat) (x : List Char) (q : A.Q) (hx : NoExotic x) :
    A.run q (indentStr w x) = (runM A (Mode.on w false, q) x).2 := by
  rw [indentStr_eq, (indent_transduce w x hx).1, run_transduce]

theorem runM_on_plain (A : Auto) (w : Nat) :
    ∀ (v : List Char) (q : A.Q), (∀ c ∈ v, isBreak c = false) →
      runM A (Mode.on w false, q) v = (Mode.on w false, A.run q v) := by
  intro v
  induction v with
  | nil => intro q _; rfl
  | cons c r ih =>
    intro q h
    have hc : c ≠ '\n' := by
      intro e; have := h c List.mem_cons_self; subst e; simp [isBreak] at this
    show runM A (stepM A (Mode.on w false, q) c) r = _
    simp only [stepM, hc, if_false, Bool.false_eq_true]
    exact ih _ (fun d hd => h d (List.mem_cons_of_mem _ hd))

theorem runM_on_value (A : Auto) (w : Nat) (p : Bool) (q : A.Q) (v : List Char)
    (h : ∀ c ∈ v, isBreak c = false) (hv : v ≠ []) :
    runM A (Mode.on w p, q) v = (Mode.on w false, A.run (if p then A.run q (spaces w) else q) v) := by
  cases v with
  | nil => exact absurd rfl hv
  | cons c r =>
    have hc : c ≠ '\n' := by
      intro e; have := h c List.mem_cons_self; subst e; simp [isBreak] at this
    show runM A (stepM A (Mode.on w p, q) c) r = _
    simp only [stepM, hc, if_false]
    rw [runM_on_plain A w r _ (fun d hd => h d (List.mem_cons_of_mem _ hd))]
    rfl

theorem noBreak_noExotic {v : List Char} (h : ∀ c ∈ v, isBreak c = false) : NoExotic v := by
  intro c hc; simp [exotic, h c hc]

/-! ### transfer functions -/

/-- what the analysis promises about an output `o` produced from a state in `X` -/
def Post (A : Auto) (X X' : List (MQ A)) (text : List Char) : Prop :=
  ∀ mq ∈ X, runM A mq text ∈ X' ∧ (mq.1.isOn = true → NoExotic text)

theorem absText_sound (A : Auto) {X X' : List (MQ A)} {s : List Char}
    (h : absText A X s = some X') : Post A X X' s := by
  unfold absText at h
  split at h
  · cases h
  · rename_i hg
    cases h
    intro mq hmq
    constructor
    · exact mem_dedup.mpr (List.mem_map.mpr ⟨mq, hmq, rfl⟩)
    · intro hon c hc
      cases hex : exotic c with
      | false => rfl
      | true =>
        exfalso
        apply hg
        simp only [Bool.and_eq_true, List.any_eq_true]
        exact ⟨⟨mq, hmq, hon⟩, c, hc, hex⟩

theorem absSlot1_sound {A : Auto} (S : Sound A) {e : Expr} {v : List Char} (hv : S.Hyp e v)
    {mq : MQ A} {Y : List (MQ A)} (h : absSlot1 A e mq = some Y) :
    runM A mq v ∈ Y ∧ (mq.1.isOn = true → NoExotic v) := by
  obtain ⟨m, q⟩ := mq
  cases m with
  | off =>
    simp only [absSlot1] at h
    cases hs : A.slot e q with
    | none => simp [hs] at h
    | some qs =>
      simp only [hs, Option.map_some, Option.some.injEq] at h
      subst h
      refine ⟨?_, fun h => by cases h⟩
      rw [runM_off]
      exact List.mem_map.mpr ⟨_, S.slot_sound e q qs v hv hs, rfl⟩
  | on w p =>
    simp only [absSlot1] at h
    split at h
    · rename_i hone
      have hnb := S.oneLine_sound e v hone hv
      cases hs : A.slot e (if p = true then A.run q (spaces w) else q) with
      | none => simp [hs] at h
      | some qs =>
        simp only [hs, Option.map_some, Option.some.injEq] at h
        subst h
        refine ⟨?_, fun _ => noBreak_noExotic hnb⟩
        by_cases hve : v = []
        · subst hve; exact List.mem_cons_self
        · rw [runM_on_value A w p q v hnb hve]
          exact List.mem_cons_of_mem _ (List.mem_map.mpr ⟨_, S.slot_sound e _ qs v hv hs, rfl⟩)
    · cases h

theorem absSlot_sound {A : Auto} (S : Sound A) {e : Expr} {v : List Char} (hv : S.Hyp e v) :
    ∀ (X X' : List (MQ A)), absSlot A e X = some X' → Post A X X' v := by
  intro X
  induction X with
  | nil => intro X' _ mq hmq; cases hmq
  | cons x r ih =>
    intro X' h
    simp only [absSlot] at h
    cases h1 : absSlot1 A e x with
    | none => simp [h1] at h
    | some a =>
      cases h2 : absSlot A e r with
      | none => simp [h1, h2] at h
      | some b =>
        simp only [h1, h2, Option.bind_eq_bind, Option.bind_some, Option.pure_def, Option.some.injEq] at h
        subst h
        intro mq hmq
        rcases List.mem_cons.mp hmq with rfl | hm
        · have := absSlot1_sound S hv h1
          exact ⟨mem_union.mpr (Or.inl this.1), this.2⟩
        · have := ih b h2 mq hm
          exact ⟨mem_union.mpr (Or.inr this.1), this.2⟩


/-! ### loops -/

@[simp] theorem Out.text_append (a b : Out) : (a ++ b).text = a.text ++ b.text := rfl
@[simp] theorem Out.slots_append (a b : Out) : (a ++ b).slots = a.slots ++ b.slots := rfl
@[simp] theorem Out.text_empty : Out.empty.text = [] := rfl
@[simp] theorem Out.slots_empty : Out.empty.slots = [] := rfl

theorem iterate_falsy {v : Val} {items : List Val} (ht : truthy v = false) (hi : iterate v = .ok items) :
    items = [] := by
  cases v <;> simp_all [iterate, truthy]

theorem iterate_truthy {v : Val} {items : List Val} (ht : truthy v = true) (hi : iterate v = .ok items) :
    items ≠ [] := by
  cases v <;> simp_all [iterate, truthy]
  all_goals (intro h; simp_all)

theorem forEach_post {A : Auto} (S : Sound A) {f : Val → Except Err Out} (T T' : List (MQ A))
    (hsub : ∀ x ∈ T', x ∈ T)
    (hstep : ∀ item oi, f item = .ok oi → SlotsOK S oi → Post A T T' oi.text) :
    ∀ (items : List Val) (o : Out), forEach f items = .ok o → SlotsOK S o →
      ∀ mq ∈ T, (runM A mq o.text ∈ T ∧ (items ≠ [] → runM A mq o.text ∈ T')) ∧
        (mq.1.isOn = true → NoExotic o.text) := by
  intro items
  induction items with
  | nil =>
    intro o h _ mq hmq
    simp only [forEach] at h
    cases h
    exact ⟨⟨hmq, fun h => absurd rfl h⟩, fun _ c hc => by cases hc⟩
  | cons v vs ih =>
    intro o h hs mq hmq
    simp only [forEach] at h
    obtain ⟨oi, hoi, h⟩ := bind_ok h
    obtain ⟨r, hr, h⟩ := bind_ok h
    cases h
    obtain ⟨hs1, hs2⟩ := SlotsOK_append hs
    have h1 := hstep v oi hoi hs1 mq hmq
    have h2 := ih r hr hs2 (runM A mq oi.text) (hsub _ h1.1)
    simp only [Out.text_append, runM_append]
    refine ⟨⟨h2.1.1, fun _ => ?_⟩, fun hon => NoExotic_append (h1.2 hon) (h2.2 (by rw [runM_isOn]; exact hon))⟩
    cases vs with
    | nil =>
      simp only [forEach] at hr
      cases hr
      exact h1.1
    | cons w ws => exact h2.1.2 (by simp)

/-! ### the main theorem -/

theorem Post_mono {A : Auto} {X X' Y : List (MQ A)} {s : List Char} (h : Post A X X' s)
    (hsub : ∀ x ∈ X', x ∈ Y) : Post A X Y s :=
  fun mq hmq => ⟨hsub _ (h mq hmq).1, (h mq hmq).2⟩

theorem Post_nil {A : Auto} {X : List (MQ A)} : Post A X X [] :=
  fun _ hmq => ⟨hmq, fun _ c hc => by cases hc⟩

theorem Post_append {A : Auto} {X Y Z : List (MQ A)} {a b : List Char}
    (h1 : Post A X Y a) (h2 : Post A Y Z b) : Post A X Z (a ++ b) := by
  intro mq hmq
  have p1 := h1 mq hmq
  have p2 := h2 _ p1.1
  rw [runM_append]
  exact ⟨p2.1, fun hon => NoExotic_append (p1.2 hon) (p2.2 (by rw [runM_isOn]; exact hon))⟩

mutual
theorem absT_sound {A : Auto} (S : Sound A) : ∀ (t : Tpl) (σ : Facts) (env : Env) (o : Out) (env' : Env)
    (X X' : List (MQ A)), Consistent σ env → render env t = .ok (o, env') → absT A σ t X = some X' →
    SlotsOK S o → Consistent σ env' ∧ Post A X X' o.text
  | .text s, σ, env, o, env', X, X', hc, hr, ha, _ => by
    simp only [render] at hr
    cases hr
    simp only [absT] at ha
    exact ⟨hc, absText_sound A ha⟩
  | .out e, σ, env, o, env', X, X', hc, hr, ha, hs => by
    simp only [render] at hr
    obtain ⟨v, _, hr⟩ := bind_ok hr
    cases hr
    simp only [absT] at ha
    exact ⟨hc, absSlot_sound S (hs (e, v) List.mem_cons_self) X X' ha⟩
  | .ite c thn els, σ, env, o, env', X, X', hc, hr, ha, hs => by
    simp only [render] at hr
    obtain ⟨v, hv, hr⟩ := bind_ok hr
    obtain ⟨tv, htv, hr⟩ := bind_ok hr
    have htv := truthOf_ok htv
    subst htv
    simp only [absT] at ha
    by_cases ht : truthy v = true
    · simp only [ht, if_true] at hr
      cases hcond : absCond σ c with
      | none =>
        simp only [hcond] at ha
        cases h1 : absL A σ thn X with
        | none => simp [h1] at ha
        | some a =>
          cases h2 : absL A σ els X with
          | none => simp [h1, h2] at ha
          | some b =>
            simp only [h1, h2, Option.bind_eq_bind, Option.bind_some, Option.pure_def, Option.some.injEq] at ha
            subst ha
            have := absL_sound S thn σ env o env' X a hc hr h1 hs
            exact ⟨this.1, Post_mono this.2 (fun x hx => mem_union.mpr (Or.inl hx))⟩
      | some b =>
        have hb := absCond_sound hc c b v hcond hv
        rw [ht] at hb
        subst hb
        simp only [hcond] at ha
        exact absL_sound S thn σ env o env' X X' hc hr ha hs
    · have ht' : truthy v = false := by simpa using ht
      simp only [ht', Bool.false_eq_true, if_false] at hr
      cases hcond : absCond σ c with
      | none =>
        simp only [hcond] at ha
        cases h1 : absL A σ thn X with
        | none => simp [h1] at ha
        | some a =>
          cases h2 : absL A σ els X with
          | none => simp [h1, h2] at ha
          | some b =>
            simp only [h1, h2, Option.bind_eq_bind, Option.bind_some, Option.pure_def, Option.some.injEq] at ha
            subst ha
            have := absL_sound S els σ env o env' X b hc hr h2 hs
            exact ⟨this.1, Post_mono this.2 (fun x hx => mem_union.mpr (Or.inr hx))⟩
      | some b =>
        have hb := absCond_sound hc c b v hcond hv
        rw [ht'] at hb
        subst hb
        simp only [hcond] at ha
        exact absL_sound S els σ env o env' X X' hc hr ha hs
  | .forIn vars iter body, σ, env, o, env', X, X', hc, hr, ha, hs => by
    simp only [render] at hr
    obtain ⟨v, hv, hr⟩ := bind_ok hr
    obtain ⟨items, hitems, hr⟩ := bind_ok hr
    obtain ⟨o', ho', hr⟩ := bind_ok hr
    cases hr
    simp only [absT] at ha
    split at ha
    · cases ha
    · rename_i hvars
      have hvars' : vars.any σ.has = false := by simpa using hvars
      have hstep : ∀ (T T' : List (MQ A)), absL A σ body T = some T' → ∀ item oi,
          (do let env' ← bindTarget env vars item
              let r ← renderL env' body
              pure r.1 : Except Err Out) = .ok oi → SlotsOK S oi → Post A T T' oi.text := by
        intro T T' hT item oi hf hsl
        obtain ⟨env1, hb, hf⟩ := bind_ok hf
        obtain ⟨r, hrr, hf⟩ := bind_ok hf
        cases hf
        exact (absL_sound S body σ env1 r.1 r.2 T T' (Consistent_bindTarget hc hvars' hb) hrr hT hsl).2
      refine ⟨hc, ?_⟩
      cases hit : absIter σ iter with
      | none =>
        simp only [hit] at ha
        obtain ⟨h1, T', hT', hsub⟩ := closeLoop_sound _ _ _ _ ha
        intro mq hmq
        have := forEach_post S X' T' hsub (hstep X' T' hT') items o ho' hs mq (h1 mq hmq)
        exact ⟨this.1.1, this.2⟩
      | some b =>
        have hmem := lookup_mem (show σ.lookup iter = some b from hit)
        have hb := hc iter b hmem v hv
        cases b with
        | false =>
          simp only [hit] at ha
          cases ha
          have := iterate_falsy hb hitems
          subst this
          simp only [forEach] at ho'
          cases ho'
          exact Post_nil
        | true =>
          simp only [hit] at ha
          cases hcl : closeLoop (fun X => absL A σ body X) loopFuel X with
          | none => simp [hcl] at ha
          | some T =>
            simp only [hcl, Option.bind_eq_bind, Option.bind_some] at ha
            obtain ⟨h1, T', hT', hsub⟩ := closeLoop_sound _ _ _ _ hcl
            rw [hT'] at ha
            cases ha
            intro mq hmq
            have := forEach_post S T X' hsub (hstep T X' hT') items o ho' hs mq (h1 mq hmq)
            exact ⟨this.1.2 (iterate_truthy hb hitems), this.2⟩
  | .setVar x e, σ, env, o, env', X, X', hc, hr, ha, _ => by
    simp only [render] at hr
    obtain ⟨v, _, hr⟩ := bind_ok hr
    cases hr
    simp only [absT] at ha
    split at ha
    · cases ha
    · rename_i hx
      cases ha
      exact ⟨Consistent_bind hc (by simpa using hx), Post_nil⟩
  | .incl _ _ body, σ, env, o, env', X, X', hc, hr, ha, hs => by
    simp only [render] at hr
    obtain ⟨r, hrr, hr⟩ := bind_ok hr
    cases hr
    simp only [absT] at ha
    exact ⟨hc, (absL_sound S body σ env r.1 r.2 X X' hc hrr ha hs).2⟩
  | .filterBlock f body, σ, env, o, env', X, X', hc, hr, ha, hs => by
    simp only [render] at hr
    obtain ⟨r, hrr, hr⟩ := bind_ok hr
    obtain ⟨s, hbf, hr⟩ := bind_ok hr
    cases hr
    simp only [absT] at ha
    cases f with
    | indent w =>
      simp only at ha
      split at ha
      · rename_i hoff
        cases h1 : absL A σ body (X.map (fun mq => (Mode.on w false, mq.2))) with
        | none => simp [h1] at ha
        | some Y =>
          simp only [h1, Option.bind_eq_bind, Option.bind_some, Option.pure_def, Option.some.injEq] at ha
          subst ha
          have ih := (absL_sound S body σ env r.1 r.2 _ Y hc hrr h1 hs).2
          simp only [blockFilter] at hbf
          cases hbf
          refine ⟨hc, ?_⟩
          intro mq hmq
          obtain ⟨m, q⟩ := mq
          have hm : m = Mode.off := by
            have := List.all_eq_true.mp hoff (m, q) hmq
            cases m with
            | off => rfl
            | on w p => simp [Mode.isOn] at this
          subst hm
          have p := ih (Mode.on w false, q) (List.mem_map.mpr ⟨(Mode.off, q), hmq, rfl⟩)
          refine ⟨?_, fun h => by cases h⟩
          rw [runM_off, run_indentStr A w _ q (p.2 rfl)]
          exact mem_dedup.mpr (List.mem_map.mpr ⟨_, p.1, rfl⟩)
      · cases ha
    | _ => cases ha
  | .macroDef _ _ _, σ, env, o, env', X, X', hc, hr, ha, _ => by
    simp only [render] at hr
    cases hr
    simp only [absT] at ha
    cases ha
    exact ⟨hc, Post_nil⟩
  | .callMacro _ params args body, σ, env, o, env', X, X', hc, hr, ha, hs => by
    simp only [render] at hr
    split at hr
    · cases hr
    · obtain ⟨vals, _, hr⟩ := bind_ok hr
      obtain ⟨r, hrr, hr⟩ := bind_ok hr
      cases hr
      simp only [absT] at ha
      exact ⟨hc, (absL_sound S body [] _ r.1 r.2 X X' (Consistent_nil _) hrr ha hs).2⟩
  | .unsupported _, σ, env, o, env', X, X', _, hr, _, _ => by
    simp only [render] at hr
    cases hr
theorem absL_sound {A : Auto} (S : Sound A) : ∀ (ts : List Tpl) (σ : Facts) (env : Env) (o : Out) (env' : Env)
    (X X' : List (MQ A)), Consistent σ env → renderL env ts = .ok (o, env') → absL A σ ts X = some X' →
    SlotsOK S o → Consistent σ env' ∧ Post A X X' o.text
  | [], σ, env, o, env', X, X', hc, hr, ha, _ => by
    simp only [renderL] at hr
    cases hr
    simp only [absL] at ha
    cases ha
    exact ⟨hc, Post_nil⟩
  | t :: ts, σ, env, o, env', X, X', hc, hr, ha, hs => by
    simp only [renderL] at hr
    obtain ⟨r, hrr, hr⟩ := bind_ok hr
    obtain ⟨r', hrr', hr⟩ := bind_ok hr
    cases hr
    simp only [absL] at ha
    cases h1 : absT A σ t X with
    | none => simp [h1] at ha
    | some Y =>
      simp only [h1, Option.bind_eq_bind, Option.bind_some] at ha
      obtain ⟨hs1, hs2⟩ := SlotsOK_append hs
      have p1 := absT_sound S t σ env r.1 r.2 X Y hc hrr h1 hs1
      have p2 := absL_sound S ts σ r.2 r'.1 r'.2 Y X' p1.1 hrr' ha hs2
      exact ⟨p2.1, Post_append p1.2 p2.2⟩
end


/-! ### from the decidable check to all environments -/

theorem mem_assignments (f : Expr → Bool) : ∀ xs : List Expr, xs.map (fun e => (e, f e)) ∈ assignments xs := by
  intro xs
  induction xs with
  | nil => simp [assignments]
  | cons x xs ih =>
    simp only [assignments, List.map_cons, List.mem_flatMap]
    refine ⟨_, ih, ?_⟩
    cases f x <;> simp

/-- the truth value an expression has in an environment (false when it does not evaluate) -/
def truthIn (env : Env) (e : Expr) : Bool :=
  match eval env e with
  | .ok v => truthy v
  | .error _ => false

theorem Consistent_truthIn (env : Env) (xs : List Expr) : Consistent (xs.map (fun e => (e, truthIn env e))) env := by
  intro e b hm v hv
  obtain ⟨e', _, heq⟩ := List.mem_map.mp hm
  cases heq
  simp [truthIn, hv]

theorem Consistent_append {σ τ : Facts} {env : Env} (h1 : Consistent σ env) (h2 : Consistent τ env) :
    Consistent (σ ++ τ) env := by
  intro e b hm
  rcases List.mem_append.mp hm with h | h
  · exact h1 e b h
  · exact h2 e b h

/-- **The check is sound.** If `check` evaluates to `true` for a template then, for EVERY render
context that agrees with the assumed facts and every rendering in which each interpolated value
satisfies the invariant of its site, the automaton ends in a good state on the rendered text. -/
theorem check_sound {A : Auto} (S : Sound A) (init : A.Q) (good : A.Q → Bool) (assume : Facts)
    (enum : List Expr) (t : List Tpl) (h : check A init good assume enum t = true)
    (ctx : List (String × Val)) (o : Out) (hr : renderTemplate ctx t = .ok o)
    (hassume : Consistent assume ⟨ctx, []⟩) (hs : SlotsOK S o) :
    good (A.run init o.text) = true := by
  unfold renderTemplate at hr
  obtain ⟨r, hrr, hr⟩ := bind_ok hr
  cases hr
  unfold check at h
  have hσ := List.all_eq_true.mp h _ (mem_assignments (truthIn ⟨ctx, []⟩) enum)
  unfold finalStates at hσ
  cases ha : absL A (assume ++ enum.map (fun e => (e, truthIn ⟨ctx, []⟩ e))) t [(Mode.off, init)] with
  | none => simp [ha] at hσ
  | some X' =>
    simp only [ha, Option.map_some] at hσ
    have p := (absL_sound S t _ ⟨ctx, []⟩ r.1 r.2 _ X'
      (Consistent_append hassume (Consistent_truthIn _ enum)) hrr ha hs).2 (Mode.off, init) List.mem_cons_self
    rw [runM_off] at p
    exact List.all_eq_true.mp hσ _ (List.mem_map.mpr ⟨_, p.1, rfl⟩)

end Dcg.Proofs.TemplateAbs
