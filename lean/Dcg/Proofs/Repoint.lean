import Dcg.Model.Repoint
/-! Helper lemmas for the re-pointing pass (property theorems are in Dcg/Props/C11.lean). -/
namespace Dcg.Proofs.Repoint
open Dcg.Model.Repoint

/-- one call: the caller is settled, settled users stay settled, nobody else's reference changes,
other references keep their children -/
theorem replaceReference_step (s s1 : Store) (c : User) (dup target : Ref) (hne : dup ≠ target)
    (hc : s.refOf c = some dup ∨ Done dup target s c)
    (h : replaceReference s c (some target) = some s1) :
    Done dup target s1 c ∧ (∀ u, Done dup target s u → Done dup target s1 u) ∧
      (∀ u, u ≠ c → s1.refOf u = s.refOf u) ∧
      (∀ r, r ≠ dup → r ≠ target → s1.kids r = s.kids r) := by
  have hne' : target ≠ dup := fun e => hne e.symm
  rcases hc with hc | ⟨hc, hcd, _⟩
  · simp only [replaceReference, hc, Option.some.injEq] at h
    subst h
    refine ⟨⟨by simp, ?_, by simp⟩, ?_, ?_, ?_⟩
    · simp [hne]
    · rintro u ⟨h1, h2, h3⟩
      by_cases huc : u = c
      · subst huc; rw [hc] at h1; exact absurd (Option.some.inj h1) hne
      · refine ⟨by simp [huc, h1], ?_, ?_⟩
        · simp only [hne, if_false, if_true, List.mem_filter]
          exact fun hh => h2 hh.1
        · simp only [if_true, hne', if_false, List.mem_append]
          exact Or.inl h3
    · intro u hu; simp [hu]
    · intro r h1 h2; simp [h1, h2]
  · simp only [replaceReference, hc, Option.some.injEq] at h
    subst h
    refine ⟨⟨by simp, ?_, by simp⟩, ?_, ?_, ?_⟩
    · simpa [hne] using hcd
    · rintro u ⟨h1, h2, h3⟩
      by_cases huc : u = c
      · subst huc
        exact ⟨by simp, by simpa [hne] using h2, by simp⟩
      · refine ⟨by simp [huc, h1], by simpa [hne] using h2, ?_⟩
        simp only [if_true, List.mem_append, List.mem_filter]
        exact Or.inl ⟨h3, by simpa using huc⟩
    · intro u hu; simp [hu]
    · intro r _ h2; simp [h2]

/-- the call raises only for a caller without reference -/
theorem replaceReference_isSome (s : Store) (c : User) (new : Option Ref) (r : Ref)
    (h : s.refOf c = some r) : ∃ s1, replaceReference s c new = some s1 := by
  simp [replaceReference, h]

/-- the walk over a list of children each of which refers to the duplicate (or was settled before) -/
theorem repointList_spec (p : User → Bool) (dup target : Ref) (hne : dup ≠ target) :
    ∀ (cs : List User) (s : Store),
      (∀ u ∈ cs, s.refOf u = some dup ∨ Done dup target s u) →
      ∃ s', repointList p target cs s = some s' ∧
        (∀ u ∈ cs, p u = true → Done dup target s' u) ∧
        (∀ u, Done dup target s u → Done dup target s' u) ∧
        (∀ u, (u ∉ cs ∨ p u = false) → s'.refOf u = s.refOf u) ∧
        (∀ r, r ≠ dup → r ≠ target → s'.kids r = s.kids r) := by
  intro cs
  induction cs with
  | nil => intro s _; exact ⟨s, rfl, by simp, fun _ h => h, fun _ _ => rfl, fun _ _ _ => rfl⟩
  | cons c cs ih =>
    intro s hcs
    by_cases hp : p c = true
    · have hc := hcs c (by simp)
      obtain ⟨r, hr⟩ : ∃ r, s.refOf c = some r := by
        rcases hc with h | h
        · exact ⟨_, h⟩
        · exact ⟨_, h.1⟩
      obtain ⟨s1, h1⟩ := replaceReference_isSome s c (some target) r hr
      obtain ⟨d1, pres1, ref1, kids1⟩ := replaceReference_step s s1 c dup target hne hc h1
      have hcs1 : ∀ u ∈ cs, s1.refOf u = some dup ∨ Done dup target s1 u := by
        intro u hu
        by_cases huc : u = c
        · subst huc; exact Or.inr d1
        · rcases hcs u (by simp [hu]) with h | h
          · exact Or.inl (by rw [ref1 u huc]; exact h)
          · exact Or.inr (pres1 u h)
      obtain ⟨s', h', a, b, c', d⟩ := ih s1 hcs1
      refine ⟨s', by simp [repointList, hp, h1, h'], ?_, fun u hu => b u (pres1 u hu), ?_, ?_⟩
      · intro u hu hpu
        rcases List.mem_cons.mp hu with rfl | hu
        · exact b _ d1
        · exact a u hu hpu
      · intro u hu
        have huc : u ≠ c := by
          rintro rfl
          rcases hu with hu | hu
          · exact hu (by simp)
          · rw [hp] at hu; cases hu
        rw [c' u (hu.imp (fun h hh => h (by simp [hh])) id), ref1 u huc]
      · intro r h1 h2; rw [d r h1 h2, kids1 r h1 h2]
    · have hp' : p c = false := by simpa using hp
      obtain ⟨s', h', a, b, c', d⟩ := ih s (fun u hu => hcs u (by simp [hu]))
      refine ⟨s', by simp [repointList, hp', h'], ?_, b, ?_, d⟩
      · intro u hu hpu
        rcases List.mem_cons.mp hu with rfl | hu
        · rw [hp'] at hpu; cases hpu
        · exact a u hu hpu
      · intro u hu
        by_cases huc : u = c
        · subst huc; exact c' _ (Or.inr hp')
        · exact c' u (hu.imp (fun h hh => h (by simp [hh])) id)

/-- the exact lists after the walk, for pairwise distinct children that all refer to the duplicate -/
theorem repointList_exact (p : User → Bool) (dup target : Ref) (hne : dup ≠ target) :
    ∀ (cs : List User) (s : Store), cs.Nodup → (∀ u ∈ cs, s.refOf u = some dup) →
      ∃ s', repointList p target cs s = some s' ∧
        s'.kids dup = (s.kids dup).filter (fun u => !(cs.contains u && p u)) ∧
        s'.kids target = s.kids target ++ cs.filter p ∧
        (∀ u, u ∉ cs → s'.refOf u = s.refOf u) := by
  have hne' : target ≠ dup := fun e => hne e.symm
  intro cs
  induction cs with
  | nil => intro s _ _; exact ⟨s, rfl, (by simpa using (List.filter_eq_self.mpr (fun _ _ => rfl)).symm), by simp, fun _ _ => rfl⟩
  | cons c cs ih =>
    intro s hnd hcs
    have hc := hcs c (by simp)
    have hccs : c ∉ cs := (List.nodup_cons.mp hnd).1
    by_cases hp : p c = true
    · let s1 : Store := ⟨fun r => if r = target then (if target = dup then (s.kids dup).filter (· != c) else s.kids target) ++ [c]
          else if r = dup then (s.kids dup).filter (· != c) else s.kids r, fun x => if x = c then some target else s.refOf x⟩
      have h1 : replaceReference s c (some target) = some s1 := by
        simp only [replaceReference, hc, s1]
      have hcs1 : ∀ u ∈ cs, s1.refOf u = some dup := by
        intro u hu
        have : u ≠ c := fun e => hccs (e ▸ hu)
        simp only [s1, this, if_false]
        exact hcs u (by simp [hu])
      obtain ⟨s', h', a, b, c'⟩ := ih s1 (List.nodup_cons.mp hnd).2 hcs1
      refine ⟨s', by simp [repointList, hp, h1, h'], ?_, ?_, ?_⟩
      · rw [a]
        simp only [s1, hne, if_false, if_true, List.filter_filter]
        apply List.filter_congr
        intro u _
        by_cases huc : u = c
        · subst huc; simp [hp]
        · simp [huc]
      · rw [b]
        simp [s1, hne', hp]
      · intro u hu
        have huc : u ≠ c := fun e => hu (by simp [e])
        rw [c' u (fun h => hu (by simp [h]))]
        simp [s1, huc]
    · have hp' : p c = false := by simpa using hp
      obtain ⟨s', h', a, b, c'⟩ := ih s (List.nodup_cons.mp hnd).2 (fun u hu => hcs u (by simp [hu]))
      refine ⟨s', by simp [repointList, hp', h'], ?_, ?_, fun u hu => c' u (fun h => hu (by simp [h]))⟩
      · rw [a]
        apply List.filter_congr
        intro u _
        by_cases huc : u = c
        · subst huc; simp [hp']
        · simp [huc]
      · rw [b]; simp [hp']

end Dcg.Proofs.Repoint
