import Dcg.Model.FieldUnion
/-!
Lemmas about the union / `None` normalisation of `DataType.type_hint` (model: `Dcg.Model.FieldUnion`).
All statements are about lists of arbitrary length (induction over the alternatives), nothing here is
an enumeration.
-/
namespace Dcg.Proofs.Field
open Dcg.Model.Field

/-! ## Operator spelling -/

theorem any_append_none (t : PHint) : PHint.admitsNone (t ++ [.none]) = true := by
  simp [PHint.admitsNone, Part.admitsNone]

theorem getOptionalP_admits (h : PHint) : (getOptionalP h).admitsNone = true := by
  simp only [getOptionalP]
  split
  · rfl
  · exact any_append_none _

theorem flatten_admits {ds : List PHint} {e : PHint} (he : e ∈ ds) (ha : e.admitsNone = true) :
    PHint.admitsNone ds.flatten = true := by
  simp only [PHint.admitsNone, List.any_eq_true, List.mem_flatten] at *
  obtain ⟨x, hx, hp⟩ := ha
  exact ⟨x, ⟨e, he, hx⟩, hp⟩

/-- what the loop collects is joined with `" | "` unless exactly one hint is left -/
def joinP (ds : List PHint) : PHint := match ds with | [d] => d | ds => ds.flatten

theorem joinP_admits {ds : List PHint} {e : PHint} (he : e ∈ ds) (ha : e.admitsNone = true) :
    (joinP ds).admitsNone = true := by
  unfold joinP
  split
  · rename_i d
    have : e = d := by simpa using he
    exact this ▸ ha
  · exact flatten_admits he ha

theorem finishP_admits (ty : PHint) (opt : Bool) (h : opt = true ∨ ty.admitsNone = true) :
    (finishP ty opt).1.admitsNone = true := by
  unfold finishP
  split
  · exact getOptionalP_admits _
  · rename_i hc
    rcases h with h | h
    · have : ty = [.atom .any] := by
        apply Classical.byContradiction; intro hne; exact hc ⟨h, hne⟩
      subst this; rfl
    · exact h

theorem finishP_flag (ty : PHint) (opt : Bool) : (finishP ty opt).2 = opt := by
  unfold finishP; split <;> rfl

/-- Loop invariant: once an alternative that admits `None` has been seen, either the flag is set or
one of the collected hints still admits `None` — whichever of the three exits (`continue` on a
hint already collected, `continue` on `None`, append) the alternative took. -/
theorem unionLoopP_keeps_null : ∀ (kids acc : List PHint) (opt : Bool),
    (opt = true ∨ (∃ e ∈ acc, PHint.admitsNone e = true) ∨ (∃ h ∈ kids, PHint.admitsNone h = true)) →
    (unionLoopP kids acc opt).2 = true ∨ ∃ e ∈ (unionLoopP kids acc opt).1, PHint.admitsNone e = true
  | [], acc, opt, h => by
    simp only [unionLoopP]
    rcases h with h | h | ⟨_, hm, _⟩
    · exact Or.inl h
    · exact Or.inr h
    · cases hm
  | k :: ks, acc, opt, h => by
    unfold unionLoopP
    split
    · -- already collected
      rename_i hc
      apply unionLoopP_keeps_null
      rcases h with h | h | ⟨x, hm, hx⟩
      · exact Or.inl h
      · exact Or.inr (Or.inl h)
      · rcases List.mem_cons.mp hm with rfl | hm
        · exact Or.inr (Or.inl ⟨x, List.contains_iff_mem.mp hc, hx⟩)
        · exact Or.inr (Or.inr ⟨x, hm, hx⟩)
    · split
      · -- the alternative is `None`
        apply unionLoopP_keeps_null
        exact Or.inl rfl
      · apply unionLoopP_keeps_null
        rcases h with h | ⟨e, he, ha⟩ | ⟨x, hm, hx⟩
        · exact Or.inl (by simp [h])
        · exact Or.inr (Or.inl ⟨e, List.mem_append_left _ he, ha⟩)
        · rcases List.mem_cons.mp hm with rfl | hm
          · by_cases hq : removeNoneP x = x
            · exact Or.inr (Or.inl ⟨removeNoneP x, by simp, by rw [hq]; exact hx⟩)
            · exact Or.inl (by simp [hq])
          · exact Or.inr (Or.inr ⟨x, hm, hx⟩)

theorem nodeP_eq_union (k1 k2 : PHint) (ks : List PHint) (o : Bool) :
    nodeP (k1 :: k2 :: ks) o =
      finishP (joinP (unionLoopP (k1 :: k2 :: ks) [] o).1) (unionLoopP (k1 :: k2 :: ks) [] o).2 := rfl

/-- **De-duplication and `None`-stripping preserve null admission** (operator spelling): when the
type was optional to begin with or some alternative's hint admits `None`, so does the hint written
for the union. -/
theorem nodeP_preserves_null (kids : List PHint) (o : Bool)
    (h : o = true ∨ ∃ k ∈ kids, PHint.admitsNone k = true) : (nodeP kids o).1.admitsNone = true := by
  match kids, h with
  | [], h =>
    apply finishP_admits
    rcases h with h | ⟨_, hm, _⟩
    · exact Or.inl h
    · cases hm
  | [k], h =>
    apply finishP_admits
    rcases h with h | ⟨x, hm, hx⟩
    · exact Or.inl h
    · have : x = k := by simpa using hm
      exact Or.inr (this ▸ hx)
  | k1 :: k2 :: ks, h =>
    rw [nodeP_eq_union]
    apply finishP_admits
    have := unionLoopP_keeps_null (k1 :: k2 :: ks) [] o (by
      rcases h with h | h
      · exact Or.inl h
      · exact Or.inr (Or.inr h))
    rcases this with h | ⟨e, he, ha⟩
    · exact Or.inl h
    · exact Or.inr (joinP_admits he ha)

/-- the flag `is_optional` is never left set on a type whose written hint does not admit `None` -/
theorem nodeP_flag_admits (kids : List PHint) (o : Bool) (h : (nodeP kids o).2 = true) :
    (nodeP kids o).1.admitsNone = true := by
  match kids with
  | [] => exact finishP_admits _ _ (Or.inl (by rw [← finishP_flag [] o]; exact h))
  | [k] => exact finishP_admits _ _ (Or.inl (by rw [← finishP_flag k o]; exact h))
  | k1 :: k2 :: ks =>
    rw [nodeP_eq_union] at h ⊢
    rw [finishP_flag] at h
    exact finishP_admits _ _ (Or.inl h)

/-! ## Bracket spelling -/

mutual
theorem BHint.eq_of_beq : ∀ (g h : BHint), BHint.beq g h = true → g = h
  | .none, .none, _ => rfl
  | .atom x, .atom y, h => by simp only [BHint.beq, beq_iff_eq] at h; rw [h]
  | .opt g, .opt h, hb => by rw [BHint.eq_of_beq g h (by simpa only [BHint.beq] using hb)]
  | .union gs, .union hs, hb => by rw [BHint.eq_of_beqL gs hs (by simpa only [BHint.beq] using hb)]
  | .none, .atom _, h | .none, .opt _, h | .none, .union _, h
  | .atom _, .none, h | .atom _, .opt _, h | .atom _, .union _, h
  | .opt _, .none, h | .opt _, .atom _, h | .opt _, .union _, h
  | .union _, .none, h | .union _, .atom _, h | .union _, .opt _, h => by simp [BHint.beq] at h
theorem BHint.eq_of_beqL : ∀ (gs hs : List BHint), BHint.beqL gs hs = true → gs = hs
  | [], [], _ => rfl
  | g :: gs, h :: hs, hb => by
    simp only [BHint.beqL, Bool.and_eq_true] at hb
    rw [BHint.eq_of_beq g h hb.1, BHint.eq_of_beqL gs hs hb.2]
  | [], _ :: _, h | _ :: _, [], h => by simp [BHint.beqL] at h
end

mutual
theorem BHint.beq_refl : ∀ (g : BHint), BHint.beq g g = true
  | .none => rfl
  | .atom x => by simp [BHint.beq]
  | .opt g => by simp only [BHint.beq]; exact BHint.beq_refl g
  | .union gs => by simp only [BHint.beq]; exact BHint.beqL_refl gs
theorem BHint.beqL_refl : ∀ (gs : List BHint), BHint.beqL gs gs = true
  | [] => rfl
  | g :: gs => by simp only [BHint.beqL, Bool.and_eq_true]; exact ⟨BHint.beq_refl g, BHint.beqL_refl gs⟩
end

instance : LawfulBEq BHint where
  eq_of_beq := BHint.eq_of_beq _ _
  rfl := BHint.beq_refl _

instance : DecidableEq BHint := fun a b => decidable_of_decidable_of_iff (p := (a == b) = true) beq_iff_eq

theorem admitsNoneL_of_mem : ∀ {ds : List BHint} {e : BHint}, e ∈ ds → e.admitsNone = true →
    BHint.admitsNoneL ds = true
  | d :: ds, e, he, ha => by
    simp only [BHint.admitsNoneL, Bool.or_eq_true]
    rcases List.mem_cons.mp he with rfl | he
    · exact Or.inl ha
    · exact Or.inr (admitsNoneL_of_mem he ha)

theorem getOptionalB_admits (h : BHint) : (getOptionalB h).admitsNone = true := by
  simp only [getOptionalB]
  split <;> simp [BHint.admitsNone]

def joinB (ds : List BHint) : BHint := match ds with | [d] => d | ds => .union ds

theorem joinB_admits {ds : List BHint} {e : BHint} (he : e ∈ ds) (ha : e.admitsNone = true) :
    (joinB ds).admitsNone = true := by
  unfold joinB
  split
  · rename_i d
    have : e = d := by simpa using he
    exact this ▸ ha
  · simp only [BHint.admitsNone]; exact admitsNoneL_of_mem he ha

theorem isAny_admits {ty : BHint} (h : ty.isAny = true) : ty.admitsNone = true := by
  cases ty with
  | atom x => cases x <;> simp_all [BHint.isAny, BHint.admitsNone]
  | _ => simp [BHint.isAny] at h

theorem finishB_admits (ty : BHint) (opt : Bool) (h : opt = true ∨ ty.admitsNone = true) :
    (finishB ty opt).1.admitsNone = true := by
  unfold finishB
  split
  · exact getOptionalB_admits _
  · rename_i hc
    rcases h with h | h
    · subst h
      apply isAny_admits
      cases hq : ty.isAny
      · simp [hq] at hc
      · rfl
    · exact h

theorem finishB_flag (ty : BHint) (opt : Bool) : (finishB ty opt).2 = opt := by
  unfold finishB; split <;> rfl

theorem unionLoopB_keeps_null : ∀ (kids acc : List BHint) (opt : Bool),
    (opt = true ∨ (∃ e ∈ acc, BHint.admitsNone e = true) ∨ (∃ h ∈ kids, BHint.admitsNone h = true)) →
    (unionLoopB kids acc opt).2 = true ∨ ∃ e ∈ (unionLoopB kids acc opt).1, BHint.admitsNone e = true
  | [], acc, opt, h => by
    simp only [unionLoopB]
    rcases h with h | h | ⟨_, hm, _⟩
    · exact Or.inl h
    · exact Or.inr h
    · cases hm
  | k :: ks, acc, opt, h => by
    unfold unionLoopB
    split
    · rename_i hc
      apply unionLoopB_keeps_null
      rcases h with h | h | ⟨x, hm, hx⟩
      · exact Or.inl h
      · exact Or.inr (Or.inl h)
      · rcases List.mem_cons.mp hm with rfl | hm
        · exact Or.inr (Or.inl ⟨x, List.contains_iff_mem.mp hc, hx⟩)
        · exact Or.inr (Or.inr ⟨x, hm, hx⟩)
    · split
      · apply unionLoopB_keeps_null
        exact Or.inl rfl
      · apply unionLoopB_keeps_null
        rcases h with h | ⟨e, he, ha⟩ | ⟨x, hm, hx⟩
        · exact Or.inl (by simp [h])
        · exact Or.inr (Or.inl ⟨e, List.mem_append_left _ he, ha⟩)
        · rcases List.mem_cons.mp hm with rfl | hm
          · by_cases hq : removeNoneB x = x
            · exact Or.inr (Or.inl ⟨removeNoneB x, by simp, by rw [hq]; exact hx⟩)
            · exact Or.inl (by simp [hq])
          · exact Or.inr (Or.inr ⟨x, hm, hx⟩)

theorem nodeB_eq_union (k1 k2 : BHint) (ks : List BHint) (o : Bool) :
    nodeB (k1 :: k2 :: ks) o =
      finishB (joinB (unionLoopB (k1 :: k2 :: ks) [] o).1) (unionLoopB (k1 :: k2 :: ks) [] o).2 := rfl

/-- **De-duplication and `None`-stripping preserve null admission** (bracket spelling). -/
theorem nodeB_preserves_null (kids : List BHint) (o : Bool)
    (h : o = true ∨ ∃ k ∈ kids, BHint.admitsNone k = true) : (nodeB kids o).1.admitsNone = true := by
  match kids, h with
  | [], h =>
    apply finishB_admits
    rcases h with h | ⟨_, hm, _⟩
    · exact Or.inl h
    · cases hm
  | [k], h =>
    apply finishB_admits
    rcases h with h | ⟨x, hm, hx⟩
    · exact Or.inl h
    · have : x = k := by simpa using hm
      exact Or.inr (this ▸ hx)
  | k1 :: k2 :: ks, h =>
    rw [nodeB_eq_union]
    apply finishB_admits
    have := unionLoopB_keeps_null (k1 :: k2 :: ks) [] o (by
      rcases h with h | h
      · exact Or.inl h
      · exact Or.inr (Or.inr h))
    rcases this with h | ⟨e, he, ha⟩
    · exact Or.inl h
    · exact Or.inr (joinB_admits he ha)

theorem nodeB_flag_admits (kids : List BHint) (o : Bool) (h : (nodeB kids o).2 = true) :
    (nodeB kids o).1.admitsNone = true := by
  match kids with
  | [] => exact finishB_admits _ _ (Or.inl (by rw [← finishB_flag (.union []) o]; exact h))
  | [k] => exact finishB_admits _ _ (Or.inl (by rw [← finishB_flag k o]; exact h))
  | k1 :: k2 :: ks =>
    rw [nodeB_eq_union] at h ⊢
    rw [finishB_flag] at h
    exact finishB_admits _ _ (Or.inl h)

/-! ## The alternatives of an `anyOf` / `oneOf` member -/

theorem Alt.hintP_admits (sn : Bool) (a : Alt) (h : a.effNull sn = true) : (a.hintP sn).admitsNone = true := by
  cases a with
  | plain x => simp [Alt.effNull, Alt.typeListNull] at h
  | nullable x => exact nodeP_preserves_null _ _ (Or.inl rfl)
  | flag x =>
    have : sn = true := by simpa [Alt.effNull, Alt.typeListNull] using h
    subst this
    exact nodeP_preserves_null _ _ (Or.inl rfl)
  | null => rfl

theorem Alt.hintB_admits (sn : Bool) (a : Alt) (h : a.effNull sn = true) : (a.hintB sn).admitsNone = true := by
  cases a with
  | plain x => simp [Alt.effNull, Alt.typeListNull] at h
  | nullable x => exact nodeB_preserves_null _ _ (Or.inl rfl)
  | flag x =>
    have : sn = true := by simpa [Alt.effNull, Alt.typeListNull] using h
    subst this
    exact nodeB_preserves_null _ _ (Or.inl rfl)
  | null => rfl

/-- some alternative admits null (as the generator reads it) ⇒ the member's written hint admits `None` -/
theorem unionOutcome_text (uo sn : Bool) (alts : List Alt) (h : alts.any (Alt.effNull sn) = true) :
    (unionOutcome uo sn alts).1 = true := by
  obtain ⟨a, ha, hn⟩ := List.any_eq_true.mp h
  unfold unionOutcome
  cases uo
  · exact nodeB_preserves_null _ _ (Or.inr ⟨a.hintB sn, List.mem_map.mpr ⟨a, ha, rfl⟩, Alt.hintB_admits sn a hn⟩)
  · exact nodeP_preserves_null _ _ (Or.inr ⟨a.hintP sn, List.mem_map.mpr ⟨a, ha, rfl⟩, Alt.hintP_admits sn a hn⟩)

/-- `is_optional` set ⇒ the written hint admits `None` -/
theorem unionOutcome_flag_text (uo sn : Bool) (alts : List Alt) (h : (unionOutcome uo sn alts).2 = true) :
    (unionOutcome uo sn alts).1 = true := by
  unfold unionOutcome at h ⊢
  cases uo
  · exact nodeB_flag_admits _ _ h
  · exact nodeP_flag_admits _ _ h

/-! ### nothing is invented: alternatives none of which admits null give a plain hint, flag unset -/

theorem unionLoopP_plain : ∀ (kids acc : List PHint),
    (∀ k ∈ kids, ∃ x, k = [.atom x] ∧ x ≠ .any) → (∀ e ∈ acc, PHint.admitsNone e = false) →
    (unionLoopP kids acc false).2 = false ∧ ∀ e ∈ (unionLoopP kids acc false).1, PHint.admitsNone e = false
  | [], acc, _, ha => ⟨rfl, ha⟩
  | k :: ks, acc, hk, ha => by
    obtain ⟨x, rfl, hx⟩ := hk k (List.mem_cons_self ..)
    have hks : ∀ k ∈ ks, ∃ x, k = [.atom x] ∧ x ≠ .any := fun k hm => hk k (List.mem_cons_of_mem _ hm)
    unfold unionLoopP
    split
    · exact unionLoopP_plain ks acc hks ha
    · have hne : ([Part.atom x] : PHint) ≠ [.none] := by simp
      rw [if_neg hne]
      have hr : removeNoneP [Part.atom x] = [Part.atom x] := rfl
      simp only [hr, bne_self_eq_false, Bool.or_false]
      apply unionLoopP_plain ks _ hks
      intro e he
      rcases List.mem_append.mp he with he | he
      · exact ha e he
      · have : e = [Part.atom x] := by simpa using he
        subst this
        cases x <;> simp_all [PHint.admitsNone, Part.admitsNone]

theorem joinP_plain {ds : List PHint} (h : ∀ e ∈ ds, PHint.admitsNone e = false) : (joinP ds).admitsNone = false := by
  unfold joinP
  split
  · exact h _ (List.mem_cons_self ..)
  · cases hq : PHint.admitsNone ds.flatten
    · rfl
    · simp only [PHint.admitsNone, List.any_eq_true, List.mem_flatten] at hq
      obtain ⟨x, ⟨e, he, hx⟩, hp⟩ := hq
      have := h e he
      simp only [PHint.admitsNone] at this
      have h2 : e.any Part.admitsNone = true := List.any_eq_true.mpr ⟨x, hx, hp⟩
      rw [this] at h2; cases h2

theorem unionLoopB_plain : ∀ (kids acc : List BHint),
    (∀ k ∈ kids, ∃ x, k = .atom x ∧ x ≠ .any) → (∀ e ∈ acc, BHint.admitsNone e = false) →
    (unionLoopB kids acc false).2 = false ∧ ∀ e ∈ (unionLoopB kids acc false).1, BHint.admitsNone e = false
  | [], acc, _, ha => ⟨rfl, ha⟩
  | k :: ks, acc, hk, ha => by
    obtain ⟨x, rfl, hx⟩ := hk k (List.mem_cons_self ..)
    have hks : ∀ k ∈ ks, ∃ x, k = .atom x ∧ x ≠ .any := fun k hm => hk k (List.mem_cons_of_mem _ hm)
    unfold unionLoopB
    split
    · exact unionLoopB_plain ks acc hks ha
    · have hne : (BHint.atom x).isNone = false := rfl
      simp only [hne, Bool.false_eq_true, if_false]
      have hr : removeNoneB (.atom x) = .atom x := by simp [removeNoneB]
      simp only [hr, bne_self_eq_false, Bool.or_false]
      apply unionLoopB_plain ks _ hks
      intro e he
      rcases List.mem_append.mp he with he | he
      · exact ha e he
      · have : e = .atom x := by simpa using he
        subst this
        cases x <;> simp_all [BHint.admitsNone]

theorem admitsNoneL_plain : ∀ {ds : List BHint}, (∀ e ∈ ds, BHint.admitsNone e = false) → BHint.admitsNoneL ds = false
  | [], _ => rfl
  | d :: ds, h => by
    simp only [BHint.admitsNoneL, Bool.or_eq_false_iff]
    exact ⟨h d (List.mem_cons_self ..), admitsNoneL_plain (fun e he => h e (List.mem_cons_of_mem _ he))⟩

theorem joinB_plain {ds : List BHint} (h : ∀ e ∈ ds, BHint.admitsNone e = false) : (joinB ds).admitsNone = false := by
  unfold joinB
  split
  · exact h _ (List.mem_cons_self ..)
  · simp only [BHint.admitsNone]; exact admitsNoneL_plain h

theorem Alt.hintP_plain (sn : Bool) (a : Alt) (h : a.isPlain = true) : ∃ x, a.hintP sn = [.atom x] ∧ x ≠ .any := by
  cases a with
  | plain x => exact ⟨x, rfl, by simpa [Alt.isPlain] using h⟩
  | _ => simp [Alt.isPlain] at h

theorem Alt.hintB_plain (sn : Bool) (a : Alt) (h : a.isPlain = true) : ∃ x, a.hintB sn = .atom x ∧ x ≠ .any := by
  cases a with
  | plain x => exact ⟨x, rfl, by simpa [Alt.isPlain] using h⟩
  | _ => simp [Alt.isPlain] at h

/-- alternatives that are all plain type names: the written hint does not admit `None` and the
flag stays unset, however many there are and whichever repeat -/
theorem unionOutcome_plain (uo sn : Bool) (alts : List Alt) (h : alts.all Alt.isPlain = true) :
    unionOutcome uo sn alts = (false, false) := by
  have hall := List.all_eq_true.mp h
  unfold unionOutcome
  cases uo
  · have hk : ∀ k ∈ alts.map (Alt.hintB sn), ∃ x, k = .atom x ∧ x ≠ .any := by
      intro k hm
      obtain ⟨a, ha, rfl⟩ := List.mem_map.mp hm
      exact Alt.hintB_plain sn a (hall a ha)
    simp only [Bool.false_eq_true, if_false]
    match hm : alts.map (Alt.hintB sn), hk with
    | [], _ => rfl
    | [k], hk =>
      obtain ⟨x, rfl, hx⟩ := hk k (List.mem_cons_self ..)
      cases x <;> simp_all [nodeB, finishB, BHint.admitsNone]
    | k1 :: k2 :: ks, hk =>
      rw [nodeB_eq_union]
      have := unionLoopB_plain (k1 :: k2 :: ks) [] hk (by simp)
      rw [this.1]
      simp only [finishB, Bool.false_and, Bool.false_eq_true, if_false, joinB_plain this.2]
  · have hk : ∀ k ∈ alts.map (Alt.hintP sn), ∃ x, k = [.atom x] ∧ x ≠ .any := by
      intro k hm
      obtain ⟨a, ha, rfl⟩ := List.mem_map.mp hm
      exact Alt.hintP_plain sn a (hall a ha)
    simp only [if_true]
    match hm : alts.map (Alt.hintP sn), hk with
    | [], _ => rfl
    | [k], hk =>
      obtain ⟨x, rfl, hx⟩ := hk k (List.mem_cons_self ..)
      cases x <;> simp_all [nodeP, finishP, PHint.admitsNone, Part.admitsNone]
    | k1 :: k2 :: ks, hk =>
      rw [nodeP_eq_union]
      have := unionLoopP_plain (k1 :: k2 :: ks) [] hk (by simp)
      rw [this.1]
      simp only [finishP, Bool.false_eq_true, false_and, if_false, joinP_plain this.2]

end Dcg.Proofs.Field
