import Dcg.Model.Names
/-
Helper lemmas for C07 (and C09's member names): facts about the generated tables proved by
kernel evaluation, the invariants of the sanitiser's stages, the pigeonhole argument for the
retry loop.
-/
namespace Dcg.Proofs.Names
open Dcg.Py.Chars Dcg.Py.Ident Dcg.Model.Names Dcg.Gen.Unicode

/-! ### decidable facts about the generated tables (re-checked by the kernel when they change) -/

theorem idStart_underscore : isIdStart '_' = true := by decide +kernel
theorem idCont_underscore : isIdCont '_' = true := by decide +kernel

theorem digits_in_xidContinue : ∀ n < 58, 48 ≤ n → inRanges xidContinue n = true := by decide +kernel

theorem isDigit_bounds {c : Char} (h : c.isDigit = true) : 48 ≤ c.toNat ∧ c.toNat ≤ 57 := by
  unfold Char.isDigit at h
  simp only [Bool.and_eq_true, decide_eq_true_eq, ge_iff_le] at h
  obtain ⟨h1, h2⟩ := h
  rw [UInt32.le_iff_toNat_le] at h1 h2
  exact ⟨h1, h2⟩

theorem idCont_of_isDigit {c : Char} (h : c.isDigit = true) : isIdCont c = true := by
  have ⟨h1, h2⟩ := isDigit_bounds h
  exact digits_in_xidContinue c.toNat (by omega) h1

def lastNotDigit (s : List Char) : Bool :=
  match s.getLast? with
  | some c => !c.isDigit
  | none => true

theorem keywords_lastNotDigit : keywords.all lastNotDigit = true := by decide +kernel
theorem reserved_lastNotDigit : pydReserved.all lastNotDigit = true := by decide +kernel
theorem reserved_identifier : pydReserved.all isIdentifier = true := by decide +kernel
/-- DESIGN `reserved_closed`: appending `_` to a keyword or reserved name never gives a reserved name -/
theorem reserved_closed :
    (keywords ++ pydReserved).all (fun x => !pydReserved.contains (x ++ ['_'])) = true := by
  decide +kernel


/-! ### hypotheses of the theorems -/

/-- the special prefix is a non-empty identifier that does not start with `_` -/
def PrefixOK (cfg : Cfg) : Prop := isIdentifier cfg.pfx = true ∧ cfg.pfx.head? ≠ some '_'

instance (cfg : Cfg) : Decidable (PrefixOK cfg) := by unfold PrefixOK; infer_instance

/-- the constructor admits every prefix that is a non-empty identifier… -/
theorem prefixStart_of_prefixOK {cfg : Cfg} (hp : PrefixOK cfg) : PrefixStart cfg := by
  unfold PrefixStart
  obtain ⟨h, _⟩ := hp
  cases hc : cfg.pfx with
  | nil => rw [hc] at h; simp [isIdentifier] at h
  | cons c cs =>
    rw [hc] at h
    simp only [isIdentifier, Bool.and_eq_true, List.cons_append, List.all_append] at h ⊢
    exact ⟨h.1, h.2, by decide +kernel⟩

/-- …and, exactly: the empty prefix and the identifiers (a leading `_` included) -/
theorem prefixStart_iff (cfg : Cfg) : PrefixStart cfg ↔ cfg.pfx = [] ∨ isIdentifier cfg.pfx = true := by
  unfold PrefixStart
  cases hc : cfg.pfx with
  | nil => simp only [List.nil_append, true_or, iff_true]; decide +kernel
  | cons c cs =>
    have hu : isIdCont '_' = true := by decide +kernel
    simp [isIdentifier, List.all_append, hu]

/-- `f` (a case map on strings) sends an identifier to an identifier, and one that does not start with `_`
to one that does not start with `_` -/
def CaseFnOK (f : List Char → List Char) : Prop :=
  ∀ s, isIdentifier s = true → isIdentifier (f s) = true ∧ (s.head? ≠ some '_' → (f s).head? ≠ some '_')

def CaseOK (E : Env) : Prop := CaseFnOK E.lower ∧ CaseFnOK E.upper

/-- an identifier that does not start with an underscore -/
def Good (s : List Char) : Prop := isIdentifier s = true ∧ s.head? ≠ some '_'

/-! ### identifiers -/

theorem isIdentifier_append {s t : List Char} (hs : isIdentifier s = true) (ht : t.all isIdCont = true) :
    isIdentifier (s ++ t) = true := by
  cases s with
  | nil => simp [isIdentifier] at hs
  | cons c cs =>
    simp only [isIdentifier, Bool.and_eq_true, List.cons_append, List.all_append] at hs ⊢
    exact ⟨hs.1, hs.2, ht⟩

theorem head?_append_of_ne_nil {s t : List Char} (hs : s ≠ []) : (s ++ t).head? = s.head? := by
  cases s with
  | nil => exact absurd rfl hs
  | cons c cs => rfl

theorem isIdentifier_ne_nil {s : List Char} (hs : isIdentifier s = true) : s ≠ [] := by
  intro h; subst h; simp [isIdentifier] at hs

theorem Good.append {s t : List Char} (hs : Good s) (ht : t.all isIdCont = true) : Good (s ++ t) :=
  ⟨isIdentifier_append hs.1 ht, by rw [head?_append_of_ne_nil (isIdentifier_ne_nil hs.1)]; exact hs.2⟩

/-- prefix ++ "_" ++ anything made of identifier-continue characters -/
theorem good_prefixed {cfg : Cfg} (hp : PrefixOK cfg) {s : List Char} (hs : s.all isIdCont = true) :
    Good (cfg.pfx ++ '_' :: s) :=
  Good.append ⟨hp.1, hp.2⟩ (by simp [idCont_underscore, hs])

/-- the same under the constructor's guard only: an identifier (it may start with `_`) -/
theorem ident_prefixed {cfg : Cfg} (hp : PrefixStart cfg) {s : List Char} (hs : s.all isIdCont = true) :
    isIdentifier (cfg.pfx ++ '_' :: s) = true := by
  have : cfg.pfx ++ '_' :: s = (cfg.pfx ++ ['_']) ++ s := by simp
  rw [this]
  exact isIdentifier_append hp hs

/-! ### the stages of the sanitiser -/

theorem subIdent_idCont (c : Char) : isIdCont (subIdent c) = true := by
  unfold subIdent
  split
  · rename_i h
    simp only [isIdentifier, List.all_cons, List.all_nil, Bool.and_true, Bool.and_eq_true] at h
    exact h.2
  · exact idCont_underscore

theorem sanitize_all_idCont (s : List Char) : (sanitize s).all isIdCont = true := by
  simp [sanitize, List.all_map, Function.comp_def, subIdent_idCont]

theorem good_prefixHead {cfg : Cfg} (hp : PrefixStart cfg) {s : List Char} (hne : s ≠ [])
    (hs : s.all isIdCont = true) : isIdentifier (prefixHead cfg s) = true := by
  cases s with
  | nil => exact absurd rfl hne
  | cons c cs =>
    simp only [prefixHead]
    split
    · exact ident_prefixed hp hs
    · rename_i h
      simp only [Bool.or_eq_true, Bool.not_eq_eq_eq_not, Bool.not_true, not_or, Bool.not_eq_true,
        Bool.not_eq_false] at h
      simp only [List.all_cons, Bool.and_eq_true] at hs
      simp [isIdentifier, h.2, hs.2]

theorem all_dropWhile {p q : Char → Bool} {s : List Char} (h : s.all p = true) :
    (s.dropWhile q).all p = true := by
  induction s with
  | nil => simp
  | cons c cs ih =>
    simp only [List.all_cons, Bool.and_eq_true] at h
    simp only [List.dropWhile_cons]
    split
    · exact ih h.2
    · simp [h.1, h.2]

theorem head?_dropWhile_underscore (s : List Char) : (s.dropWhile (· == '_')).head? ≠ some '_' := by
  induction s with
  | nil => simp
  | cons c cs ih =>
    simp only [List.dropWhile_cons]
    split
    · exact ih
    · rename_i h
      simp only [List.head?_cons, ne_eq, Option.some.injEq]
      intro hc; subst hc; simp at h

/-- after the leading-underscore loop: either already a good identifier, or (only when underscores were
stripped) a string of identifier-continue characters that does not start with `_` -/
theorem loop_post {cfg : Cfg} (hp : PrefixOK cfg) {t : List Char} (ht : isIdentifier t = true) :
    Good (underscoreLoop cfg t) ∨
      ((underscoreLoop cfg t).all isIdCont = true ∧ (underscoreLoop cfg t).head? ≠ some '_') := by
  unfold underscoreLoop
  cases t with
  | nil => simp [isIdentifier] at ht
  | cons c cs =>
    simp only [isIdentifier, Bool.and_eq_true] at ht
    by_cases hc : c = '_'
    · subst hc
      have hall : ('_' :: cs).all isIdCont = true := by simp [idCont_underscore, ht.2]
      simp only [List.head?_cons, if_true]
      split
      · right
        exact ⟨all_dropWhile hall, head?_dropWhile_underscore _⟩
      · left
        exact Good.append ⟨hp.1, hp.2⟩ hall
    · left
      have : (c :: cs).head? ≠ some '_' := by simp [hc]
      rw [if_neg this]
      exact ⟨by simp [isIdentifier, ht.1, ht.2], this⟩

/-- under the constructor's guard only: after the leading-underscore loop the name is an identifier or
(underscores stripped) a string of identifier-continue characters -/
theorem loop_post_ident {cfg : Cfg} (hp : PrefixStart cfg) {t : List Char} (ht : isIdentifier t = true) :
    isIdentifier (underscoreLoop cfg t) = true ∨ (underscoreLoop cfg t).all isIdCont = true := by
  unfold underscoreLoop
  cases t with
  | nil => simp [isIdentifier] at ht
  | cons c cs =>
    simp only [isIdentifier, Bool.and_eq_true] at ht
    by_cases hc : c = '_'
    · subst hc
      have hall : ('_' :: cs).all isIdCont = true := by simp [idCont_underscore, ht.2]
      simp only [List.head?_cons, if_true]
      split
      · exact Or.inr (all_dropWhile hall)
      · left
        have : cfg.pfx ++ '_' :: cs = (cfg.pfx ++ ['_']) ++ cs := by simp
        rw [this]
        exact isIdentifier_append hp ht.2
    · left
      have : (c :: cs).head? ≠ some '_' := by simp [hc]
      rw [if_neg this]
      simp [isIdentifier, ht.1, ht.2]

theorem ident_repairHead {cfg : Cfg} (hp : PrefixStart cfg) {u : List Char}
    (h : isIdentifier u = true ∨ u.all isIdCont = true) : isIdentifier (repairHead cfg u) = true := by
  cases u with
  | nil =>
    simp only [repairHead]
    exact hp
  | cons c cs =>
    simp only [repairHead]
    split
    · rename_i hc
      rcases h with h | h
      · simp [isIdentifier] at h; simp [h.1] at hc
      · exact ident_prefixed hp h
    · rename_i hc
      simp only [Bool.not_eq_eq_eq_not, Bool.not_true, Bool.not_eq_false] at hc
      rcases h with h | h
      · exact h
      · simp only [List.all_cons, Bool.and_eq_true] at h
        simp [isIdentifier, hc, h.2]

theorem good_repairHead {cfg : Cfg} (hp : PrefixOK cfg) {u : List Char}
    (h : Good u ∨ (u.all isIdCont = true ∧ u.head? ≠ some '_')) : Good (repairHead cfg u) := by
  cases u with
  | nil =>
    simp only [repairHead]
    exact good_prefixed hp (s := []) (by simp)
  | cons c cs =>
    simp only [repairHead]
    split
    · rename_i hc
      rcases h with h | h
      · have := h.1; simp [isIdentifier] at this; simp [this.1] at hc
      · exact good_prefixed hp h.1
    · rename_i hc
      simp only [Bool.not_eq_eq_eq_not, Bool.not_true, Bool.not_eq_false] at hc
      rcases h with h | h
      · exact h
      · refine ⟨?_, h.2⟩
        have := h.1
        simp only [List.all_cons, Bool.and_eq_true] at this
        simp [isIdentifier, hc, this.2]

/-- the two regex substitutions of camel_to_snake keep the first character and only insert `_` -/
theorem sub1Go_all (b : Bool) (l : List Char) (h : l.all isIdCont = true) :
    (sub1Go b l).all isIdCont = true := by
  fun_induction sub1Go b l with
  | case1 inRun a b' c' rest _ ih =>
    simp only [List.all_cons, Bool.and_eq_true] at h ⊢
    exact ⟨h.1, by simpa using ih (by simp [h.2.1, h.2.2.1, h.2.2.2])⟩
  | case2 inRun a b' c' rest _ _ ih =>
    simp only [List.all_cons, Bool.and_eq_true] at h ⊢
    exact ⟨h.1, idCont_underscore, h.2.1, h.2.2.1, ih h.2.2.2⟩
  | case3 inRun a b' c' rest _ _ ih =>
    simp only [List.all_cons, Bool.and_eq_true] at h ⊢
    exact ⟨h.1, by simpa using ih (by simp [h.2.1, h.2.2.1, h.2.2.2])⟩
  | case4 inRun l _ => exact h

theorem sub1Go_cons (b : Bool) (c : Char) (cs : List Char) :
    ∃ r, sub1Go b (c :: cs) = c :: r ∧ (cs.all isIdCont = true → r.all isIdCont = true) := by
  match cs with
  | [] => exact ⟨[], by simp [sub1Go], fun h => h⟩
  | [d] => exact ⟨[d], by simp [sub1Go], fun h => h⟩
  | d :: e :: rest =>
    rw [sub1Go]
    split
    · exact ⟨_, rfl, fun h => sub1Go_all _ _ h⟩
    · split
      · refine ⟨_, rfl, fun h => ?_⟩
        simp only [List.all_cons, Bool.and_eq_true] at h ⊢
        exact ⟨idCont_underscore, h.1, h.2.1, sub1Go_all _ _ h.2.2⟩
      · exact ⟨_, rfl, fun h => sub1Go_all _ _ h⟩

theorem sub2_all (l : List Char) (h : l.all isIdCont = true) : (sub2 l).all isIdCont = true := by
  fun_induction sub2 l with
  | case1 a b rest _ ih =>
    simp only [List.all_cons, Bool.and_eq_true] at h ⊢
    exact ⟨h.1, idCont_underscore, h.2.1, ih h.2.2⟩
  | case2 a b rest _ ih =>
    simp only [List.all_cons, Bool.and_eq_true] at h ⊢
    exact ⟨h.1, by simpa using ih (by simp [h.2.1, h.2.2])⟩
  | case3 l _ => exact h

theorem sub2_cons (c : Char) (cs : List Char) :
    ∃ r, sub2 (c :: cs) = c :: r ∧ (cs.all isIdCont = true → r.all isIdCont = true) := by
  match cs with
  | [] => exact ⟨[], by simp [sub2], fun h => h⟩
  | d :: rest =>
    rw [sub2]
    split
    · refine ⟨_, rfl, fun h => ?_⟩
      simp only [List.all_cons, Bool.and_eq_true] at h ⊢
      exact ⟨idCont_underscore, h.1, sub2_all _ h.2⟩
    · exact ⟨_, rfl, fun h => sub2_all _ h⟩

/-- the two substitutions keep the first character and only insert `_` -/
theorem subs_head_ident {s : List Char} (hid : isIdentifier s = true) :
    isIdentifier (sub2 (sub1Go false s)) = true ∧ (sub2 (sub1Go false s)).head? = s.head? := by
  cases s with
  | nil => simp [isIdentifier] at hid
  | cons c cs =>
    simp only [isIdentifier, Bool.and_eq_true] at hid
    obtain ⟨r1, h1, a1⟩ := sub1Go_cons false c cs
    obtain ⟨r2, h2, a2⟩ := sub2_cons c r1
    rw [h1, h2]
    exact ⟨by simp [isIdentifier, hid.1, a2 (a1 hid.2)], rfl⟩

theorem good_subs {s : List Char} (h : Good s) : Good (sub2 (sub1Go false s)) := by
  obtain ⟨h1, h2⟩ := subs_head_ident h.1
  exact ⟨h1, by rw [h2]; exact h.2⟩

theorem ident_camelToSnake {E : Env} (hE : CaseOK E) {s : List Char} (h : isIdentifier s = true) :
    isIdentifier (camelToSnake E s) = true :=
  (hE.1 _ (subs_head_ident h).1).1

theorem good_camelToSnake {E : Env} (hE : CaseOK E) {s : List Char} (h : Good s) :
    Good (camelToSnake E s) := by
  have := good_subs h
  exact ⟨(hE.1 _ this.1).1, (hE.1 _ this.1).2 this.2⟩

theorem good_suffixReserved (k : Kind) {s : List Char} (h : Good s) : Good (suffixReserved k s) := by
  unfold suffixReserved
  split
  · exact h.append (by simp [idCont_underscore])
  · exact h

theorem ident_suffixReserved (k : Kind) {s : List Char} (h : isIdentifier s = true) :
    isIdentifier (suffixReserved k s) = true := by
  unfold suffixReserved
  split
  · exact isIdentifier_append h (by simp [idCont_underscore])
  · exact h

/-- for EVERY configuration the constructor admits (`PrefixStart`: the empty prefix and prefixes starting
with `_` included) the body handed to the retry loop is an identifier -/
theorem ident_body {E : Env} {cfg : Cfg} (hp : PrefixStart cfg) (hE : CaseOK E) (k : Kind) (ign : Bool)
    {s : List Char} (hne : s ≠ []) (hs : s.all isIdCont = true) : isIdentifier (body E k cfg ign s) = true := by
  unfold body
  have h3 := ident_repairHead hp (loop_post_ident hp (good_prefixHead hp hne hs))
  apply ident_suffixReserved
  split
  · exact ident_camelToSnake hE h3
  · exact h3

/-- the body handed to the retry loop is an identifier that does not start with `_` -/
theorem good_body {E : Env} {cfg : Cfg} (hp : PrefixOK cfg) (hE : CaseOK E) (k : Kind) (ign : Bool)
    {s : List Char} (hne : s ≠ []) (hs : s.all isIdCont = true) : Good (body E k cfg ign s) := by
  unfold body
  have h3 := good_repairHead hp (loop_post hp (good_prefixHead (prefixStart_of_prefixOK hp) hne hs))
  apply good_suffixReserved
  split
  · exact good_camelToSnake hE h3
  · exact h3


/-! ### retry candidates -/

theorem digits_ne_nil (n : Nat) : digits n ≠ [] := Nat.toDigits_ne_nil

theorem digits_all_isDigit (n : Nat) : ∀ c ∈ digits n, c.isDigit = true :=
  fun _ hc => Nat.isDigit_of_mem_toDigits (by decide) (by decide) hc

theorem digits_all_idCont (n : Nat) : (digits n).all isIdCont = true := by
  rw [List.all_eq_true]
  exact fun c hc => idCont_of_isDigit (digits_all_isDigit n c hc)

theorem digits_injective {i j : Nat} (h : digits i = digits j) : i = j := by
  have hi := @Nat.ofDigitChars_ten_toDigits i
  have hj := @Nat.ofDigitChars_ten_toDigits j
  unfold digits at h
  rw [h] at hi
  exact hi.symm.trans hj

theorem cand_injective (b : List Char) (uc : Bool) {i j : Nat} (h : cand b uc i = cand b uc j) : i = j := by
  unfold cand at h
  split at h
  · exact digits_injective (List.append_cancel_left h)
  · have := List.append_cancel_left h
    simp only [List.cons.injEq, true_and] at this
    exact digits_injective this

theorem cand_tail_all (uc : Bool) (i : Nat) :
    ((if uc then digits i else '_' :: digits i) : List Char).all isIdCont = true := by
  split
  · exact digits_all_idCont i
  · simp [idCont_underscore, digits_all_idCont i]

theorem cand_eq (b : List Char) (uc : Bool) (i : Nat) :
    cand b uc i = b ++ (if uc then digits i else '_' :: digits i) := by
  unfold cand; split <;> rfl

theorem good_cand {b : List Char} (hb : Good b) (uc : Bool) (i : Nat) : Good (cand b uc i) := by
  rw [cand_eq]; exact hb.append (cand_tail_all uc i)

theorem ident_cand {b : List Char} (hb : isIdentifier b = true) (uc : Bool) (i : Nat) :
    isIdentifier (cand b uc i) = true := by
  rw [cand_eq]; exact isIdentifier_append hb (cand_tail_all uc i)

theorem getLast?_digits (n : Nat) : ∃ c, (digits n).getLast? = some c ∧ c.isDigit = true := by
  have hne := digits_ne_nil n
  refine ⟨(digits n).getLast hne, List.getLast?_eq_some_getLast hne, ?_⟩
  exact digits_all_isDigit n _ (List.getLast_mem hne)

theorem cand_getLast? (b : List Char) (uc : Bool) (i : Nat) :
    ∃ c, (cand b uc i).getLast? = some c ∧ c.isDigit = true := by
  obtain ⟨c, hc, hd⟩ := getLast?_digits i
  refine ⟨c, ?_, hd⟩
  have hne := digits_ne_nil i
  unfold cand
  split
  · rw [List.getLast?_append, hc]; rfl
  · rw [List.getLast?_append, List.getLast?_cons_of_ne_nil hne, hc]; rfl

theorem not_lastNotDigit_cand (b : List Char) (uc : Bool) (i : Nat) :
    lastNotDigit (cand b uc i) = false := by
  obtain ⟨c, hc, hd⟩ := cand_getLast? b uc i
  simp [lastNotDigit, hc, hd]

theorem cand_not_keyword (b : List Char) (uc : Bool) (i : Nat) : isKeyword (cand b uc i) = false := by
  cases h : isKeyword (cand b uc i) with
  | false => rfl
  | true =>
    have hm : cand b uc i ∈ keywords := by simpa [isKeyword] using h
    have := List.all_eq_true.mp keywords_lastNotDigit _ hm
    rw [not_lastNotDigit_cand] at this
    cases this

theorem cand_not_reserved (b : List Char) (uc : Bool) (i : Nat) : isPydReserved (cand b uc i) = false := by
  cases h : isPydReserved (cand b uc i) with
  | false => rfl
  | true =>
    have hm : cand b uc i ∈ pydReserved := by simpa [isPydReserved] using h
    have := List.all_eq_true.mp reserved_lastNotDigit _ hm
    rw [not_lastNotDigit_cand] at this
    cases this

/-- for a body that is an identifier, a candidate fails the loop condition only by being excluded -/
theorem bad_cand {b : List Char} (hb : isIdentifier b = true) (k : Kind) (excl : List (List Char)) (uc : Bool)
    (i : Nat) : bad k excl (cand b uc i) = excl.contains (cand b uc i) := by
  simp [bad, ident_cand hb uc i, cand_not_keyword]

/-! ### pigeonhole: among `|l| + 1` values of an injective sequence one is outside `l` -/

theorem pigeonhole {α : Type} [DecidableEq α] (f : Nat → α) (hf : ∀ i j, f i = f j → i = j) :
    ∀ (n : Nat) (l : List α), l.length = n → ∀ c, ∃ j, c ≤ j ∧ j < c + n + 1 ∧ f j ∉ l := by
  intro n
  induction n with
  | zero =>
    intro l hl c
    have : l = [] := List.length_eq_zero_iff.mp hl
    exact ⟨c, Nat.le_refl _, by omega, by simp [this]⟩
  | succ n ih =>
    intro l hl c
    apply Classical.byContradiction
    intro hno
    have hall : ∀ j, c ≤ j → j < c + (n + 1) + 1 → f j ∈ l := by
      intro j h1 h2
      apply Classical.byContradiction
      intro hj
      exact hno ⟨j, h1, h2, hj⟩
    have hlast : f (c + n + 1) ∈ l := hall _ (by omega) (by omega)
    have hlen : (l.erase (f (c + n + 1))).length = n := by
      rw [List.length_erase_of_mem hlast, hl]; rfl
    obtain ⟨j, h1, h2, hj⟩ := ih (l.erase (f (c + n + 1))) hlen c
    have hjl : f j ∈ l := hall j h1 (by omega)
    have hne : f j ≠ f (c + n + 1) := by
      intro h; have := hf _ _ h; omega
    exact hj ((List.mem_erase_of_ne hne).mpr hjl)

/-! ### the retry loop -/

/-- what the loop returns passes the loop condition and is the first name or one of the candidates -/
theorem retry_ok {k : Kind} {excl : List (List Char)} {b : List Char} {uc : Bool} :
    ∀ (fuel count : Nat) (new r : List Char), retry k excl b uc fuel count new = .ok r →
      bad k excl r = false ∧ (r = new ∨ ∃ j, count ≤ j ∧ r = cand b uc j) := by
  intro fuel
  induction fuel with
  | zero => intro count new r h; simp [retry] at h
  | succ fuel ih =>
    intro count new r h
    rw [retry] at h
    split at h
    · obtain ⟨h1, h2⟩ := ih _ _ _ h
      refine ⟨h1, Or.inr ?_⟩
      rcases h2 with h2 | ⟨j, hj, h2⟩
      · exact ⟨count, Nat.le_refl _, h2⟩
      · exact ⟨j, by omega, h2⟩
    · rename_i hb
      simp only [Res.ok.injEq] at h
      subst h
      exact ⟨by simpa using hb, Or.inl rfl⟩

/-- if one of the next `fuel` candidates passes the condition, the loop returns within `fuel` evaluations -/
theorem retry_finds {k : Kind} {excl : List (List Char)} {b : List Char} {uc : Bool} :
    ∀ (fuel c : Nat), (∃ j, c ≤ j ∧ j < c + fuel ∧ bad k excl (cand b uc j) = false) →
      retry k excl b uc fuel (c + 1) (cand b uc c) ≠ .outOfFuel := by
  intro fuel
  induction fuel with
  | zero => intro c ⟨j, h1, h2, _⟩; omega
  | succ fuel ih =>
    intro c ⟨j, h1, h2, h3⟩
    rw [retry]
    split
    · rename_i hb
      apply ih (c + 1)
      refine ⟨j, ?_, by omega, h3⟩
      by_cases hjc : j = c
      · subst hjc; rw [h3] at hb; cases hb
      · omega
    · intro h; cases h

/-- the loop started on a body that is an identifier returns with fuel `|excl| + 2` -/
theorem retry_terminates_good {b : List Char} (hb : isIdentifier b = true) (k : Kind) (excl : List (List Char))
    (uc : Bool) (new : List Char) :
    retry k excl b uc (excl.length + 2) 1 new ≠ .outOfFuel := by
  rw [retry]
  split
  · obtain ⟨j, h1, h2, h3⟩ :=
      pigeonhole (cand b uc) (fun _ _ h => cand_injective b uc h) excl.length excl rfl 1
    apply retry_finds (excl.length + 1) 1
    refine ⟨j, h1, by omega, ?_⟩
    rw [bad_cand hb]
    simpa using h3
  · intro h; cases h

/-! ### get_valid_name as a whole -/

theorem stage1_ne_outOfFuel (E : Env) (cfg : Cfg) (ign : Bool) (name : List Char) :
    stage1 E cfg ign name ≠ .outOfFuel := by
  unfold stage1 snakeToUpperCamel
  intro h
  repeat' split at h
  all_goals cases h


/-- what the loop returned, in terms of the body -/
theorem result_shape {E : Env} {k : Kind} {cfg : Cfg} {name : List Char} {excl : List (List Char)}
    {ign uc : Bool} {fuel : Nat} {r : List Char}
    (h : getValidNameBaseF fuel E k cfg name excl ign uc = .ok r) :
    ∃ s, s ≠ [] ∧ s.all isIdCont = true ∧ bad k excl r = false ∧
      (r = firstName E cfg uc (body E k cfg ign s) ∨ ∃ j, r = cand (body E k cfg ign s) uc j) := by
  unfold getValidNameBaseF at h
  split at h
  · rename_i n1 _
    split at h
    · cases h
    · rename_i hne
      obtain ⟨h1, h2⟩ := retry_ok _ _ _ _ h
      refine ⟨sanitize n1, by simpa using hne, sanitize_all_idCont _, h1, ?_⟩
      rcases h2 with h2 | ⟨j, _, h2⟩
      · exact Or.inl h2
      · exact Or.inr ⟨j, h2⟩
  · cases h
  · cases h


theorem suffixReserved_not_reserved (s : List Char) :
    isPydReserved (suffixReserved .pydantic s) = false := by
  unfold suffixReserved
  split
  · rename_i h
    have hmem : s ∈ keywords ++ pydReserved := by
      simp only [Bool.or_eq_true, validate, Bool.not_not] at h
      rcases h with h | h
      · exact List.mem_append_left _ (by simpa [isKeyword] using h)
      · exact List.mem_append_right _ (by simpa [isPydReserved] using h)
    have := List.all_eq_true.mp reserved_closed _ hmem
    simpa [isPydReserved] using this
  · rename_i h
    simp only [Bool.or_eq_true, validate, Bool.not_not, not_or, Bool.not_eq_true] at h
    exact h.2


theorem result_not_excluded {E : Env} {k : Kind} {cfg : Cfg} {name : List Char}
    {excl : List (List Char)} {ign uc : Bool} {r : List Char}
    (h : getValidName E k cfg name excl ign uc = .ok r) : r ∉ excl := by
  obtain ⟨_, _, _, hb, _⟩ := result_shape h
  simp only [bad, Bool.or_eq_false_iff] at hb
  have hnotin : r ∉ effExcl k excl := by simpa using hb.2
  intro hin
  apply hnotin
  unfold effExcl; split
  · exact List.mem_append_right _ hin
  · exact hin


/-- one step of the `parse_object_fields` loop: both branches (boolean schema / ordinary schema) continue
with the SAME excludes, extended by the name just given -/
theorem foldProps_cons (E : Env) (k : Kind) (cfg : Cfg) (n : List Char) (isBool : Bool)
    (ps : List (List Char × Bool)) (excl : List (List Char)) :
    foldProps E k cfg ((n, isBool) :: ps) excl =
      match getValidFieldNameAndAlias E k cfg n excl with
      | .ok fa => (foldProps E k cfg ps (fa.1 :: excl)).map fun r => ((fa, isBool) :: r.1, r.2)
      | .outOfFuel => .outOfFuel
      | .error => .error := by
  rw [foldProps]
  cases isBool <;> rfl

/-- case analysis of a successful step -/
theorem foldProps_cons_ok {E : Env} {k : Kind} {cfg : Cfg} {n : List Char} {isBool : Bool}
    {ps : List (List Char × Bool)} {excl : List (List Char)} {fs : List FieldOut} {ex : List (List Char)}
    (h : foldProps E k cfg ((n, isBool) :: ps) excl = .ok (fs, ex)) :
    ∃ fa fs', getValidFieldNameAndAlias E k cfg n excl = .ok fa ∧
      foldProps E k cfg ps (fa.1 :: excl) = .ok (fs', ex) ∧ fs = (fa, isBool) :: fs' := by
  rw [foldProps_cons] at h
  cases hfa : getValidFieldNameAndAlias E k cfg n excl with
  | ok fa =>
    rw [hfa] at h
    simp only at h
    cases hrest : foldProps E k cfg ps (fa.1 :: excl) with
    | ok r =>
      rw [hrest] at h
      simp only [Res.map, Res.ok.injEq, Prod.mk.injEq] at h
      obtain ⟨h1, h2⟩ := h
      obtain ⟨r1, r2⟩ := r
      simp only at h1 h2
      subst h2
      exact ⟨fa, r1, rfl, hrest, h1.symm⟩
    | outOfFuel => rw [hrest] at h; simp [Res.map] at h
    | error => rw [hrest] at h; simp [Res.map] at h
  | outOfFuel => rw [hfa] at h; cases h
  | error => rw [hfa] at h; cases h

/-- without a hit in the user's `aliases` map the field name is a result of `get_valid_name` -/
theorem field_name_not_excluded {E : Env} {k : Kind} {cfg : Cfg} {n : List Char} {excl : List (List Char)}
    {fa : List Char × Option (List Char)} (hn : cfg.aliases.lookup n = none)
    (h : getValidFieldNameAndAlias E k cfg n excl = .ok fa) : fa.1 ∉ excl := by
  simp only [getValidFieldNameAndAlias, hn] at h
  cases hv : getValidName E k cfg n excl false false with
  | ok v =>
    rw [hv] at h
    simp only [Res.map, Res.ok.injEq] at h
    subst h
    exact result_not_excluded hv
  | outOfFuel => rw [hv] at h; simp [Res.map] at h
  | error => rw [hv] at h; simp [Res.map] at h

/-! ### a concrete case map satisfying `CaseOK`: ASCII-only lower/upper (what CPython does on ASCII names) -/

def asciiLower (c : Char) : Char := if isAsciiUpper c then Char.ofNat (c.toNat + 32) else c
def asciiUpper (c : Char) : Char := if isAsciiLower c then Char.ofNat (c.toNat - 32) else c
def asciiEnv : Env := ⟨List.map asciiLower, List.map asciiUpper⟩

theorem ascii_letters_ok : ∀ n < 123, (65 ≤ n ∧ n ≤ 90) ∨ 97 ≤ n →
    inRanges xidStart n = true ∧ inRanges xidContinue n = true := by decide +kernel

theorem isAsciiUpper_bounds {c : Char} (h : isAsciiUpper c = true) : 65 ≤ c.toNat ∧ c.toNat ≤ 90 := by
  simp only [isAsciiUpper, Bool.and_eq_true, decide_eq_true_eq] at h
  obtain ⟨h1, h2⟩ := h
  rw [Char.le_def, UInt32.le_iff_toNat_le] at h1 h2
  exact ⟨h1, h2⟩

theorem isAsciiLower_bounds {c : Char} (h : isAsciiLower c = true) : 97 ≤ c.toNat ∧ c.toNat ≤ 122 := by
  simp only [isAsciiLower, Bool.and_eq_true, decide_eq_true_eq] at h
  obtain ⟨h1, h2⟩ := h
  rw [Char.le_def, UInt32.le_iff_toNat_le] at h1 h2
  exact ⟨h1, h2⟩

theorem toNat_ofNat_small {n : Nat} (h : n < 128) : (Char.ofNat n).toNat = n := by
  simp only [Char.ofNat]
  rw [dif_pos (Or.inl (by omega))]
  simp [Char.ofNatAux, Char.toNat, UInt32.toNat_ofNatLT]

theorem asciiLower_ok (c : Char) :
    (isIdStart c = true → isIdStart (asciiLower c) = true) ∧
    (isIdCont c = true → isIdCont (asciiLower c) = true) ∧ (asciiLower c = '_' → c = '_') := by
  unfold asciiLower
  split
  · rename_i h
    have ⟨h1, h2⟩ := isAsciiUpper_bounds h
    have hn := toNat_ofNat_small (n := c.toNat + 32) (by omega)
    have := ascii_letters_ok (c.toNat + 32) (by omega) (Or.inr (by omega))
    refine ⟨fun _ => by simpa [isIdStart, hn] using this.1, fun _ => by simpa [isIdCont, hn] using this.2, ?_⟩
    intro heq
    have := congrArg Char.toNat heq
    rw [hn] at this
    have : c.toNat + 32 = 95 := this
    omega
  · exact ⟨id, id, id⟩

theorem asciiUpper_ok (c : Char) :
    (isIdStart c = true → isIdStart (asciiUpper c) = true) ∧
    (isIdCont c = true → isIdCont (asciiUpper c) = true) ∧ (asciiUpper c = '_' → c = '_') := by
  unfold asciiUpper
  split
  · rename_i h
    have ⟨h1, h2⟩ := isAsciiLower_bounds h
    have hn := toNat_ofNat_small (n := c.toNat - 32) (by omega)
    have := ascii_letters_ok (c.toNat - 32) (by omega) (Or.inl (by omega))
    refine ⟨fun _ => by simpa [isIdStart, hn] using this.1, fun _ => by simpa [isIdCont, hn] using this.2, ?_⟩
    intro heq
    have := congrArg Char.toNat heq
    rw [hn] at this
    have : c.toNat - 32 = 95 := this
    omega
  · exact ⟨id, id, id⟩

/-- a character-wise map that respects the identifier classes and creates no `_` is a legal case map -/
theorem caseFnOK_map (f : Char → Char)
    (hf : ∀ c, (isIdStart c = true → isIdStart (f c) = true) ∧
      (isIdCont c = true → isIdCont (f c) = true) ∧ (f c = '_' → c = '_')) :
    CaseFnOK (List.map f) := by
  intro s hs
  cases s with
  | nil => simp [isIdentifier] at hs
  | cons c cs =>
    simp only [isIdentifier, Bool.and_eq_true, List.all_eq_true] at hs
    refine ⟨?_, ?_⟩
    · simp only [List.map_cons, isIdentifier, Bool.and_eq_true, List.all_eq_true, List.mem_map,
        forall_exists_index, and_imp, forall_apply_eq_imp_iff₂]
      exact ⟨(hf c).1 hs.1, fun d hd => (hf d).2.1 (hs.2 d hd)⟩
    · intro hh
      simp only [List.map_cons, List.head?_cons, ne_eq, Option.some.injEq]
      intro h
      exact hh (by simp [(hf c).2.2 h])

theorem caseOK_asciiEnv : CaseOK asciiEnv :=
  ⟨caseFnOK_map _ asciiLower_ok, caseFnOK_map _ asciiUpper_ok⟩

end Dcg.Proofs.Names
