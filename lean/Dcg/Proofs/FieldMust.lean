import Dcg.Proofs.Field
/-! Exhaustive kernel evaluation over every valid reduced vector (closed-form template decision). -/
namespace Dcg.Proofs.Field
open Dcg.Model.Field

theorem mustExact_closed : AllR (fun r _ _ => r) (MustExact closedDecision) := by decide +kernel

theorem mustFamiliesNeedNull : AllR (fun r _ n => r && !n.admitsNull) MustFamiliesNeedNull := by decide +kernel

end Dcg.Proofs.Field
