import Dcg.Model.ResolverMultidoc
/-! Helper lemmas for the multi-document pending-pointer resolution (C06). Core Lean only. -/
namespace Dcg.Proofs.ResolverMultidoc
open Dcg.Model.ResolverMultidoc

/-- every lookup recorded so far was made in the document the pending reference belongs to -/
def TraceOwn (st : MState) : Prop := ∀ e ∈ st.trace, e.1 = e.2.doc

theorem reserve_trace (st : MState) (r : Ref) : (reserve st r).trace = st.trace := by
  unfold reserve; split <;> rfl

theorem foldl_reserve_trace (refs : List Ref) : ∀ st : MState, (refs.foldl reserve st).trace = st.trace := by
  induction refs with
  | nil => intro st; rfl
  | cons r rs ih => intro st; simp only [List.foldl_cons]; rw [ih, reserve_trace]

theorem load_trace (st : MState) (r : Ref) (refs : List Ref) : (load st r refs).trace = st.trace := by
  unfold load; rw [foldl_reserve_trace]

theorem resolveOne_own (docs : Nat → Ptr → Option (List Ref)) (src : Nat) (st st' : MState) (r : Ref) (c : Bool)
    (hr : r.doc = src) (h : resolveOne docs src st r = some (st', c)) (ht : TraceOwn st) : TraceOwn st' := by
  unfold resolveOne at h
  split at h
  · cases h; exact ht
  · dsimp only at h
    split at h
    · cases h
    · cases h
      intro e he
      rw [load_trace] at he
      rcases List.mem_append.mp he with he | he
      · exact ht e he
      · simp only [List.mem_singleton] at he
        subst he
        exact hr.symm

theorem resolveBucket_own (docs : Nat → Ptr → Option (List Ref)) (src : Nat) :
    ∀ (rs : List Ref) (st st' : MState) (ch ch' : Bool), (∀ r ∈ rs, r.doc = src) →
    resolveBucket docs src rs st ch = some (st', ch') → TraceOwn st → TraceOwn st' := by
  intro rs
  induction rs with
  | nil => intro st st' ch ch' _ h ht; simp only [resolveBucket, Option.some.injEq, Prod.mk.injEq] at h; rw [← h.1]; exact ht
  | cons r rs ih =>
    intro st st' ch ch' hrs h ht
    simp only [resolveBucket] at h
    split at h
    · cases h
    · rename_i st1 c h1
      exact ih st1 st' _ ch' (fun x hx => hrs x (List.mem_cons_of_mem _ hx)) h
        (resolveOne_own docs src st st1 r c (hrs r (List.mem_cons_self ..)) h1 ht)

theorem resolvePass_own (docs : Nat → Ptr → Option (List Ref)) :
    ∀ (srcs : List Nat) (st st' : MState) (ch ch' : Bool),
    resolvePass docs srcs st ch = some (st', ch') → TraceOwn st → TraceOwn st' := by
  intro srcs
  induction srcs with
  | nil => intro st st' ch ch' h ht; simp only [resolvePass, Option.some.injEq, Prod.mk.injEq] at h; rw [← h.1]; exact ht
  | cons src srcs ih =>
    intro st st' ch ch' h ht
    simp only [resolvePass] at h
    split at h
    · cases h
    · rename_i st1 ch1 h1
      refine ih st1 st' ch1 ch' h (resolveBucket_own docs src _ st st1 ch ch1 ?_ h1 ht)
      intro r hr
      simpa using (List.mem_filter.mp hr).2

theorem resolveUnparsed_own (docs : Nat → Ptr → Option (List Ref)) (n : Nat) :
    ∀ (fuel : Nat) (st st' : MState), resolveUnparsed docs n fuel st = .done st' → TraceOwn st → TraceOwn st' := by
  intro fuel
  induction fuel with
  | zero => intro st st' h; simp [resolveUnparsed] at h
  | succ fuel ih =>
    intro st st' h ht
    simp only [resolveUnparsed] at h
    split at h
    · cases h
    · rename_i st1 changed h1
      have ht1 := resolvePass_own docs _ st st1 false changed h1 ht
      split at h
      · exact ih st1 st' h ht1
      · cases h; exact ht1

/-! ### base-path contexts -/

theorem crun_append (s : CState) (a b : List COp) : crun s (a ++ b) = crun (crun s a) b := by
  induction a generalizing s with
  | nil => rfl
  | cons op a ih => simp only [List.cons_append, crun]; exact ih _

theorem cstep_resolve_state (s : CState) (r : List Char) : (cstep s (.resolve r)).1 = s := rfl

/-- erasing the `resolve_ref` calls from a history does not change the state it leads to -/
theorem crun_filter (ops : List COp) : ∀ s : CState, crun s (ops.filter (fun o => !o.isResolve)) = crun s ops := by
  induction ops with
  | nil => intro s; rfl
  | cons op ops ih =>
    intro s
    cases op with
    | resolve r => simp only [COp.isResolve, Bool.not_true, List.filter_cons, crun]; exact ih s
    | enter p => simp only [COp.isResolve, Bool.not_false, List.filter_cons, crun]; exact ih _
    | exit => simp only [COp.isResolve, Bool.not_false, List.filter_cons, crun]; exact ih _

/-- the stack of base paths: current one first, then the saved ones -/
def stk (s : CState) : List (Option Dir) := s.cur :: s.saved

theorem stk_inj {s s' : CState} (h : stk s = stk s') : s = s' := by
  cases s; cases s'
  simp only [stk, List.cons.injEq] at h
  simp [h.1, h.2]

/-- depth bookkeeping of a history: `none` when it leaves a context it did not enter -/
def nest : Nat → List COp → Option Nat
  | d, [] => some d
  | d, .enter _ :: ops => nest (d + 1) ops
  | 0, .exit :: _ => none
  | d + 1, .exit :: ops => nest d ops
  | d, .resolve _ :: ops => nest d ops

theorem crun_nested (body : List COp) : ∀ (d d' : Nat) (top rest : List (Option Dir)) (s : CState),
    rest ≠ [] → stk s = top ++ rest → top.length = d → nest d body = some d' →
    ∃ top', stk (crun s body) = top' ++ rest ∧ top'.length = d' := by
  induction body with
  | nil =>
    intro d d' top rest s _ hs hl hn
    simp only [nest, Option.some.injEq] at hn
    exact ⟨top, hs, by omega⟩
  | cons op body ih =>
    intro d d' top rest s hr hs hl hn
    cases op with
    | resolve r =>
      simp only [nest] at hn
      exact ih d d' top rest s hr hs hl hn
    | enter p =>
      simp only [nest] at hn
      refine ih (d + 1) d' ((p.bind (fun p => resolveFile [] (splitOn '/' p))) :: top) rest _ hr ?_ (by simp [hl]) hn
      simp only [cstep, stk, List.cons_append]
      congr 1
    | exit =>
      cases d with
      | zero => simp [nest] at hn
      | succ d =>
        simp only [nest] at hn
        cases top with
        | nil => simp at hl
        | cons t top0 =>
          have hl0 : top0.length = d := by simpa using hl
          simp only [stk, List.cons_append, List.cons.injEq] at hs
          refine ih d d' top0 rest _ hr ?_ hl0 hn
          simp only [cstep]
          cases hsv : s.saved with
          | nil =>
            rw [hsv] at hs
            have := hs.2
            cases top0 with
            | nil => simp at this; exact absurd this hr
            | cons _ _ => simp at this
          | cons prev more =>
            rw [hsv] at hs
            simp only [stk]
            exact hs.2

theorem plain_push (acc : List Seg) (x : Seg) (h : plainSeg x = true) : normPush (some acc) x = some (x :: acc) := by
  simp only [plainSeg, Bool.and_eq_true, Bool.not_eq_true', beq_eq_false_iff_ne, ne_eq] at h
  obtain ⟨⟨h1, h2⟩, h3⟩ := h
  simp [normPush, h1, h2, h3]

theorem foldl_normPush_plain (segs : List Seg) : ∀ acc : List Seg, segs.all plainSeg = true →
    segs.foldl normPush (some acc) = some (segs.reverse ++ acc) := by
  induction segs with
  | nil => intro acc _; rfl
  | cons x xs ih =>
    intro acc h
    simp only [List.all_cons, Bool.and_eq_true] at h
    simp only [List.foldl_cons, plain_push acc x h.1]
    rw [ih (x :: acc) h.2]
    simp

theorem resolveFile_plain (cur : Dir) (file : List Seg) (hc : cur.all plainSeg = true) (hf : file.all plainSeg = true) :
    resolveFile cur file = some (cur ++ file) := by
  unfold resolveFile
  rw [foldl_normPush_plain (cur ++ file) [] (by simp [List.all_append, hc, hf])]
  simp

end Dcg.Proofs.ResolverMultidoc
