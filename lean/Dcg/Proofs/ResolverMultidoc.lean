import Dcg.Model.ResolverMultidoc
/-! Helper lemmas for the multi-document pending-pointer resolution (C06). Core Lean only. -/
namespace Dcg.Proofs.ResolverMultidoc
open Dcg.Model.ResolverMultidoc

/-- every lookup recorded so far was made in the document the pending reference belongs to -/
def TraceOwn (st : MState) : Prop := ∀ e ∈ st.trace, e.1 = e.2.doc

theorem reserve_trace (st : MState) (r : Ref) : (reserve st r).trace = st.trace := by
  unfold reserve; split <;> rfl

theorem foldl_reserve_trace (refs : List Ref) : ∀ st : MState, (refs.foldl reserve st).trace = st.trace := by
  induction refs with
  | nil => intro st; rfl
  | cons r rs ih => intro st; simp only [List.foldl_cons]; rw [ih, reserve_trace]

theorem load_trace (st : MState) (r : Ref) (refs : List Ref) : (load st r refs).trace = st.trace := by
  unfold load; rw [foldl_reserve_trace]

theorem resolveOne_own (docs : Nat → Ptr → Option (List Ref)) (src : Nat) (st st' : MState) (r : Ref) (c : Bool)
    (hr : r.doc = src) (h : resolveOne docs src st r = some (st', c)) (ht : TraceOwn st) : TraceOwn st' := by
  unfold resolveOne at h
  split at h
  · cases h; exact ht
  · dsimp only at h
    split at h
    · cases h
    · cases h
      intro e he
      rw [load_trace] at he
      rcases List.mem_append.mp he with he | he
      · exact ht e he
      · simp only [List.mem_singleton] at he
        subst he
        exact hr.symm

theorem resolveBucket_own (docs : Nat → Ptr → Option (List Ref)) (src : Nat) :
    ∀ (rs : List Ref) (st st' : MState) (ch ch' : Bool), (∀ r ∈ rs, r.doc = src) →
    resolveBucket docs src rs st ch = some (st', ch') → TraceOwn st → TraceOwn st' := by
  intro rs
  induction rs with
  | nil => intro st st' ch ch' _ h ht; simp only [resolveBucket, Option.some.injEq, Prod.mk.injEq] at h; rw [← h.1]; exact ht
  | cons r rs ih =>
    intro st st' ch ch' hrs h ht
    simp only [resolveBucket] at h
    split at h
    · cases h
    · rename_i st1 c h1
      exact ih st1 st' _ ch' (fun x hx => hrs x (List.mem_cons_of_mem _ hx)) h
        (resolveOne_own docs src st st1 r c (hrs r (List.mem_cons_self ..)) h1 ht)

theorem resolvePass_own (docs : Nat → Ptr → Option (List Ref)) :
    ∀ (srcs : List Nat) (st st' : MState) (ch ch' : Bool),
    resolvePass docs srcs st ch = some (st', ch') → TraceOwn st → TraceOwn st' := by
  intro srcs
  induction srcs with
  | nil => intro st st' ch ch' h ht; simp only [resolvePass, Option.some.injEq, Prod.mk.injEq] at h; rw [← h.1]; exact ht
  | cons src srcs ih =>
    intro st st' ch ch' h ht
    simp only [resolvePass] at h
    split at h
    · cases h
    · rename_i st1 ch1 h1
      refine ih st1 st' ch1 ch' h (resolveBucket_own docs src _ st st1 ch ch1 ?_ h1 ht)
      intro r hr
      simpa using (List.mem_filter.mp hr).2

theorem resolveUnparsed_own (docs : Nat → Ptr → Option (List Ref)) (n : Nat) :
    ∀ (fuel : Nat) (st st' : MState), resolveUnparsed docs n fuel st = .done st' → TraceOwn st → TraceOwn st' := by
  intro fuel
  induction fuel with
  | zero => intro st st' h; simp [resolveUnparsed] at h
  | succ fuel ih =>
    intro st st' h ht
    simp only [resolveUnparsed] at h
    split at h
    · cases h
    · rename_i st1 changed h1
      have ht1 := resolvePass_own docs _ st st1 false changed h1 ht
      split at h
      · exact ih st1 st' h ht1
      · cases h; exact ht1

end Dcg.Proofs.ResolverMultidoc
