import Dcg.Proofs.ParsePasses
/-
C05: a member that is a bare `$ref` to a root definition takes the definition's default — lemmas over C09's abstract
semantics of the post-passes of `Parser.parse` (`Dcg.Model.ParsePasses`, imported unchanged). A root of that model stands
for any root definition here (the class it wraps is irrelevant: none of the lemmas looks at `target`).

The passes act on the fields one by one (`stepField`, `runField`); the state only supplies the roots, whose defaults no pass
changes (`step_rootDflt`). A field is followed through a pass list of ANY length in two phases: until
`__set_reference_default_value_to_field` has run it must still refer to the root (no `__collapse_root_models` yet); from then
on it carries the value, and no pass takes a default away (`hasV_runField`).
-/
namespace Dcg.Proofs.FieldRefDefault
open Dcg.Model.ParsePasses Dcg.Proofs.ParsePasses

/-- the default the definition behind root `r` carries: `none` — no such root; `some none` — a root without default -/
def rootDflt (rs : List Root) (r : Nat) : Option (Option Nat) := (findRoot rs r).map (·.dflt)

/-- the field's default is the value `v` (still raw, or already converted to a member for `v`) -/
def hasV (v : Nat) : Dflt → Bool
  | .raw w => w == v
  | .member _ w => w == v
  | .none => false

/-- what one pass does to ONE field of the state -/
def stepField (o : Opts) : Pass → St → Field → Field
  | .reuseModel, s, f => if o.reuse then { f with ty := survTy s.classes f.ty } else f
  | .collapseRootModels, s, f => if o.collapse then collapseField s.roots f else f
  | .setReferenceDefaultValueToField, s, f => setRefField s.roots f
  | .setDefaultEnumMember, _, f => if o.sdem then sdemField f else f
  | _, _, f => f

def runField (o : Opts) : List Pass → St → Field → Field
  | [], _, f => f
  | p :: ps, s, f => runField o ps (step o p s) (stepField o p s f)

theorem step_fields (o : Opts) (p : Pass) (s : St) : (step o p s).fields = s.fields.map (stepField o p s) := by
  obtain ⟨re, co, sd⟩ := o
  show _ = s.fields.map (fun f => stepField _ p s f)
  cases p <;> simp only [step, stepField, List.map_id_fun', id_eq]
  · rfl
  · cases re <;> simp [reuseStep]
  · cases co <;> simp [collapseStep]
  · cases sd <;> simp [sdemStep]

theorem run_fields (o : Opts) : ∀ (ps : List Pass) (s : St), (run o ps s).fields = s.fields.map (runField o ps s)
  | [], s => by simp [run, runField]
  | p :: ps, s => by
    simp only [run, runField]
    rw [run_fields o ps (step o p s), step_fields, List.map_map]
    rfl

theorem rootDflt_map_target (g : Root → Nat) (k : Nat) :
    ∀ rs : List Root, rootDflt (rs.map (fun r => { r with target := g r })) k = rootDflt rs k
  | [] => rfl
  | a :: t => by
    have ih := rootDflt_map_target g k t
    simp only [rootDflt, findRoot, List.map_cons, List.find?_cons] at ih ⊢
    cases h : a.id == k
    · simpa [h] using ih
    · simp [h]

/-- no pass changes which default a definition carries -/
theorem step_rootDflt (o : Opts) (p : Pass) (s : St) (r : Nat) : rootDflt (step o p s).roots r = rootDflt s.roots r := by
  obtain ⟨re, co, sd⟩ := o
  cases p <;> simp only [step]
  · rfl
  · cases re
    · rfl
    · exact rootDflt_map_target (fun x => surv s.classes x.target) r s.roots
  · cases co <;> rfl
  · cases sd <;> rfl

/-! ### phase 2: a default that is there stays -/

theorem hasV_setRefField (v : Nat) (rs : List Root) (f : Field) (h : hasV v f.dflt = true) : hasV v (setRefField rs f).dflt = true := by
  unfold setRefField
  split
  · next hd => rw [hd] at h; exact absurd h (by simp [hasV])
  · exact h

theorem hasV_collapseField (v : Nat) (rs : List Root) (f : Field) (h : hasV v f.dflt = true) : hasV v (collapseField rs f).dflt = true := by
  unfold collapseField
  split
  · split
    · exact h
    · exact h
  · exact h
  · exact h

theorem hasV_sdemField (v : Nat) (f : Field) (h : hasV v f.dflt = true) : hasV v (sdemField f).dflt = true := by
  unfold sdemField
  split
  · next hd => rw [hd] at h; exact h
  · next hd => rw [hd] at h; exact h
  · exact h

theorem hasV_stepField (o : Opts) (p : Pass) (s : St) (v : Nat) (f : Field) (h : hasV v f.dflt = true) :
    hasV v (stepField o p s f).dflt = true := by
  obtain ⟨re, co, sd⟩ := o
  cases p <;> simp only [stepField] <;> try exact h
  · exact hasV_setRefField v s.roots f h
  · cases re <;> exact h
  · cases co
    · exact h
    · exact hasV_collapseField v s.roots f h
  · cases sd
    · exact h
    · exact hasV_sdemField v f h

/-- once a field carries the value `v`, it carries it after any list of passes, in any order, under any options -/
theorem hasV_runField (o : Opts) (v : Nat) : ∀ (ps : List Pass) (s : St) (f : Field), hasV v f.dflt = true →
    hasV v (runField o ps s f).dflt = true
  | [], _, _, h => h
  | p :: ps, s, f, h => hasV_runField o v ps (step o p s) (stepField o p s f) (hasV_stepField o p s v f h)

/-! ### phase 1: until the reference default is set, the field must still refer to the root -/

theorem setRefField_takes (rs : List Root) (f : Field) (r v : Nat) (hty : f.ty = .root r) (hd : f.dflt = .none)
    (hr : rootDflt rs r = some (some v)) : hasV v (setRefField rs f).dflt = true := by
  unfold rootDflt at hr
  unfold setRefField
  rw [hty, hd]
  cases hf : findRoot rs r with
  | none => rw [hf] at hr; exact absurd hr (by simp)
  | some rt =>
    rw [hf] at hr
    have hv : rt.dflt = some v := by simpa using hr
    simp [hf, hv, hasV]

/-- a pass other than the two that matter leaves a default-less field that refers to a root as it is -/
theorem stepField_waiting (o : Opts) (p : Pass) (s : St) (f : Field) (r : Nat) (hty : f.ty = .root r) (hd : f.dflt = .none)
    (h1 : p ≠ .setReferenceDefaultValueToField) (h2 : p ≠ .collapseRootModels) :
    (stepField o p s f).ty = .root r ∧ (stepField o p s f).dflt = .none := by
  obtain ⟨re, co, sd⟩ := o
  cases p <;> simp only [stepField] <;> try exact ⟨hty, hd⟩
  · exact absurd rfl h1
  · cases re
    · exact ⟨hty, hd⟩
    · exact ⟨by simp [hty, survTy], hd⟩
  · exact absurd rfl h2
  · cases sd
    · exact ⟨hty, hd⟩
    · have : sdemField f = f := by
        unfold sdemField
        rw [hty, hd]
      rw [this]; exact ⟨hty, hd⟩

/-- THE MECHANISM, for a pass list of any length: if `__set_reference_default_value_to_field` is called, and not at or after the
first `__collapse_root_models`, a field without default that refers to a root whose definition carries the default `v` ends
with `v` — whatever the options and the other passes -/
theorem definition_default_reaches_field (o : Opts) (r v : Nat) : ∀ (ps : List Pass) (s : St) (f : Field),
    noneFrom .setReferenceDefaultValueToField .collapseRootModels ps = true → .setReferenceDefaultValueToField ∈ ps →
    f.ty = .root r → f.dflt = .none → rootDflt s.roots r = some (some v) →
    hasV v (runField o ps s f).dflt = true
  | [], _, _, _, hm, _, _, _ => absurd hm (by simp)
  | p :: ps, s, f, hn, hm, hty, hd, hr => by
    simp only [runField]
    by_cases h1 : p = .setReferenceDefaultValueToField
    · subst h1
      exact hasV_runField o v ps _ _ (setRefField_takes s.roots f r v hty hd hr)
    · by_cases h2 : p = .collapseRootModels
      · subst h2
        have := (noneFrom_cons_self _ _ ps hn).2
        have hm' : Pass.setReferenceDefaultValueToField ∈ ps := by
          rcases List.mem_cons.mp hm with h | h
          · exact absurd h (by decide)
          · exact h
        exact absurd hm' this
      · have hw := stepField_waiting o p s f r hty hd h1 h2
        have hm' : Pass.setReferenceDefaultValueToField ∈ ps := by
          rcases List.mem_cons.mp hm with h | h
          · exact absurd h.symm h1
          · exact h
        rw [noneFrom_cons_ne _ _ p ps h2] at hn
        exact definition_default_reaches_field o r v ps (step o p s) _ hn hm' hw.1 hw.2 (by rw [step_rootDflt]; exact hr)

/-- the same, stated on the state: the field at position `i` -/
theorem definition_default_reaches_state (o : Opts) (ps : List Pass) (s : St) (i r v : Nat) (f : Field)
    (hn : noneFrom .setReferenceDefaultValueToField .collapseRootModels ps = true) (hm : .setReferenceDefaultValueToField ∈ ps)
    (hf : s.fields[i]? = some f) (hty : f.ty = .root r) (hd : f.dflt = .none) (hr : rootDflt s.roots r = some (some v)) :
    ∃ f', (run o ps s).fields[i]? = some f' ∧ hasV v f'.dflt = true := by
  refine ⟨runField o ps s f, ?_, definition_default_reaches_field o r v ps s f hn hm hty hd hr⟩
  rw [run_fields, List.getElem?_map, hf]
  rfl

/-- a default of the member's own is kept by every pass list (nothing overwrites it) -/
theorem own_default_kept_state (o : Opts) (ps : List Pass) (s : St) (i v : Nat) (f : Field)
    (hf : s.fields[i]? = some f) (hd : hasV v f.dflt = true) :
    ∃ f', (run o ps s).fields[i]? = some f' ∧ hasV v f'.dflt = true := by
  refine ⟨runField o ps s f, ?_, hasV_runField o v ps s f hd⟩
  rw [run_fields, List.getElem?_map, hf]
  rfl

end Dcg.Proofs.FieldRefDefault
