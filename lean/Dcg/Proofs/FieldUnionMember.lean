import Dcg.Proofs.FieldUnion
/-!
A union-typed member in the C05 space: everything but the `None` its written hint may contain is
what the model says about the scalar member `UVec.asVec` (so the exhaustive lemmas about scalar
members carry over), and the authored semantics depend on the annotation's `None` in a way that is
stated here once and for all.
-/
namespace Dcg.Proofs.Field
open Dcg.Model.Field Dcg.Gen.FieldTemplates

/-- `type_has_null` is only read when `data_type.is_optional` is False, and of the constraints only
"is a keyword set" is read: two field records that agree up to that render the same member. -/
theorem renderFieldD_congr (dec : Kind → Env → Decision) (k : Kind)
    (r : Bool) (n : Option Bool) (hd : Bool) (d : Dflt) (thn1 thn2 sd dio an al : Bool) (c1 c2 : Cons) (ty : Ty)
    (ht : dio = true ∨ thn1 = thn2) (hc : (c1 == .keyword) = (c2 == .keyword)) :
    renderFieldD dec k ⟨r, n, hd, d, thn1, sd, dio, an, al, c1, ty⟩ =
      renderFieldD dec k ⟨r, n, hd, d, thn2, sd, dio, an, al, c2, ty⟩ := by
  have hf : fieldTypeHintOptional k ⟨r, n, hd, d, thn1, sd, dio, an, al, c1, ty⟩ =
      fieldTypeHintOptional k ⟨r, n, hd, d, thn2, sd, dio, an, al, c2, ty⟩ := by
    rcases ht with ht | ht
    · subst ht; simp [fieldTypeHintOptional]
    · subst ht; simp [fieldTypeHintOptional, fallBackToNullable, notRequired]
  have hv : fieldView k ⟨r, n, hd, d, thn1, sd, dio, an, al, c1, ty⟩ =
      fieldView k ⟨r, n, hd, d, thn2, sd, dio, an, al, c2, ty⟩ := by
    cases k <;>
      simp only [fieldView, hf, pydFieldAsg, pydAnnotated, pydStr, dcFieldAsg, msFieldAsg, msAnnotated, hc] <;> rfl
  unfold renderFieldD
  rw [hv, hf]
  rfl

theorem asVec_kind (u : UVec) : u.asVec.reduce.kind = u.base.kind := rfl

/-- **Reduction**: the member rendered from the field record of a union-typed member is the one the
model renders for the scalar vector `asVec` (null source "type list" iff `is_optional` got set). -/
theorem renderU_reduces (dec : Kind → Env → Decision) (u : UVec) :
    renderFieldD dec u.base.kind (fromUnion u) = renderD dec u.asVec.reduce := by
  have h_dio : dataTypeIsOptional u.asVec.reduce = u.flag := by
    cases hfl : u.flag <;> simp [dataTypeIsOptional, typeListHasNull, UVec.asVec, Vec.reduce, hfl]
  have h_snf : schemaNullableFlag u.asVec.reduce = false := by
    cases hfl : u.flag <;> simp [schemaNullableFlag, UVec.asVec, Vec.reduce, hfl]
  have h_thn : u.flag = true ∨ false = typeListHasNull u.asVec.reduce := by
    cases hfl : u.flag <;> simp [typeListHasNull, UVec.asVec, Vec.reduce, hfl]
  have h_c : (Cons.none == Cons.keyword) = (constraintsOf u.asVec.reduce == .keyword) := by
    simp [constraintsOf, UVec.asVec, Vec.reduce]; split <;> rfl
  have h := renderFieldD_congr dec u.base.kind u.asVec.reduce.required
    (if u.asVec.reduce.sn && (u.asVec.reduce.dflt.given || (u.asVec.reduce.required && !u.asVec.reduce.late)) then some false else none)
    u.asVec.reduce.dflt.given u.asVec.reduce.dflt false (typeListHasNull u.asVec.reduce) u.asVec.reduce.sd u.flag
    u.asVec.reduce.an u.asVec.reduce.hasAlias .none (constraintsOf u.asVec.reduce) .scalar h_thn h_c
  unfold renderD fromReduced
  rw [h_dio, h_snf]
  exact h

theorem renderUD_eq (dec : Kind → Env → Decision) (u : UVec) :
    renderUD dec u = { renderD dec u.asVec.reduce with opt := (renderD dec u.asVec.reduce).opt || u.textNull } := by
  simp only [renderUD, renderU_reduces]

theorem renderU_eq (u : UVec) :
    renderU u = { render u.asVec with opt := (render u.asVec).opt || u.textNull } := renderUD_eq _ u

/-! ### how the authored semantics depend on the `None` of the annotation -/

/-- an annotation that admits `None` makes every target library accept `None` -/
theorem semOf_acceptsNull_of_opt (k : Kind) (s : Shape) (h : s.opt = true) : (semOf k s).acceptsNull = true := by
  obtain ⟨o, nr, an, asg⟩ := s
  simp only at h; subst h
  rcases asg with _ | d | _ | d | _ | d | (_ | d) <;> cases k <;> cases an <;> simp [semOf, Asg.default?]

/-- Only pydantic 1 reads requiredness off the annotation: forcing `opt` changes "must be supplied"
exactly for a pydantic-1 member written without `= …` and without the `Field(...)` marker. -/
theorem semOf_mustSupply_opt (k : Kind) (s : Shape) (t : Bool) :
    (semOf k { s with opt := s.opt || t }).mustSupply = false ↔
      ((semOf k s).mustSupply = false ∨
        (k = .v1 ∧ t = true ∧ s.opt = false ∧ s.asg = .none ∧ s.ann ≠ .req)) := by
  obtain ⟨o, nr, an, asg⟩ := s
  rcases asg with _ | d | _ | d | _ | d | (_ | d) <;> cases k <;> cases t <;> cases o <;> cases an <;>
    simp [semOf, Asg.default?]

/-- loads / omitted / shared do not depend on the annotation's `None`, except that pydantic 1 reads
an omitted bare-`Optional` member as `None` -/
theorem semOf_rest_opt (k : Kind) (s : Shape) (t : Bool) (hk : k ≠ .v1) :
    (semOf k { s with opt := s.opt || t }).mustSupply = (semOf k s).mustSupply ∧
    (semOf k { s with opt := s.opt || t }).omitted = (semOf k s).omitted ∧
    (semOf k { s with opt := s.opt || t }).loads = (semOf k s).loads ∧
    (semOf k { s with opt := s.opt || t }).shared = (semOf k s).shared := by
  obtain ⟨o, nr, an, asg⟩ := s
  rcases asg with _ | d | _ | d | _ | d | (_ | d) <;> cases k <;>
    first | exact absurd rfl hk | simp [semOf, Asg.default?]

end Dcg.Proofs.Field
