import Dcg.Sem.Pyd
/-
Helper lemmas for C03 / C04 / C14: three-valued logic, association lists, the constraint tables
as a decidable side condition (`tableOK`), and one lemma per schema constructor for
`valid_accepted`.
-/
namespace Dcg.Proofs.Sem
open Dcg.Sem Dcg.Sem.Pyd Dcg.Model.Constraints Dcg.Model.Translate

/-! ### Tri -/

theorem and_ne_reject {a b : Tri} : Tri.and a b ≠ .reject ↔ a ≠ .reject ∧ b ≠ .reject := by
  cases a <;> cases b <;> simp [Tri.and]

theorem all_ne_reject {xs : List Tri} : Tri.all xs ≠ .reject ↔ ∀ x ∈ xs, x ≠ .reject := by
  induction xs with
  | nil => simp [Tri.all]
  | cons x xs ih =>
    have : Tri.all (x :: xs) = Tri.and x (Tri.all xs) := rfl
    rw [this, and_ne_reject, ih]
    simp

theorem or_ne_reject {a b : Tri} : Tri.or a b ≠ .reject ↔ a ≠ .reject ∨ b ≠ .reject := by
  cases a <;> cases b <;> simp [Tri.or]

theorem any_ne_reject {xs : List Tri} : Tri.any xs ≠ .reject ↔ ∃ x ∈ xs, x ≠ .reject := by
  induction xs with
  | nil => simp [Tri.any]
  | cons x xs ih =>
    have : Tri.any (x :: xs) = Tri.or x (Tri.any xs) := rfl
    rw [this, or_ne_reject, ih]
    simp

theorem ofBool_ne_reject {b : Bool} : Tri.ofBool b ≠ .reject ↔ b = true := by
  cases b <;> simp [Tri.ofBool]

/-! ### association lists -/

theorem lookup_mem {α : Type} (kvs : List (List Char × α)) (k : List Char) (v : α)
    (h : kvs.lookup k = some v) : (k, v) ∈ kvs := by
  induction kvs with
  | nil => simp [List.lookup] at h
  | cons p ps ih =>
    obtain ⟨k', v'⟩ := p
    simp only [List.lookup] at h
    split at h
    · rename_i heq
      have : k = k' := by simpa using heq
      simp at h
      subst this; subst h
      simp
    · exact List.mem_cons_of_mem _ (ih h)

theorem mem_lookup_of_nodup {α : Type} (ps : List (List Char × α)) (k : List Char) (v : α)
    (hn : namesNodup (ps.map (·.1)) = true) (h : (k, v) ∈ ps) : ps.lookup k = some v := by
  induction ps with
  | nil => simp at h
  | cons p ps ih =>
    obtain ⟨k', v'⟩ := p
    simp only [List.map, namesNodup, Bool.and_eq_true, Bool.not_eq_true'] at hn
    simp only [List.mem_cons, Prod.mk.injEq] at h
    cases h with
    | inl h =>
      obtain ⟨rfl, rfl⟩ := h
      simp [List.lookup]
    | inr h =>
      have hne : k ≠ k' := by
        intro heq
        subst heq
        have : (ps.map (·.1)).contains k = true := by
          simp only [List.contains_iff_mem, List.mem_map]
          exact ⟨(k, v), h, rfl⟩
        rw [this] at hn
        exact absurd hn.1 (by simp)
      simp only [List.lookup]
      have : (k == k') = false := by simpa using hne
      rw [this]
      exact ih hn.2 h

theorem lookup_trDefs (st : Style) (o : Opts) (defs : Defs) (n : List Char) :
    (trDefs st o defs).lookup n = (defs.lookup n).map (tr st o .top) := by
  induction defs with
  | nil => simp [trDefs, List.lookup]
  | cons p ps ih =>
    simp only [trDefs, List.lookup]
    split <;> simp_all

theorem propsInSubset_mem {ps : List (List Char × Schema)} (h : Schema.propsInSubset ps = true)
    {p : List Char × Schema} (hp : p ∈ ps) : p.2.inSubset = true := by
  induction ps with
  | nil => simp at hp
  | cons q qs ih =>
    simp only [Schema.propsInSubset, Bool.and_eq_true] at h
    cases List.mem_cons.mp hp with
    | inl e => subst e; exact h.1
    | inr e => exact ih h.2 e

theorem allInSubset_mem {ss : List Schema} (h : Schema.allInSubset ss = true)
    {s : Schema} (hs : s ∈ ss) : s.inSubset = true := by
  induction ss with
  | nil => simp at hs
  | cons q qs ih =>
    simp only [Schema.allInSubset, Bool.and_eq_true] at h
    cases List.mem_cons.mp hs with
    | inl e => subst e; exact h.1
    | inr e => exact ih h.2 e

theorem defs_lookup_inSubset {defs : Defs} (h : defsInSubset defs = true) {n : List Char}
    {s : Schema} (hl : defs.lookup n = some s) : s.inSubset = true :=
  propsInSubset_mem (p := (n, s)) h (lookup_mem defs n s hl)

/-- one union alternative: a nested discriminated union is a plain nested `Union` -/
def altTy (st : Style) (o : Opts) (s : Schema) : Ty :=
  if s.isDisc then .union (s.discRefs.map .ref) else tr st o (.item false) s

theorem trAlts_eq_map (st : Style) (o : Opts) (alts : List Schema) :
    trAlts st o alts = alts.map (altTy st o) := by
  induction alts with
  | nil => simp [trAlts]
  | cons a as ih => simp [trAlts, ih, altTy]

theorem altTy_of_not_disc (st : Style) (o : Opts) (s : Schema) (h : s.isDisc = false) :
    altTy st o s = tr st o (.item false) s := by
  simp [altTy, h]

theorem trAlts_refs (st : Style) (o : Opts) (refs : List (List Char)) :
    trAlts st o (refs.map Schema.ref) = refs.map Ty.ref := by
  induction refs with
  | nil => simp [trAlts]
  | cons r rs ih => simp [trAlts, ih, Schema.isDisc, tr]

theorem trProps_eq_map (st : Style) (o : Opts) (req : List (List Char))
    (ps : List (List Char × Schema)) :
    trProps st o req ps = ps.map (fun p =>
      (p.1, req.contains p.1 && !constDefaulted st p.2, fieldCons st o p.2, tr st o .plain p.2)) := by
  induction ps with
  | nil => simp [trProps]
  | cons a as ih => simp [trProps, ih]

theorem markReq_trProps (st : Style) (o : Opts) (req xreq : List (List Char))
    (ps : List (List Char × Schema)) :
    markReq xreq (trProps st o req ps) = ps.map (fun p =>
      (p.1, (req.contains p.1 && !constDefaulted st p.2) || xreq.contains p.1, fieldCons st o p.2,
        tr st o .plain p.2)) := by
  rw [trProps_eq_map, markReq, List.map_map]
  apply List.map_congr_left
  intro p _
  simp only [Function.comp]
  cases xreq.contains p.1 <;> simp

theorem markRequired_point (xreq : List (List Char)) (f : PField) :
    PField.toIR (if xreq.contains f.key then { f with required := true } else f) =
      (f.key, f.required || xreq.contains f.key, f.cons, f.ty) := by
  by_cases h : xreq.contains f.key = true
  · rw [if_pos h]
    have h' : f.key ∈ xreq := by simpa using h
    simp [PField.toIR, PField.key]
    exact Or.inr h'
  · rw [if_neg h]
    have h' : ¬ f.key ∈ xreq := by simpa using h
    simp [PField.toIR]
    intro hh; exact absurd hh h'

/-- the fields with their Python names, the allOf-level `required` applied by ORIGINAL name, Python names
forgotten: the own fields of the IR — for EVERY field-name resolver `nm` -/
theorem allOf_fields_refine (st : Style) (o : Opts) (nm : List Char → List Char)
    (req xreq : List (List Char)) (ps : List (List Char × Schema)) :
    (markRequired xreq (parseFields st o nm req ps)).map PField.toIR =
      markReq xreq (trProps st o req ps) := by
  rw [markReq_trProps, markRequired, parseFields, List.map_map, List.map_map]
  apply List.map_congr_left
  intro p _
  simp only [Function.comp]
  rw [markRequired_point]
  simp [PField.key]

end Dcg.Proofs.Sem

namespace Dcg.Proofs.Sem
open Dcg.Sem Dcg.Sem.Pyd Dcg.Model.Constraints Dcg.Model.Translate

/-! ### the constraint tables as a decidable side condition -/

def patKw : Style → String
  | .v1 => "regex"
  | .v2 => "pattern"

def minItemsKw : Style → String
  | .v1 => "min_items"
  | .v2 => "min_length"

def maxItemsKw : Style → String
  | .v1 => "max_items"
  | .v2 => "max_length"

/-- What `valid_accepted` needs from the generated tables (`kwargs_schema_to_model`, the filter
sets, the `Constraints` alias maps): every supported keyword is routed to the pydantic keyword
that enforces it. Decidable; re-checked by the kernel against the tables of the current tree. -/
def TableOK (st : Style) : Prop :=
  (conTypeKw st .int "minimum" = some "ge" ∧ conTypeKw st .int "maximum" = some "le" ∧
   conTypeKw st .int "exclusiveMinimum" = some "gt" ∧ conTypeKw st .int "exclusiveMaximum" = some "lt" ∧
   conTypeKw st .int "multipleOf" = some "multiple_of") ∧
  (conTypeKw st .num "minimum" = some "ge" ∧ conTypeKw st .num "maximum" = some "le" ∧
   conTypeKw st .num "exclusiveMinimum" = some "gt" ∧ conTypeKw st .num "exclusiveMaximum" = some "lt" ∧
   conTypeKw st .num "multipleOf" = some "multiple_of") ∧
  (conTypeKw st .str "minLength" = some "min_length" ∧ conTypeKw st .str "maxLength" = some "max_length" ∧
   conTypeKw st .str "pattern" = some (patKw st)) ∧
  (fieldKw st "minimum" = some "ge" ∧ fieldKw st "maximum" = some "le" ∧
   fieldKw st "exclusiveMinimum" = some "gt" ∧ fieldKw st "exclusiveMaximum" = some "lt" ∧
   fieldKw st "multipleOf" = some "multiple_of") ∧
  (fieldKw st "minLength" = some "min_length" ∧ fieldKw st "maxLength" = some "max_length" ∧
   fieldKw st "pattern" = some (patKw st)) ∧
  (fieldKw st "minItems" = some (minItemsKw st) ∧ fieldKw st "maxItems" = some (maxItemsKw st)) ∧
  (extraOf st .absent ≠ .forbid ∧ extraOf st .allow ≠ .forbid) ∧
  extraOf st .forbid = .forbid

instance (st : Style) : Decidable (TableOK st) := by unfold TableOK; infer_instance

theorem ofInt_trunc_of_integral (v : Dec) (h : (v.e == 0) = true) : Dec.ofInt v.trunc = v := by
  obtain ⟨m, e⟩ := v
  have : e = 0 := by simpa using h
  subst this
  simp [Dec.ofInt, Dec.trunc]

theorem checkNum_empty (x : Dec) : checkNum {} x = true := by simp [checkNum]

theorem checkStr_empty (st : Style) (re : Regex) (s : List Char) : checkStr st re {} s = true := by
  cases st <;> simp [checkStr, patOf]

theorem checkLen_empty (st : Style) (n : Nat) : checkLen st {} n = true := by
  cases st <;> simp [checkLen]

theorem checkCons_empty (st : Style) (re : Regex) (v : Json) : checkCons st re {} v = .accept := by
  cases v <;> simp [checkCons, checkNum_empty, checkStr_empty, checkLen_empty, Tri.ofBool]

end Dcg.Proofs.Sem

namespace Dcg.Proofs.Sem
open Dcg.Sem Dcg.Sem.Pyd Dcg.Model.Constraints Dcg.Model.Translate

/-! ### constraints written through the tables are the constraints of the schema -/

theorem checkNum_consOfBounds (route : String → Option String) (cast : String → Dec → Dec)
    (b : Bounds) (x : Dec)
    (h1 : route "minimum" = some "ge") (h2 : route "maximum" = some "le")
    (h3 : route "exclusiveMinimum" = some "gt") (h4 : route "exclusiveMaximum" = some "lt")
    (h5 : route "multipleOf" = some "multiple_of")
    (hns : b.noString = true)
    (hc : ∀ pk d, (d ∈ b.minimum ∨ d ∈ b.maximum ∨ d ∈ b.exclMin ∨ d ∈ b.exclMax ∨ d ∈ b.multipleOf) → cast pk d = d) :
    checkNum (consOfBounds route cast b) x = numOK b x := by
  obtain ⟨mn, mx, xmn, xmx, mul, minl, maxl, pat⟩ := b
  simp only [Bounds.noString, Bool.and_eq_true, Option.isNone_iff_eq_none] at hns
  obtain ⟨⟨rfl, rfl⟩, rfl⟩ := hns
  cases mn <;> cases mx <;> cases xmn <;> cases xmx <;> cases mul <;>
    simp_all [consOfBounds, put, Cons.set, checkNum, numOK]

theorem checkStr_consOfBounds (st : Style) (re : Regex) (route : String → Option String)
    (cast : String → Dec → Dec) (b : Bounds) (s : List Char)
    (h1 : route "minLength" = some "min_length") (h2 : route "maxLength" = some "max_length")
    (h3 : route "pattern" = some (patKw st)) (hnn : b.noNumeric = true) :
    checkStr st re (consOfBounds route cast b) s = strOK re b s := by
  obtain ⟨mn, mx, xmn, xmx, mul, minl, maxl, pat⟩ := b
  simp only [Bounds.noNumeric, Bool.and_eq_true, Option.isNone_iff_eq_none] at hnn
  obtain ⟨⟨⟨⟨rfl, rfl⟩, rfl⟩, rfl⟩, rfl⟩ := hnn
  cases st <;> cases minl <;> cases maxl <;> cases pat <;>
    simp_all [consOfBounds, put, Cons.set, checkStr, strOK, patKw, patOf]

theorem checkLen_consOfItems (st : Style) (route : String → Option String) (mn mx : Option Nat)
    (n : Nat) (h1 : route "minItems" = some (minItemsKw st))
    (h2 : route "maxItems" = some (maxItemsKw st)) :
    checkLen st (consOfItems route mn mx) n = lenOK mn mx n := by
  cases st <;> cases mn <;> cases mx <;>
    simp_all [consOfItems, put, Cons.set, checkLen, lenOK, minItemsKw, maxItemsKw]

theorem castValue_integral (r : Routing) (fam : Fam) (pk : String) (d : Dec)
    (h : (d.e == 0) = true) : castValue r fam pk d = d := by
  cases fam <;> cases r <;> simp [castValue, ofInt_trunc_of_integral d h] <;> split <;> simp

theorem integral_mem (b : Bounds) (h : b.integral = true) (d : Dec)
    (hd : d ∈ b.minimum ∨ d ∈ b.maximum ∨ d ∈ b.exclMin ∨ d ∈ b.exclMax ∨ d ∈ b.multipleOf) :
    (d.e == 0) = true := by
  simp only [Bounds.integral, decIntegral, Bool.and_eq_true] at h
  obtain ⟨⟨⟨⟨h1, h2⟩, h3⟩, h4⟩, h5⟩ := h
  rcases hd with hd | hd | hd | hd | hd <;> simp only [Option.mem_def] at hd
  · rw [hd] at h1; simpa using h1
  · rw [hd] at h2; simpa using h2
  · rw [hd] at h3; simpa using h3
  · rw [hd] at h4; simpa using h4
  · rw [hd] at h5; simpa using h5

end Dcg.Proofs.Sem

namespace Dcg.Proofs.Sem
open Dcg.Sem Dcg.Sem.Pyd Dcg.Model.Constraints Dcg.Model.Translate

/-! ### scalars -/

/-- the constrained type accepts every non-null value the scalar schema admits -/
theorem acceptsScalar_typeCons (st : Style) (o : Opts) (re : Regex) (h : TableOK st) (ty : STy)
    (b : Bounds) (v : Json) (hok : scalarOK ty b = true) (hv : validScalar re ty b v = true) :
    acceptsScalar st re ty (typeCons st o ty b) v ≠ .reject := by
  obtain ⟨⟨i1, i2, i3, i4, i5⟩, ⟨n1, n2, n3, n4, n5⟩, ⟨s1, s2, s3⟩, _, _, _, _, _⟩ := h
  unfold typeCons
  cases hfc : o.fieldConstraints
  · -- constrained types
    cases ty <;> cases v <;> simp [validScalar] at hv <;>
      simp only [scalarOK, Bool.and_eq_true] at hok <;>
      simp only [famOf, acceptsScalar, Bool.false_eq_true, if_false]
    · obtain ⟨hi, hn⟩ := hv
      rw [checkNum_consOfBounds _ _ _ _ i1 i2 i3 i4 i5 hok.1
        (fun pk d hd => castValue_integral _ _ _ _ (integral_mem _ hok.2 d hd))]
      simp [hi, hn, Tri.ofBool]
    · rw [checkNum_consOfBounds _ _ _ _ n1 n2 n3 n4 n5 hok (fun pk d _ => by simp [castValue])]
      simp [hv, Tri.ofBool]
    · rw [checkStr_consOfBounds st re _ _ _ _ s1 s2 s3 hok]
      simp [hv, Tri.ofBool]
    · simp
  · cases ty <;> cases v <;> simp [validScalar] at hv <;>
      simp [acceptsScalar, checkNum_empty, checkStr_empty, Tri.ofBool, hv]

/-- the `Field()` arguments of a scalar member accept every non-null value the schema admits -/
theorem checkCons_fieldConsOfBounds (st : Style) (re : Regex) (h : TableOK st) (ty : STy)
    (b : Bounds) (v : Json) (hok : scalarOK ty b = true) (hv : validScalar re ty b v = true) :
    checkCons st re (fieldConsOfBounds st ty b) v ≠ .reject := by
  obtain ⟨_, _, _, ⟨f1, f2, f3, f4, f5⟩, ⟨g1, g2, g3⟩, _, _, _⟩ := h
  unfold fieldConsOfBounds
  cases ty <;> cases v <;> simp [validScalar] at hv <;>
    simp only [scalarOK, Bool.and_eq_true] at hok <;>
    simp only [famOf, checkCons, Option.getD]
  · rw [checkNum_consOfBounds _ _ _ _ f1 f2 f3 f4 f5 hok.1
      (fun pk d hd => castValue_integral _ _ _ _ (integral_mem _ hok.2 d hd))]
    simp [hv.2, Tri.ofBool]
  · rw [checkNum_consOfBounds _ _ _ _ f1 f2 f3 f4 f5 hok (fun pk d _ => by simp [castValue])]
    simp [hv, Tri.ofBool]
  · rw [checkStr_consOfBounds st re _ _ _ _ g1 g2 g3 hok]
    simp [hv, Tri.ofBool]
  · simp

end Dcg.Proofs.Sem
