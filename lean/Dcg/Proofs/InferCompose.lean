import Dcg.Proofs.InferBridge
import Dcg.Props.C03
/-!
Helper lemmas for the composed C16 theorems, part 2 — the ONE place where C03's theorem is applied
(`Dcg.Props.C03.valid_accepted_partial`: validity under a schema of `InSubset` implies that the
generated model does not reject). Composition, for every `Sem.Json` document `w`:

    infer_valid          validL (infer (toLite w)) (toLite w)                          (C16, stage 1)
    valid_bridge         ⇒ validJ re (fuel n) [] (toSchema n) w        n := infer (toLite w)
    toSchema_inSubset    (toSchema n).inSubset                          from  infer_wf
    valid_accepted_partial  ⇒ acceptsTy st re g [] (tr st o ctx (toSchema n)) w ≠ reject   (C03)

Fuel: `validJ` gets `fuel n` = 3 per nesting level of the inferred node (alternatives, container,
leaf); `acceptsTy` takes any `g` (exhausted fuel is `laxZone`, which is not `reject`).
-/
namespace Dcg.Proofs.InferCompose
open Dcg.Sem Dcg.Sem.Pyd Dcg.Model.Infer Dcg.Model.InferBridge Dcg.Model.Constraints
open Dcg.Model.Translate Dcg.Proofs.Infer Dcg.Proofs.InferBridge

/-- what the trusted models give together, in every place (`ctx`), for both styles: the classes
generated from the schema inferred from `w` do not reject `w`. For `st = .v1` this is a statement
about `Sem.Pyd`, which does not model pydantic v1's refusal of `None` for `Optional[List[None]]`:
Props/C16 claims it about the generator only on `v1Safe`. -/
theorem sample_accepted_model (st : Style) (o : Opts) (re : Regex) (g : Nat) (ctx : Ctx) (w : SJson) :
    acceptsTy st re g [] (tr st o ctx (toSchema (infer (toLite w)))) w ≠ .reject := by
  have hw := infer_wf (toLite w)
  have hv : validL (infer (toLite w)) (toLite w) = true := covers_valid _ _ (add_self _ .empty)
  exact Dcg.Props.C03.valid_accepted_partial st o re [] (by decide) (fuel (infer (toLite w))) g ctx
    (toSchema (infer (toLite w))) w (toSchema_inSubset _ hw)
    (valid_bridge re _ _ w hw (Nat.le_refl _) hv)

/-- the same for a whole document (`parse_obj`: `{"type": "object"}` is an empty class) -/
theorem sample_accepted_model_root (st : Style) (o : Opts) (re : Regex) (g : Nat) (w : SJson) :
    acceptsTy st re g [] (tr st o .top (toSchemaRoot (infer (toLite w)))) w ≠ .reject := by
  have hw := infer_wf (toLite w)
  have hv : validL (infer (toLite w)) (toLite w) = true := covers_valid _ _ (add_self _ .empty)
  exact Dcg.Props.C03.valid_accepted_partial st o re [] (by decide) (fuel (infer (toLite w))) g .top
    (toSchemaRoot (infer (toLite w))) w (toSchemaRoot_inSubset _ hw)
    (valid_bridge_root re _ _ w hw (Nat.le_refl _) hv)

end Dcg.Proofs.InferCompose
